import ScyllaVerif.Model.Util
import ScyllaVerif.Model.FrameHdr
import ScyllaVerif.Model.C08Value
import ScyllaVerif.Model.C08Tablet
import ScyllaVerif.Model.C08SchemaType
import ScyllaVerif.Model.C08Features
import ScyllaVerif.Model.C08Reader
import ScyllaVerif.Model.C08Shard
import ScyllaVerif.Drive.C01
/-! Line-protocol driver for C08.

Cases:
* `f <rl|-> <lwt|-> <tab 0|1> <mid 0|1> <cm 0|1> <comp n|l|s> <expect-hash|-> <frame hex>` — whole pipeline;
* `p <reader> <hex>` — one primitive reader.

For compressed frames (flag 0x01 with a negotiated algorithm) the decompressor is a parameter of the model: the
decompressed body is taken from the implementation's line (`z=<hex>`), a decompression failure is echoed.
The optional last word `u=…` of a frame case is the class table of the non-ASCII scalars of the frame (a parameter
of the custom type string parser model). -/
namespace ScyllaVerif.Drive.C08
open ScyllaVerif.Util ScyllaVerif.C08

def hx (b : Bytes) : String := toHex b
def optHx : Option Bytes → String
  | none => "none"
  | some b => hx b
def lst (xs : List String) : String := "[" ++ ";".intercalate xs ++ "]"
def tup (xs : List String) : String := "(" ++ ",".intercalate xs ++ ")"

/-- Insertion sort on strings (canonical order of map keys printed as hex). -/
def insertSorted (x : String × String) : List (String × String) → List (String × String)
  | [] => [x]
  | y :: ys => if x.1 < y.1 then x :: y :: ys else y :: insertSorted x ys

/-- `HashMap` semantics: the last value of a key wins; printed sorted by key. -/
def canonMap (kvs : List (String × String)) : String :=
  let dedup := kvs.foldl (fun acc kv => (acc.filter (fun p => p.1 ≠ kv.1)) ++ [kv]) []
  let sorted := dedup.foldl (fun acc kv => insertSorted kv acc) []
  "{" ++ ";".intercalate (sorted.map (fun p => p.1 ++ "=" ++ p.2)) ++ "}"

def nativeStr : Native → String
  | .ascii => "ascii" | .bigint => "bigint" | .blob => "blob" | .boolean => "boolean" | .counter => "counter"
  | .decimal => "decimal" | .double => "double" | .float => "float" | .int => "int" | .timestamp => "timestamp"
  | .uuid => "uuid" | .text => "text" | .varint => "varint" | .timeuuid => "timeuuid" | .inet => "inet"
  | .date => "date" | .time => "time" | .smallint => "smallint" | .tinyint => "tinyint" | .duration => "duration"

mutual
def tyStr : Ty → String
  | .native n => nativeStr n
  | .list fr t => (if fr then "flist<" else "list<") ++ tyStr t ++ ">"
  | .set fr t => (if fr then "fset<" else "set<") ++ tyStr t ++ ">"
  | .map fr k v => (if fr then "fmap<" else "map<") ++ tyStr k ++ "," ++ tyStr v ++ ">"
  | .tuple ts => "tuple<" ++ ",".intercalate (tysStr ts) ++ ">"
  | .udt fr ks name fs =>
    (if fr then "fudt(" else "udt(") ++ hx ks ++ "," ++ hx name ++ "){" ++ ",".intercalate (fieldsStr fs) ++ "}"
  | .vector t d => "vector<" ++ tyStr t ++ "," ++ toString d ++ ">"
def tysStr : List Ty → List String
  | [] => []
  | t :: ts => tyStr t :: tysStr ts
def fieldsStr : List (Bytes × Ty) → List String
  | [] => []
  | (n, t) :: fs => (hx n ++ ":" ++ tyStr t) :: fieldsStr fs
end

def colStr (c : ColSpec) : String := hx c.ks ++ "." ++ hx c.table ++ "." ++ hx c.name ++ ":" ++ tyStr c.ty

def metaStr (m : ResultMeta) : String :=
  "meta{id=" ++ optHx m.id ++ " cc=" ++ toString m.colCount ++ " cols=" ++ lst (m.cols.map colStr) ++ "}"

def addrStr (a : Addr) : String := hx a.ip ++ ":" ++ toString a.port

def fldStr : Fld → String
  | .int v => toString v
  | .cons c => toString c
  | .bool b => if b then "1" else "0"
  | .byte n => toString n
  | .str s => hx s
  | .strs l => tup (l.map hx)
  | .sbytes b => hx b

def changeStr (ct : Bytes) : String :=
  if ct == asciiBytes "CREATED" then "C" else if ct == asciiBytes "UPDATED" then "U"
  else if ct == asciiBytes "DROPPED" then "D" else "I"

def schemaStr (sc : SchemaChange) : String :=
  changeStr sc.changeType ++ " " ++
  match sc.target with
  | .keyspace => "KEYSPACE " ++ hx sc.ks
  | .table n => "TABLE " ++ hx sc.ks ++ " " ++ hx n
  | .type n => "TYPE " ++ hx sc.ks ++ " " ++ hx n
  | .function n args => "FUNCTION " ++ hx sc.ks ++ " " ++ hx n ++ " " ++ lst (args.map hx)
  | .aggregate n args => "AGGREGATE " ++ hx sc.ks ++ " " ++ hx n ++ " " ++ lst (args.map hx)

def eventStr : Event → String
  | .topology c a => "TOPO " ++ hx c ++ " " ++ addrStr a
  | .status c a => "STATUS " ++ hx c ++ " " ++ addrStr a
  | .schema sc => "SCHEMA " ++ schemaStr sc
  | .routes cs hs => "ROUTES " ++ lst (cs.map hx) ++ " " ++ lst (hs.map hx)

/-- `pk_indexes.sort_unstable_by_key(index)`: ties are in unspecified order, so the canonical form sorts by
`(index, sequence)`. -/
def pkStr (pk : List (Nat × Nat)) : String :=
  let ins (x : Nat × Nat) : List (Nat × Nat) → List (Nat × Nat) := fun l =>
    let rec go : List (Nat × Nat) → List (Nat × Nat)
      | [] => [x]
      | y :: ys => if x.1 < y.1 ∨ (x.1 = y.1 ∧ x.2 < y.2) then x :: y :: ys else y :: go ys
    go l
  let sorted := pk.foldl (fun acc x => ins x acc) []
  lst (sorted.map (fun p => toString p.1 ++ ":" ++ toString p.2))

/-! Typed decoding (`rows_iter::<Row>()`): the column types of the C08 type parser model as C01's `CqlTy`. -/

def nativeToCql : Native → ScyllaVerif.Cql.NativeTy
  | .ascii => .ascii | .bigint => .bigint | .blob => .blob | .boolean => .boolean | .counter => .counter
  | .decimal => .decimal | .double => .double | .float => .float | .int => .int | .timestamp => .timestamp
  | .uuid => .uuid | .text => .text | .varint => .varint | .timeuuid => .timeuuid | .inet => .inet
  | .date => .date | .time => .time | .smallint => .smallint | .tinyint => .tinyint | .duration => .duration

/-- A validated UTF-8 name as a `String`. -/
def strOf (b : Bytes) : String := (String.fromUTF8? ⟨b.toArray⟩).getD ""

mutual
def tyToCql : Ty → ScyllaVerif.Cql.CqlTy
  | .native n => .native (nativeToCql n)
  | .list _ t => .list (tyToCql t)
  | .set _ t => .set (tyToCql t)
  | .map _ k v => .map (tyToCql k) (tyToCql v)
  | .tuple ts => .tuple (tysToCql ts)
  | .udt _ ks name fs => .udt (strOf ks) (strOf name) (fieldsToCql fs)
  | .vector t d => .vector (tyToCql t) d
def tysToCql : List Ty → List ScyllaVerif.Cql.CqlTy
  | [] => []
  | t :: ts => tyToCql t :: tysToCql ts
def fieldsToCql : List (Bytes × Ty) → List (String × ScyllaVerif.Cql.CqlTy)
  | [] => []
  | (n, t) :: fs => (strOf n, tyToCql t) :: fieldsToCql fs
end

/-- FNV-1a, 64 bit, of a string's UTF-8 bytes (the harness hashes the same canonical text). -/
def fnv64 (s : String) : UInt64 :=
  s.toUTF8.toList.foldl (fun h b => (h ^^^ b.toUInt64) * 0x100000001b3) 0xcbf29ce484222325

def hex64 (x : UInt64) : String :=
  String.join ((List.range 8).reverse.map (fun i => hexByte (UInt8.ofNat ((x.toNat >>> (8 * i)) % 256))))

/-- ` typed=<rows decoded>[:err:<kind>] tv=<hash of the decoded values>` — `rows_iter::<Row>()` consumed until its
first error; the values are printed canonically with C01's `showVal` (one line per row) and hashed. -/
def typedStr (cols : List ColSpec) (n : Nat) (raw : Bytes) : String :=
  match ScyllaVerif.C08V.rowsP utf8ok (cols.map (fun c => tyToCql c.ty)) n raw with
  | .ok (rows, e) =>
    let text := String.join (rows.map (fun r =>
      " ".intercalate (r.map (fun v => " ".intercalate (ScyllaVerif.Drive.C01.showVal v))) ++ "\n"))
    s!" typed={rows.length}" ++ (match e with
      | none => ""
      | some k => ":err:" ++ ScyllaVerif.Drive.C01.deErrName k) ++ " tv=" ++ hex64 (fnv64 text)
  | .err _ => " typed=?"
  | .panic site => " typed=MODEL-PANIC " ++ site

def NTH_ARGS : List Nat := [0, 1, 2, 3, 9000, 65534, 65535, 2 ^ 64 - 1]

/-- Class and canonical text of one iterator item. -/
def itemStr : Option (Except ScyllaVerif.Codec.DeErr ScyllaVerif.Cql.CqlVal) → String × String
  | none => ("none", "none")
  | some (.error _) => ("err", "err")
  | some (.ok v) => ("ok", " ".intercalate (ScyllaVerif.Drive.C01.showVal v))

/-- ` nth=[n:class:size_hint:class of the following next():hash of both items;…]` — `VectorIterator::nth` with
boundary arguments on the first row of a single vector column (fixed- and variable-size elements), the iterator's
`size_hint().0` afterwards, and the item the following `next()` yields. -/
def nthStr (cols : List ColSpec) (rowsCount : Nat) (raw : Bytes) : String :=
  match cols, rowsCount with
  | [c], _ + 1 =>
    match tyToCql c.ty with
    | .vector elt dim =>
      match readCells 1 0 raw with
      | .error _ => " nth=rowerr"
      | .ok ([none], _) => " nth=rowerr"
      | .ok ([some cell], _) =>
        let f := fun b => ScyllaVerif.C08V.decValP utf8ok elt b
        let size := ScyllaVerif.C08V.sizeForVectorSat elt
        " nth=" ++ lst (NTH_ARGS.map (fun n =>
          let r := match size with
            | some sz => ScyllaVerif.C08V.vecNthFixedP f sz dim n cell
            | none => ScyllaVerif.C08V.vecNthVarP f n dim cell
          toString n ++ ":" ++
          match r with
          | .ok (item, rem, rest) =>
            let nx := match size with
              | some sz => ScyllaVerif.C08V.vecNextFixedP f sz rem rest
              | none => ScyllaVerif.C08V.vecNextVarP f rem rest
            (match nx with
             | .ok (item2, _, _) =>
               let a := itemStr item
               let b := itemStr item2
               a.1 ++ ":" ++ toString rem ++ ":" ++ b.1 ++ ":" ++ hex64 (fnv64 (a.2 ++ "|" ++ b.2))
             | .err _ => "?"
             | .panic site => "MODEL-PANIC " ++ site)
          | .err _ => "?"
          | .panic site => "MODEL-PANIC " ++ site))
      | .ok _ => " nth=?"
    | _ => ""
  | _, _ => ""

def cellStr : Option Bytes → String
  | none => "null"
  | some b => hx b

def rowsStageStr (rs : RowsStage) : String :=
  match rs.dm with
  | .err k => "err " ++ k
  | .panic k => "MODEL-PANIC " ++ k
  | .ok d =>
    let src := match d.source with
      | .cached => "cached" | .mockEmpty => "empty" | .parsed => "parsed"
    let rowsS := if d.rmeta.cols.isEmpty then "rows0=" ++ toString rs.rows.length
      else "rows=" ++ lst (rs.rows.map (fun r => tup (r.map cellStr)))
    let errS := match rs.rowErr with
      | none => ""
      | some (r, c, k) => " rowerr=" ++ toString r ++ ":" ++ toString c ++ ":" ++ k
    let n := if d.rmeta.cols.isEmpty then min d.rowsCount ZERO_COL_ROW_CAP else d.rowsCount
    "src=" ++ src ++ " " ++ metaStr d.rmeta ++ " rc=" ++ toString d.rowsCount ++ " " ++ rowsS ++ errS ++
      typedStr d.rmeta.cols n d.rawRows ++ nthStr d.rmeta.cols d.rowsCount d.rawRows

def respStr (f : Features) (r : Response) (rs : Option RowsStage) : String :=
  match r with
  | .error e =>
    "ERROR " ++ (errorSpec f.rateLimitError e.code).1 ++ " code=" ++ toString e.code ++ " reason=" ++ hx e.reason ++
      " " ++ lst (e.fields.map fldStr)
  | .ready => "READY"
  | .authenticate n => "AUTHENTICATE " ++ hx n
  | .supported o => "SUPPORTED " ++ canonMap (o.map (fun p => (hx p.1, tup (p.2.map hx))))
  | .event e => "EVENT " ++ eventStr e
  | .authChallenge m => "AUTH_CHALLENGE " ++ optHx m
  | .authSuccess m => "AUTH_SUCCESS " ++ optHx m
  | .result .void => "RESULT VOID"
  | .result (.setKeyspace ks) => "RESULT SETKS " ++ hx ks
  | .result (.schemaChange sc) => "RESULT SCHEMA " ++ schemaStr sc
  | .result (.prepared p) =>
    "RESULT PREPARED id=" ++ hx p.id ++ " pm{flags=" ++ toString p.prepMeta.flags ++ " cc=" ++
      toString p.prepMeta.colCount ++ " pk=" ++ pkStr p.prepMeta.pkIndexes ++ " cols=" ++
      lst (p.prepMeta.cols.map colStr) ++ "} r" ++ metaStr p.resultMeta
  | .result (.rows r) =>
    "RESULT ROWS ps=" ++ optHx r.paging ++ " " ++
      (match rs with
       | some s => rowsStageStr s
       | none => "?")

def hdrStr (h : Header) : String := s!"h={h.flags},{h.stream},{h.opcode}"

/-- ` tab=…`: `RawTablet::from_custom_payload` on the custom payload (the `HashMap` keeps the last value of a key). -/
def tabStr (e : Ext) : String :=
  match e.payload with
  | none => ""
  | some kvs =>
    match (kvs.filter (fun p => p.1 == asciiBytes "tablets-routing-v1")).getLast? with
    | none => " tab=none"
    | some p =>
      match ScyllaVerif.C08T.parsePayloadP p.2 with
      | .ok (a, b, reps) => s!" tab=ok:{a}:{b}:{reps.length}"
      | .err .deserialization => " tab=err:deserialization"
      | .err .typecheck => " tab=err:typecheck"
      | .err .shardnum => " tab=err:shardnum"
      | .err .wrongrange => " tab=err:wrongrange"
      | .panic site => " tab=MODEL-PANIC " ++ site

def extStr (e : Ext) : String :=
  "t=" ++ optHx e.trace ++ " w=" ++ lst (e.warnings.map hx) ++ " p=" ++
    (match e.payload with
     | none => "none"
     | some kvs => canonMap (kvs.map (fun p => (hx p.1, hx p.2))))

/-- The metadata the harness passes as `cached_metadata` when `cm = 1`: two columns `ks.t.a int`, `ks.t.b text`. -/
def cachedMeta : ResultMeta :=
  ⟨none, 2, [⟨asciiBytes "ks", asciiBytes "t", asciiBytes "a", .native .int⟩,
             ⟨asciiBytes "ks", asciiBytes "t", asciiBytes "b", .native .text⟩]⟩

def parseOptInt (s : String) : Option (Option Int) :=
  if s == "-" then some none else (s.toInt?).map some

def hasSub (s sub : String) : Bool := (s.splitOn sub).length > 1

/-- `u=<utf8 hex>:<A|W>,…`: classes of the non-ASCII scalars occurring in the frame (all others: `other`). -/
def parseUni (w : String) : Option (List (Bytes × UCls)) :=
  if w == "-" then some []
  else (w.splitOn ",").mapM (fun e =>
    match e.splitOn ":" with
    | [h, c] =>
      match parseHex h with
      | some b => if c == "A" then some (b, UCls.alnum) else if c == "W" then some (b, UCls.white) else none
      | none => none
    | _ => none)

def runFrame (w : List String) (impl : String) : String :=
  let (w, uniW) := match w with
    | [a, b, c, d, e, f, g, h, u] => ([a, b, c, d, e, f, g, h], u)
    | _ => (w, "-")
  match w, parseUni uniW with
  | _, none => "bad-case"
  | [rl, lwt, tab, mid, cm, comp, _x, hex], some uni =>
    match parseOptInt rl, parseOptInt lwt, parseHex hex with
    | some rl, some lwt, some bs =>
      let f : Features := ⟨rl, lwt.map Int.toNat, tab == "1", mid == "1"⟩
      let cached := if cm == "1" then some cachedMeta else none
      match parseFrame bs with
      | .error k => "err " ++ k
      | .ok h =>
        let compressed := hasFlag h.flags FLAG_COMPRESSION
        let implW := words impl
        -- decompression is a parameter: take the body from the implementation's line
        let body : Except String (Bytes × String) :=
          if !compressed then .ok (h.body, "")
          else if comp == "n" then .error "err ext.nocompression"
          else if comp == "l" ∧ !lz4Guard h.body then .error "err ext.lz4"
          else if comp == "s" ∧ !snappyGuard h.body then .error "err ext.snap"
          else match implW with
            | _ :: z :: rest =>
              if z.startsWith "z=" then
                match parseHex (z.drop 2).toString with
                | some b =>
                  -- LZ4: the hand-over must be what `lz4Decomp` accepts (size guard + "never more than declared")
                  if comp == "l" ∧ (lz4Decomp (fun _ => some b) h.body).isNone then
                    .error "REJECT lz4-output-exceeds-declared-size"
                  else if comp == "s" ∧ (snappyDecomp (fun _ => some b) h.body).isNone then
                    .error "REJECT snappy-output-exceeds-declared-size"
                  else .ok (b, " " ++ z)
                | none => .error "REJECT bad-z"
              else if z == "err" ∧ (rest == ["ext.lz4"] ∨ rest == ["ext.snap"]) then .error ("err " ++ " ".intercalate rest)
              else .error "REJECT expected-z-or-decompress-error"
            | _ => .error "REJECT expected-z-or-decompress-error"
        match body with
        | .error e => hdrStr h ++ " " ++ e
        | .ok (body, ztok) =>
          let (o, _) := decodeBody f cached h body uni
          match o with
          | .err k =>
            match parseExt h.flags { buf := body, uni := uni } with
              | (.ok ext, _) => hdrStr h ++ ztok ++ " " ++ extStr ext ++ tabStr ext ++ " err " ++ k
              | (_, _) => hdrStr h ++ ztok ++ " err " ++ k
          | .panic k => "MODEL-PANIC " ++ k
          | .ok d =>
            let line := hdrStr h ++ ztok ++ " " ++ extStr d.ext ++ tabStr d.ext ++ " " ++ respStr f d.resp d.rowsStage
            line
    | _, _, _ => "bad-case"
  | _, _ => "bad-case"

def primOut {α : Type} (show_ : α → String) (r : Outcome α × St) : String :=
  match r with
  | (.ok a, s) => "ok " ++ show_ a ++ " rest=" ++ hx s.buf
  | (.err k, _) => "err " ++ k
  | (.panic k, _) => "MODEL-PANIC " ++ k

def runPrim (name : String) (bs : Bytes) : String :=
  match name with
  | "short" => primOut toString (run readShort bs)
  | "int" => primOut toString (run readInt bs)
  | "long" => primOut toString (run readLong bs)
  | "intlen" => primOut toString (run readIntLength bs)
  | "cons" => primOut toString (run readConsistency bs)
  | "string" => primOut hx (run readString bs)
  | "lstring" => primOut hx (run readLongString bs)
  | "bytes" => primOut hx (run readBytes bs)
  | "sbytes" => primOut hx (run readShortBytes bs)
  | "bytesopt" => primOut optHx (run readBytesOpt bs)
  | "uuid" => primOut hx (run readUuid bs)
  | "inet" => primOut addrStr (run readInet bs)
  | "strlist" => primOut (fun l => lst (l.map hx)) (run readStringList bs)
  | "strmap" => primOut (fun l => canonMap (l.map (fun p => (hx p.1, hx p.2)))) (run readStringMap bs)
  | "bytesmap" => primOut (fun l => canonMap (l.map (fun p => (hx p.1, hx p.2)))) (run readBytesMap bs)
  | "strmmap" => primOut (fun l => canonMap (l.map (fun p => (hx p.1, tup (p.2.map hx))))) (run readStringMultimap bs)
  | "value" => primOut (fun v => match v with
      | .null => "null" | .unset => "unset" | .value b => "v:" ++ hx b) (run readValue bs)
  | _ => "bad-case"

/-- `e <cap> <frame hex>`: iterate the rows of a Rows result without stopping at errors (at most `cap` items). -/
def runTail (cap : Nat) (bs : Bytes) : String :=
  if bs.length < 9 then "err short"
  else match deserResult {} { buf := bs.drop 9 } with
    | (.ok (.rows r), s) =>
      (match deserMetadata r none s with
       | (.ok d, _) =>
         let items := iterRows d.rmeta.cols.length (min cap d.rowsCount) d.rawRows
         let oks := (items.filter (fun i => match i with
           | .ok _ => true
           | .error _ => false)).length
         -- the failing column and error kind of every Err item, run-length encoded
         let errs := items.filterMap (fun i => match i with
           | .ok _ => none
           | .error (c, k) => some s!"{c}:{k}")
         let rle := errs.foldl (fun (acc : List (String × Nat)) e =>
           match acc with
           | (e', n) :: rest => if e' == e then (e', n + 1) :: rest else (e, 1) :: acc
           | [] => [(e, 1)]) []
         -- the lending iterator of the paged path on the same page
         let lendS := match lendRows d.rmeta.cols.length (min cap d.rowsCount) 0 d.rawRows with
           | .ok litems =>
             let loks := (litems.filter (fun i => match i with
               | .ok _ => true
               | .error _ => false)).length
             let lerrs := litems.filterMap (fun i => match i with
               | .ok _ => none
               | .error (c, k) => some s!"{c}:{k}")
             let lrle := lerrs.foldl (fun (acc : List (String × Nat)) e =>
               match acc with
               | (e', n) :: rest => if e' == e then (e', n + 1) :: rest else (e, 1) :: acc
               | [] => [(e, 1)]) []
             s!"{loks}:{litems.length - loks}:" ++ lst (lrle.reverse.map (fun p => s!"{p.1}*{p.2}"))
           | .err k => "err " ++ k
           | .panic k => "MODEL-PANIC " ++ k
         s!"tail rc={d.rowsCount} ok={oks} err={items.length - oks} errs=" ++
           lst (rle.reverse.map (fun p => s!"{p.1}*{p.2}")) ++ " lend=" ++ lendS
       | _ => "err meta")
    | (.ok _, _) => "err notrows"
    | _ => "err result"

/-- `h <frame hex>`: `read_response_frame` alone, with the capacity its body buffer reaches. -/
def runHeader (bs : Bytes) : String :=
  let capS := fun (length avail : Nat) =>
    let peak := (readBody length avail).2.2
    if peak ≥ 65536 then toString peak else "small"
  match parseFrame bs with
  | .ok h => s!"hdr ok {h.flags},{h.stream},{h.opcode} len={h.body.length} left={bs.length - 9 - h.body.length} cap=" ++ capS h.body.length (bs.length - 9)
  | .error "hdr.closed" =>
    "hdr err closed cap=" ++ capS (beNat ((bs.drop 5).take 4)) (bs.length - 9)
  | .error k => "hdr err " ++ (k.drop 4).toString ++ " cap=small"

/-! ### `t <utf8 hex|-> <class table|->`: the type strings of the schema tables -/

def nativeDbg : Native → String
  | .ascii => "Ascii" | .bigint => "BigInt" | .blob => "Blob" | .boolean => "Boolean" | .counter => "Counter"
  | .decimal => "Decimal" | .double => "Double" | .float => "Float" | .int => "Int" | .timestamp => "Timestamp"
  | .uuid => "Uuid" | .text => "Text" | .varint => "Varint" | .timeuuid => "Timeuuid" | .inet => "Inet"
  | .date => "Date" | .time => "Time" | .smallint => "SmallInt" | .tinyint => "TinyInt" | .duration => "Duration"

open ScyllaVerif.C08S in
mutual
/-- the `Debug` text of a `PreColumnType` without blanks, UDT names in hex -/
def preDbg : PreTy → String
  | .native n => "Native(" ++ nativeDbg n ++ ")"
  | .list f t => "Collection{frozen:" ++ toString f ++ ",typ:List(" ++ preDbg t ++ ")}"
  | .set f t => "Collection{frozen:" ++ toString f ++ ",typ:Set(" ++ preDbg t ++ ")}"
  | .map f k v => "Collection{frozen:" ++ toString f ++ ",typ:Map(" ++ preDbg k ++ "," ++ preDbg v ++ ")}"
  | .tuple ts => "Tuple([" ++ ",".intercalate (preDbgL ts) ++ "])"
  | .vector t d => "Vector{typ:" ++ preDbg t ++ ",dimensions:" ++ toString d ++ "}"
  | .udt f n => "UserDefinedType{frozen:" ++ toString f ++ ",name:" ++ toHex n ++ "}"
def preDbgL : List PreTy → List String
  | [] => []
  | t :: ts => preDbg t :: preDbgL ts
end

open ScyllaVerif.C08S in
def runSchemaType (bs : Bytes) (uni : List (Bytes × UCls)) : String :=
  let s := toStr uni bs
  let line := match mapStringS s with
    | .ok t => "ty " ++ preDbg t
    | .error (.perr rem cause) => s!"err {s.length - rem + 1} {cause}"
    | .error (.panic site) => "PANIC " ++ site
    | .error (.fuel w) => "MODEL-FUEL " ++ w
  if line.utf8ByteSize > 1000 then
    s!"{(line.take 200).toString}… len={line.utf8ByteSize} h={hex64 (fnv64 line)}"
  else line

/- `s <SUPPORTED body hex|->`: the option map, then the negotiated features and the shard token -/
/-- `sh=<shard>,<nr>,<msb>,<shard_of of each probe token, joined by />` / `sh=err:<label>`:
`ShardInfo::try_from(&options)` and `get_sharder().shard_of(..)` on the same option map. -/
def shardTok (opts : List (Bytes × List Bytes)) : String :=
  open ScyllaVerif.C08Sh in
  match shardInfoOfSupported opts with
  | .ok si =>
    s!"sh={si.shard},{si.nr},{si.msb}," ++ "/".intercalate (PROBE_TOKENS.map (fun t => toString (shardOf si.nr si.msb (tokenNew t))))
  | .error e =>
    "sh=err:" ++ (match e with
      | .noShardInfo => "noShardInfo" | .missingSome => "missingSome" | .missingValues => "missingValues"
      | .zeroShards => "zeroShards" | .shardOutOfRange => "shardOutOfRange" | .parse => "parse")

def runSupported (bs : Bytes) : String :=
  match readStringMultimap { buf := bs } with
  | (.ok opts, _) =>
    match ScyllaVerif.C08F.parseFromSupported opts with
    | .panic site => "MODEL-PANIC " ++ site
    | .ok f =>
      let o := fun (x : Option String) => x.getD "-"
      s!"feat rl={o (f.rateLimit.map toString)} lwt={o (f.lwtMask.map toString)} tab={if f.tablets then 1 else 0} mid={if f.metadataId then 1 else 0} " ++ shardTok opts
  | (.err _, _) => "supported err"
  | (.panic k, _) => "MODEL-PANIC " ++ k

/-! ### `r` / `R` / `k`: the connection reader's dispatch on the header's stream field (Model/C08Reader.lean) -/

open ScyllaVerif.C08R in
def runReaderCase (n : Nat) (bs : Bytes) : String :=
  match runReader n bs with
  | .panic k => "MODEL-PANIC " ++ k
  | .err k => "MODEL-ERR " ++ k
  | .ok r =>
    let one := fun (k : Nat) =>
      match r.delivered.find? (fun d => d.req = k) with
      | some d => s!"{k}=ok:{d.stream}:{d.flags}:{d.opcode}:{if d.body.isEmpty then "-" else hx d.body}"
      | none => s!"{k}=err:Broken:{r.broken}"
    " ".intercalate (s!"rd broken={r.broken}" :: (List.range n).map one)

def streamFrame (s : Int) : Bytes :=
  let u := (if s < 0 then s + 65536 else s).toNat
  [0x84, 0x00, UInt8.ofNat (u / 256), UInt8.ofNat (u % 256), 0x08, 0x00, 0x00, 0x00, 0x00]

open ScyllaVerif.C08R in
/-- one connection per stream id in `lo ..= lo + cnt - 1`: `n` requests in flight, one empty RESULT frame, EOF -/
def runSweep (n : Nat) (lo : Int) (cnt : Nat) : String :=
  let step := fun (acc : Nat × Nat × Nat × Nat) (i : Nat) =>
    let (u, dl, cl, ot) := acc
    match runReader n (streamFrame (lo + i)) with
    | .ok r =>
      if r.broken == "UnexpectedStreamId" ∧ r.delivered.isEmpty then (u + 1, dl, cl, ot)
      else if r.broken == "FrameHeaderParseError" ∧ r.delivered.length == 1 then (u, dl + 1, cl, ot)
      else if r.broken == "FrameHeaderParseError" ∧ r.delivered.isEmpty then (u, dl, cl + 1, ot)
      else (u, dl, cl, ot + 1)
    | _ => (u, dl, cl, ot + 1)
  let (u, dl, cl, ot) := (List.range cnt).foldl step (0, 0, 0, 0)
  s!"sweep unexpected={u} delivered={dl} closed={cl} other={ot}"

open ScyllaVerif.C08R in
/-- `ResponseHandlerMap::lookup` itself, on every id of the range in turn (one map with `n` handlers): the slice
index in `StreamIdSet::free` is reached with negative ids too, where it panics (the reader never passes them). -/
def runLookups (n : Nat) (lo : Int) (cnt : Nat) : String :=
  let step := fun (acc : HMap × Nat × Nat × Nat) (i : Nat) =>
    let (m, hd, mi, pa) := acc
    match lookup m (lo + i) with
    | .ok (.handler _, m1) => (m1, hd + 1, mi, pa)
    | .ok (.missing, m1) => (m1, hd, mi + 1, pa)
    | _ => (m, hd, mi, pa + 1)
  let (_, hd, mi, pa) := (List.range cnt).foldl step (allocateN HMap.new n 0, 0, 0, 0)
  s!"lk handler={hd} missing={mi} panic={pa}"

def run (case impl : String) : String :=
  match words case with
  | "f" :: rest => runFrame rest impl
  | ["h", hex] =>
    match parseHex hex with
    | some bs => runHeader bs
    | none => "bad-case"
  | ["e", cap, hex] =>
    match cap.toNat?, parseHex hex with
    | some c, some bs => runTail c bs
    | _, _ => "bad-case"
  | ["p", name, hex] =>
    match parseHex hex with
    | some bs => runPrim name bs
    | none => "bad-case"
  | ["s", hex] =>
    match (if hex == "-" then some [] else parseHex hex) with
    | some bs => runSupported bs
    | none => "bad-case"
  | ["r", n, hex] =>
    match n.toNat?, (if hex == "-" then some [] else parseHex hex) with
    | some n, some bs => if n ≤ 64 then runReaderCase n bs else "bad-case"
    | _, _ => "bad-case"
  | ["R", n, lo, cnt] =>
    match n.toNat?, lo.toInt?, cnt.toNat? with
    | some n, some lo, some cnt =>
      if n ≤ 64 ∧ -32768 ≤ lo ∧ lo + cnt ≤ 32768 ∧ cnt ≤ 4096 then runSweep n lo cnt else "bad-case"
    | _, _, _ => "bad-case"
  | ["k", n, lo, cnt] =>
    match n.toNat?, lo.toInt?, cnt.toNat? with
    | some n, some lo, some cnt =>
      if n ≤ 64 ∧ -32768 ≤ lo ∧ lo + cnt ≤ 32768 ∧ cnt ≤ 4096 then runLookups n lo cnt else "bad-case"
    | _, _, _ => "bad-case"
  | ["t", hex, u] =>
    match (if hex == "-" then some [] else parseHex hex), parseUni u with
    | some bs, some uni => if utf8ok bs then runSchemaType bs uni else "skip not-utf8"
    | _, _ => "bad-case"
  | _ => "bad-case"

end ScyllaVerif.Drive.C08

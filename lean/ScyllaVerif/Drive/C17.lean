import ScyllaVerif.Model.Util
import ScyllaVerif.Model.Carrier
import ScyllaVerif.Model.Row
import ScyllaVerif.Model.C17Bind
import ScyllaVerif.Model.C17Meta
/-! Line-protocol driver for C17.

Segments of a case are separated by ` | `, operations of a `row` case by ` ; `.  Prefix notation, explicit counts.

  type    ::= <native> | list T | set T | map K V | tuple n T… | udt <ks hex> <name hex> n (<fname hex> T)… | vector dim T
  carrier ::= i8 | i16 | i32 | i64 | f32 | f64 | bool | str | blob | inet | uuid | timeuuid | date | time | timestamp
            | duration | varint | decimal | counter | unset | opt C | munset C | mempty C | vec C | hset C | bset C
            | hmap K V | bmap K V | tuple n C… | dyn | listiter C | veciter C | mapiter K V | udtiter | raw
  value   ::= s <scalar> <body hex> | unset | none | some V | muunset | muset V | meempty | mevalue V
            | vec n V… | set n V… | map n (K V)… | tuple n V… | udt <ks hex> <name hex> n (<fname hex> V)…

Cases (`<label>` names the concrete Rust type on the harness side and is ignored here):
  `ser <label> <variant> | C | T | V`      → `ok <cell hex>` | `err tc|ser <path>`
  `tc <label> | C | T`                     → `ok` | `err <path>`
  `deser <label> <cell variant> | C | T`  deserialize of a valid cell of T WITHOUT type_check → `safe` | `panics`
  `deserrow <label> | untyped or n C… | m T…`  DeserializeRow::deserialize of a valid row WITHOUT type_check → `safe` | `panics`
  `tcrow <label> | untyped or n C… | m T…` → `ok` | `err <path>`
  `rows <label> | untyped or n C… | m T… | <rows>`  (a parsed RESULT/Rows, then rows_iter::<T>())
       → `ok rows=<n>` | `typecheck-err <path>`
  `row OP ; OP ; …` with OP ::= `add <label> <variant> | T | V` | `fill n` (n nulls)
       → one `ok:<count>:<len>` / `err(<class> <path>):<count>:<len>` / `toomany:<count>:<len>` per op, then
         `= cells=<parsed cell count> <buffer hex or digest>`
  `pager <target> <ext> <skip> <stop|all> | <prepared cols> | <page> | …`  the pager's typed stream over pages with their own
       metadata (cols ::= n (<name> <type>)…, page ::= <rows> nometa [cut r] | <rows> <newid> cols [cut r]; `cut r`: the page's
       bytes end inside row r)
       → `ctor:TypeCheck` | stop: `rows=<delivered> fin=end|TypeCheck` | all (polls through error items): `seq=r2e3x1r1 fin=end`
         (r rows, e type-check errors, x row-deserialization errors)
  `bindrow seq|tup1|tup2|tup3|unit|u80|map|struct2|struct3|structcba | name T ; name T … | [name] <ref> V ; …`  SerializeRow through from_serializable
       → `ok count=… cells=… <digest>` | `err WrongColumnCount` | `err ValueMissingForColumn n` | `err NoColumnWithName n`
         | `err col n <class> <path>` | `err TooManyValues`
  `batch <vec|tuple|iter> | cols || cols … | vals || vals …`  a BATCH bound through RawBatchValuesAdapter (one context per
       statement) → `ok n [count cells digest]…` | `err CountsMismatch` | `err stmt i <bind error>`  (`.` = no statements / rows)
  `sbatch <vec|tuple> | <P|Q> cols || … | vals || …`  Session::batch on a mock cluster (P prepared, Q unprepared) → as `batch`
  `squery | cols | vals`  Session::query_unpaged with values → `ok-unprepared` | `ok [count cells digest]` | `err …`
  `frame <hex>`  new_from_frame → `ok count=… cells=… rest=<unread> <digest>` | `err`
  `bind <path> n…` rows of ~65535 values through from_serializable (slice_i32 / slice_opt / vec_str / map), a
       RowWriter used directly (writer), append_serialize_row (append a b c / mixed n k), add_value (add n)
       → `ok count=<count> cells=<parsed> <digest>` | `err TooManyValues`
  `big …` (values of 2^31 bytes; not representable here)  → echo of the implementation's line.
-/
namespace ScyllaVerif.Drive.C17
open ScyllaVerif.Util ScyllaVerif.Cql ScyllaVerif.Carrier ScyllaVerif.Row ScyllaVerif.Vint

def strOfHex (s : String) : Option String :=
  match parseHex s with
  | none => none
  | some bs => String.fromUTF8? ⟨bs.toArray⟩

def hexOfStr (s : String) : String := toHex s.toUTF8.toList

def nativeOfName : String → Option NativeTy
  | "ascii" => some .ascii | "boolean" => some .boolean | "blob" => some .blob | "counter" => some .counter
  | "date" => some .date | "decimal" => some .decimal | "double" => some .double
  | "duration" => some .duration | "float" => some .float | "int" => some .int | "bigint" => some .bigint
  | "text" => some .text | "timestamp" => some .timestamp | "inet" => some .inet
  | "smallint" => some .smallint | "tinyint" => some .tinyint | "time" => some .time
  | "timeuuid" => some .timeuuid | "uuid" => some .uuid | "varint" => some .varint
  | _ => none

def scalarOfName : String → Option Scalar
  | "i8" => some .i8 | "i16" => some .i16 | "i32" => some .i32 | "i64" => some .i64 | "f32" => some .f32
  | "f64" => some .f64 | "bool" => some .bool | "str" => some .str | "blob" => some .blob | "inet" => some .inet
  | "uuid" => some .uuid | "timeuuid" => some .timeuuid | "date" => some .date | "time" => some .time
  | "timestamp" => some .timestamp | "duration" => some .duration | "varint" => some .varint
  | "decimal" => some .decimal | "counter" => some .counter
  | _ => none

/-! ### parsing (fuel = number of tokens) -/

mutual
def parseTy : Nat → List String → Option (CqlTy × List String)
  | 0, _ => none
  | _, [] => none
  | fuel + 1, tok :: rest =>
    match tok with
    | "list" => (parseTy fuel rest).map fun (t, r) => (.list t, r)
    | "set" => (parseTy fuel rest).map fun (t, r) => (.set t, r)
    | "map" =>
      match parseTy fuel rest with
      | none => none
      | some (k, r) => (parseTy fuel r).map fun (v, r2) => (.map k v, r2)
    | "tuple" =>
      match rest with
      | n :: r => match n.toNat? with
        | none => none
        | some n => (parseTys fuel n r).map fun (ts, r2) => (.tuple ts, r2)
      | _ => none
    | "udt" =>
      match rest with
      | ks :: name :: n :: r =>
        match strOfHex ks, strOfHex name, n.toNat? with
        | some ks, some name, some n => (parseFieldTys fuel n r).map fun (fs, r2) => (.udt ks name fs, r2)
        | _, _, _ => none
      | _ => none
    | "vector" =>
      match rest with
      | d :: r => match d.toNat? with
        | none => none
        | some d => (parseTy fuel r).map fun (t, r2) => (.vector t d, r2)
      | _ => none
    | other => (nativeOfName other).map fun n => (.native n, rest)
def parseTys : Nat → Nat → List String → Option (List CqlTy × List String)
  | 0, _, _ => none
  | _, 0, toks => some ([], toks)
  | fuel + 1, n + 1, toks =>
    match parseTy fuel toks with
    | none => none
    | some (t, r) => (parseTys fuel n r).map fun (ts, r2) => (t :: ts, r2)
def parseFieldTys : Nat → Nat → List String → Option (List (String × CqlTy) × List String)
  | 0, _, _ => none
  | _, 0, toks => some ([], toks)
  | fuel + 1, n + 1, toks =>
    match toks with
    | name :: r0 =>
      match strOfHex name, parseTy fuel r0 with
      | some name, some (t, r) => (parseFieldTys fuel n r).map fun (fs, r2) => ((name, t) :: fs, r2)
      | _, _ => none
    | [] => none
end

mutual
def parseCar : Nat → List String → Option (Carrier × List String)
  | 0, _ => none
  | _, [] => none
  | fuel + 1, tok :: rest =>
    match tok with
    | "unset" => some (.unset, rest)
    | "dyn" => some (.dyn, rest)
    | "udtiter" => some (.udtIter, rest)
    | "raw" => some (.raw, rest)
    | "opt" => (parseCar fuel rest).map fun (c, r) => (.opt c, r)
    | "munset" => (parseCar fuel rest).map fun (c, r) => (.maybeUnset c, r)
    | "mempty" => (parseCar fuel rest).map fun (c, r) => (.maybeEmpty c, r)
    | "vec" => (parseCar fuel rest).map fun (c, r) => (.vec c, r)
    | "hset" => (parseCar fuel rest).map fun (c, r) => (.hashSet c, r)
    | "bset" => (parseCar fuel rest).map fun (c, r) => (.btreeSet c, r)
    | "listiter" => (parseCar fuel rest).map fun (c, r) => (.listIter c, r)
    | "veciter" => (parseCar fuel rest).map fun (c, r) => (.vecIter c, r)
    | "hmap" =>
      match parseCar fuel rest with
      | none => none
      | some (k, r) => (parseCar fuel r).map fun (v, r2) => (.hashMap k v, r2)
    | "bmap" =>
      match parseCar fuel rest with
      | none => none
      | some (k, r) => (parseCar fuel r).map fun (v, r2) => (.btreeMap k v, r2)
    | "mapiter" =>
      match parseCar fuel rest with
      | none => none
      | some (k, r) => (parseCar fuel r).map fun (v, r2) => (.mapIter k v, r2)
    | "tuple" =>
      match rest with
      | n :: r => match n.toNat? with
        | none => none
        | some n => (parseCars fuel n r).map fun (cs, r2) => (.tuple cs, r2)
      | _ => none
    | other => (scalarOfName other).map fun s => (.scalar s, rest)
def parseCars : Nat → Nat → List String → Option (List Carrier × List String)
  | 0, _, _ => none
  | _, 0, toks => some ([], toks)
  | fuel + 1, n + 1, toks =>
    match parseCar fuel toks with
    | none => none
    | some (c, r) => (parseCars fuel n r).map fun (cs, r2) => (c :: cs, r2)
end

mutual
def parseVal : Nat → List String → Option (RVal × List String)
  | 0, _ => none
  | _, [] => none
  | fuel + 1, tok :: rest =>
    match tok, rest with
    | "s", sc :: h :: r =>
      match scalarOfName sc, parseHex h with
      | some s, some b => some (.scalar s b, r)
      | _, _ => none
    | "unset", r => some (.unset, r)
    | "none", r => some (.none, r)
    | "muunset", r => some (.muUnset, r)
    | "meempty", r => some (.meEmpty, r)
    | "some", r => (parseVal fuel r).map fun (v, r2) => (.some v, r2)
    | "muset", r => (parseVal fuel r).map fun (v, r2) => (.muSet v, r2)
    | "mevalue", r => (parseVal fuel r).map fun (v, r2) => (.meValue v, r2)
    | "vec", n :: r => match n.toNat? with
      | some n => (parseVals fuel n r).map fun (vs, r2) => (.vec vs, r2)
      | none => none
    | "set", n :: r => match n.toNat? with
      | some n => (parseVals fuel n r).map fun (vs, r2) => (.set vs, r2)
      | none => none
    | "tuple", n :: r => match n.toNat? with
      | some n => (parseVals fuel n r).map fun (vs, r2) => (.tuple vs, r2)
      | none => none
    | "map", n :: r => match n.toNat? with
      | some n => (parsePairs fuel n r).map fun (kvs, r2) => (.map kvs, r2)
      | none => none
    | "udt", ks :: name :: n :: r =>
      match strOfHex ks, strOfHex name, n.toNat? with
      | some ks, some name, some n => (parseFields fuel n r).map fun (fs, r2) => (.udt ks name fs, r2)
      | _, _, _ => none
    | _, _ => none
def parseVals : Nat → Nat → List String → Option (List RVal × List String)
  | 0, _, _ => none
  | _, 0, toks => some ([], toks)
  | fuel + 1, n + 1, toks =>
    match parseVal fuel toks with
    | none => none
    | some (v, r) => (parseVals fuel n r).map fun (vs, r2) => (v :: vs, r2)
def parsePairs : Nat → Nat → List String → Option (List (RVal × RVal) × List String)
  | 0, _, _ => none
  | _, 0, toks => some ([], toks)
  | fuel + 1, n + 1, toks =>
    match parseVal fuel toks with
    | none => none
    | some (k, r) =>
      match parseVal fuel r with
      | none => none
      | some (v, r1) => (parsePairs fuel n r1).map fun (kvs, r2) => ((k, v) :: kvs, r2)
def parseFields : Nat → Nat → List String → Option (List (String × RVal) × List String)
  | 0, _, _ => none
  | _, 0, toks => some ([], toks)
  | fuel + 1, n + 1, toks =>
    match toks with
    | name :: r0 =>
      match strOfHex name, parseVal fuel r0 with
      | some name, some (v, r) => (parseFields fuel n r).map fun (fs, r2) => ((name, v) :: fs, r2)
      | _, _ => none
    | [] => none
end

def tyOf (seg : String) : Option CqlTy :=
  let toks := words seg
  match parseTy (toks.length + 1) toks with
  | some (t, []) => some t
  | _ => none

def carOf (seg : String) : Option Carrier :=
  let toks := words seg
  match parseCar (toks.length + 1) toks with
  | some (c, []) => some c
  | _ => none

def valOf (seg : String) : Option RVal :=
  let toks := words seg
  match parseVal (toks.length + 1) toks with
  | some (v, []) => some v
  | _ => none

/-! ### printing -/

def stepName : Step → String
  | .elem => "elem" | .key => "key" | .val => "val"
  | .field i => "f" ++ toString i
  | .udtField n => "u:" ++ hexOfStr n
  | .col i => "c" ++ toString i

def serKindName : SerKind → String
  | .mismatchedType => "MismatchedType" | .notEmptyable => "NotEmptyable" | .notSetOrList => "NotSetOrList"
  | .notMap => "NotMap" | .notTuple => "NotTuple" | .wrongElementCount => "WrongElementCount"
  | .notUdt => "NotUdt" | .nameMismatch => "NameMismatch" | .noSuchFieldInUdt => "NoSuchFieldInUdt"
  | .sizeOverflow => "SizeOverflow" | .tooManyElements => "TooManyElements"
  | .invalidNumberOfElements => "InvalidNumberOfElements"

def tcKindName : TcKind → String
  | .mismatchedType => "MismatchedType" | .notSetOrList => "NotSetOrList" | .notSet => "NotSet"
  | .notVector => "NotVector" | .notDeserializableToVec => "NotDeserializableToVec" | .notMap => "NotMap"
  | .notTuple => "NotTuple" | .wrongElementCount => "WrongElementCount" | .notUdt => "NotUdt"
  | .wrongColumnCount => "WrongColumnCount" | .noImpl => "NoImpl"

def pathStr (p : List Step) (leaf : String) : String := "/".intercalate (p.map stepName ++ [leaf])

/-- `tc` = the error the caller sees is a `BuiltinTypeCheckError`, `ser` = a `BuiltinSerializationError`
(every wrapper is one). -/
def serErrStr (e : SerErr) : String :=
  (if e.path.isEmpty && e.kind.isTypeCheck then "tc " else "ser ") ++ pathStr e.path (serKindName e.kind)

def tcStr : Option TcErr → String
  | none => "ok"
  | some e => "err " ++ pathStr e.path (tcKindName e.kind)

def digest (bs : Bytes) : String :=
  if bs.length ≤ 2048 then toHex bs
  else
    let h := bs.foldl (fun a b => (a * 31 + b.toNat) % 4294967291) 7
    s!"len={bs.length} h={h}"

def cellsStr (bs : Bytes) : String :=
  match parseCells bs with
  | none => "cells=bad"
  | some cs => s!"cells={cs.length}"

/-! ### cases -/

def segs (line : String) : List String := (line.splitOn " | ").map (fun s => s.trimAscii.toString)

def runOp (op : String) (sv : SV) : Option (SV × String) :=
  match segs op with
  | [hd] =>
    match words hd with
    | ["fill", n] =>
      match n.toNat? with
      | none => none
      | some n =>
        let sv' := fillNulls n sv
        some (sv', s!"filled:{sv'.count}:{sv'.bytes.length}")
    | _ => none
  | [hd, tseg, vseg] =>
    match words hd, tyOf tseg, valOf vseg with
    | "add" :: _, some t, some v =>
      match addValueWith (fun b => ser t v true b) sv with
      | (sv', none) => some (sv', s!"ok:{sv'.count}:{sv'.bytes.length}")
      | (sv', some .tooManyValues) => some (sv', s!"toomany:{sv'.count}:{sv'.bytes.length}")
      | (sv', some (.ser e)) => some (sv', s!"err({serErrStr e}):{sv'.count}:{sv'.bytes.length}")
    | _, _, _ => none
  | _ => none

def runOps : List String → SV → List String → Option (SV × List String)
  | [], sv, acc => some (sv, acc.reverse)
  | op :: ops, sv, acc =>
    match runOp op sv with
    | none => none
    | some (sv', s) => runOps ops sv' (s :: acc)

/-! ### `bind`: the 16-bit boundary on every bind path (`from_serializable`, `RowWriter`, `append_serialize_row`) -/

def intCell (i : Nat) : Bytes := [0, 0, 0, 4] ++ beBytes 4 i

/-- The `i`-th cell of a generated row of the given kind (the harness builds the same values). -/
def cellOf (kind : String) (i : Nat) : Bytes :=
  match kind with
  | "slice_i32" => intCell i
  | "slice_opt" => if i % 2 = 0 then nullCell else intCell i
  | "vec_str" => [0, 0, 0, 1, UInt8.ofNat (97 + i % 26)]
  | "map" => intCell 7
  | _ => -- "writer"
    if i % 3 = 0 then nullCell else if i % 3 = 1 then [0xff, 0xff, 0xff, 0xfe] else [0, 0, 0, 1, UInt8.ofNat (i % 256)]

def cellsOf (kind : String) (n : Nat) : List Bytes := (List.range n).map (cellOf kind)

def showBind : Option SV → String
  | none => "err TooManyValues"
  | some sv => s!"ok count={sv.count} {cellsStr sv.bytes} {digest sv.bytes}"

def runBind (toks : List String) : String :=
  match toks with
  | ["add", n] =>
    match n.toNat? with
    | some n => showBind (some (fillNulls n SV.empty))
    | none => "bad-case"
  | "append" :: ns =>
    match ns.mapM String.toNat? with
    | some ns =>
      -- every part is built with add_value (at most 65535 values each), then appended to one writer
      let w := ns.foldl (fun w n =>
        let part := (RW.new.writeCells (cellsOf "slice_i32" (min n 65535)))
        w.appendRow ⟨part.buf, part.count⟩) RW.new
      showBind w.finish
    | none => "bad-case"
  | ["mixed", n, k] =>
    match n.toNat?, k.toNat? with
    | some n, some k =>
      let part := RW.new.writeCells (cellsOf "slice_i32" (min k 65535))
      let w := ((RW.new.writeCells (cellsOf "writer" n)).appendRow ⟨part.buf, part.count⟩).writeCells [nullCell]
      showBind w.finish
    | _, _ => "bad-case"
  | [kind, n] =>
    if ["slice_i32", "slice_opt", "vec_str", "map", "writer"].contains kind then
      match n.toNat? with
      | some n => showBind (RW.new.writeCells (cellsOf kind n)).finish
      | none => "bad-case"
    else "bad-case"
  | _ => "bad-case"

/-! ### `deser`: `deserialize` without `type_check` -/

/-- The panic site is at the ROOT of the carrier (under the transparent layers): it fires for every non-null
cell, whatever it contains.  Deeper sites are only reached if everything decoded before them succeeded. -/
def rootPanics : Carrier → CqlTy → Bool
  | .opt c, t => rootPanics c t
  | .maybeEmpty c, t => rootPanics c t
  | .vec _, t => match t with
    | .list _ => false | .set _ => false | .vector _ _ => false | _ => true
  | .hashSet _, t => match t with
    | .list _ => false | .set _ => false | _ => true
  | .btreeSet _, t => match t with
    | .list _ => false | .set _ => false | _ => true
  | .hashMap _ _, t => match t with
    | .map _ _ => false | _ => true
  | .btreeMap _ _, t => match t with
    | .map _ _ => false | _ => true
  | .tuple cs, t => match t with
    | .tuple ts => cs.length != ts.length | _ => true
  | _, _ => false

/-- Checker: `safe` when the model says no site is reachable, `panics` when the site is at the root, and for a
deeper site the implementation's own line (it panics iff decoding got that far). -/
def runDeser (case impl : String) : String :=
  match segs case with
  | [_, cseg, tseg] =>
    match carOf cseg, tyOf tseg with
    | some c, some t =>
      if !deserPanics c t then "safe"
      else if rootPanics c t then "panics"
      else if impl == "panics" || impl == "safe" then impl
      else "REJECT expected-panics-or-safe"
    | _, _ => "bad-case"
  | _ => "bad-case"

/-- Row level (`deserrow`): walk the columns in order over VALID cells.  A column that passes its check decodes; the
first column that does not decides: a root-level site panics for sure, anything else (a decode error, or a deeper
site) is left to the implementation's line; after the common prefix a missing column (`unreachable!`) or an excess
column (`assert!`) panics. -/
def rowWalk : List Carrier → List CqlTy → Option Bool   -- some true = panics, some false = safe, none = echo
  | [], [] => some false
  | [], _ :: _ => some true
  | _ :: _, [] => some true
  | c :: cs, t :: ts =>
    if deserAccepts c t then rowWalk cs ts
    else if rootPanics c t then some true
    else none

def runDeserRow (case impl : String) : String :=
  match segs case with
  | [_, cseg, tseg] =>
    let ts := match words tseg with
      | m :: r => match m.toNat? with
        | some m => match parseTys (r.length + 1) m r with
          | some (ts, []) => some ts
          | _ => none
        | none => none
      | [] => none
    let cs := match words cseg with
      | ["untyped"] => some none
      | n :: r => match n.toNat? with
        | some n => match parseCars (r.length + 1) n r with
          | some (cs, []) => some (some cs)
          | _ => none
        | none => none
      | [] => none
    match cs, ts with
    | some none, some _ => "safe"
    | some (some cs), some ts =>
      if !rowDecodePanics (.cols cs) ts then "safe"
      else match rowWalk cs ts with
        | some true => "panics"
        | some false => "REJECT rowDecodePanics-but-walk-safe"
        | none => if impl == "panics" || impl == "safe" then impl else "REJECT expected-panics-or-safe"
    | _, _ => "bad-case"
  | _ => "bad-case"

/-! ### `bindrow` / `frame`: row-level binding and `new_from_frame` -/

open ScyllaVerif.C17Bind in
def bindErrStr : BindErr → String
  | .wrongColumnCount => "err WrongColumnCount"
  | .valueMissingForColumn n => "err ValueMissingForColumn " ++ n
  | .noColumnWithName n => "err NoColumnWithName " ++ n
  | .column n e => "err col " ++ n ++ " " ++ serErrStr e
  | .tooManyValues => "err TooManyValues"

def splitSemi (seg : String) : List String :=
  if seg.trimAscii.toString == "-" then [] else (seg.splitOn " ; ").map (fun s => s.trimAscii.toString)

open ScyllaVerif.C17Bind in
def parseBindCol (s : String) : Option Col :=
  match words s with
  | name :: rest => (tyOf (" ".intercalate rest)).map fun t => ⟨name, t⟩
  | [] => none

open ScyllaVerif.C17Bind in
def runBindRow (case : String) : String :=
  match segs case with
  | [hd, cseg, vseg] =>
    match words hd, (splitSemi cseg).mapM parseBindCol with
    | ["bindrow", kind], some cols =>
      let rv : Option RowVal :=
        if kind == "map" || kind == "struct2" || kind == "struct3" || kind == "structcba" then
          -- derived structs: the fields in DECLARATION order (the order of the case line)
          ((splitSemi vseg).mapM fun s => match words s with
            | name :: _ref :: rest => (valOf (" ".intercalate rest)).map fun v => (name, v)
            | _ => none).map (if kind == "map" then RowVal.byName else RowVal.derived)
        else
          ((splitSemi vseg).mapM fun s => match words s with
            | _ref :: rest => valOf (" ".intercalate rest)
            | _ => none).map RowVal.seq
      match rv with
      | none => "bad-case"
      | some rv =>
        match fromSerializable rv cols with
        | .error e => bindErrStr e
        | .ok sv => s!"ok count={sv.count} {cellsStr sv.bytes} {digest sv.bytes}"
    | _, _ => "bad-case"
  | _ => "bad-case"

-- `batch <carrier> | <cols of stmt 1> || <cols of stmt 2> … | <values of row 1> || <values of row 2> …`
open ScyllaVerif.C17Bind in
def runBatch (case : String) : String :=
  match segs case with
  | [_, sseg, rseg] =>
    let groups (seg : String) : List String :=
      if seg.trimAscii.toString == "." then [] else (seg.splitOn " || ").map (fun s => s.trimAscii.toString)
    let stmts := (groups sseg).mapM fun g => (splitSemi g).mapM parseBindCol
    let rows := (groups rseg).mapM fun g => (splitSemi g).mapM fun s => match words s with
      | _ref :: rest => valOf (" ".intercalate rest)
      | _ => none
    match stmts, rows with
    | some stmts, some rows =>
      match bindBatch stmts rows 0 with
      | .error .countsMismatch => "err CountsMismatch"
      | .error (.stmt i e) => s!"err stmt {i} {bindErrStr e}"
      | .ok svs => s!"ok {svs.length}" ++ String.join (svs.map fun sv => s!" [{sv.count} {cellsStr sv.bytes} {digest sv.bytes}]")
    | _, _ => "bad-case"
  | _ => "bad-case"

-- `sbatch <carrier> | <P|Q> cols || … | vals || …`: Session::batch
open ScyllaVerif.C17Bind in
def runSBatch (case : String) : String :=
  match segs case with
  | [_, sseg, rseg] =>
    let groups (seg : String) : List String :=
      if seg.trimAscii.toString == "." then [] else (seg.splitOn " || ").map (fun s => s.trimAscii.toString)
    let stmts := (groups sseg).mapM fun g =>
      match words g with
      | k :: rest =>
        let cols := (splitSemi (" ".intercalate rest)).mapM parseBindCol
        if k == "P" then cols.map BStmt.prepared else if k == "Q" then cols.map BStmt.query else none
      | [] => none
    let rows := (groups rseg).mapM fun g => (splitSemi g).mapM fun s => match words s with
      | _ref :: rest => valOf (" ".intercalate rest)
      | _ => none
    match stmts, rows with
    | some stmts, some rows =>
      match sessionBatch stmts rows with
      | .error .countsMismatch => "err CountsMismatch"
      | .error (.stmt i e) => s!"err stmt {i} {bindErrStr e}"
      | .ok svs => s!"ok {svs.length}" ++ String.join (svs.map fun sv => s!" [{sv.count} {cellsStr sv.bytes} {digest sv.bytes}]")
    | _, _ => "bad-case"
  | _ => "bad-case"

-- `squery | cols | vals`: Session::query_unpaged (no values: sent unprepared; else PREPARE, bind, EXECUTE)
open ScyllaVerif.C17Bind in
def runSQuery (case : String) : String :=
  match segs case with
  | [_, cseg, vseg] =>
    let cols := (splitSemi cseg).mapM parseBindCol
    let vals := (splitSemi vseg).mapM fun s => match words s with
      | _ref :: rest => valOf (" ".intercalate rest)
      | _ => none
    match cols, vals with
    | some cols, some vals =>
      if vals.isEmpty then "ok-unprepared"
      else match fromSerializable (.seq vals) cols with
        | .error e => bindErrStr e
        | .ok sv => s!"ok [{sv.count} {cellsStr sv.bytes} {digest sv.bytes}]"
    | _, _ => "bad-case"
  | _ => "bad-case"

open ScyllaVerif.C17Bind in
def runFrame (toks : List String) : String :=
  match toks with
  | [h] =>
    match parseHex h with
    | none => "bad-case"
    | some buf =>
      match newFromFrame buf with
      | none => "err"
      | some (sv, rest) => s!"ok count={sv.count} {cellsStr sv.bytes} rest={rest.length} {digest sv.bytes}"
  | _ => "bad-case"

/-! ### `pager`: pages with differing result metadata through the typed stream -/

def parseCols (toks : List String) : Option (List (String × CqlTy)) :=
  match toks with
  | n :: rest =>
    match n.toNat? with
    | none => none
    | some n =>
      let rec go : Nat → List String → Option (List (String × CqlTy))
        | 0, [] => some []
        | 0, _ :: _ => none
        | k + 1, name :: ty :: r =>
          match nativeOfName ty, go k r with
          | some t, some cs => some ((name, .native t) :: cs)
          | _, _ => none
        | _ + 1, _ => none
      go n rest
  | [] => none

/-- (rows, own columns or none for NO_METADATA, announces a new metadata id, rows readable before the cut) -/
def parsePage (seg : String) : Option (Nat × Option (List (String × CqlTy)) × Bool × Nat) :=
  -- an optional suffix `cut <r>`: the page's bytes are truncated inside row `r` (rows r.. are unreadable)
  let ws := words seg
  let (ws, cut) : List String × Option Nat :=
    match ws.reverse with
    | r :: "cut" :: rest => (rest.reverse, r.toNat?)
    | _ => (ws, none)
  match ws with
  | [r, "nometa"] => r.toNat?.map fun r => (r, none, false, (cut.getD r))
  | r :: nid :: rest =>
    match r.toNat?, parseCols rest with
    | some r, some cs =>
      if nid == "1" then some (r, some cs, true, cut.getD r) else if nid == "0" then some (r, some cs, false, cut.getD r) else none
    | _, _ => none
  | _ => none

/-- The columns the rows of page `k` are type-checked and decoded against: `Model/C17Meta.lean`'s `pagesInForce`
(the statement's current metadata → `cached_metadata` → `deserialize_metadata` → `handle_result_metadata_new_id`, per
page).  The scripted server of the harness lays the rows out per ITS OWN `effective_cols` (harness/src/c17/pager.rs);
the prepared statement's metadata id is 0 with the extension (none without), page k announces id k + 1. -/
def effectiveCols (prepared : List (String × CqlTy)) (ext skip : Bool)
    (pages : List (Nat × Option (List (String × CqlTy)) × Bool × Nat)) : Option (List PageM) :=
  let raws (rows cut : Nat) : List Bool := List.replicate (min cut rows) true ++ List.replicate (rows - cut) false
  let resps : List C17Meta.PageResp := (pages.zipIdx).map fun (p, k) =>
    match p with
    | (_, some cs, newId, _) => ⟨if newId then 0x0009 else 0x0001, ⟨k + 1, cs⟩⟩
    | (_, none, _, _) => ⟨0x0005, ⟨k + 1, []⟩⟩
  match C17Meta.pagesInForce skip ext ⟨if ext then some 0 else none, prepared⟩ resps with
  | none => none
  | some colss =>
    -- a row without columns has no bytes: such a page cannot be truncated
    some ((pages.zip colss).map fun ((rows, _, _, cut), cs) => ⟨cs, raws rows (if cs.isEmpty then rows else cut)⟩)

/-- `T::type_check` of the target row type against a page's columns.  The derived struct `PkV { pk: i32, v: i64 }`
matches BY NAME (the derive macros are C16's subject; here: exactly its two fields, in any order). -/
def targetCheck (target : String) : Option (List (String × CqlTy) → Bool) :=
  let cols (cs : List Carrier) := fun (specs : List (String × CqlTy)) => (tcheckRow (.cols cs) (specs.map (·.2))).isNone
  match target with
  | "row" => some (fun _ => true)
  | "t_i32_i64" => some (cols [.scalar .i32, .scalar .i64])
  | "t_i32_str" => some (cols [.scalar .i32, .scalar .str])
  | "t_i32" => some (cols [.scalar .i32])
  | "s_pk_v" => some (fun specs => specs.length == 2 &&
      specs.any (fun c => c.1 == "pk" && deserAccepts (.scalar .i32) c.2) &&
      specs.any (fun c => c.1 == "v" && deserAccepts (.scalar .i64) c.2))
  | _ => none

def runPager (case : String) : String :=
  match segs case with
  | hd :: prep :: pageSegs =>
    match words hd, parseCols (words prep), pageSegs.mapM parsePage with
    | ["pager", target, ext, skip, consumer], some prepared, some pages =>
      -- `S/<target>`: the same stream obtained through Session::execute_iter
      match targetCheck (if target.startsWith "S/" then (target.drop 2).toString else target) with
      | none => "bad-case"
      | some check =>
        match effectiveCols prepared (ext == "1") (skip == "1") pages with
        | none => "bad-case"
        | some pageMs =>
        match typedStream check pageMs with
        | none => "ctor:TypeCheck"
        | some outs =>
          if consumer == "stop" then
            let seen := untilFirstError outs
            let rows := (seen.filter (fun o => match o with | .row _ => true | _ => false)).length
            let fin := match seen.getLast? with
              | some (.typeErr _) => "TypeCheck"
              | some (.rawErr _) => "err:RowDeserialization"
              | _ => "end"
            s!"rows={rows} fin={fin}"
          else if consumer == "all" then
            -- run-length encoding of the items: r<n> rows, e<n> type-check errors
            let tagOf (o : StreamOut) : String := match o with | .row _ => "r" | .typeErr _ => "e" | .rawErr _ => "x"
            let step (acc : List (String × Nat)) (o : StreamOut) : List (String × Nat) :=
              match acc with
              | (b, n) :: r => if b == tagOf o then (b, n + 1) :: r else (tagOf o, 1) :: (b, n) :: r
              | [] => [(tagOf o, 1)]
            let runs := (outs.foldl step []).reverse
            let rle := String.join (runs.map fun (b, n) => b ++ toString n)
            s!"seq={if rle.isEmpty then "-" else rle} fin=end"
          else "bad-case"
    | _, _, _ => "bad-case"
  | _ => "bad-case"

/-! ### `rowsmeta`: one RESULT::Rows body parsed WITH a cached metadata — which metadata is in force -/

def nativeName : CqlTy → String
  | .native .int => "int" | .native .bigint => "bigint" | .native .double => "double" | .native .text => "text"
  | .native .boolean => "boolean" | _ => "?"

def colsStr (cs : List (String × CqlTy)) : String :=
  toString cs.length ++ String.join (cs.map fun (n, t) => " " ++ n ++ " " ++ nativeName t)

/-- `rowsmeta <target> <ext> <flags> | none or <id|-> cols | <new id> cols | <rows>` -/
def runRowsMeta (case : String) : String :=
  match segs case with
  | [hd, cseg, sseg, rseg] =>
    let cached : Option (Option C17Meta.Meta) :=
      match words cseg with
      | ["none"] => some none
      | idw :: rest =>
        match parseCols rest with
        | some cs => if idw == "-" then some (some ⟨none, cs⟩) else idw.toNat?.map fun i => some ⟨some i, cs⟩
        | none => none
      | [] => none
    let sent : Option C17Meta.Sent :=
      match words sseg with
      | idw :: rest => match idw.toNat?, parseCols rest with
        | some i, some cs => some ⟨i, cs⟩
        | _, _ => none
      | [] => none
    match words hd, cached, sent, rseg.toNat? with
    | ["rowsmeta", target, ext, flags], some cached, some sent, some rows =>
      match targetCheck target, flags.toNat? with
      | some check, some flags =>
        if !(ext == "0" || ext == "1") then "bad-case" else
        match C17Meta.parsePresence (ext == "1") flags with
        | none => "err presence"
        | some p =>
          let m := (C17Meta.deserializeMetadata cached p sent).inner
          let idStr := match m.id with | some i => toString i | none => "-"
          s!"cols={colsStr m.cols} id={idStr} iter={if check m.cols then s!"ok rows={rows}" else "typecheck"}"
      | _, _ => "bad-case"
    | _, _, _, _ => "bad-case"
  | _ => "bad-case"

def run (case impl : String) : String :=
  match (words case).head? with
  | some "ser" =>
    match segs case with
    | [_, cseg, tseg, vseg] =>
      match carOf cseg, tyOf tseg, valOf vseg with
      | some c, some t, some v =>
        if !hasType c v then "bad-case value-not-of-carrier"
        else
          match ser t v true [] with
          | (b, none) => "ok " ++ toHex b
          | (_, some e) => "err " ++ serErrStr e
      | _, _, _ => "bad-case"
    | _ => "bad-case"
  | some "tc" =>
    match segs case with
    | [_, cseg, tseg] =>
      match carOf cseg, tyOf tseg with
      | some c, some t => tcStr (tcheck c t)
      | _, _ => "bad-case"
    | _ => "bad-case"
  | some "tcrow" =>
    match segs case with
    | [_, cseg, tseg] =>
      let ttoks := words tseg
      let ts := match ttoks with
        | m :: r => match m.toNat? with
          | some m => match parseTys (r.length + 1) m r with
            | some (ts, []) => some ts
            | _ => none
          | none => none
        | [] => none
      let rc := match words cseg with
        | ["untyped"] => some RowCarrier.untyped
        | n :: r => match n.toNat? with
          | some n => match parseCars (r.length + 1) n r with
            | some (cs, []) => some (RowCarrier.cols cs)
            | _ => none
          | none => none
        | [] => none
      match rc, ts with
      | some rc, some ts => tcStr (tcheckRow rc ts)
      | _, _ => "bad-case"
    | _ => "bad-case"
  | some "pager" => runPager case
  | some "rowsmeta" => runRowsMeta case
  | some "deser" => runDeser case impl.trimAscii.toString
  | some "deserrow" => runDeserRow case impl.trimAscii.toString
  | some "bindrow" => runBindRow case
  | some "batch" => runBatch case
  | some "sbatch" => runSBatch case
  | some "squery" => runSQuery case
  | some "frame" => runFrame (words case).tail
  | some "rows" =>
    match segs case with
    | [_, cseg, tseg, nseg] =>
      let ttoks := words tseg
      let ts := match ttoks with
        | m :: r => match m.toNat? with
          | some m => match parseTys (r.length + 1) m r with
            | some (ts, []) => some ts
            | _ => none
          | none => none
        | [] => none
      let rc := match words cseg with
        | ["untyped"] => some RowCarrier.untyped
        | n :: r => match n.toNat? with
          | some n => match parseCars (r.length + 1) n r with
            | some (cs, []) => some (RowCarrier.cols cs)
            | _ => none
          | none => none
        | [] => none
      match rc, ts, nseg.toNat? with
      | some rc, some ts, some n =>
        match typedIterNew rc ts n with
        | .error e => "typecheck-" ++ tcStr (some e)
        | .ok it => s!"ok rows={it.remaining}"
      | _, _, _ => "bad-case"
    | _ => "bad-case"
  | some "row" =>
    let body := (case.trimAscii.toString.drop 3).toString
    let ops := (body.splitOn " ; ").map (fun s => s.trimAscii.toString)
    match runOps ops SV.empty [] with
    | none => "bad-case"
    | some (sv, outs) => " ".intercalate outs ++ " = " ++ cellsStr sv.bytes ++ " " ++ digest sv.bytes
  | some "bind" => runBind (words case).tail
  | some "big" => impl
  | _ => "bad-case"

end ScyllaVerif.Drive.C17

import ScyllaVerif.Model.Util
import ScyllaVerif.Model.Codec
import ScyllaVerif.Model.TypedCarrier
import ScyllaVerif.Model.C01TypedDecode
import ScyllaVerif.Model.C01ExternalConv
import ScyllaVerif.Model.C01VarintNorm
/-! Line-protocol driver for C01.

Notation (space separated prefix tokens, explicit counts; strings / bytes as hex, `-` = empty; every
fixed-width number is the hex of its big-endian two's-complement bit pattern):

  type  ::= ascii | boolean | blob | counter | date | decimal | double | duration | float | int | bigint
          | text | timestamp | inet | smallint | tinyint | time | timeuuid | uuid | varint
          | list T | set T | map K V | tuple n T1 … Tn | udt <ks> <name> n <fname1> T1 … | vector dim T
  value ::= null | unset | empty | ascii <hex> | text <hex> | blob <hex> | boolean 0|1
          | tinyint <2> | smallint <4> | int <8> | bigint <16> | counter <16> | float <8> | double <16>
          | date <8> | time <16> | timestamp <16> | timeuuid <32> | uuid <32> | inet <8 or 32>
          | varint <hex> | decimal <8> <hex> | duration <8> <8> <16>
          | list n v… | set n v… | vector n v… | map n k v … | tuple n f… | udt <ks> <name> n <fname> f …

Cases:
  `dyn T V`        → `<cell hex> -> <decoded value>` | `<cell hex> -> err K` | `err K`
  `carrier C T V`  → `<cell hex> => <typed decode of it>` | `err K`      (V is the embedding of the Rust carrier value; the model runs
                     the TYPED serializer `TypedCarrier.serCarrier` of carrier C on the un-embedded value)
  `carrierset C T V` → `ok <header hex> <entries sorted>` | `err K` (hash-based carriers: entry order is arbitrary)
  `dec T <hex>|null` → `<decoded value>` | `err K`  (decoder on an arbitrary cell body)
  `dynraw T V`     → `<content hex>` | `err K`   (`write_size = false` at the top level)
  `big blob n`     → `ok <len>` | `err SizeOverflow`  (size check only)
  `conv K n…`      → the driver's conversion between an external-crate value (given by components) and a core carrier
  `tdeciter E T <hex>` → what `ListlikeIterator<E>` / `VectorIterator<E>` / `MapIterator<E,E>` / `UdtIterator` yield
  `vnorm eq A B sa sb` | `vnorm set n h…` | `vnorm map n h v…` → the normalised `==` / `Hash` of the varint carriers and
                     `collect()` into `HashSet<CqlVarint>` / `HashMap<CqlVarint, i32>` (`Model/C01VarintNorm.lean`)
  `tdec C T <hex>` → `<embedding of the decoded Rust value>` | `err K` | `no-typecheck` (typed deserializer)
  `carrierser C T V` → `<cell hex>` | `err K` (carriers without a `DeserializeValue` impl)
-/
namespace ScyllaVerif.Drive.C01
open ScyllaVerif.Util ScyllaVerif.Cql ScyllaVerif.Codec ScyllaVerif.Vint ScyllaVerif.TypedCarrier ScyllaVerif.TypedDecode

def utf8ok (bs : List UInt8) : Bool := ByteArray.validateUTF8 ⟨bs.toArray⟩

def strOfHex (s : String) : Option String :=
  match parseHex s with
  | none => none
  | some bs => String.fromUTF8? ⟨bs.toArray⟩

def hexOfStr (s : String) : String := toHex s.toUTF8.toList

def nativeOfName : String → Option NativeTy
  | "ascii" => some .ascii | "boolean" => some .boolean | "blob" => some .blob | "counter" => some .counter
  | "date" => some .date | "decimal" => some .decimal | "double" => some .double
  | "duration" => some .duration | "float" => some .float | "int" => some .int | "bigint" => some .bigint
  | "text" => some .text | "timestamp" => some .timestamp | "inet" => some .inet
  | "smallint" => some .smallint | "tinyint" => some .tinyint | "time" => some .time
  | "timeuuid" => some .timeuuid | "uuid" => some .uuid | "varint" => some .varint
  | _ => none

/-! ### parsing (fuel = number of tokens) -/

mutual
def parseTy : Nat → List String → Option (CqlTy × List String)
  | 0, _ => none
  | _, [] => none
  | fuel + 1, tok :: rest =>
    match tok with
    | "list" => (parseTy fuel rest).map fun (t, r) => (.list t, r)
    | "set" => (parseTy fuel rest).map fun (t, r) => (.set t, r)
    | "map" =>
      match parseTy fuel rest with
      | none => none
      | some (k, r) => (parseTy fuel r).map fun (v, r2) => (.map k v, r2)
    | "tuple" =>
      match rest with
      | n :: r => match n.toNat? with
        | none => none
        | some n => (parseTys fuel n r).map fun (ts, r2) => (.tuple ts, r2)
      | _ => none
    | "udt" =>
      match rest with
      | ks :: name :: n :: r =>
        match strOfHex ks, strOfHex name, n.toNat? with
        | some ks, some name, some n => (parseFieldTys fuel n r).map fun (fs, r2) => (.udt ks name fs, r2)
        | _, _, _ => none
      | _ => none
    | "vector" =>
      match rest with
      | d :: r => match d.toNat? with
        | none => none
        | some d => (parseTy fuel r).map fun (t, r2) => (.vector t d, r2)
      | _ => none
    | other => (nativeOfName other).map fun n => (.native n, rest)
def parseTys : Nat → Nat → List String → Option (List CqlTy × List String)
  | 0, _, _ => none
  | _, 0, toks => some ([], toks)
  | fuel + 1, n + 1, toks =>
    match parseTy fuel toks with
    | none => none
    | some (t, r) => (parseTys fuel n r).map fun (ts, r2) => (t :: ts, r2)
def parseFieldTys : Nat → Nat → List String → Option (List (String × CqlTy) × List String)
  | 0, _, _ => none
  | _, 0, toks => some ([], toks)
  | fuel + 1, n + 1, toks =>
    match toks with
    | name :: r0 =>
      match strOfHex name, parseTy fuel r0 with
      | some name, some (t, r) => (parseFieldTys fuel n r).map fun (fs, r2) => ((name, t) :: fs, r2)
      | _, _ => none
    | [] => none
end

/-- A hex token of exactly `n` bytes as a number. -/
def hexNat (n : Nat) (s : String) : Option Nat :=
  match parseHex s with
  | some bs => if bs.length = n then some (beNat bs) else none
  | none => none

mutual
def parseVal : Nat → List String → Option (CqlVal × List String)
  | 0, _ => none
  | _, [] => none
  | fuel + 1, tok :: rest =>
    match tok, rest with
    | "null", r => some (.null, r)
    | "unset", r => some (.unset, r)
    | "empty", r => some (.empty, r)
    | "ascii", h :: r => (parseHex h).map fun b => (.ascii b, r)
    | "text", h :: r => (parseHex h).map fun b => (.text b, r)
    | "blob", h :: r => (parseHex h).map fun b => (.blob b, r)
    | "varint", h :: r => (parseHex h).map fun b => (.varint b, r)
    | "boolean", h :: r => if h == "1" then some (.boolean true, r) else if h == "0" then some (.boolean false, r) else none
    | "tinyint", h :: r => (hexNat 1 h).map fun x => (.tinyint (BitVec.ofNat 8 x), r)
    | "smallint", h :: r => (hexNat 2 h).map fun x => (.smallint (BitVec.ofNat 16 x), r)
    | "int", h :: r => (hexNat 4 h).map fun x => (.int (BitVec.ofNat 32 x), r)
    | "bigint", h :: r => (hexNat 8 h).map fun x => (.bigint (BitVec.ofNat 64 x), r)
    | "counter", h :: r => (hexNat 8 h).map fun x => (.counter (BitVec.ofNat 64 x), r)
    | "float", h :: r => (hexNat 4 h).map fun x => (.float (BitVec.ofNat 32 x), r)
    | "double", h :: r => (hexNat 8 h).map fun x => (.double (BitVec.ofNat 64 x), r)
    | "date", h :: r => (hexNat 4 h).map fun x => (.date (BitVec.ofNat 32 x), r)
    | "time", h :: r => (hexNat 8 h).map fun x => (.time (BitVec.ofNat 64 x), r)
    | "timestamp", h :: r => (hexNat 8 h).map fun x => (.timestamp (BitVec.ofNat 64 x), r)
    | "timeuuid", h :: r => (hexNat 16 h).map fun x => (.timeuuid (BitVec.ofNat 128 x), r)
    | "uuid", h :: r => (hexNat 16 h).map fun x => (.uuid (BitVec.ofNat 128 x), r)
    | "inet", h :: r =>
      match hexNat 4 h, hexNat 16 h with
      | some x, _ => some (.inet4 (BitVec.ofNat 32 x), r)
      | _, some x => some (.inet6 (BitVec.ofNat 128 x), r)
      | _, _ => none
    | "decimal", s :: h :: r =>
      match hexNat 4 s, parseHex h with
      | some s, some b => some (.decimal (BitVec.ofNat 32 s) b, r)
      | _, _ => none
    | "duration", m :: d :: n :: r =>
      match hexNat 4 m, hexNat 4 d, hexNat 8 n with
      | some m, some d, some n => some (.duration (BitVec.ofNat 32 m) (BitVec.ofNat 32 d) (BitVec.ofNat 64 n), r)
      | _, _, _ => none
    | "list", n :: r => match n.toNat? with
      | some n => (parseVals fuel n r).map fun (vs, r2) => (.list vs, r2)
      | none => none
    | "set", n :: r => match n.toNat? with
      | some n => (parseVals fuel n r).map fun (vs, r2) => (.set vs, r2)
      | none => none
    | "vector", n :: r => match n.toNat? with
      | some n => (parseVals fuel n r).map fun (vs, r2) => (.vector vs, r2)
      | none => none
    | "tuple", n :: r => match n.toNat? with
      | some n => (parseVals fuel n r).map fun (vs, r2) => (.tuple vs, r2)
      | none => none
    | "map", n :: r => match n.toNat? with
      | some n => (parsePairs fuel n r).map fun (kvs, r2) => (.map kvs, r2)
      | none => none
    | "udt", ks :: name :: n :: r =>
      match strOfHex ks, strOfHex name, n.toNat? with
      | some ks, some name, some n => (parseFields fuel n r).map fun (fs, r2) => (.udt ks name fs, r2)
      | _, _, _ => none
    | _, _ => none
def parseVals : Nat → Nat → List String → Option (List CqlVal × List String)
  | 0, _, _ => none
  | _, 0, toks => some ([], toks)
  | fuel + 1, n + 1, toks =>
    match parseVal fuel toks with
    | none => none
    | some (v, r) => (parseVals fuel n r).map fun (vs, r2) => (v :: vs, r2)
def parsePairs : Nat → Nat → List String → Option (List (CqlVal × CqlVal) × List String)
  | 0, _, _ => none
  | _, 0, toks => some ([], toks)
  | fuel + 1, n + 1, toks =>
    match parseVal fuel toks with
    | none => none
    | some (k, r) =>
      match parseVal fuel r with
      | none => none
      | some (v, r1) => (parsePairs fuel n r1).map fun (kvs, r2) => ((k, v) :: kvs, r2)
def parseFields : Nat → Nat → List String → Option (List (String × CqlVal) × List String)
  | 0, _, _ => none
  | _, 0, toks => some ([], toks)
  | fuel + 1, n + 1, toks =>
    match toks with
    | name :: r0 =>
      match strOfHex name, parseVal fuel r0 with
      | some name, some (v, r) => (parseFields fuel n r).map fun (fs, r2) => ((name, v) :: fs, r2)
      | _, _ => none
    | [] => none
end

/-! ### printing -/

def hexBV (bytes : Nat) (x : Nat) : String := toHex (beBytes bytes x)

mutual
def showVal : CqlVal → List String
  | .null => ["null"]
  | .unset => ["unset"]
  | .empty => ["empty"]
  | .ascii s => ["ascii", toHex s]
  | .text s => ["text", toHex s]
  | .blob b => ["blob", toHex b]
  | .boolean b => ["boolean", if b then "1" else "0"]
  | .tinyint x => ["tinyint", hexBV 1 x.toNat]
  | .smallint x => ["smallint", hexBV 2 x.toNat]
  | .int x => ["int", hexBV 4 x.toNat]
  | .bigint x => ["bigint", hexBV 8 x.toNat]
  | .counter x => ["counter", hexBV 8 x.toNat]
  | .float x => ["float", hexBV 4 x.toNat]
  | .double x => ["double", hexBV 8 x.toNat]
  | .date x => ["date", hexBV 4 x.toNat]
  | .time x => ["time", hexBV 8 x.toNat]
  | .timestamp x => ["timestamp", hexBV 8 x.toNat]
  | .timeuuid x => ["timeuuid", hexBV 16 x.toNat]
  | .uuid x => ["uuid", hexBV 16 x.toNat]
  | .inet4 a => ["inet", hexBV 4 a.toNat]
  | .inet6 a => ["inet", hexBV 16 a.toNat]
  | .varint b => ["varint", toHex b]
  | .decimal s b => ["decimal", hexBV 4 s.toNat, toHex b]
  | .duration m d n => ["duration", hexBV 4 m.toNat, hexBV 4 d.toNat, hexBV 8 n.toNat]
  | .list vs => "list" :: toString vs.length :: showVals vs
  | .set vs => "set" :: toString vs.length :: showVals vs
  | .vector vs => "vector" :: toString vs.length :: showVals vs
  | .tuple vs => "tuple" :: toString vs.length :: showVals vs
  | .map kvs => "map" :: toString kvs.length :: showPairs kvs
  | .udt ks name fs => "udt" :: hexOfStr ks :: hexOfStr name :: toString fs.length :: showFields fs
def showVals : List CqlVal → List String
  | [] => []
  | v :: vs => showVal v ++ showVals vs
def showPairs : List (CqlVal × CqlVal) → List String
  | [] => []
  | (k, v) :: r => showVal k ++ showVal v ++ showPairs r
def showFields : List (String × CqlVal) → List String
  | [] => []
  | (n, v) :: r => hexOfStr n :: (showVal v ++ showFields r)
end

def serErrName : SerErr → String
  | .mismatchedType => "MismatchedType" | .notEmptyable => "NotEmptyable" | .notSetOrList => "NotSetOrList"
  | .notMap => "NotMap" | .notTuple => "NotTuple" | .wrongElementCount => "WrongElementCount"
  | .notUdt => "NotUdt" | .nameMismatch => "NameMismatch" | .noSuchFieldInUdt => "NoSuchFieldInUdt"
  | .sizeOverflow => "SizeOverflow" | .tooManyElements => "TooManyElements"
  | .invalidNumberOfElements => "InvalidNumberOfElements" | .bareNullInVector => "BareNullInVector"

def deErrName : DeErr → String
  | .expectedNonNull => "ExpectedNonNull" | .byteLengthMismatch => "ByteLengthMismatch"
  | .expectedAscii => "ExpectedAscii" | .invalidUtf8 => "InvalidUtf8" | .badDecimalScale => "BadDecimalScale"
  | .badDate => "BadDate" | .valueOverflow => "ValueOverflow" | .badInetLength => "BadInetLength"
  | .rawCqlBytesReadError => "RawCqlBytesReadError" | .lengthDeserializationFailed => "LengthDeserializationFailed"

def showDec : Except DeErr CqlVal → String
  | .ok v => " ".intercalate (showVal v)
  | .error e => "err " ++ deErrName e

/-! ### carriers: name → descriptor (prefix grammar, tokens separated by `_`), embedding → Rust value -/

def leafCarrier : String → Option Carrier
  | "i8" => some .i8 | "i16" => some .i16 | "i32" => some .i32 | "i64" => some .i64 | "f32" => some .f32
  | "f64" => some .f64 | "bool" => some .bool | "string" => some .string | "blob" => some .blob
  | "inet" => some .inet | "uuid" => some .uuid | "timeuuid" => some .timeuuid | "date" => some .date
  | "time" => some .time | "timestamp" => some .timestamp | "duration" => some .duration
  | "varint" => some .varint | "decimal" => some .decimal | "counter" => some .counter | "dyn" => some .dyn
  -- identified with their content / their core carrier after conversion
  | "bytes" | "bytesref" | "cowbytes" | "bytesarr4" | "bytesarr16" => some .blob
  | "strref" | "cowstr" | "boxstr" | "arcstr" | "secret08string" | "secret10string" => some .string
  | "varintborrowed" | "bigint03" | "bigint04" => some .varint
  | "decimalborrowed" | "bigdecimal" => some .decimal
  | "chronodate" | "timedate" => some .date
  | "chronotime" | "timetime" => some .time
  | "chronodatetime" | "timeoffsetdatetime" => some .timestamp
  | "secretbox10i64" => some .i64
  | _ => none

mutual
def parseCarrier : Nat → List String → Option (Carrier × List String)
  | 0, _ => none
  | _, [] => none
  | fuel + 1, tok :: rest =>
    match tok with
    | "opt" => (parseCarrier fuel rest).map fun (c, r) => (.opt c, r)
    | "munset" => (parseCarrier fuel rest).map fun (c, r) => (.maybeUnset c, r)
    | "mempty" => (parseCarrier fuel rest).map fun (c, r) => (.maybeEmpty c, r)
    | "vec" | "slice" | "secretslice10" => (parseCarrier fuel rest).map fun (c, r) => (.vec c, r)
    | "box" | "arc" | "dynser" => parseCarrier fuel rest
    | "bset" | "hset" => (parseCarrier fuel rest).map fun (c, r) => (.set c, r)
    | "bmap" | "hmap" =>
      match parseCarrier fuel rest with
      | none => none
      | some (k, r) => (parseCarrier fuel r).map fun (v, r2) => (.map k v, r2)
    | "tup1" => (parseCarriers fuel 1 rest).map fun (cs, r) => (.tuple cs, r)
    | "tup2" => (parseCarriers fuel 2 rest).map fun (cs, r) => (.tuple cs, r)
    | "tup3" => (parseCarriers fuel 3 rest).map fun (cs, r) => (.tuple cs, r)
    | "tup4" => (parseCarriers fuel 4 rest).map fun (cs, r) => (.tuple cs, r)
    | "tup16" => (parseCarriers fuel 16 rest).map fun (cs, r) => (.tuple cs, r)
    | leaf => (leafCarrier leaf).map fun c => (c, rest)
def parseCarriers : Nat → Nat → List String → Option (List Carrier × List String)
  | 0, _, _ => none
  | _, 0, toks => some ([], toks)
  | fuel + 1, n + 1, toks =>
    match parseCarrier fuel toks with
    | none => none
    | some (c, r) => (parseCarriers fuel n r).map fun (cs, r2) => (c :: cs, r2)
end

/-- `hset_*` / `hmap_*` carriers are the hash family, everything else B-tree. -/
def flavourOf (name : String) : Flavour :=
  if name.startsWith "hset" || name.startsWith "hmap" then .hash else .btree

def carrierOfName (name : String) : Option Carrier :=
  let toks := name.splitOn "_"
  match parseCarrier (toks.length + 1) toks with
  | some (c, []) => some c
  | _ => none

def unembedPrim : Carrier → CqlVal → Option RustVal
  | .i8, .tinyint x => some (.i8 x) | .i16, .smallint x => some (.i16 x) | .i32, .int x => some (.i32 x)
  | .i64, .bigint x => some (.i64 x) | .f32, .float x => some (.f32 x) | .f64, .double x => some (.f64 x)
  | .bool, .boolean b => some (.bool b) | .string, .text s => some (.string s) | .string, .ascii s => some (.string s)
  | .blob, .blob b => some (.blob b) | .inet, .inet4 a => some (.inet4 a) | .inet, .inet6 a => some (.inet6 a)
  | .uuid, .uuid x => some (.uuid x) | .timeuuid, .timeuuid x => some (.timeuuid x) | .date, .date x => some (.date x)
  | .time, .time x => some (.time x) | .timestamp, .timestamp x => some (.timestamp x)
  | .duration, .duration m d n => some (.duration m d n) | .varint, .varint b => some (.varint b)
  | .decimal, .decimal s b => some (.decimal s b) | .counter, .counter x => some (.counter x)
  | _, _ => none

mutual
/-- The Rust value of carrier type `c` whose embedding is `v` (the harness does the same on its side). -/
def unembed : Carrier → CqlVal → Option RustVal
  | .opt c, v => match v with
    | .null => some .none
    | _ => (unembed c v).map .some
  | .maybeUnset c, v => match v with
    | .unset => some .unset
    | _ => (unembed c v).map .set
  | .maybeEmpty c, v => match v with
    | .empty => some .empty
    | _ => (unembed c v).map .value
  | .vec c, v => match v with
    | .list vs | .set vs | .vector vs => (vs.mapM (fun x => unembed c x)).map .seq
    | _ => none
  | .set c, v => match v with
    | .list vs | .set vs => (vs.mapM (fun x => unembed c x)).map .seq
    | _ => none
  | .map k w, v => match v with
    | .map kvs => (kvs.mapM (fun (kv : CqlVal × CqlVal) => match unembed k kv.1, unembed w kv.2 with
        | some a, some b => some (a, b)
        | _, _ => none)).map .pairs
    | _ => none
  | .tuple cs, v => match v with
    | .tuple fs => (unembedTuple cs fs).map .tuple
    | _ => none
  | .dyn, v => some (.dyn v)
  | c, v => unembedPrim c v
def unembedTuple : List Carrier → List CqlVal → Option (List RustVal)
  | [], [] => some []
  | c :: cs, f :: fs =>
    match unembed c f, unembedTuple cs fs with
    | some a, some r => some (a :: r)
    | _, _ => none
  | _, _ => none
end

/-- One `[bytes]` item at the front of `bs`: its raw bytes (prefix included) and the rest. -/
def splitItem (bs : List UInt8) : Option (List UInt8 × List UInt8) :=
  if bs.length < 4 then none
  else
    let n := beNat (bs.take 4)
    let len := if n > i32Max then 0 else n
    if bs.length < 4 + len then none else some (bs.take (4 + len), bs.drop (4 + len))

/-- The entries (1 or 2 items each) of a collection body, as hex strings. -/
def splitEntries (pair : Bool) : Nat → List UInt8 → Option (List String)
  | 0, _ => none
  | _, [] => some []
  | fuel + 1, bs =>
    match splitItem bs with
    | none => none
    | some (a, r1) =>
      if pair then
        match splitItem r1 with
        | none => none
        | some (b, r2) => (splitEntries pair fuel r2).map fun es => toHex (a ++ b) :: es
      else (splitEntries pair fuel r1).map fun es => toHex a :: es

/-- Canonical form of a collection cell whose entries come in arbitrary order (hash-based carriers). -/
def canonUnordered (cell : List UInt8) (pair : Bool) : String :=
  if cell.length < 8 then toHex cell
  else
    match splitEntries pair (cell.length + 1) (cell.drop 8) with
    | none => toHex cell
    | some es =>
      let sorted := es.mergeSort (fun a b => compare a b != .gt)
      toHex (cell.take 8) ++ " " ++ (if sorted.isEmpty then "-" else ",".intercalate sorted)

/-- A `carrier` case: the typed serializer of the carrier on the value whose embedding is given. -/
def runCarrier (name : String) (t : CqlTy) (v : CqlVal) : Option (Except SerErr Bytes) :=
  match carrierOfName name with
  | none => none
  | some c =>
    match unembed c v with
    | none => none
    | some x => some (serCarrier c t x true [])

/-- `conv` cases: the arithmetic model of the external-crate conversions (`Model/C01ExternalConv.lean`). -/
def runConv (w : List String) : String :=
  open ScyllaVerif.ExternalConv in
  match w, w.tail.mapM String.toInt? with
  | "time_date" :: _, some [jd] => toString (timeDateToCql jd)
  | "cql_time_date" :: _, some [d] => match cqlToTimeDate d with
    | some jd => toString jd
    | none => "overflow"
  | "time_time" :: _, some [h, m, s, n] => toString (timeTimeToCql h m s n)
  | "cql_time_time" :: _, some [x] => match cqlToTimeTime x with
    | some (h, m, s, n) => s!"{h} {m} {s} {n}"
    | none => "overflow"
  | "time_odt" :: _, some [secs, nanos] => toString (timeOdtToCql secs nanos)
  | "cql_time_odt" :: _, some [ms] => match cqlToTimeOdt ms with
    | some (secs, nanos) => s!"{secs} {nanos}"
    | none => "overflow"
  | "chrono_time" :: _, some [secs, frac] => match chronoTimeToCql secs frac with
    | some x => toString x
    | none => "overflow"
  | "cql_chrono_time" :: _, some [x] => match cqlToChronoTime x with
    | some (secs, frac) => s!"{secs} {frac}"
    | none => "overflow"
  | "chrono_dt" :: _, some [secs, millis] => toString (chronoDtToCql secs millis)
  | "cql_chrono_dt" :: _, some [ms] => match cqlToChronoDt ms with
    | some (a, b) => s!"{a} {b}"
    | none => "overflow"
  | "chrono_date" :: _, some [days] => toString (chronoDateToCql days)
  | "bounds" :: _, some [] =>
    s!"{chronoDateMinDays} {chronoDateMaxDays} {chronoDtMinMs} {chronoDtMaxMs} {timeDateMinJd} {timeDateMaxJd}"
  | "de_chrono_date" :: _, some [d] => match deChronoDate d with
    | some x => toString x
    | none => "ValueOverflow"
  | "de_time_date" :: _, some [d] => match deTimeDate d with
    | some x => toString x
    | none => "ValueOverflow"
  | "de_chrono_dt" :: _, some [ms] => match deChronoDt ms with
    | some (a, b) => s!"{a} {b}"
    | none => "ValueOverflow"
  | "de_time_odt" :: _, some [ms] => match deTimeOdt ms with
    | some (a, b) => s!"{a} {b}"
    | none => "ValueOverflow"
  | "de_chrono_time" :: _, some [x] => match deChronoTime x with
    | some (a, b) => s!"{a} {b}"
    | none => "ValueOverflow"
  | "de_time_time" :: _, some [x] => match deTimeTime x with
    | some (h, m, s, n) => s!"{h} {m} {s} {n}"
    | none => "ValueOverflow"
  | "ser_chrono_time" :: _, some [secs, frac] => match chronoTimeToCql secs frac with
    | some x => toString x
    | none => "ValueOverflow"
  | _, _ => "bad-case"

/-- `conv ser_bigdecimal <scale> <hex>`: `BigDecimal` with an `i64` exponent bound to `decimal`. -/
def runBigDecimal (scale : Int) (b : List UInt8) : String :=
  match ScyllaVerif.ExternalConv.bigDecimalScale scale with
  | none => "ValueOverflow"
  | some s =>
    match encImpl (.native .decimal) (.decimal (BitVec.ofInt 32 s) b) true [] with
    | .ok cell => toHex cell
    | .error e => "err " ++ serErrName e

/-- `vnorm` cases: `Model/C01VarintNorm.lean`. -/
def runVnorm (w : List String) : String :=
  open ScyllaVerif.VarintNorm in
  let b01 (b : Bool) : String := if b then "1" else "0"
  let i32? (s : String) : Option Int := match s.toInt? with
    | some x => if -2147483648 ≤ x ∧ x ≤ 2147483647 then some x else none
    | none => none
  let sortJoin (xs : List String) : String :=
    let sorted := xs.mergeSort (fun a b => compare a b != .gt)
    if sorted.isEmpty then "-" else ",".intercalate sorted
  let rec pairs : List String → Option (List (List UInt8 × Int))
    | [] => some []
    | [_] => none
    | k :: v :: rest =>
      match parseHex k, i32? v, pairs rest with
      | some k, some v, some r => some ((k, v) :: r)
      | _, _, _ => none
  match w with
  | ["eq", ha, hb, sa, sb] =>
    match parseHex ha, parseHex hb, i32? sa, i32? sb with
    | some a, some b, some sa, some sb =>
      s!"eq={b01 (varintEq a b)} heq={b01 (hashInput a == hashInput b)} deq={b01 (decimalEq a sa b sb)}"
    | _, _, _, _ => "bad-case"
  | "set" :: n :: hs =>
    match n.toNat?, hs.mapM parseHex with
    | some n, some es =>
      if es.length != n then "bad-case"
      else
        let out := collectSet es
        s!"set {out.length} " ++ sortJoin (out.map toHex)
    | _, _ => "bad-case"
  | "map" :: n :: rest =>
    match n.toNat?, pairs rest with
    | some n, some kvs =>
      if kvs.length != n then "bad-case"
      else
        let out := collectMap kvs
        s!"map {out.length} " ++ sortJoin (out.map (fun kv => toHex kv.1 ++ "=" ++ toString kv.2))
    | _, _ => "bad-case"
  | _ => "bad-case"

def run (case _impl : String) : String :=
  let toks := words case
  let fuel := toks.length + 1
  match toks with
  | "dyn" :: rest =>
    match parseTy fuel rest with
    | none => "bad-case"
    | some (t, r) =>
      match parseVal fuel r with
      | some (v, []) =>
        match encImpl t v true [] with
        | .error e => "err " ++ serErrName e
        | .ok cell => toHex cell ++ " -> " ++ showDec (decBytes utf8ok t cell)
      | _ => "bad-case"
  | "carrier" :: name :: rest =>
    match parseTy fuel rest with
    | none => "bad-case"
    | some (t, r) =>
      match parseVal fuel r, carrierOfName name with
      | some (v, []), some c =>
        match runCarrier name t v with
        | none => "bad-case"
        | some (.error e) => "err " ++ serErrName e
        | some (.ok cell) =>
          -- the carrier's own bytes through the TYPED deserializer (`TypedDecode.deserCarrier`)
          toHex cell ++ " => " ++ (match typedRead utf8ok (flavourOf name) c t cell with
            | none => "no-typecheck"
            | some (.error e) => "err " ++ deErrName e
            | some (.ok x) => " ".intercalate (showVal (embed c x)))
      | _, _ => "bad-case"
  | "carrierser" :: name :: rest =>
    match parseTy fuel rest with
    | none => "bad-case"
    | some (t, r) =>
      match parseVal fuel r with
      | some (v, []) =>
        match runCarrier name t v with
        | none => "bad-case"
        | some (.error e) => "err " ++ serErrName e
        | some (.ok cell) => toHex cell
      | _ => "bad-case"
  | "carrierset" :: name :: rest =>
    match parseTy fuel rest with
    | none => "bad-case"
    | some (t, r) =>
      match parseVal fuel r with
      | some (v, []) =>
        match runCarrier name t v with
        | none => "bad-case"
        | some (.error e) => "err " ++ serErrName e
        | some (.ok cell) => "ok " ++ canonUnordered cell (match t with | .map _ _ => true | _ => false)
      | _ => "bad-case"
  | "dynraw" :: rest =>
    match parseTy fuel rest with
    | none => "bad-case"
    | some (t, r) =>
      match parseVal fuel r with
      | some (v, []) =>
        match encImpl t v false [] with
        | .error e => "err " ++ serErrName e
        | .ok body => toHex body
      | _ => "bad-case"
  | ["big", "blob", n] =>
    -- only the size check of `set_value` (Props.C01.size_overflow_blob): content above `i32::MAX` is rejected
    match n.toNat? with
    | some n => if n > i32Max then "err SizeOverflow" else "ok " ++ toString (n + 4)
    | none => "bad-case"
  | ["big", "unsetvec", n] =>
    -- `vec![Unset; n]` bound to `list<int>`: the model itself for small n, `Props.C01.too_many_elements` above `i32::MAX`
    match n.toNat? with
    | some n =>
      if n > i32Max then "err TooManyElements"
      else if n > 4096 then "bad-case"
      else match encImpl (.list (.native .int)) (.list (List.replicate n .unset)) true [] with
        | .ok cell => "ok " ++ toString cell.length
        | .error e => "err " ++ serErrName e
    | none => "bad-case"
  | ["conv", "ser_bigdecimal", sc, h] =>
    match sc.toInt?, parseHex h with
    | some sc, some b => runBigDecimal sc b
    | _, _ => "bad-case"
  | "conv" :: rest => runConv rest
  | "vnorm" :: rest => runVnorm rest
  | "tdeciter" :: elem :: rest =>
    -- the lazy iterators used directly: what they yield = the loops of the model, without `collect()`
    match parseTy fuel rest, carrierOfName elem with
    | some (t, r), some c =>
      let cell : Option (Option (List UInt8)) := match r with
        | ["null"] => some none
        | [h] => (parseHex h).map some
        | _ => none
      match cell with
      | none => "bad-case"
      | some o =>
        match t with
        | .list _ | .set _ | .vector _ _ =>
          if tcheck (.vec c) t then
            match deserCarrier utf8ok .btree (.vec c) t o with
            | .error e => "err " ++ deErrName e
            | .ok x => " ".intercalate (showVal (embed (.vec c) x))
          else "no-typecheck"
        | .map kt vt =>
          if tcheck c kt && tcheck c vt then
            match o with
            | none => "map 0"
            | some bs =>
              match readCount bs with
              | .error e => "err " ++ deErrName e
              | .ok (n, rest) =>
                match mapG (fun o => deserCarrier utf8ok .btree c kt o) (fun o => deserCarrier utf8ok .btree c vt o) n rest with
                | .error e => "err " ++ deErrName e
                | .ok kvs => " ".intercalate (showVal (.map (kvs.map (fun kv => (embed c kv.1, embed c kv.2)))))
          else "no-typecheck"
        | .udt _ _ fields =>
          match o with
          | none => "err ExpectedNonNull"
          | some bs =>
            match udtIterG fields.length bs with
            | .error e => "err " ++ deErrName e
            | .ok fs => " ".intercalate ("udtiter" :: fs.map (fun f => match f with
                | .missing => "missing" | .null => "null" | .bytes b => toHex b))
        | _ => "no-typecheck"
    | _, _ => "bad-case"
  | "tdec" :: name :: rest =>
    -- the typed deserializer of carrier `name` on an arbitrary cell body
    match parseTy fuel rest, carrierOfName name with
    | some (t, r), some c =>
      let cell : Option (Option (List UInt8)) := match r with
        | ["null"] => some none
        | [h] => (parseHex h).map some
        | _ => none
      match cell with
      | none => "bad-case"
      | some o =>
        if tcheck c t then
          match deserCarrier utf8ok (flavourOf name) c t o with
          | .error e => "err " ++ deErrName e
          | .ok x => " ".intercalate (showVal (embed c x))
        else "no-typecheck"
    | _, _ => "bad-case"
  | "dec" :: rest =>
    match parseTy fuel rest with
    | none => "bad-case"
    | some (t, r) =>
      match r with
      | ["null"] => showDec (decCell utf8ok t none)
      | [h] =>
        match parseHex h with
        | some b => showDec (decCell utf8ok t (some b))
        | none => "bad-case"
      | _ => "bad-case"
  | _ => "bad-case"

end ScyllaVerif.Drive.C01

import ScyllaVerif.Model.Util
import ScyllaVerif.Model.Retry
import ScyllaVerif.Model.Exec
/-! Line-protocol driver for C06 (deterministic: the implementation's line is ignored).

* `dec <policy>/<i|n> - <cl>:<err>;<cl>:<err>;…`  — one retry session fed a history; prints its decisions.
* `runx fallthrough/<i|n> <cl0>/<plan> <err>~<decision>;…;ok` — the fiber under a SCRIPTED retry policy (a test
  `RetryPolicy` answering the i-th failure with the i-th scripted decision).
* `run <policy>/<i|n> <cl0>/<plan> <outcome>;<outcome>;…` — the execution fiber over `plan` (one character per target: `1` =
  always yields a connection, `0` = never, `d ≥ 2` = only the first d-1 `get_connection()` calls; `-` = empty plan); outcome `ok` or an error token;
  attempts beyond the scripted outcomes succeed.  Prints the attempt log, the decisions, the result, the
  number of sessions created. -/
namespace ScyllaVerif.Drive.C06
open ScyllaVerif.Util ScyllaVerif.Retry ScyllaVerif.Exec

def clName : Consistency → String
  | .any => "any" | .one => "one" | .two => "two" | .three => "three" | .quorum => "quorum" | .all => "all"
  | .localQuorum => "localquorum" | .eachQuorum => "eachquorum" | .localOne => "localone"
  | .serial => "serial" | .localSerial => "localserial"

def allCl : List Consistency :=
  [.any, .one, .two, .three, .quorum, .all, .localQuorum, .eachQuorum, .localOne, .serial, .localSerial]

def parseCl (s : String) : Option Consistency := allCl.find? (fun c => clName c == s)

def wtName : WriteType → String
  | .simple => "simple" | .batch => "batch" | .unloggedBatch => "unlogged" | .counter => "counter"
  | .batchLog => "batchlog" | .cas => "cas" | .view => "view" | .cdc => "cdc" | .other => "other"

def allWt : List WriteType := [.simple, .batch, .unloggedBatch, .counter, .batchLog, .cas, .view, .cdc, .other]

def parseWt (s : String) : Option WriteType := allWt.find? (fun c => wtName c == s)

def parseBool01 (s : String) : Option Bool :=
  if s == "1" then some true else if s == "0" then some false else none

/-- Error tokens.  Fields the policies do not read (`required` of unavailable / write timeout) are part of the
token (the harness builds the real error from them) and are dropped here. -/
def parseErr (s : String) : Option Err :=
  match s.splitOn "." with
  | ["ser"] => some .serializationError
  | ["reqser"] => some .cqlRequestSerialization
  | ["alloc"] => some .unableToAllocStreamId
  | ["broken"] => some .brokenConnection
  -- the reason a connection broke for is not looked at by any policy (one model class)
  | ["broken", _] => some .brokenConnection
  | ["bodyext"] => some .bodyExtensionsParseError
  | ["resparse"] => some .cqlResultParseError
  | ["errparse"] => some .cqlErrorParseError
  | ["unexpected"] => some .unexpectedResponse
  | ["repchanged"] => some .repreparedIdChanged
  | ["repmissing"] => some .repreparedIdMissingInBatch
  | ["paging"] => some .nonfinishedPagingState
  | ["db", "syntax"] => some (.dbError .syntaxError)
  | ["db", "invalid"] => some (.dbError .invalid)
  | ["db", "exists"] => some (.dbError .alreadyExists)
  | ["db", "funcfail"] => some (.dbError .functionFailure)
  | ["db", "auth"] => some (.dbError .authenticationError)
  | ["db", "unauthorized"] => some (.dbError .unauthorized)
  | ["db", "config"] => some (.dbError .configError)
  | ["db", "overloaded"] => some (.dbError .overloaded)
  | ["db", "bootstrapping"] => some (.dbError .isBootstrapping)
  | ["db", "truncate"] => some (.dbError .truncateError)
  | ["db", "readfailure"] => some (.dbError .readFailure)
  | ["db", "writefailure"] => some (.dbError .writeFailure)
  | ["db", "unprepared"] => some (.dbError .unprepared)
  | ["db", "server"] => some (.dbError .serverError)
  | ["db", "protocol"] => some (.dbError .protocolError)
  | ["db", "ratelimit"] => some (.dbError .rateLimitReached)
  | ["db", "other"] => some (.dbError .other)
  | ["db", "unavailable", alive, required] =>
    match alive.toInt?, required.toInt? with
    | some a, some _ => some (.dbError (.unavailable a))
    | _, _ => none
  | ["db", "readtimeout", received, required, dp] =>
    match received.toInt?, required.toInt?, parseBool01 dp with
    | some r, some q, some d => some (.dbError (.readTimeout r q d))
    | _, _, _ => none
  | ["db", "writetimeout", received, required, wt] =>
    match received.toInt?, required.toInt?, parseWt wt with
    | some r, some _, some w => some (.dbError (.writeTimeout r w))
    | _, _, _ => none
  | _ => none

def parsePolicy (s : String) : Option (Policy × Bool) :=
  match s.splitOn "/" with
  | [p, i] =>
    let pol := if p == "default" then some Policy.default else if p == "downgrading" then some Policy.downgrading
      else if p == "fallthrough" then some Policy.fallthrough else none
    let idem := if i == "i" then some true else if i == "n" then some false else none
    match pol, idem with
    | some p, some i => some (p, i)
    | _, _ => none
  | _ => none

def parseOps (s : String) : List String :=
  if s == "-" then [] else (s.splitOn ";").filter (· ≠ "")

def parseStep (s : String) : Option (Err × Consistency) :=
  match s.splitOn ":" with
  | [c, e] => match parseCl c, parseErr e with
    | some c, some e => some (e, c)
    | _, _ => none
  | _ => none

def parseOutcome (s : String) : Option Outcome :=
  if s == "ok" then some .ok else (parseErr s).map .fail

/-- One character per target: `0` never yields a connection, `1` always, a digit `d ≥ 2` only for the first
`d-1` `get_connection()` calls. -/
def parseTarget (c : Char) : Option Target :=
  if c == '0' then some Target.never
  else if c == '1' then some Target.always
  else if '2' ≤ c ∧ c ≤ '9' then some (Target.upTo (c.toNat - 49))
  else none

def parsePlan (s : String) : Option (List Target) :=
  if s == "-" then some [] else s.toList.mapM parseTarget

def clOpt : Option Consistency → String
  | none => ""
  | some c => ":" ++ clName c

def decName : Decision → String
  | .retrySame c => "same" ++ clOpt c
  | .retryNext c => "next" ++ clOpt c
  | .dontRetry => "dont"
  | .ignoreWrite => "ignore"

def listOrDash (xs : List String) (sep : String) : String :=
  if xs.isEmpty then "-" else sep.intercalate xs

/-- Canonical output token of an error: the kind and the fields the model keeps. -/
def errName : Err → String
  | .serializationError => "ser" | .cqlRequestSerialization => "reqser" | .unableToAllocStreamId => "alloc"
  | .brokenConnection => "broken" | .bodyExtensionsParseError => "bodyext" | .cqlResultParseError => "resparse"
  | .cqlErrorParseError => "errparse" | .unexpectedResponse => "unexpected" | .repreparedIdChanged => "repchanged"
  | .repreparedIdMissingInBatch => "repmissing" | .nonfinishedPagingState => "paging"
  | .dbError .syntaxError => "db.syntax" | .dbError .invalid => "db.invalid" | .dbError .alreadyExists => "db.exists"
  | .dbError .functionFailure => "db.funcfail" | .dbError .authenticationError => "db.auth"
  | .dbError .unauthorized => "db.unauthorized" | .dbError .configError => "db.config"
  | .dbError .overloaded => "db.overloaded" | .dbError .isBootstrapping => "db.bootstrapping"
  | .dbError .truncateError => "db.truncate" | .dbError .readFailure => "db.readfailure"
  | .dbError .writeFailure => "db.writefailure" | .dbError .unprepared => "db.unprepared"
  | .dbError .serverError => "db.server" | .dbError .protocolError => "db.protocol"
  | .dbError .rateLimitReached => "db.ratelimit" | .dbError .other => "db.other"
  | .dbError (.unavailable a) => s!"db.unavailable.{a}"
  | .dbError (.readTimeout r q d) => s!"db.readtimeout.{r}.{q}.{if d then 1 else 0}"
  | .dbError (.writeTimeout r w) => s!"db.writetimeout.{r}.{wtName w}"

def finalName : Final → String
  | .completed t => s!"ok:{t}"
  | .ignored t => s!"ignored:{t}"
  | .stopped e => "err:last:" ++ errName e
  | .exhausted (some (.attempt e)) => "err:last:" ++ errName e
  | .exhausted (some .pool) => "err:pool"
  | .exhausted none => "err:emptyplan"
  | .outOfFuel => "MODEL-OUT-OF-FUEL"

def parseDec (s : String) : Option Decision :=
  match s.splitOn ":" with
  | ["dont"] => some .dontRetry
  | ["ignore"] => some .ignoreWrite
  | ["same"] => some (.retrySame none)
  | ["next"] => some (.retryNext none)
  | ["same", c] => (parseCl c).map (fun c => .retrySame (some c))
  | ["next", c] => (parseCl c).map (fun c => .retryNext (some c))
  | _ => none

/-- `ok` or `<err>~<decision>` (the scripted policy's answer to that failure). -/
def parseScriptedOp (s : String) : Option (Outcome × Decision) :=
  if s == "ok" then some (.ok, .dontRetry) else
  match s.splitOn "~" with
  | [e, d] => match parseErr e, parseDec d with
    | some e, some d => some (.fail e, d)
    | _, _ => none
  | _ => none

def showTrace (tr : Trace) : String :=
  let a := listOrDash (tr.attempts.map (fun a => s!"{a.target}:{clName a.cl}")) ","
  let d := listOrDash (tr.decisions.map decName) ","
  s!"A={a} D={d} R={finalName tr.final} S={tr.newSessions}"

def run (case _impl : String) : String :=
  match words case with
  | ["dec", pol, _, steps] =>
    match parsePolicy pol, (parseOps steps).mapM parseStep with
    | some (p, idem), some hist => listOrDash ((replay p idem Sess.init hist).map decName) " "
    | _, _ => "bad-case"
  | ["run", pol, clplan, outs] =>
    match parsePolicy pol, clplan.splitOn "/" with
    | some (p, idem), [c, pl] =>
      match parseCl c, parsePlan pl, (parseOps outs).mapM parseOutcome with
      | some cl0, some plan, some os =>
        showTrace (Exec.run p idem cl0 plan (fun k => os.getD k .ok))
      | _, _, _ => "bad-case"
    | _, _ => "bad-case"
  | ["runx", pol, clplan, outs] =>
    -- the execution loop under a scripted retry policy (every decision arm, every consistency)
    match parsePolicy pol, clplan.splitOn "/" with
    | some (.fallthrough, idem), [c, pl] =>
      match parseCl c, parsePlan pl, (parseOps outs).mapM parseScriptedOp with
      | some cl0, some plan, some ops =>
        let os := ops.map (·.1)
        let ds := ops.map (·.2)
        showTrace (Exec.runWith (scripted ds) idem cl0 plan (fun k => os.getD k .ok) (plan.length + ops.length + 2))
      | _, _, _ => "bad-case"
    | _, _ => "bad-case"
  | ["spec", pol, clplanm, _outs] =>
    -- speculative execution: several interleaved fibers; checker mode: the implementation's line is accepted
    -- iff it satisfies `attempts_bounded_speculative` (and the session count of 1 + m fibers)
    match parsePolicy pol, clplanm.splitOn "/" with
    | some (p, idem), [c, pl, ms] =>
      match parseCl c, parsePlan pl, ms.toNat?, words _impl with
      | some _, some plan, some m, [nw, sw, _r] =>
        match (nw.drop 2).toString.toNat?, (sw.drop 2).toString.toNat? with
        | some n, some sn =>
          let fibers := if idem then 1 + m else 1
          if nw.startsWith "N=" ∧ sw.startsWith "S=" ∧ n ≤ plan.length + fibers * sameTargetBound p ∧ sn ≤ fibers
          then _impl else s!"REJECT attempts>{plan.length}+{fibers}*{sameTargetBound p} or sessions>{fibers}"
        | _, _ => "REJECT unparsable"
      | some _, some _, some _, _ => "REJECT unparsable"
      | _, _, _, _ => "bad-case"
    | _, _ => "bad-case"
  | _ => "bad-case"

end ScyllaVerif.Drive.C06

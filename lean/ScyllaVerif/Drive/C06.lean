import ScyllaVerif.Model.Util
import ScyllaVerif.Model.Retry
import ScyllaVerif.Model.Exec
import ScyllaVerif.Model.RetryFrames
import ScyllaVerif.Model.RetryPager
import ScyllaVerif.Model.RetryProfile
/-! Line-protocol driver for C06 (deterministic: the implementation's line is ignored).

* `dec <policy>/<i|n> - <cl>:<err>;<cl>:<err>;…`  — one retry session fed a history; prints its decisions.
* `runx fallthrough/<i|n> <cl0>/<plan> <err>~<decision>;…;ok` — the fiber under a SCRIPTED retry policy (a test
  `RetryPolicy` answering the i-th failure with the i-th scripted decision).
* `run <policy>/<i|n> <cl0>/<plan> <outcome>;<outcome>;…` — the execution fiber over `plan` (one character per target: `1` =
  always yields a connection, `0` = never, `d ≥ 2` = only the first d-1 `get_connection()` calls; `-` = empty plan); outcome `ok` or an error token;
  attempts beyond the scripted outcomes succeed.  Prints the attempt log, the decisions, the result, the
  number of sessions created. -/
namespace ScyllaVerif.Drive.C06
open ScyllaVerif.Util ScyllaVerif.Retry ScyllaVerif.Exec ScyllaVerif.RetryFrames ScyllaVerif.RetryPager ScyllaVerif.RetryProfile

def clName : Consistency → String
  | .any => "any" | .one => "one" | .two => "two" | .three => "three" | .quorum => "quorum" | .all => "all"
  | .localQuorum => "localquorum" | .eachQuorum => "eachquorum" | .localOne => "localone"
  | .serial => "serial" | .localSerial => "localserial"

def allCl : List Consistency :=
  [.any, .one, .two, .three, .quorum, .all, .localQuorum, .eachQuorum, .localOne, .serial, .localSerial]

def parseCl (s : String) : Option Consistency := allCl.find? (fun c => clName c == s)

def wtName : WriteType → String
  | .simple => "simple" | .batch => "batch" | .unloggedBatch => "unlogged" | .counter => "counter"
  | .batchLog => "batchlog" | .cas => "cas" | .view => "view" | .cdc => "cdc" | .other => "other"

def allWt : List WriteType := [.simple, .batch, .unloggedBatch, .counter, .batchLog, .cas, .view, .cdc, .other]

def parseWt (s : String) : Option WriteType := allWt.find? (fun c => wtName c == s)

def parseBool01 (s : String) : Option Bool :=
  if s == "1" then some true else if s == "0" then some false else none

/-- Error tokens.  Fields the policies do not read (`required` of unavailable / write timeout) are part of the
token (the harness builds the real error from them) and are dropped here. -/
def parseErrBase (s : String) : Option Err :=
  match s.splitOn "." with
  | ["ser"] => some .serializationError
  | ["reqser"] => some .cqlRequestSerialization
  | ["alloc"] => some .unableToAllocStreamId
  | ["broken"] => some .brokenConnection
  -- the reason a connection broke for is not looked at by any policy (one model class)
  | ["broken", _] => some .brokenConnection
  | ["bodyext"] => some .bodyExtensionsParseError
  | ["resparse"] => some .cqlResultParseError
  | ["errparse"] => some .cqlErrorParseError
  | ["unexpected"] => some .unexpectedResponse
  | ["repchanged"] => some .repreparedIdChanged
  | ["repmissing"] => some .repreparedIdMissingInBatch
  | ["paging"] => some .nonfinishedPagingState
  | ["db", "syntax"] => some (.dbError .syntaxError)
  | ["db", "invalid"] => some (.dbError .invalid)
  | ["db", "exists"] => some (.dbError .alreadyExists)
  | ["db", "funcfail"] => some (.dbError .functionFailure)
  | ["db", "auth"] => some (.dbError .authenticationError)
  | ["db", "unauthorized"] => some (.dbError .unauthorized)
  | ["db", "config"] => some (.dbError .configError)
  | ["db", "overloaded"] => some (.dbError .overloaded)
  | ["db", "bootstrapping"] => some (.dbError .isBootstrapping)
  | ["db", "truncate"] => some (.dbError .truncateError)
  | ["db", "readfailure"] => some (.dbError .readFailure)
  | ["db", "writefailure"] => some (.dbError .writeFailure)
  | ["db", "unprepared"] => some (.dbError .unprepared)
  | ["db", "server"] => some (.dbError .serverError)
  | ["db", "protocol"] => some (.dbError .protocolError)
  | ["db", "ratelimit"] => some (.dbError .rateLimitReached)
  | ["db", "other"] => some (.dbError .other)
  | ["db", "unavailable", alive, required] =>
    match alive.toInt?, required.toInt? with
    | some a, some _ => some (.dbError (.unavailable a))
    | _, _ => none
  | ["db", "readtimeout", received, required, dp] =>
    match received.toInt?, required.toInt?, parseBool01 dp with
    | some r, some q, some d => some (.dbError (.readTimeout r q d))
    | _, _, _ => none
  | ["db", "writetimeout", received, required, wt] =>
    match received.toInt?, required.toInt?, parseWt wt with
    | some r, some _, some w => some (.dbError (.writeTimeout r w))
    | _, _, _ => none
  | _ => none

/-- `<token>` or `<token>#<n>`: `n` selects a variation of the payload fields that no policy reads (the harness
builds the real error with it); the model has no such fields and drops it. -/
def parseErr (s : String) : Option Err :=
  match s.splitOn "#" with
  | [b] => parseErrBase b
  | [b, n] => if n.toNat?.isSome then parseErrBase b else none
  | _ => none

def parsePolicy (s : String) : Option (Policy × Bool) :=
  match s.splitOn "/" with
  | [p, i] =>
    let pol := if p == "default" then some Policy.default else if p == "downgrading" then some Policy.downgrading
      else if p == "fallthrough" then some Policy.fallthrough else none
    let idem := if i == "i" then some true else if i == "n" then some false else none
    match pol, idem with
    | some p, some i => some (p, i)
    | _, _ => none
  | _ => none

def parseOps (s : String) : List String :=
  if s == "-" then [] else (s.splitOn ";").filter (· ≠ "")

def parseStep (s : String) : Option (Err × Consistency) :=
  match s.splitOn ":" with
  | [c, e] => match parseCl c, parseErr e with
    | some c, some e => some (e, c)
    | _, _ => none
  | _ => none

def parseOutcome (s : String) : Option Outcome :=
  if s == "ok" then some .ok else (parseErr s).map .fail

/-- One character per target: `0` never yields a connection, `1` always, a digit `d ≥ 2` only for the first
`d-1` `get_connection()` calls. -/
def parseTarget (c : Char) : Option Target :=
  if c == '0' then some Target.never
  else if c == '1' then some Target.always
  else if '2' ≤ c ∧ c ≤ '9' then some (Target.upTo (c.toNat - 49))
  else none

def parsePlan (s : String) : Option (List Target) :=
  if s == "-" then some [] else s.toList.mapM parseTarget

def clOpt : Option Consistency → String
  | none => ""
  | some c => ":" ++ clName c

def decName : Decision → String
  | .retrySame c => "same" ++ clOpt c
  | .retryNext c => "next" ++ clOpt c
  | .dontRetry => "dont"
  | .ignoreWrite => "ignore"

def listOrDash (xs : List String) (sep : String) : String :=
  if xs.isEmpty then "-" else sep.intercalate xs

/-- Canonical output token of an error: the kind and the fields the model keeps. -/
def errName : Err → String
  | .serializationError => "ser" | .cqlRequestSerialization => "reqser" | .unableToAllocStreamId => "alloc"
  | .brokenConnection => "broken" | .bodyExtensionsParseError => "bodyext" | .cqlResultParseError => "resparse"
  | .cqlErrorParseError => "errparse" | .unexpectedResponse => "unexpected" | .repreparedIdChanged => "repchanged"
  | .repreparedIdMissingInBatch => "repmissing" | .nonfinishedPagingState => "paging"
  | .dbError .syntaxError => "db.syntax" | .dbError .invalid => "db.invalid" | .dbError .alreadyExists => "db.exists"
  | .dbError .functionFailure => "db.funcfail" | .dbError .authenticationError => "db.auth"
  | .dbError .unauthorized => "db.unauthorized" | .dbError .configError => "db.config"
  | .dbError .overloaded => "db.overloaded" | .dbError .isBootstrapping => "db.bootstrapping"
  | .dbError .truncateError => "db.truncate" | .dbError .readFailure => "db.readfailure"
  | .dbError .writeFailure => "db.writefailure" | .dbError .unprepared => "db.unprepared"
  | .dbError .serverError => "db.server" | .dbError .protocolError => "db.protocol"
  | .dbError .rateLimitReached => "db.ratelimit" | .dbError .other => "db.other"
  | .dbError (.unavailable a) => s!"db.unavailable.{a}"
  | .dbError (.readTimeout r q d) => s!"db.readtimeout.{r}.{q}.{if d then 1 else 0}"
  | .dbError (.writeTimeout r w) => s!"db.writetimeout.{r}.{wtName w}"

def finalName : Final → String
  | .completed t => s!"ok:{t}"
  | .ignored t => s!"ignored:{t}"
  | .stopped e => "err:last:" ++ errName e
  | .exhausted (some (.attempt e)) => "err:last:" ++ errName e
  | .exhausted (some .pool) => "err:pool"
  | .exhausted none => "err:emptyplan"
  | .outOfFuel => "MODEL-OUT-OF-FUEL"

def parseDec (s : String) : Option Decision :=
  match s.splitOn ":" with
  | ["dont"] => some .dontRetry
  | ["ignore"] => some .ignoreWrite
  | ["same"] => some (.retrySame none)
  | ["next"] => some (.retryNext none)
  | ["same", c] => (parseCl c).map (fun c => .retrySame (some c))
  | ["next", c] => (parseCl c).map (fun c => .retryNext (some c))
  | _ => none

/-- `ok` or `<err>~<decision>` (the scripted policy's answer to that failure). -/
def parseScriptedOp (s : String) : Option (Outcome × Decision) :=
  if s == "ok" then some (.ok, .dontRetry) else
  match s.splitOn "~" with
  | [e, d] => match parseErr e, parseDec d with
    | some e, some d => some (.fail e, d)
    | _, _ => none
  | _ => none

def showTrace (tr : Trace) : String :=
  let a := listOrDash (tr.attempts.map (fun a => s!"{a.target}:{clName a.cl}")) ","
  let d := listOrDash (tr.decisions.map decName) ","
  s!"A={a} D={d} R={finalName tr.final} S={tr.newSessions}"

/-- `<outcome>@<virtual ms>` -/
def parseTimedOutcome (s : String) : Option Outcome :=
  match s.splitOn "@" with
  | [o, ms] => if ms.toNat?.isSome then parseOutcome o else none
  | _ => none

/-- One observed attempt of a `spec` line: `<fiber>:<target>:<cl>:<+|->` (`-` = cancelled in flight). -/
def parseSpecEntry (s : String) : Option (Nat × Nat × Consistency × Bool) :=
  match s.splitOn ":" with
  | [f, t, c, fl] =>
    match f.toNat?, t.toNat?, parseCl c with
    | some f, some t, some c => if fl == "+" then some (f, t, c, true) else if fl == "-" then some (f, t, c, false) else none
    | _, _, _ => none
  | _ => none

/-- Let fiber `f` perform loop iterations until it has made one more attempt (at most `fuel` iterations). -/
def stepUntilAttempt (P : PolicyFn Sess) (idem : Bool) (o : Nat → Nat → Outcome) (f : Nat) :
    Nat → List (Fiber Sess) × SharedPlan → Nat → List (Fiber Sess) × SharedPlan
  | 0, st, _ => st
  | fuel + 1, st, before =>
    let st' := runSched P idem o [f] st
    match st'.1[f]? with
    | some fb => if fb.log.length > before then st' else if fb.done then st' else stepUntilAttempt P idem o f fuel st' before
    | none => st'

/-- Run the multi-fiber model on the schedule recovered from the implementation's line.
`entries` = the observed attempts in global call order with their fiber; fiber `f`'s `j`-th attempt gets the
scripted outcome of the global call it was (an attempt cancelled in flight ends its fiber). -/
def specRun (p : Policy) (idem : Bool) (cl0 : Consistency) (plan : List Target) (m : Nat) (os : List Outcome)
    (impl : String) : String :=
  match words impl with
  | [_nw, _sw, rw, aw] =>
    if !aw.startsWith "A=" then "REJECT unparsable" else
    match (parseOps (((aw.drop 2).toString).replace "," ";")).mapM parseSpecEntry with
    | none => "REJECT unparsable"
    | some entries =>
      let nF := if idem then 1 + m else 1
      if entries.any (fun e => e.1 ≥ nF) then s!"REJECT fiber id >= {nF}" else
      -- per-fiber outcomes: global call k is the (number of earlier entries of the same fiber)-th attempt of its fiber
      let indexed := entries.zipIdx
      let outF : Nat → Nat → Outcome := fun f j =>
        match (indexed.filter (fun e => e.1.1 == f))[j]? with
        | some (e, k) => if e.2.2.2 then os.getD k .ok else .ok
        | none => .ok
      let P := builtin p
      let init : List (Fiber Sess) × SharedPlan := (List.replicate nF (Fiber.fresh cl0), ⟨plan, 0⟩)
      let (st, shown) := entries.foldl (fun (acc : (List (Fiber Sess) × SharedPlan) × List String) e =>
        let st := acc.1
        let before := match st.1[e.1]? with | some fb => fb.log.length | none => 0
        let st' := stepUntilAttempt P idem outF e.1 (2 * plan.length + 3) st before
        let got := match st'.1[e.1]? with
          | some fb => if fb.log.length > before then
              match fb.log.head? with
              | some a => s!"{e.1}:{a.target}:{clName a.cl}:{if e.2.2.2 then "+" else "-"}"
              | none => s!"{e.1}:none"
            else s!"{e.1}:none"
          | none => s!"{e.1}:none"
        (st', acc.2 ++ [got])) (init, [])
      let n := totalAttempts st.1
      let sess := (st.1.filter (fun fb => fb.loc.sess.isSome)).length
      s!"N={n} S={sess} {rw} A={listOrDash shown ","}"
  | _ => "REJECT unparsable"

/-- `<outcome>@<virtual ms>` with its duration -/
def parseTimedOutcomeD (s : String) : Option (Outcome × Nat) :=
  match s.splitOn "@" with
  | [o, ms] => match parseOutcome o, ms.toNat? with
    | some o, some d => some (o, d)
    | _, _ => none
  | _ => none

def timedFinalName : TimedFinal → String
  | .finished f => finalName f
  | .timedOut => "err:timeout"

/-- outcomes scripted by the end-to-end `wire` cases (harness/src/e2e/retry.rs `outcome_acts`) -/
def parseWireOutcome (s : String) : Option Outcome :=
  if s == "ok" then some .ok
  else if s == "un" then some (.fail (.dbError (.unavailable 1)))
  else if s == "bs" then some (.fail (.dbError .isBootstrapping))
  else if s == "rt" then some (.fail (.dbError (.readTimeout 2 2 false)))
  else if s == "rtd" then some (.fail (.dbError (.readTimeout 1 2 true)))
  else if s == "ov" then some (.fail (.dbError .overloaded))
  else if s == "se" then some (.fail (.dbError .serverError))
  else if s == "tr" then some (.fail (.dbError .truncateError))
  else if s == "wt" then some (.fail (.dbError (.writeTimeout 1 .simple)))
  else if s == "wtb" then some (.fail (.dbError (.writeTimeout 1 .batchLog)))
  else if s == "inv" then some (.fail (.dbError .invalid))
  else if s == "cl" then some (.fail .brokenConnection)
  else if s == "unp" then some (.fail (.dbError .unprepared))
  else if s == "slow" then some .ok          -- the answer comes late; what that means depends on the request timeout
  else if s == "gres" then some (.fail .cqlResultParseError)
  else if s == "gerr" then some (.fail .cqlErrorParseError)
  else if s == "gsup" then some (.fail .unexpectedResponse)
  else none

def kvOf (ws : List String) (k : String) : Option String :=
  ws.findSome? (fun w => match w.splitOn "=" with | [a, b] => if a == k then some b else none | _ => none)

/-- Scripted answer to a PREPARE frame of a `wire` case: RESULT/Prepared with the statement's usual id (`p`), with
another id (`pc`), or a failure. -/
inductive PrepTok where
  | same | other | err (e : Err)
  deriving DecidableEq

def parsePrepTok (s : String) : Option PrepTok :=
  if s == "p" then some .same
  else if s == "pc" then some .other
  else if s == "pov" then some (.err (.dbError .overloaded))
  else if s == "pbs" then some (.err (.dbError .isBootstrapping))
  else if s == "pcl" then some (.err .brokenConnection)
  else none

/-- a scripted statement-frame answer, whether an UNPREPARED names a known id (`unpx`: it does not), whether the
answer comes after 400 ms (`slow`) -/
structure WireAns where
  o : Outcome
  idKnown : Bool
  slow : Bool

def parseWireStmt (s : String) : Option WireAns :=
  if s == "unpx" then some ⟨.fail (.dbError .unprepared), false, false⟩
  else (parseWireOutcome s).map (fun o => ⟨o, true, s == "slow"⟩)

def wireErrKind : Err → String
  | .dbError (.unavailable _) => "un" | .dbError .isBootstrapping => "bs" | .dbError (.readTimeout _ _ _) => "rt"
  | .dbError .overloaded => "ov" | .dbError .serverError => "se" | .dbError .truncateError => "tr"
  | .dbError (.writeTimeout _ _) => "wt" | .dbError .invalid => "inv" | .dbError .unprepared => "unp"
  | .dbError _ => "db-other"
  | .brokenConnection => "cl" | .repreparedIdChanged => "idchg" | .repreparedIdMissingInBatch => "idmiss"
  | .unableToAllocStreamId => "alloc" | .cqlResultParseError => "resparse" | .cqlErrorParseError => "errparse"
  | .unexpectedResponse => "unexpected" | _ => "attempt-other"

def okAns : WireAns := ⟨.ok, true, false⟩

/-- The answers seen by the attempt that starts at statement cursor `c` / PREPARE cursor `pc` of the request's two
scripts (each is one stream over the whole request; the model's answers are per attempt).  "The id changed" is
relative to the id the statement object holds: for a prepared statement that is the usual id; a QUERY with values
prepares afresh in every attempt (`connection.prepare`, any id is taken), so its re-prepare "changes the id" iff it
answers differently from that attempt's first PREPARE. -/
def wireAnswers (kind : StmtKind) (script : List WireAns) (preps : List PrepTok) (c pc : Nat) : Answers :=
  let tok := fun j => preps.getD (pc + j) .same
  let plain : PrepTok → PrepAnswer := fun t => match t with | .same => .ok | .other => .idChanged | .err e => .err e
  let prep : Nat → PrepAnswer := fun j =>
    if kind == .queryValues then
      (if j == 0 then (match tok 0 with | .err e => .err e | _ => .ok)
       else match tok j with
         | .err e => .err e
         | t => if t == tok 0 then .ok else .idChanged)
    else plain (tok j)
  ⟨fun j => (script.getD (c + j) okAns).o, prep, fun j => (script.getD (c + j) okAns).idKnown⟩

def prepareCount (fs : List Frame) : Nat := (fs.filter (fun f => match f with | .prepare _ => true | _ => false)).length

/-- (statement cursor, PREPARE cursor) at the start of attempt `k` of a run that starts at `(c0, pc0)`. -/
def wireCursor (kind : StmtKind) (script : List WireAns) (preps : List PrepTok) (rounds c0 pc0 : Nat) :
    Nat → Nat × Nat
  | 0 => (c0, pc0)
  | k + 1 =>
    let (c, pc) := wireCursor kind script preps rounds c0 pc0 k
    let fr := (attempt kind (wireAnswers kind script preps c pc) rounds).frames
    (c + (stmtAnswers fr).length, pc + prepareCount fr)

/-- Result of one run of the execution core inside a `wire` request. -/
structure WireRun where
  stmtFrames : Nat
  prepFrames : Nat
  /-- consistency of every statement frame -/
  cls : List Consistency
  res : String
  completed : Bool
  /-- the policy decided `IgnoreWriteError`: the caller gets an empty result -/
  ignored : Bool
  exhaustedAfterClose : Bool

/-- One run of the execution core (an unpaged request, or one page fetch) over the two scripts from `(c0, pc0)`;
`tmo`: the effective request timeout in ms, if any - an answer that comes after 400 ms then makes the caller get
`RequestTimeout` (`RetryFrames.runTimed`: the run is cut while that attempt is in flight). -/
def wireRun (ex : ExecParams) (n : Nat) (kind : StmtKind) (script : List WireAns) (preps : List PrepTok)
    (c0 pc0 : Nat) : WireRun :=
  let rounds := script.length + 2
  let answers : Nat → Answers := fun k =>
    let cur := wireCursor kind script preps rounds c0 pc0 k
    wireAnswers kind script preps cur.1 cur.2
  let w := runWire ex.policy ex.idem ex.cl (List.replicate n Target.always) kind answers rounds
  let perAttempt := w.frames.map (fun fr => (stmtAnswers fr).length)
  let cls := ((w.trace.attempts.zip perAttempt).map (fun (a, m) => List.replicate m a.cl)).flatten
  let nf := w.stmtAnswers.length
  let slowHit := (List.range nf).any (fun j => (script.getD (c0 + j) okAns).slow)
  let timedOut := slowHit && (match ex.timeout with | some t => decide (t < 400) | none => false)
  let res := if timedOut then "err:timeout" else if w.hung then "hung" else match w.trace.final with
    | .completed _ => "ok" | .ignored _ => "ok"
    | .stopped e => "err:" ++ wireErrKind e
    | .exhausted (some (.attempt e)) => "err:" ++ wireErrKind e
    | .exhausted (some .pool) => "err:pool"
    | .exhausted none => "err:emptyplan"
    | .outOfFuel => "MODEL-OUT-OF-FUEL"
  let closed := (List.range w.trace.attempts.length).any (fun k =>
    outcomeOf kind answers rounds k == .fail .brokenConnection)
  let completed := !timedOut && (match w.trace.final with | .completed _ => true | _ => false)
  let ignored := !timedOut && (match w.trace.final with | .ignored _ => true | _ => false)
  ⟨nf, (w.frames.map prepareCount).sum, cls, res, completed, ignored, w.trace.final.planRanOut && closed && !timedOut⟩

/-- The page fetches of a transparent pager (`RetryPager.pagedRun`: every page with `pageParams`), threading the
script cursors from page to page. -/
def wirePages (ex : ExecParams) (n : Nat) (kind : StmtKind) (script : List WireAns) (preps : List PrepTok) :
    (pages j c pc : Nat) → List WireRun
  | 0, _, _, _ => []
  | p + 1, j, c, pc =>
    let r := wireRun (pageParams ex j none) n kind script preps c pc
    r :: (if r.completed then wirePages ex n kind script preps p (j + 1) (c + r.stmtFrames) (pc + r.prepFrames) else [])

/-- One logical request of a `wire` case.  `implTok` = the implementation's token for this request: when the plan
ran out after a connection had been closed, the driver's plan may end with a second, now connection-less entry for
that node (the load-balancing policy computes the fallback part of the plan lazily, after the liveness change -
C05's dynamic-liveness observation), and the caller then gets the pool error instead of the last attempt's error;
this one substitution is accepted. -/
def wireRequest (ex : ExecParams) (n : Nat) (kind : StmtKind) (pages : Option Nat) (countPreps : Bool)
    (script : List WireAns) (preps : List PrepTok) (implTok : String) : String :=
  let runs := match pages with
    | none => [wireRun ex n kind script preps 0 0]
    | some p => wirePages ex n kind script preps p 0 0 0
  let counts := "+".intercalate (runs.map (fun r => toString r.stmtFrames))
  let np := (runs.map (·.prepFrames)).sum
  let cls := (runs.map (·.cls)).flatten
  let last := runs.getLast?
  -- a page "answered" by IgnoreWriteError is an empty non-rows result: on the first page the row stream cannot be
  -- typed (error), on a later page the iteration simply ends there
  let res := match last with
    | some r => if pages.isSome && r.ignored then (if runs.length == 1 then "err:typecheck" else "ok") else r.res
    | none => "ok"
  let head := s!"{counts}/{if countPreps then toString np else "-"}"
  let tail := "@" ++ listOrDash (cls.map clName) ","
  let poolOk := match last with | some r => r.exhaustedAfterClose | none => false
  if poolOk && implTok == head ++ ":err:pool" ++ tail then implTok else s!"{head}:{res}{tail}"

def runWireCase (ws : List String) (impl : String) : String :=
  match kvOf ws "n", kvOf ws "pol", kvOf ws "idem", kvOf ws "kind", kvOf ws "cl", kvOf ws "via", kvOf ws "scripts" with
  | some n, some pol, some idem, some kind, some cl, some via, some scripts =>
    let p := if pol == "def" then some Policy.default else if pol == "down" then some Policy.downgrading
      else if pol == "fall" then some Policy.fallthrough else none
    -- `q`: nothing is configured, the driver's default LOCAL_QUORUM applies
    let clSet : Option (Option Consistency) := if cl == "q" then some none else if cl == "serial" then some (some .serial)
      else if cl == "localserial" then some (some .localSerial) else if cl == "all" then some (some .all)
      else if cl == "eachquorum" then some (some .eachQuorum) else none
    -- a QUERY without values is one frame; with values it is PREPARE + EXECUTE in every attempt; everything
    -- prepared goes through execute_raw_with_consistency; `batch`: prepare_batch has nothing to prepare (the
    -- unprepared statement has no values / the CachingSession prepared it before); `batchv`: one PREPARE per attempt;
    -- the pagers: `execute_iter` pages with EXECUTE, `query_iter` (no values) with QUERY
    let k : Option StmtKind := if kind == "exec" || kind == "itere" || kind == "ctl" then some .execute
      else if kind == "query" then (if via == "caching" then some .execute else some .query)
      else if kind == "iterq" then some .query
      else if kind == "qvals" then some .queryValues
      else if kind == "batch" then some (.batch 0)
      else if kind == "batchv" then some (.batch 1) else none
    let pages : Option Nat := if kind == "itere" || kind == "iterq" || kind == "ctl" then some (((kvOf ws "pages").bind String.toNat?).getD 3) else none
    let cfg := (kvOf ws "cfg").getD "stmt"
    let tmo : Option Nat := match (kvOf ws "tmo").bind String.toNat? with | some 0 => none | t => t
    let tmoProfile := (kvOf ws "tmoat").getD "stmt" == "profile"
    let parseScript (sc : String) : Option (List WireAns × List PrepTok) :=
      match sc.splitOn "~" with
      | [a] => ((a.splitOn ".").mapM parseWireStmt).map (·, [])
      | [a, b] => match (a.splitOn ".").mapM parseWireStmt, ((b.splitOn ".").filter (· ≠ "")).mapM parsePrepTok with
        | some x, some y => some (x, y)
        | _, _ => none
      | _ => none
    let implToks := (words impl).drop 1
    -- `idem=-`: the caller never sets the flag: `StatementConfig::default()`
    let idemSet : Option (Option Bool) := if idem == "-" then some none else idem.toNat?.map (fun i => some (i != 0))
    let derOps : Option (List String) := match kvOf ws "der" with
      | none => some [] | some "-" => some []
      | some d => let l := d.splitOn "."; if l.all (fun o => ["lb", "ser", "sp", "cl", "tm", "pol"].contains o) then some l else none
    match n.toNat?, p, idemSet, k, clSet, (scripts.splitOn "/").mapM parseScript, derOps with
    | some n, some p, some idemSet, some k, some clSet, some scs, some der =>
      -- WHERE the policy / consistency / timeout are configured (harness/src/e2e/retry.rs builds exactly these
      -- profiles, every one of them through `ExecutionProfile::builder()…build()`: Model/RetryProfile.lean `built`)
      let clOps : List Setter := match clSet with | some c => [.cl c] | none => []
      let tmoOps : List Setter := if tmoProfile && tmo.isSome then [.timeout tmo] else []
      let real : Profile := (built ([.policy p] ++ clOps ++ tmoOps)).toProfile
      let decoy : Consistency → Profile := fun c => (built [.policy .fallthrough, .cl c]).toProfile
      -- a profile DERIVED from a base profile (`to_builder` / `pointee_to_builder`): what a setter of the chain sets
      -- is a decoy on the base
      let base : FullProfile := built
        ([.policy (if der.contains "pol" then .fallthrough else p)]
          ++ (if der.contains "cl" then [.cl .three] else clOps)
          ++ (if der.contains "tm" then [.timeout (some 50)] else tmoOps))
      let derived : Profile := (derive base (der.map (fun o =>
        if o == "lb" then Setter.lbp 1 else if o == "ser" then .serial (some 0) else if o == "sp" then .spec none
        else if o == "cl" then .cl (clSet.getD .localQuorum)
        else if o == "tm" then .timeout (if tmoProfile then tmo else none) else .policy p))).toProfile
      let onStmt := cfg == "stmt" || cfg == "both"
      let sessionDefault : Profile :=
        if cfg == "profile" then real
        else if cfg == "dprofile" then derived
        else if cfg == "handle" || cfg == "both" || cfg == "dhandle" then decoy .three
        -- cfg = stmt (possibly with a profile that carries only a timeout) / none: an otherwise untouched profile
        else (built tmoOps).toProfile
      let stmtProfile : Option Profile :=
        if cfg == "handle" then some real else if cfg == "both" then some (decoy .two)
        else if cfg == "dhandle" then some derived else none
      let stmt : StmtCfg := { untouchedStmt with
        idem := idemSet.getD untouchedStmt.idem, cl := if onStmt then clSet else none,
        policy := if onStmt then some p else none, timeout := if tmoProfile then none else tmo, profile := stmtProfile }
      -- `idems=01-0…`: the idempotence flag of every single request (same text, different callers' flags; `-` = unset)
      let idems : Option (List (Option Bool)) :=
        (kvOf ws "idems").map (fun t => t.toList.map (fun c => if c == '-' then none else some (c == '1')))
      "retry " ++ " ".intercalate (scs.zipIdx.map (fun (sc, i) =>
        let stmt := { stmt with idem := match idems with
          | some fl => (match fl[i]? with | some f => f.getD untouchedStmt.idem | none => stmt.idem)
          | none => stmt.idem }
        -- the single-connection pager: hard-coded fall-through policy, one connection
        let ex := if kind == "ctl" then singleConnectionPagerParams stmt.idem (clSet.getD .localQuorum) none
          else if pages.isSome then pagingExecutorNew stmt sessionDefault else sessionParams stmt sessionDefault
        wireRequest ex (if kind == "ctl" then 1 else n) k pages (via == "session") sc.1 sc.2 (implToks.getD i "")))
    | _, _, _, _, _, _, _ => "bad-case"
  | _, _, _, _, _, _, _ => "bad-case"

def run (case _impl : String) : String :=
  if case.startsWith "wire retry " then
    -- an environment problem (session could not be built): judged by nobody
    if _impl.startsWith "e2e-skip" then _impl else runWireCase (words case) _impl
  else
  match words case with
  | ["tmo", pol, clplant, outs] =>
    match parsePolicy pol, clplant.splitOn "/" with
    | some (p, idem), [c, pl, ts] =>
      match parseCl c, parsePlan pl, ts.toNat?, (parseOps outs).mapM parseTimedOutcomeD with
      | some cl0, some plan, some t, some os =>
        let tr := runTimed p idem cl0 plan (fun k => (os.getD k (.ok, 7)).1) (fun k => (os.getD k (.ok, 7)).2) t
        let a := listOrDash (tr.attempts.map (fun a => s!"{a.target}:{clName a.cl}")) ","
        let d := listOrDash (tr.decisions.map decName) ","
        s!"A={a} D={d} R={timedFinalName tr.final} S={if tr.decisions.isEmpty then 0 else 1}"
      | _, _, _, _ => "bad-case"
    | _, _ => "bad-case"
  | ["dec", pol, _, steps] =>
    match parsePolicy pol, (parseOps steps).mapM parseStep with
    | some (p, idem), some hist => listOrDash ((replay p idem Sess.init hist).map decName) " "
    | _, _ => "bad-case"
  | ["run", pol, clplan, outs] =>
    match parsePolicy pol, clplan.splitOn "/" with
    | some (p, idem), [c, pl] =>
      match parseCl c, parsePlan pl, (parseOps outs).mapM parseOutcome with
      | some cl0, some plan, some os =>
        showTrace (Exec.run p idem cl0 plan (fun k => os.getD k .ok))
      | _, _, _ => "bad-case"
    | _, _ => "bad-case"
  | ["runx", pol, clplan, outs] =>
    -- the execution loop under a scripted retry policy (every decision arm, every consistency)
    match parsePolicy pol, clplan.splitOn "/" with
    | some (.fallthrough, idem), [c, pl] =>
      match parseCl c, parsePlan pl, (parseOps outs).mapM parseScriptedOp with
      | some cl0, some plan, some ops =>
        let os := ops.map (·.1)
        let ds := ops.map (·.2)
        showTrace (Exec.runWith (scripted ds) idem cl0 plan (fun k => os.getD k .ok) (plan.length + ops.length + 2))
      | _, _, _ => "bad-case"
    | _, _ => "bad-case"
  | ["spec", pol, clplanm, outs] =>
    -- speculative execution: several interleaved fibers.  The implementation's line names the fiber of every
    -- attempt (in global `run_request_once` call order); the schedule of loop iterations is recovered from it
    -- and the MODEL (`runSched`) is run on that schedule: its attempts are printed.
    -- (an optional 4th part is a request timeout: it only cuts the schedule short - the fibers it drops show up
    --  as attempts cancelled in flight)
    match parsePolicy pol, (clplanm.splitOn "/").take 3, ((clplanm.splitOn "/").drop 3).all (fun t => t.toNat?.isSome) with
    | some (p, idem), [c, pl, ms], true =>
      match parseCl c, parsePlan pl, ms.toNat?, (parseOps outs).mapM parseTimedOutcome with
      | some cl0, some plan, some m, some os => specRun p idem cl0 plan m os _impl
      | _, _, _, _ => "bad-case"
    | _, _, _ => "bad-case"
  | _ => "bad-case"

end ScyllaVerif.Drive.C06

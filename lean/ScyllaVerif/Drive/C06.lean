import ScyllaVerif.Model.Util
import ScyllaVerif.Model.Retry
import ScyllaVerif.Model.Exec
import ScyllaVerif.Model.RetryFrames
/-! Line-protocol driver for C06 (deterministic: the implementation's line is ignored).

* `dec <policy>/<i|n> - <cl>:<err>;<cl>:<err>;…`  — one retry session fed a history; prints its decisions.
* `runx fallthrough/<i|n> <cl0>/<plan> <err>~<decision>;…;ok` — the fiber under a SCRIPTED retry policy (a test
  `RetryPolicy` answering the i-th failure with the i-th scripted decision).
* `run <policy>/<i|n> <cl0>/<plan> <outcome>;<outcome>;…` — the execution fiber over `plan` (one character per target: `1` =
  always yields a connection, `0` = never, `d ≥ 2` = only the first d-1 `get_connection()` calls; `-` = empty plan); outcome `ok` or an error token;
  attempts beyond the scripted outcomes succeed.  Prints the attempt log, the decisions, the result, the
  number of sessions created. -/
namespace ScyllaVerif.Drive.C06
open ScyllaVerif.Util ScyllaVerif.Retry ScyllaVerif.Exec ScyllaVerif.RetryFrames

def clName : Consistency → String
  | .any => "any" | .one => "one" | .two => "two" | .three => "three" | .quorum => "quorum" | .all => "all"
  | .localQuorum => "localquorum" | .eachQuorum => "eachquorum" | .localOne => "localone"
  | .serial => "serial" | .localSerial => "localserial"

def allCl : List Consistency :=
  [.any, .one, .two, .three, .quorum, .all, .localQuorum, .eachQuorum, .localOne, .serial, .localSerial]

def parseCl (s : String) : Option Consistency := allCl.find? (fun c => clName c == s)

def wtName : WriteType → String
  | .simple => "simple" | .batch => "batch" | .unloggedBatch => "unlogged" | .counter => "counter"
  | .batchLog => "batchlog" | .cas => "cas" | .view => "view" | .cdc => "cdc" | .other => "other"

def allWt : List WriteType := [.simple, .batch, .unloggedBatch, .counter, .batchLog, .cas, .view, .cdc, .other]

def parseWt (s : String) : Option WriteType := allWt.find? (fun c => wtName c == s)

def parseBool01 (s : String) : Option Bool :=
  if s == "1" then some true else if s == "0" then some false else none

/-- Error tokens.  Fields the policies do not read (`required` of unavailable / write timeout) are part of the
token (the harness builds the real error from them) and are dropped here. -/
def parseErrBase (s : String) : Option Err :=
  match s.splitOn "." with
  | ["ser"] => some .serializationError
  | ["reqser"] => some .cqlRequestSerialization
  | ["alloc"] => some .unableToAllocStreamId
  | ["broken"] => some .brokenConnection
  -- the reason a connection broke for is not looked at by any policy (one model class)
  | ["broken", _] => some .brokenConnection
  | ["bodyext"] => some .bodyExtensionsParseError
  | ["resparse"] => some .cqlResultParseError
  | ["errparse"] => some .cqlErrorParseError
  | ["unexpected"] => some .unexpectedResponse
  | ["repchanged"] => some .repreparedIdChanged
  | ["repmissing"] => some .repreparedIdMissingInBatch
  | ["paging"] => some .nonfinishedPagingState
  | ["db", "syntax"] => some (.dbError .syntaxError)
  | ["db", "invalid"] => some (.dbError .invalid)
  | ["db", "exists"] => some (.dbError .alreadyExists)
  | ["db", "funcfail"] => some (.dbError .functionFailure)
  | ["db", "auth"] => some (.dbError .authenticationError)
  | ["db", "unauthorized"] => some (.dbError .unauthorized)
  | ["db", "config"] => some (.dbError .configError)
  | ["db", "overloaded"] => some (.dbError .overloaded)
  | ["db", "bootstrapping"] => some (.dbError .isBootstrapping)
  | ["db", "truncate"] => some (.dbError .truncateError)
  | ["db", "readfailure"] => some (.dbError .readFailure)
  | ["db", "writefailure"] => some (.dbError .writeFailure)
  | ["db", "unprepared"] => some (.dbError .unprepared)
  | ["db", "server"] => some (.dbError .serverError)
  | ["db", "protocol"] => some (.dbError .protocolError)
  | ["db", "ratelimit"] => some (.dbError .rateLimitReached)
  | ["db", "other"] => some (.dbError .other)
  | ["db", "unavailable", alive, required] =>
    match alive.toInt?, required.toInt? with
    | some a, some _ => some (.dbError (.unavailable a))
    | _, _ => none
  | ["db", "readtimeout", received, required, dp] =>
    match received.toInt?, required.toInt?, parseBool01 dp with
    | some r, some q, some d => some (.dbError (.readTimeout r q d))
    | _, _, _ => none
  | ["db", "writetimeout", received, required, wt] =>
    match received.toInt?, required.toInt?, parseWt wt with
    | some r, some _, some w => some (.dbError (.writeTimeout r w))
    | _, _, _ => none
  | _ => none

/-- `<token>` or `<token>#<n>`: `n` selects a variation of the payload fields that no policy reads (the harness
builds the real error with it); the model has no such fields and drops it. -/
def parseErr (s : String) : Option Err :=
  match s.splitOn "#" with
  | [b] => parseErrBase b
  | [b, n] => if n.toNat?.isSome then parseErrBase b else none
  | _ => none

def parsePolicy (s : String) : Option (Policy × Bool) :=
  match s.splitOn "/" with
  | [p, i] =>
    let pol := if p == "default" then some Policy.default else if p == "downgrading" then some Policy.downgrading
      else if p == "fallthrough" then some Policy.fallthrough else none
    let idem := if i == "i" then some true else if i == "n" then some false else none
    match pol, idem with
    | some p, some i => some (p, i)
    | _, _ => none
  | _ => none

def parseOps (s : String) : List String :=
  if s == "-" then [] else (s.splitOn ";").filter (· ≠ "")

def parseStep (s : String) : Option (Err × Consistency) :=
  match s.splitOn ":" with
  | [c, e] => match parseCl c, parseErr e with
    | some c, some e => some (e, c)
    | _, _ => none
  | _ => none

def parseOutcome (s : String) : Option Outcome :=
  if s == "ok" then some .ok else (parseErr s).map .fail

/-- One character per target: `0` never yields a connection, `1` always, a digit `d ≥ 2` only for the first
`d-1` `get_connection()` calls. -/
def parseTarget (c : Char) : Option Target :=
  if c == '0' then some Target.never
  else if c == '1' then some Target.always
  else if '2' ≤ c ∧ c ≤ '9' then some (Target.upTo (c.toNat - 49))
  else none

def parsePlan (s : String) : Option (List Target) :=
  if s == "-" then some [] else s.toList.mapM parseTarget

def clOpt : Option Consistency → String
  | none => ""
  | some c => ":" ++ clName c

def decName : Decision → String
  | .retrySame c => "same" ++ clOpt c
  | .retryNext c => "next" ++ clOpt c
  | .dontRetry => "dont"
  | .ignoreWrite => "ignore"

def listOrDash (xs : List String) (sep : String) : String :=
  if xs.isEmpty then "-" else sep.intercalate xs

/-- Canonical output token of an error: the kind and the fields the model keeps. -/
def errName : Err → String
  | .serializationError => "ser" | .cqlRequestSerialization => "reqser" | .unableToAllocStreamId => "alloc"
  | .brokenConnection => "broken" | .bodyExtensionsParseError => "bodyext" | .cqlResultParseError => "resparse"
  | .cqlErrorParseError => "errparse" | .unexpectedResponse => "unexpected" | .repreparedIdChanged => "repchanged"
  | .repreparedIdMissingInBatch => "repmissing" | .nonfinishedPagingState => "paging"
  | .dbError .syntaxError => "db.syntax" | .dbError .invalid => "db.invalid" | .dbError .alreadyExists => "db.exists"
  | .dbError .functionFailure => "db.funcfail" | .dbError .authenticationError => "db.auth"
  | .dbError .unauthorized => "db.unauthorized" | .dbError .configError => "db.config"
  | .dbError .overloaded => "db.overloaded" | .dbError .isBootstrapping => "db.bootstrapping"
  | .dbError .truncateError => "db.truncate" | .dbError .readFailure => "db.readfailure"
  | .dbError .writeFailure => "db.writefailure" | .dbError .unprepared => "db.unprepared"
  | .dbError .serverError => "db.server" | .dbError .protocolError => "db.protocol"
  | .dbError .rateLimitReached => "db.ratelimit" | .dbError .other => "db.other"
  | .dbError (.unavailable a) => s!"db.unavailable.{a}"
  | .dbError (.readTimeout r q d) => s!"db.readtimeout.{r}.{q}.{if d then 1 else 0}"
  | .dbError (.writeTimeout r w) => s!"db.writetimeout.{r}.{wtName w}"

def finalName : Final → String
  | .completed t => s!"ok:{t}"
  | .ignored t => s!"ignored:{t}"
  | .stopped e => "err:last:" ++ errName e
  | .exhausted (some (.attempt e)) => "err:last:" ++ errName e
  | .exhausted (some .pool) => "err:pool"
  | .exhausted none => "err:emptyplan"
  | .outOfFuel => "MODEL-OUT-OF-FUEL"

def parseDec (s : String) : Option Decision :=
  match s.splitOn ":" with
  | ["dont"] => some .dontRetry
  | ["ignore"] => some .ignoreWrite
  | ["same"] => some (.retrySame none)
  | ["next"] => some (.retryNext none)
  | ["same", c] => (parseCl c).map (fun c => .retrySame (some c))
  | ["next", c] => (parseCl c).map (fun c => .retryNext (some c))
  | _ => none

/-- `ok` or `<err>~<decision>` (the scripted policy's answer to that failure). -/
def parseScriptedOp (s : String) : Option (Outcome × Decision) :=
  if s == "ok" then some (.ok, .dontRetry) else
  match s.splitOn "~" with
  | [e, d] => match parseErr e, parseDec d with
    | some e, some d => some (.fail e, d)
    | _, _ => none
  | _ => none

def showTrace (tr : Trace) : String :=
  let a := listOrDash (tr.attempts.map (fun a => s!"{a.target}:{clName a.cl}")) ","
  let d := listOrDash (tr.decisions.map decName) ","
  s!"A={a} D={d} R={finalName tr.final} S={tr.newSessions}"

/-- `<outcome>@<virtual ms>` -/
def parseTimedOutcome (s : String) : Option Outcome :=
  match s.splitOn "@" with
  | [o, ms] => if ms.toNat?.isSome then parseOutcome o else none
  | _ => none

/-- One observed attempt of a `spec` line: `<fiber>:<target>:<cl>:<+|->` (`-` = cancelled in flight). -/
def parseSpecEntry (s : String) : Option (Nat × Nat × Consistency × Bool) :=
  match s.splitOn ":" with
  | [f, t, c, fl] =>
    match f.toNat?, t.toNat?, parseCl c with
    | some f, some t, some c => if fl == "+" then some (f, t, c, true) else if fl == "-" then some (f, t, c, false) else none
    | _, _, _ => none
  | _ => none

/-- Let fiber `f` perform loop iterations until it has made one more attempt (at most `fuel` iterations). -/
def stepUntilAttempt (P : PolicyFn Sess) (idem : Bool) (o : Nat → Nat → Outcome) (f : Nat) :
    Nat → List (Fiber Sess) × SharedPlan → Nat → List (Fiber Sess) × SharedPlan
  | 0, st, _ => st
  | fuel + 1, st, before =>
    let st' := runSched P idem o [f] st
    match st'.1[f]? with
    | some fb => if fb.log.length > before then st' else if fb.done then st' else stepUntilAttempt P idem o f fuel st' before
    | none => st'

/-- Run the multi-fiber model on the schedule recovered from the implementation's line.
`entries` = the observed attempts in global call order with their fiber; fiber `f`'s `j`-th attempt gets the
scripted outcome of the global call it was (an attempt cancelled in flight ends its fiber). -/
def specRun (p : Policy) (idem : Bool) (cl0 : Consistency) (plan : List Target) (m : Nat) (os : List Outcome)
    (impl : String) : String :=
  match words impl with
  | [_nw, _sw, rw, aw] =>
    if !aw.startsWith "A=" then "REJECT unparsable" else
    match (parseOps (((aw.drop 2).toString).replace "," ";")).mapM parseSpecEntry with
    | none => "REJECT unparsable"
    | some entries =>
      let nF := if idem then 1 + m else 1
      if entries.any (fun e => e.1 ≥ nF) then s!"REJECT fiber id >= {nF}" else
      -- per-fiber outcomes: global call k is the (number of earlier entries of the same fiber)-th attempt of its fiber
      let indexed := entries.zipIdx
      let outF : Nat → Nat → Outcome := fun f j =>
        match (indexed.filter (fun e => e.1.1 == f))[j]? with
        | some (e, k) => if e.2.2.2 then os.getD k .ok else .ok
        | none => .ok
      let P := builtin p
      let init : List (Fiber Sess) × SharedPlan := (List.replicate nF (Fiber.fresh cl0), ⟨plan, 0⟩)
      let (st, shown) := entries.foldl (fun (acc : (List (Fiber Sess) × SharedPlan) × List String) e =>
        let st := acc.1
        let before := match st.1[e.1]? with | some fb => fb.log.length | none => 0
        let st' := stepUntilAttempt P idem outF e.1 (2 * plan.length + 3) st before
        let got := match st'.1[e.1]? with
          | some fb => if fb.log.length > before then
              match fb.log.head? with
              | some a => s!"{e.1}:{a.target}:{clName a.cl}:{if e.2.2.2 then "+" else "-"}"
              | none => s!"{e.1}:none"
            else s!"{e.1}:none"
          | none => s!"{e.1}:none"
        (st', acc.2 ++ [got])) (init, [])
      let n := totalAttempts st.1
      let sess := (st.1.filter (fun fb => fb.loc.sess.isSome)).length
      s!"N={n} S={sess} {rw} A={listOrDash shown ","}"
  | _ => "REJECT unparsable"

/-- `<outcome>@<virtual ms>` with its duration -/
def parseTimedOutcomeD (s : String) : Option (Outcome × Nat) :=
  match s.splitOn "@" with
  | [o, ms] => match parseOutcome o, ms.toNat? with
    | some o, some d => some (o, d)
    | _, _ => none
  | _ => none

def timedFinalName : TimedFinal → String
  | .finished f => finalName f
  | .timedOut => "err:timeout"

/-- outcomes scripted by the end-to-end `wire` cases (harness/src/e2e/retry.rs `outcome_acts`) -/
def parseWireOutcome (s : String) : Option Outcome :=
  if s == "ok" then some .ok
  else if s == "un" then some (.fail (.dbError (.unavailable 1)))
  else if s == "bs" then some (.fail (.dbError .isBootstrapping))
  else if s == "rt" then some (.fail (.dbError (.readTimeout 2 2 false)))
  else if s == "rtd" then some (.fail (.dbError (.readTimeout 1 2 true)))
  else if s == "ov" then some (.fail (.dbError .overloaded))
  else if s == "se" then some (.fail (.dbError .serverError))
  else if s == "tr" then some (.fail (.dbError .truncateError))
  else if s == "wt" then some (.fail (.dbError (.writeTimeout 1 .simple)))
  else if s == "wtb" then some (.fail (.dbError (.writeTimeout 1 .batchLog)))
  else if s == "inv" then some (.fail (.dbError .invalid))
  else if s == "cl" then some (.fail .brokenConnection)
  else if s == "unp" then some (.fail (.dbError .unprepared))
  else none

def kvOf (ws : List String) (k : String) : Option String :=
  ws.findSome? (fun w => match w.splitOn "=" with | [a, b] => if a == k then some b else none | _ => none)

/-- Scripted answer to a PREPARE frame of a `wire` case: RESULT/Prepared with the statement's usual id (`p`), with
another id (`pc`), or a failure. -/
inductive PrepTok where
  | same | other | err (e : Err)
  deriving DecidableEq

def parsePrepTok (s : String) : Option PrepTok :=
  if s == "p" then some .same
  else if s == "pc" then some .other
  else if s == "pov" then some (.err (.dbError .overloaded))
  else if s == "pbs" then some (.err (.dbError .isBootstrapping))
  else if s == "pcl" then some (.err .brokenConnection)
  else none

/-- a scripted statement-frame answer and whether an UNPREPARED names a known id (`unpx`: it does not) -/
def parseWireStmt (s : String) : Option (Outcome × Bool) :=
  if s == "unpx" then some (.fail (.dbError .unprepared), false) else (parseWireOutcome s).map (·, true)

def wireErrKind : Err → String
  | .dbError (.unavailable _) => "un" | .dbError .isBootstrapping => "bs" | .dbError (.readTimeout _ _ _) => "rt"
  | .dbError .overloaded => "ov" | .dbError .serverError => "se" | .dbError .truncateError => "tr"
  | .dbError (.writeTimeout _ _) => "wt" | .dbError .invalid => "inv" | .dbError .unprepared => "unp"
  | .dbError _ => "db-other"
  | .brokenConnection => "cl" | .repreparedIdChanged => "idchg" | .repreparedIdMissingInBatch => "idmiss"
  | .unableToAllocStreamId => "alloc" | _ => "attempt-other"

/-- The answers seen by the attempt that starts at statement cursor `c` / PREPARE cursor `pc` of the request's two
scripts (each is one stream over the whole request; the model's answers are per attempt).  "The id changed" is
relative to the id the statement object holds: for a prepared statement that is the usual id; a QUERY with values
prepares afresh in every attempt (`connection.prepare`, any id is taken), so its re-prepare "changes the id" iff it
answers differently from that attempt's first PREPARE. -/
def wireAnswers (kind : StmtKind) (script : List (Outcome × Bool)) (preps : List PrepTok) (c pc : Nat) : Answers :=
  let tok := fun j => preps.getD (pc + j) .same
  let plain : PrepTok → PrepAnswer := fun t => match t with | .same => .ok | .other => .idChanged | .err e => .err e
  let prep : Nat → PrepAnswer := fun j =>
    if kind == .queryValues then
      (if j == 0 then (match tok 0 with | .err e => .err e | _ => .ok)
       else match tok j with
         | .err e => .err e
         | t => if t == tok 0 then .ok else .idChanged)
    else plain (tok j)
  ⟨fun j => (script.getD (c + j) (.ok, true)).1, prep, fun j => (script.getD (c + j) (.ok, true)).2⟩

def prepareCount (fs : List Frame) : Nat := (fs.filter (fun f => match f with | .prepare _ => true | _ => false)).length

/-- (statement cursor, PREPARE cursor) at the start of attempt `k`. -/
def wireCursor (kind : StmtKind) (script : List (Outcome × Bool)) (preps : List PrepTok) (rounds : Nat) :
    Nat → Nat × Nat
  | 0 => (0, 0)
  | k + 1 =>
    let (c, pc) := wireCursor kind script preps rounds k
    let fr := (attempt kind (wireAnswers kind script preps c pc) rounds).frames
    (c + (stmtAnswers fr).length, pc + prepareCount fr)

/-- One logical request of a `wire` case: statement frames and PREPARE frames put on the wire, result (error kind).
`implTok` = the implementation's token for this request: when the plan ran out after a connection had been closed,
the driver's plan may end with a second, now connection-less entry for that node (the load-balancing policy
computes the fallback part of the plan lazily, after the liveness change - C05's subject), and the caller then gets
the pool error instead of the last attempt's error; this one substitution is accepted. -/
def wireRequest (p : Policy) (idem : Bool) (cl0 : Consistency) (n : Nat) (kind : StmtKind) (countPreps : Bool)
    (script : List (Outcome × Bool)) (preps : List PrepTok) (implTok : String) : String :=
  let rounds := script.length + 2
  let answers : Nat → Answers := fun k =>
    let cur := wireCursor kind script preps rounds k
    wireAnswers kind script preps cur.1 cur.2
  let w := runWire p idem cl0 (List.replicate n Target.always) kind answers rounds
  let res := if w.hung then "hung" else match w.trace.final with
    | .completed _ => "ok" | .ignored _ => "ok"
    | .stopped e => "err:" ++ wireErrKind e
    | .exhausted (some (.attempt e)) => "err:" ++ wireErrKind e
    | .exhausted (some .pool) => "err:pool"
    | .exhausted none => "err:emptyplan"
    | .outOfFuel => "MODEL-OUT-OF-FUEL"
  let np := (w.frames.map prepareCount).sum
  let counts := s!"{w.stmtAnswers.length}/{if countPreps then toString np else "-"}"
  let closed := (List.range w.trace.attempts.length).any (fun k =>
    outcomeOf kind answers rounds k == .fail .brokenConnection)
  if w.trace.final.planRanOut && closed && implTok == counts ++ ":err:pool" then implTok
  else s!"{counts}:{res}"

def runWireCase (ws : List String) (impl : String) : String :=
  match kvOf ws "n", kvOf ws "pol", kvOf ws "idem", kvOf ws "kind", kvOf ws "cl", kvOf ws "via", kvOf ws "scripts" with
  | some n, some pol, some idem, some kind, some cl, some via, some scripts =>
    let p := if pol == "def" then some Policy.default else if pol == "down" then some Policy.downgrading
      else if pol == "fall" then some Policy.fallthrough else none
    let cl0 := if cl == "q" then some Consistency.localQuorum else if cl == "serial" then some Consistency.serial
      else if cl == "localserial" then some Consistency.localSerial else none
    -- a QUERY without values is one frame; with values it is PREPARE + EXECUTE in every attempt; everything
    -- prepared goes through execute_raw_with_consistency; `batch`: prepare_batch has nothing to prepare (the
    -- unprepared statement has no values / the CachingSession prepared it before); `batchv`: one PREPARE per attempt
    let k : Option StmtKind := if kind == "exec" then some .execute
      else if kind == "query" then (if via == "caching" then some .execute else some .query)
      else if kind == "qvals" then some .queryValues
      else if kind == "batch" then some (.batch 0)
      else if kind == "batchv" then some (.batch 1) else none
    let parseScript (sc : String) : Option (List (Outcome × Bool) × List PrepTok) :=
      match sc.splitOn "~" with
      | [a] => ((a.splitOn ".").mapM parseWireStmt).map (·, [])
      | [a, b] => match (a.splitOn ".").mapM parseWireStmt, ((b.splitOn ".").filter (· ≠ "")).mapM parsePrepTok with
        | some x, some y => some (x, y)
        | _, _ => none
      | _ => none
    let implToks := (words impl).drop 1
    match n.toNat?, p, idem.toNat?, k, cl0, (scripts.splitOn "/").mapM parseScript with
    | some n, some p, some idem, some k, some cl0, some scs =>
      "retry " ++ " ".intercalate (scs.zipIdx.map (fun (sc, i) =>
        wireRequest p (idem != 0) cl0 n k (via == "session") sc.1 sc.2 (implToks.getD i "")))
    | _, _, _, _, _, _ => "bad-case"
  | _, _, _, _, _, _, _ => "bad-case"

def run (case _impl : String) : String :=
  if case.startsWith "wire retry " then
    -- an environment problem (session could not be built): judged by nobody
    if _impl.startsWith "e2e-skip" then _impl else runWireCase (words case) _impl
  else
  match words case with
  | ["tmo", pol, clplant, outs] =>
    match parsePolicy pol, clplant.splitOn "/" with
    | some (p, idem), [c, pl, ts] =>
      match parseCl c, parsePlan pl, ts.toNat?, (parseOps outs).mapM parseTimedOutcomeD with
      | some cl0, some plan, some t, some os =>
        let tr := runTimed p idem cl0 plan (fun k => (os.getD k (.ok, 7)).1) (fun k => (os.getD k (.ok, 7)).2) t
        let a := listOrDash (tr.attempts.map (fun a => s!"{a.target}:{clName a.cl}")) ","
        let d := listOrDash (tr.decisions.map decName) ","
        s!"A={a} D={d} R={timedFinalName tr.final} S={if tr.decisions.isEmpty then 0 else 1}"
      | _, _, _, _ => "bad-case"
    | _, _ => "bad-case"
  | ["dec", pol, _, steps] =>
    match parsePolicy pol, (parseOps steps).mapM parseStep with
    | some (p, idem), some hist => listOrDash ((replay p idem Sess.init hist).map decName) " "
    | _, _ => "bad-case"
  | ["run", pol, clplan, outs] =>
    match parsePolicy pol, clplan.splitOn "/" with
    | some (p, idem), [c, pl] =>
      match parseCl c, parsePlan pl, (parseOps outs).mapM parseOutcome with
      | some cl0, some plan, some os =>
        showTrace (Exec.run p idem cl0 plan (fun k => os.getD k .ok))
      | _, _, _ => "bad-case"
    | _, _ => "bad-case"
  | ["runx", pol, clplan, outs] =>
    -- the execution loop under a scripted retry policy (every decision arm, every consistency)
    match parsePolicy pol, clplan.splitOn "/" with
    | some (.fallthrough, idem), [c, pl] =>
      match parseCl c, parsePlan pl, (parseOps outs).mapM parseScriptedOp with
      | some cl0, some plan, some ops =>
        let os := ops.map (·.1)
        let ds := ops.map (·.2)
        showTrace (Exec.runWith (scripted ds) idem cl0 plan (fun k => os.getD k .ok) (plan.length + ops.length + 2))
      | _, _, _ => "bad-case"
    | _, _ => "bad-case"
  | ["spec", pol, clplanm, outs] =>
    -- speculative execution: several interleaved fibers.  The implementation's line names the fiber of every
    -- attempt (in global `run_request_once` call order); the schedule of loop iterations is recovered from it
    -- and the MODEL (`runSched`) is run on that schedule: its attempts are printed.
    -- (an optional 4th part is a request timeout: it only cuts the schedule short - the fibers it drops show up
    --  as attempts cancelled in flight)
    match parsePolicy pol, (clplanm.splitOn "/").take 3, ((clplanm.splitOn "/").drop 3).all (fun t => t.toNat?.isSome) with
    | some (p, idem), [c, pl, ms], true =>
      match parseCl c, parsePlan pl, ms.toNat?, (parseOps outs).mapM parseTimedOutcome with
      | some cl0, some plan, some m, some os => specRun p idem cl0 plan m os _impl
      | _, _, _, _ => "bad-case"
    | _, _, _ => "bad-case"
  | _ => "bad-case"

end ScyllaVerif.Drive.C06

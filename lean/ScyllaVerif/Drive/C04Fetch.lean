import ScyllaVerif.Model.Util
import ScyllaVerif.Model.Ring
import ScyllaVerif.Model.Replicas
import ScyllaVerif.Model.Refresh
import ScyllaVerif.Model.C04Fetch
import ScyllaVerif.Drive.Topology
/-! Case-line syntax of the metadata-row cases of C04 (Rust side: `harness/src/c04_fetch.rs`).

```
text      := lowercase hex of the ASCII bytes | "-"        ("-" = the empty string)
tokens    := "null" | "[]" | text ("," text)*
row       := host ":" dc ":" rack ":" tokens            (host, dc, rack: decimal | "-" = null; names "dc<n>", "r<n>")
options   := text "=" text ("," text "=" text)* | "-"   (replication option map; keys distinct)
```
-/
namespace ScyllaVerif.Drive.C04Fetch
open ScyllaVerif.Util ScyllaVerif.Ring ScyllaVerif.Replicas ScyllaVerif.Refresh ScyllaVerif.C04Fetch
open ScyllaVerif.Drive.Topology

def parseText (s : String) : Option String :=
  (parseHex s).bind (fun bs => if bs.all (· < 128) then some (String.ofList (bs.map (fun b => Char.ofNat b.toNat))) else none)

def textHex (s : String) : String := toHex (s.toList.map (fun c => UInt8.ofNat c.toNat))

def parseTokensField (s : String) : Option (Option (List String)) :=
  if s == "null" then some none
  else if s == "[]" then some (some [])
  else ((s.splitOn ",").mapM parseText).map some

def parseRow (s : String) : Option Row :=
  match s.splitOn ":" with
  | [h, dc, rack, toks] =>
    match parseOptNat h, parseOptNat dc, parseOptNat rack, parseTokensField toks with
    | some h, some dc, some rack, some toks => some ⟨h, dc, rack, toks⟩
    | _, _, _, _ => none
  | _ => none

def parseRows (s : String) : Option (List Row) :=
  if s == "-" then some [] else (s.splitOn ";").mapM parseRow

def parsePair (s : String) : Option (String × String) :=
  match s.splitOn "=" with
  | [k, v] => match parseText k, parseText v with
    | some k, some v => some (k, v)
    | _, _ => none
  | _ => none

def parseOptions (s : String) : Option (List (String × String)) :=
  if s == "-" then some []
  else match (s.splitOn ",").mapM parsePair with
    | some m => if (m.map (·.1)).eraseDups.length == m.length then some m else none
    | none => none

def intList (xs : List Int) : String := if xs.isEmpty then "-" else ",".intercalate (xs.map toString)
def optNatStr : Option Nat → String
  | none => "-"
  | some n => toString n

def peerLine (p : FPeer) : String :=
  s!"peer id={p.id} dc={optNatStr p.dc} rack={optNatStr p.rack} tokens={intList p.tokens}"

/-- `peer … tokens=<t>` of the implementation: the single token. -/
def implSingleToken (impl : String) : Option Int :=
  match (words impl).getLast? with
  | some w => if w.startsWith "tokens=" then
      match parseIntList (w.drop 7).toString with
      | some [t] => if i64ok t && t != -9223372036854775808 then some t else none
      | _ => none
    else none
  | none => none

/-- `p <L|P> <row>`: one row through `create_peer_from_row`.  A dummy token is random: checker mode. -/
def runPeer (row : Row) (impl : String) : String :=
  if needsDummy row then
    match implSingleToken impl with
    | some t => match peerFromRow row t with
      | some p => if peerLine p == impl.trimAscii.toString then impl else "REJECT expected " ++ peerLine p
      | none => "REJECT"
    | none => "REJECT expected exactly one dummy token"
  else match peerFromRow row 0 with
    | some p => peerLine p
    | none => "skip"

def strategyLine : Except StrategyError FStrategy → String
  | .ok (.simple rf) => s!"simple {rf}"
  | .ok (.nts l) =>
    let l := l.toArray.qsort (fun a b => a.1 < b.1) |>.toList
    "nts " ++ (if l.isEmpty then "-" else ",".intercalate (l.map (fun e => s!"{textHex e.1}={e.2}")))
  | .ok .localStrategy => "local"
  | .ok (.other name data) => s!"other {textHex name} {data.length}"
  | .error .missingClass => "err missing-class"
  | .error .missingReplicationFactor => "err missing-rf"
  | .error .replicationFactorParse => "err rf-parse"
  | .error (.unexpectedNtsOption k) => s!"err nts-option {textHex k}"

/-- `s <options>`: the option map through `strategy_from_string_map`.  With several non-numeric NTS options the
one named by the error depends on the `HashMap`'s iteration order: any of them is accepted. -/
def runStrategy (m : List (String × String)) (impl : String) : String :=
  match strategyFromOptions m with
  | .error (.unexpectedNtsOption _) =>
    let bad := ((removeKey "class" m).filter (fun e => (parseUsize e.2).isNone)).map (fun e => s!"err nts-option {textHex e.1}")
    if bad.contains impl.trimAscii.toString then impl else "REJECT expected one of " ++ " | ".intercalate bad
  | r => strategyLine r

def validateLine : Except PeersError Unit → String
  | .ok _ => "ok"
  | .error .emptyPeers => "err empty-peers"
  | .error .emptyTokenLists => "err empty-token-lists"

end ScyllaVerif.Drive.C04Fetch

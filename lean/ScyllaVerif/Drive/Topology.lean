import ScyllaVerif.Model.Util
import ScyllaVerif.Model.Ring
import ScyllaVerif.Model.Replicas
/-! Case-line syntax for cluster topologies and replication strategies (shared by C04 / C05 / C12).
The Rust side of the same syntax is `harness/src/topology.rs`.

```
topology  := peer (";" peer)*            | "-"            (no peers)
peer      := id ":" dc ":" rack ":" tokens [":" flags]
id        := decimal host number (distinct per peer)
dc, rack  := decimal | "-"               ("-" = no datacenter / no rack; name in Rust: "dc<n>", "r<n>")
tokens    := i64 ("," i64)* | "-"        ("-" = the peer owns no token)
flags     := free word without ':' ';' ' ' (C05: liveness etc.; ignored by C04)
strategy  := "S" rf | "N" (dc "=" rf ("," dc "=" rf)*)? | "L" | "O"
strategies:= strategy ("|" strategy)*    | "-"            (keyspaces k0, k1, … in this order)
```
-/
namespace ScyllaVerif.Drive.Topology
open ScyllaVerif.Util ScyllaVerif.Ring ScyllaVerif.Replicas

def parseOptNat (s : String) : Option (Option Nat) :=
  if s == "-" then some none else s.toNat?.map some

/-- One peer and its (possibly empty) flags word. -/
def parsePeerEx (s : String) : Option (Peer × String) :=
  match s.splitOn ":" with
  | [id, dc, rack, toks] =>
    match id.toNat?, parseOptNat dc, parseOptNat rack, parseIntList toks with
    | some id, some dc, some rack, some toks => some (⟨⟨id, dc, rack⟩, toks⟩, "")
    | _, _, _, _ => none
  | [id, dc, rack, toks, flags] =>
    match id.toNat?, parseOptNat dc, parseOptNat rack, parseIntList toks with
    | some id, some dc, some rack, some toks => some (⟨⟨id, dc, rack⟩, toks⟩, flags)
    | _, _, _, _ => none
  | _ => none

def i64ok (t : Int) : Bool := decide (-9223372036854775808 ≤ t ∧ t ≤ 9223372036854775807)

/-- Peers with their flags; rejects repeated host ids and tokens outside `i64`. -/
def parseTopologyEx (s : String) : Option (List (Peer × String)) :=
  if s == "-" then some []
  else match (s.splitOn ";").mapM parsePeerEx with
    | none => none
    | some ps =>
      let ids := ps.map (·.1.node.id)
      if ids.eraseDups.length == ids.length && ps.all (fun p => p.1.tokens.all i64ok) then some ps else none

def parseTopology (s : String) : Option Topology := (parseTopologyEx s).map (·.map (·.1))

def parseDcRf (s : String) : Option (Nat × Nat) :=
  match s.splitOn "=" with
  | [dc, rf] => match dc.toNat?, rf.toNat? with
    | some dc, some rf => some (dc, rf)
    | _, _ => none
  | _ => none

def parseStrategy (s : String) : Option Strategy :=
  if s == "L" then some .localStrategy
  else if s == "O" then some .other
  else if s.startsWith "S" then (s.drop 1).toString.toNat?.map .simple
  else if s == "N" then some (.nts [])
  else if s.startsWith "N" then
    match ((s.drop 1).toString.splitOn ",").mapM parseDcRf with
    | some repf =>
      if (repf.map (·.1)).eraseDups.length == repf.length then some (.nts repf) else none
    | none => none
  else none

def parseStrategies (s : String) : Option (List Strategy) :=
  if s == "-" then some [] else (s.splitOn "|").mapM parseStrategy

/-- Node ids, comma separated (`-` when empty). -/
def nodeIds (l : List Node) : String := natList (l.map (·.id))

end ScyllaVerif.Drive.Topology

import ScyllaVerif.Model.Util
import ScyllaVerif.Model.Ring
import ScyllaVerif.Model.Replicas
import ScyllaVerif.Model.Plan
import ScyllaVerif.Model.Sharding
import ScyllaVerif.Model.Routing
import ScyllaVerif.Model.PlanRefresh
import ScyllaVerif.Model.C05TabletHistory
import ScyllaVerif.Drive.Topology
/-! Line-protocol driver for C05 (default load-balancing policy, `Plan`).

Case: `plan[.<tag>] <topology> <keyspace strategies> <config> <request> <samples>` or
`tplan[.<tag>] <topology> <keyspace strategies> <config> <request> <tablet> <samples>` (topology syntax: `Drive/Topology.lean`;
`tplan`: the table `(k0, t)` is TABLET based; `<tablet>` = `-` (no tablet yet) or tablets separated by `|`, each
`first:last:id@shard,…` (ascending, disjoint; bare `id@shard,…` = one tablet covering every token; a node possibly twice
with different shards).  A request on keyspace k0 is routed by the tablet covering its token (no replicas when none
does - the ring is NOT consulted; model: C12's `pickT` / `fallbackT` of `Model/Routing.lean`), a request on another or
an unknown keyspace or without table by the ring as in `plan`;
`hplan[.<tag>] <n> (<mode> <topology>)×n <keyspace strategies> <config> <request> <samples>`: the plans are computed on
the state a HISTORY of metadata refreshes produced (`runHistory`: C04's model of `calculate_new_topology`, composed with
the plan model by `PlanRefresh.clusterOf`) - first mode `n` (or `N`: built with per-peer verdicts), then `r` / `t` (rejecting filter), `R` / `T` (accepting), `F` / `G` (full / topology-only refresh with
a per-peer verdict: flag `a` = accepted, the rejected peers carry `d`); no sharders;
`xplan[.<tag>] <topology> <keyspace strategies> <config> <request> <flip> <samples>`: as `plan`, but the connected-override of
the nodes `<flip>` is inverted between the first and the second `Plan::next()` (model `PlanRefresh.plan2`: `pick` on the
flags, `fallback` on the flipped liveness; the line carries `dups=<k>` like `lplan`);
`lplan[.<tag>] <topology> <keyspace strategies> <config> <request> <samples>`: as `plan` with LATENCY AWARENESS on (outside
the property's quantifier; an observation): flag `p` = penalised; the model is `planOf (pick on the cluster where the
penalised nodes count as not alive) (wrapLA pen (fallback))` (`Model/PlanRefresh.lean`), the line carries `dups=<k>` =
the number of sampled plans that name their first node twice;
the flags word of a peer contains `d` = disabled by the host filter, `x` = no usable connection, and optionally
`s<nr_shards>.<msb_ignore>` = the node's sharder; `samples` > 0).
```
config  := pref "/" ("t"|"n") "/" ("f"|"n") "/" ("s"|"x")      token-aware / failover permitted / replica shuffling
pref    := "i" (inherit; config only) | "a" (Any) | "d"<dc> | "r"<dc>"."<rack>
request := (token|"-") "/" (keyspace index|"-") "/" ("0"|"1") "/" consistency "/" serial "/" pref
           consistency := any one two three quorum all lq eq lo serial lserial;  serial := "-" | "s" | "l" (never read)
```
Implementation line: `set=<ids> rep=<targets> lwt=<targets|x> det=<ids|*> | <sample>*` with
`sample := P<target|->/F<targets>/L<targets>`, `target := id ["@" shard]`: one `pick`, one `fallback` and one `Plan`
iteration per sample, each with fresh random choices of the thread RNG.

The model prints by itself (compared exactly): `set` (node ids of `planRun` at the zero choices, sorted - independent of
the random choices), `rep` (the targets that carry a shard, with the shard the C11 model `shardOfImpl` gives), `lwt` (the
replica prefix in order for LWT requests), and `det`: when the model's groups leave no room for a random choice (every
group contributes at most one new node or has a fixed order, and the first non-empty group is a singleton or an LWT
replica list) the ids of `planRun (pick ρ0) (fallback ρ0)`, else the implementation's token.

For the samples it is a CHECKER that decides by RUNNING the model: from an observed list it reconstructs the random
choices (one rotation offset per round-robin group, the draws of `shuffleWith` per shuffled replica group) and accepts iff
`fallback ρf` is exactly the observed fallback, the observed pick is `pick ρp` for some `ρp` of the index grid, and the
observed plan is `planRun (pick ρp) (fallback ρf)` (the `Plan::next` state machine; shards supplied by the policy must
match, a shard drawn by `Plan` must be below the node's shard count).  With replica shuffling disabled (`x`) the replica
pick, the replica part of the fallback and the replica part of the plan must additionally be the same in all samples of
the case (one policy object = one fixed seed).  Otherwise `REJECT …`. -/
namespace ScyllaVerif.Drive.C05
open ScyllaVerif.Util ScyllaVerif.Ring ScyllaVerif.Replicas ScyllaVerif.Plan ScyllaVerif.Drive.Topology
open ScyllaVerif.Sharding (shardOfImpl)
open ScyllaVerif.Routing (SRep pickT fallbackT planT replicaGroupsT rqNoToken tokenAware)
open ScyllaVerif.Refresh (CState MPeer KNode)
open ScyllaVerif.PlanRefresh (clusterOf withDown wrapLA)

def parsePref (s : String) : Option Pref :=
  if s == "a" then some .any
  else if s.startsWith "d" then (s.drop 1).toString.toNat?.map .dc
  else if s.startsWith "r" then
    match (s.drop 1).toString.splitOn "." with
    | [d, r] => match d.toNat?, r.toNat? with
      | some d, some r => some (.dcRack d r)
      | _, _ => none
    | _ => none
  else none

def parseFlag (yes no s : String) : Option Bool :=
  if s == yes then some true else if s == no then some false else none

/-- The configuration and the shuffle flag (`true` = replicas shuffled per call, `false` = fixed seed). -/
def parseConfig (s : String) : Option (Config × Bool) :=
  match s.splitOn "/" with
  | [p, ta, fo, sh] =>
    let pref : Option (Option Pref) := if p == "i" then some none else (parsePref p).map some
    match pref, parseFlag "t" "n" ta, parseFlag "f" "n" fo, parseFlag "s" "x" sh with
    | some pref, some ta, some fo, some sh => some (⟨pref, ta, fo⟩, sh)
    | _, _, _, _ => none
  | _ => none

def parseConsistency (s : String) : Option Consistency :=
  match s with
  | "any" => some .any | "one" => some .one | "two" => some .two | "three" => some .three
  | "quorum" => some .quorum | "all" => some .all | "lq" => some .localQuorum | "eq" => some .eachQuorum
  | "lo" => some .localOne | "serial" => some .serial | "lserial" => some .localSerial
  | _ => none

def parseRequest (s : String) : Option Request :=
  match s.splitOn "/" with
  | [tok, ks, lwt, cons, ser, p] =>
    let tok : Option (Option Int) := if tok == "-" then some none else
      match tok.toInt? with
      | some t => if i64ok t then some (some (tokenNew t)) else none
      | none => none
    let ks : Option (Option Nat) := parseOptNat ks
    match tok, ks, parseFlag "1" "0" lwt, parseConsistency cons, parsePref p with
    | some tok, some ks, some lwt, some cons, some p =>
      if ser == "-" || ser == "s" || ser == "l" then some ⟨cons, tok, ks, lwt, p⟩ else none
    | _, _, _, _, _ => none
  | _ => none

/-- The sharder of a flags word: `s<n>.<msb>`; `some none` = no sharder, `none` = malformed. -/
def parseSharder (flags : String) : Option (Option (Nat × Nat)) :=
  match flags.splitOn "s" with
  | [_] => some none
  | [_, spec] =>
    match spec.splitOn "." with
    | [n, m] => match n.toNat?, m.toNat? with
      | some n, some m => if 0 < n && n ≤ 65535 && m < 64 then some (some (n, m)) else none
      | _, _ => none
    | _ => none
  | _ => none

/-- Flags → disabled / down host ids and `with_computed_shard` for the request's token (`Sharder::shard_of`, the C11
model; a node without sharder answers 0). -/
def mkCluster (ps : List (Peer × String)) (ks : List Strategy) (tok : Option Int) : Cluster :=
  let sharders : List (Nat × (Nat × Nat)) :=
    ps.filterMap (fun p => match parseSharder p.2 with | some (some sh) => some (p.1.node.id, sh) | _ => none)
  { loc := Topology.locator (ps.map (·.1)) ks
    keyspaces := ks
    disabled := (ps.filter (fun p => p.2.contains 'd')).map (·.1.node.id)
    down := (ps.filter (fun p => p.2.contains 'x')).map (·.1.node.id)
    sh := fun id => match sharders.lookup id, tok with
      | some (n, msb), some t => shardOfImpl n (UInt8.ofNat msb) (Int64.ofInt t)
      | _, _ => 0 }

/-- `nr_shards` of a node for `with_random_shard_if_unknown` (1 without sharder). -/
def nrShards (ps : List (Peer × String)) (id : Nat) : Nat :=
  match ps.find? (fun p => p.1.node.id == id) with
  | some p => match parseSharder p.2 with | some (some (n, _)) => n | _ => 1
  | none => 1

/-- Observed target: host id and the shard, if one was supplied. -/
abbrev Obs := Nat × Option Nat

def obsOf (t : Target) : Obs := (t.1.id, t.2)

def parseObs (s : String) : Option Obs :=
  match s.splitOn "@" with
  | [id] => id.toNat?.map (·, none)
  | [id, sh] => match id.toNat?, sh.toNat? with
    | some id, some sh => some (id, some sh)
    | _, _ => none
  | _ => none

def parseObsList (s : String) : Option (List Obs) :=
  if s == "-" then some [] else (s.splitOn ",").mapM parseObs

def showObs (o : Obs) : String := toString o.1 ++ (match o.2 with | some s => "@" ++ toString s | none => "")

def showObsList (l : List Obs) : String := if l.isEmpty then "-" else ",".intercalate (l.map showObs)

def showPick (p : Option Obs) : String := match p with | none => "-" | some o => showObs o

/-- The comparator on observations (`targetEq`). -/
def obsEq (a b : Obs) : Bool :=
  a.1 == b.1 && (match a.2, b.2 with | some x, some y => x == y | _, _ => true)

/-- `unique_by` on observations: first occurrences not equal (comparator) to a seen one. -/
def dedupO : List Obs → List Obs → List Obs
  | [], _ => []
  | a :: l, seen => if seen.any (obsEq · a) then dedupO l seen else a :: dedupO l (a :: seen)

def sortNat (l : List Nat) : List Nat := l.mergeSort (fun a b => decide (a ≤ b))

def sortObs (l : List Obs) : List Obs :=
  l.mergeSort (fun a b => decide (a.1 < b.1 ∨ (a.1 = b.1 ∧ a.2.getD 0 ≤ b.2.getD 0)))

/-- Draws `ks` with `shuffleWith ks l = p` for a permutation `p` of `l`. -/
def unshuffle {α : Type} [BEq α] : List α → List α → List Nat
  | [], _ => []
  | a :: l, p => p.idxOf a :: unshuffle l (p.erase a)

structure RecState where
  seen : List Obs
  rest : List Obs
  restPen : List Obs
  shufs : List (List Nat)
  rots : List Nat

/-- Reconstructs the random choices of `fallback` from the observed targets (`seen0` = targets to treat as already
seen: the picked target of a plan).  `groupsAt[k]` = the model's eight groups under rotation offset `k` and no shuffle.
`pen` = the penalised host ids of a latency-aware policy (`[]` otherwise): the observation is then the `wrap`ped fallback -
the not-penalised targets of all groups first, the penalised ones behind - and each group's block is read from both parts.
The result is only a proposal: the caller runs the model with it and compares. -/
def recoverFb (groupsAt : List (List (List Target))) (lwt : Bool) (pen : List Nat) (obs : List Obs) (seen0 : List Obs) :
    RhoFb :=
  let base := groupsAt.headD []
  let isPen : Obs → Bool := fun o => pen.contains o.1
  let step := fun (st : RecState) (i : Nat) =>
    let gb := base.getD i []
    let exp := dedupO (gb.map obsOf) st.seen
    let nP := (exp.filter isPen).length
    let nF := exp.length - nP
    let blockF := st.rest.take nF
    let blockP := st.restPen.take nP
    let rest := st.rest.drop nF
    let restPen := st.restPen.drop nP
    let seen := st.seen ++ exp
    if i < 3 then
      let shuf : List Nat :=
        if lwt then []
        else
          let blockT := (blockF ++ blockP).filterMap (fun o => gb.find? (fun t => obsOf t == o))
          let others := blockT.foldl (fun acc t => acc.erase t) gb
          unshuffle gb (others ++ blockT)
      { seen := seen, rest := rest, restPen := restPen, shufs := st.shufs ++ [shuf], rots := st.rots }
    else if i < 6 then
      let k := ((List.range groupsAt.length).find? (fun k =>
        let d := dedupO (((groupsAt.getD k []).getD i []).map obsOf) st.seen
        d.filter (fun o => !isPen o) == blockF && d.filter isPen == blockP)).getD 0
      { seen := seen, rest := rest, restPen := restPen, shufs := st.shufs, rots := st.rots ++ [k] }
    else { seen := seen, rest := rest, restPen := restPen, shufs := st.shufs, rots := st.rots }
  let st := (List.range 8).foldl step ⟨seen0, obs.filter (fun o => !isPen o), obs.filter isPen, [], []⟩
  ⟨st.shufs.getD 0 [], st.shufs.getD 1 [], st.shufs.getD 2 [], st.rots.getD 0 0, st.rots.getD 1 0, st.rots.getD 2 0⟩

/-- Do the model's groups leave no room for a random choice?  (see the module comment) -/
def modelDeterministic (base : List (List Target)) (lwt : Bool) : Bool :=
  let firstNonEmpty := (List.range 8).find? (fun i => !(base.getD i []).isEmpty)
  let headOk := match firstNonEmpty with
    | none => true
    | some f => (base.getD f []).length ≤ 1 || (decide (f < 3) && lwt)
  let rec go (i : Nat) (fuel : Nat) (seen : List Obs) : Bool :=
    match fuel with
    | 0 => true
    | fuel + 1 =>
      let exp := dedupO ((base.getD i []).map obsOf) seen
      (exp.length ≤ 1 || (decide (i < 3) && lwt) || decide (6 ≤ i)) && go (i + 1) fuel (seen ++ exp)
  headOk && go 0 8 []

/-- Observed plan (every target with a shard) against a model plan: same nodes in the same order; a shard supplied by the
policy must be the observed one, a shard drawn by `Plan` is below the node's shard count. -/
def matchPlan (ps : List (Peer × String)) : List Target → List (Nat × Nat) → Bool
  | [], [] => true
  | t :: ts, o :: os =>
    t.1.id == o.1 && (match t.2 with | some s => s == o.2 | none => decide (o.2 < nrShards ps o.1)) && matchPlan ps ts os
  | _, _ => false

def parsePlanObs (s : String) : Option (List (Nat × Nat)) :=
  match parseObsList s with
  | some l => l.mapM (fun o => o.2.map (o.1, ·))
  | none => none

structure Sample where
  pick : Option Obs
  fb : List Obs
  plan : List (Nat × Nat)

def parseSample (s : String) : Option Sample :=
  match s.splitOn "/" with
  | [p, f, l] =>
    if !(p.startsWith "P" && f.startsWith "F" && l.startsWith "L") then none else
    let p := (p.drop 1).toString
    let pk : Option (Option Obs) := if p == "-" then some none else (parseObs p).map some
    match pk, parseObsList (f.drop 1).toString, parsePlanObs (l.drop 1).toString with
    | some pk, some f, some l => some ⟨pk, f, l⟩
    | _, _, _ => none
  | _ => none

/-- The policy of one case as the checker needs it: `pick`, `fallback`, the eight groups of `fallback` (for the
reconstruction of the random choices only). -/
structure PolicyM where
  pick : RhoPick → Option Target
  fallback : RhoFb → List Target
  groups : RhoFb → List (List Target)
  /-- `fallback` / its groups as `Plan` sees them when `pick()` answered nothing (it then calls `fallback()` inside the
  same first `next()`; differs from `fallback` only for the two-snapshot cases). -/
  fallbackNoPick : RhoFb → List Target := fallback
  groupsNoPick : RhoFb → List (List Target) := groups

def PolicyM.simple (p : RhoPick → Option Target) (f : RhoFb → List Target) (g : RhoFb → List (List Target)) : PolicyM :=
  { pick := p, fallback := f, groups := g }

/-- Prints the model's line for one case and judges the implementation's samples (see the module comment). -/
def check (ps : List (Peer × String)) (pm : PolicyM) (lwt shuffle : Bool) (n nS : Nat) (impl : String)
    (pen : List Nat := []) (latencyAware : Bool := false) : String :=
  let ρp0 : RhoPick := ⟨0, 0, 0, 0, 0, 0, 0, 0, 0, 0, 0⟩
  let ρf0 : RhoFb := ⟨[], [], [], 0, 0, 0⟩
  -- what does not depend on the random choices, from running the model's state machine at the zero choices
  let fb0 := pm.fallback ρf0
  let plan0 := planRun (pm.pick ρp0) fb0 (fb0.length + 3) .created
  if plan0 != planOf (pm.pick ρp0) fb0 then "MODEL-INCONSISTENT planRun/planOf" else
  let setIds := sortNat ((if latencyAware then fb0 else plan0).map (·.1.id))
  let reps := (fb0.filter (·.2.isSome)).map obsOf
  let lwtS := if lwt then showObsList reps else "x"
  let groupsAt := (List.range n).map (fun k => pm.groups ⟨[], [], [], k, k, k⟩)
  let replicaObs : List Obs := (((groupsAt.headD []).take 3).flatten).map obsOf
  let ws := words impl
  let implDet := ((ws.find? (·.startsWith "det=")).getD "det=?")
  let detS := if !latencyAware && modelDeterministic (groupsAt.headD []) lwt then "det=" ++ natList (plan0.map (·.1.id))
    else implDet
  -- latency-aware cases: the number of sampled plans that name their first node again (an observation, not a failure)
  let dupCount : Nat := ((ws.dropWhile (· != "|")).drop 1).foldl (fun acc w =>
    match (w.splitOn "/L").getLast? with
    | some l => match parsePlanObs l with
      | some (h :: t) => if t.any (fun o => o.1 == h.1) then acc + 1 else acc
      | _ => acc
    | none => acc) 0
  let dupS := if latencyAware then s!" dups={dupCount}" else ""
  let pre := s!"set={natList setIds} rep={showObsList (sortObs reps)} lwt={lwtS} {detS}{dupS} |"
  -- the possible answers of `pick`, each with random choices that produce it
  let picks : List (RhoPick × Option Target) :=
    ((List.range n).flatMap (fun i => (List.range n).map (fun j =>
      let ρ : RhoPick := ⟨i, j, i, j, i, j, i, i, i, i, i⟩
      (ρ, pm.pick ρ)))).foldl
      (fun acc x => if acc.any (fun y => y.2 == x.2) then acc else acc ++ [x]) []
  let groupsAtNoPick := (List.range n).map (fun k => pm.groupsNoPick ⟨[], [], [], k, k, k⟩)
  let fbOk (f : List Obs) : Bool := (pm.fallback (recoverFb groupsAt lwt pen f [])).map obsOf == f
  let fbObs0 : List Obs := fb0.map obsOf
  let planOk (l : List (Nat × Nat)) : Bool :=
    -- a planned target is "supplied by the policy" iff it is one of the replica groups' targets
    let asObs : List Obs := l.map (fun o => if replicaObs.contains (o.1, some o.2) then (o.1, some o.2) else (o.1, none))
    picks.any (fun (ρp, pk) =>
      let headOk := match pk, l with
        | some t, h :: _ => h.1 == t.1.id && (match t.2 with | some s => s == h.2 | none => true)
        | some _, [] => false
        | none, _ => true
      headOk &&
        (let ρf := match pk with
           | some t =>
             -- the literal filter of `Plan::next` removes the picked target from the fallback only if it is in it literally
             -- (always, for a policy without latency awareness)
             recoverFb groupsAt lwt pen (asObs.drop 1) (if fbObs0.contains (obsOf t) then [obsOf t] else [])
           | none => recoverFb groupsAtNoPick lwt pen asObs []
         let fb := match pk with | some _ => pm.fallback ρf | none => pm.fallbackNoPick ρf
         let r := planRun (pm.pick ρp) fb (fb.length + 3) .created
         r == planOf (pm.pick ρp) fb && matchPlan ps r l))
  match ws.dropWhile (· != "|") with
  | [] => pre ++ " REJECT no-samples-part"
  | _ :: sampleWords =>
    if sampleWords.length != nS then pre ++ s!" REJECT expected-{nS}-samples-got-{sampleWords.length}" else
    match sampleWords.mapM parseSample with
    | none => pre ++ " REJECT unparsable-sample"
    | some samples =>
      let verdicts := (samples.zip sampleWords).map (fun (sm, w) =>
        if !(picks.any (fun p => p.2.map obsOf == sm.pick)) then
          some (w ++ " pick-not-in " ++ " ".intercalate (picks.map (fun p => showPick (p.2.map obsOf))))
        else if !fbOk sm.fb then some (w ++ " fallback-not-producible e.g. " ++ showObsList (fb0.map obsOf))
        else if !planOk sm.plan then some (w ++ " plan-not-producible")
        else none)
      -- replica shuffling disabled: one fixed seed per policy, so the replica choices repeat
      let fixedPart (sm : Sample) : Option Obs × List Obs × List (Nat × Nat) :=
        (sm.pick.filter (·.2.isSome), sm.fb.filter (·.2.isSome),
          sm.plan.filter (fun o => replicaObs.contains (o.1, some o.2)))
      let shuffleOk := shuffle || latencyAware || match samples with
        | [] => true
        | s0 :: rest => rest.all (fun sm => fixedPart sm == fixedPart s0)
      match verdicts.find? (·.isSome) with
      | some (some why) => pre ++ " REJECT " ++ why
      | _ =>
        if !shuffleOk then pre ++ " REJECT shuffling-disabled-but-replica-choices-vary"
        else pre ++ String.join (sampleWords.map (" " ++ ·))

/-- Replicas `id@shard,…` of a tablet on the case line (known host ids only). -/
def parseReps (ps : List (Peer × String)) (s : String) : Option (List SRep) :=
  match (s.splitOn ",").mapM parseObs with
  | none => none
  | some l => l.mapM (fun o => match o.2, ps.find? (fun p => p.1.node.id == o.1) with
    | some sh, some p => some (p.1.node, sh)
    | _, _ => none)

/-- One tablet `first:last:replicas` (both bounds belong to the tablet), or bare `replicas` = the tablet of every token. -/
def parseTabletOne (ps : List (Peer × String)) (s : String) : Option (Int × Int × List SRep) :=
  match s.splitOn ":" with
  | [r] => (parseReps ps r).map (fun reps => (-9223372036854775807, 9223372036854775807, reps))
  | [f, l, r] =>
    match f.toInt?, l.toInt?, parseReps ps r with
    | some f, some l, some reps =>
      if -9223372036854775808 < f && f ≤ l && l ≤ 9223372036854775807 then some (f, l, reps) else none
    | _, _, _ => none
  | _ => none

/-- Tablets are given in ascending order and disjoint (what `TableTablets::add_tablet` maintains: C15). -/
def tabletsSorted : List (Int × Int × List SRep) → Bool
  | a :: b :: rest => decide (a.2.1 < b.1) && tabletsSorted (b :: rest)
  | _ => true

/-- The tablets of the table on the case line: `-` = none yet, else tablets separated by `|`. -/
def parseTablets (ps : List (Peer × String)) (s : String) : Option (List (Int × Int × List SRep)) :=
  if s == "-" then some []
  else match (s.splitOn "|").mapM (parseTabletOne ps) with
    | some ts => if tabletsSorted ts then some ts else none
    | none => none

/-- `tablet_for_token(token).map(replicas)` on a sorted disjoint list: the replicas of the tablet covering the token,
`&[]` when none does (C15 proves the binary search finds exactly it). -/
def coveringReps (ts : List (Int × Int × List SRep)) (tok : Option Int) : List SRep :=
  match tok with
  | none => []
  | some t => match ts.find? (fun x => decide (x.1 ≤ t ∧ t ≤ x.2.1)) with
    | some x => x.2.2
    | none => []

/-- `replicas_for_token` / `dc_replicas_for_token` of the covering tablet: the list, or its members of one datacenter. -/
def tabletV (reps : List SRep) : Option Nat → List SRep := fun dc =>
  match dc with
  | none => reps
  | some d => reps.filter (fun r => r.1.dc == some d)

/-- `id@shard,…` of a learnt tablet: raw `(host id, shard)` pairs, the host ids need not be known. -/
def parseRawReps (s : String) : Option (List (Nat × Nat)) :=
  match (s.splitOn ",").mapM parseObs with
  | none => none
  | some l => l.mapM (fun o => match o.2 with
    | some sh => some (o.1, sh)
    | none => none)

def parseRawTabletOne (s : String) : Option (Int × Int × List (Nat × Nat)) :=
  match s.splitOn ":" with
  | [r] => (parseRawReps r).map (fun reps => (-9223372036854775807, 9223372036854775807, reps))
  | [f, l, r] =>
    match f.toInt?, l.toInt?, parseRawReps r with
    | some f, some l, some reps =>
      if -9223372036854775808 < f && f ≤ l && l ≤ 9223372036854775807 then some (f, l, reps) else none
    | _, _, _ => none
  | _ => none

def rawSorted : List (Int × Int × List (Nat × Nat)) → Bool
  | a :: b :: rest => decide (a.2.1 < b.1) && rawSorted (b :: rest)
  | _ => true

def parseRawTablets (s : String) : Option (List (Int × Int × List (Nat × Nat))) :=
  if s == "-" then some []
  else match (s.splitOn "|").mapM parseRawTabletOne with
    | some ts => if rawSorted ts then some ts else none
    | none => none

/-- The steps of a `thplan` history: `N <topology>` first, then `F` / `G` steps; every peer carries exactly one of the
flags `a` (accepted by the host filter) / `d` (rejected), no sharders.  Address of a peer = its position. -/
def parseTHSteps : List String → Bool → Option (List (List (Peer × String)))
  | [], _ => some []
  | mode :: topo :: rest, first =>
    if (first && mode != "N") || (!first && mode != "F" && mode != "G") then none else
    match parseTopologyEx topo with
    | none => none
    | some tx =>
      if tx.any (fun p => p.2.contains 's' || (p.2.contains 'a' == p.2.contains 'd')) then none else
      (parseTHSteps rest false).map (tx :: ·)
  | _, _ => none

def thPeers (tx : List (Peer × String)) : List ScyllaVerif.TabletsRefresh.Peer :=
  (tx.zipIdx).map (fun (p, i) => ScyllaVerif.Routing.toPeer ((p.1.node, i), p.2.contains 'a'))

/-- `thplan`: the model's state after the history - `ClusterState::new`, the tablets learnt one by one, the refreshes. -/
def thState (nks : Nat) (steps : List (List (Peer × String))) (tabs : List (Int × Int × List (Nat × Nat))) :
    ScyllaVerif.TabletsRefresh.CState :=
  let kss := ScyllaVerif.C05TabletHistory.kssOf nks
  match steps with
  | [] => ScyllaVerif.TabletsRefresh.CState.init
  | s0 :: rest =>
    ScyllaVerif.C05TabletHistory.hrun kss
      (.refresh (thPeers s0) :: tabs.map (fun t => .learn ("k0", "t") t.1 t.2.1 t.2.2) ++
        rest.map (fun s => .refresh (thPeers s)))

/-- The state after a history `(<mode> <topology>)*` through C04's model of `calculate_new_topology`
(`Model/Refresh.lean`): mode `n` = `ClusterState::new`, `r` / `t` = full / topology-only refresh with a rejecting host
filter (the hooks clear `is_enabled` first), `R` / `T` = with an accepting one; after every step the hooks impose
`is_enabled` from the flags (`d` = disabled).  Address of a peer = its position in the list.  Returns the state and the
peers (with flags) of the last step. -/
def runHistory (ks : List Strategy) : List String → Option CState → List (Peer × String) →
    Option (CState × List (Peer × String))
  | [], some st, last => some (st, last)
  | mode :: topo :: rest, st, _ =>
    match parseTopologyEx topo with
    | none => none
    | some tx =>
      if tx.any (fun p => p.2.contains 's') then none else
      -- `F` / `G`: a host filter with one verdict per peer (flag `a` = accepted; the rejected ones carry `d`)
      let filtered := mode == "F" || mode == "G" || mode == "N"
      if filtered && tx.any (fun p => p.2.contains 'a' == p.2.contains 'd') then none else
      let peers : List MPeer := (tx.zipIdx).map (fun (p, i) =>
        ⟨p.1.node, i, p.1.tokens, if filtered then p.2.contains 'a' else (mode == "R" || mode == "T")⟩)
      let fetched : ScyllaVerif.Refresh.Fetched := (ks.zipIdx).map (fun (s, i) => (i, some s))
      let ids := (tx.filter (fun p => !p.2.contains 'd')).map (·.1.node.id)
      let next : Option CState :=
        match mode, st with
        | "n", none => some (CState.fresh peers fetched)
        | "N", none => some (CState.fresh peers fetched)
        | "r", some st => some ((st.setEnabled []).refresh peers fetched)
        | "t", some st => some ((st.setEnabled []).refreshTopology peers)
        | "R", some st => some (st.refresh peers fetched)
        | "T", some st => some (st.refreshTopology peers)
        | "F", some st => some (st.refresh peers fetched)
        | "G", some st => some (st.refreshTopology peers)
        | _, _ => none
      match next with
      | none => none
      | some st' =>
        -- a filtered step: the model's `is_enabled` of every node right after the refresh is the verdict
        -- (`Props.C05Refresh.pickNode_enabled`; the harness asserts the REAL `pool.is_some()` to be the verdict as well)
        if filtered && st'.known.map (fun k => (k.node.id, k.enabled)) != peers.map (fun p => (p.node.id, p.accepted)) then none
        else runHistory ks rest (some (st'.setEnabled ids)) tx
  | _, _, _ => none

def run (case impl : String) : String :=
  match words case with
  | [head, topo, kss, cfg, req, nSamples] =>
    if head == "lplan" || head.startsWith "lplan." then
      -- latency awareness ON: flag `p` = the harness reports 100 ms for the node, 1 ms for the others; a node is then
      -- penalised (threshold 2) iff it has `p` and some peer has not (the minimum average is then 1 ms)
      match parseTopologyEx topo, parseStrategies kss, parseConfig cfg, parseRequest req, nSamples.toNat? with
      | some ps, some ks, some (cfg, shuffle), some rq, some nS =>
        if nS == 0 || ps.any (fun p => (parseSharder p.2).isNone) then "bad-case" else
        let cl := mkCluster ps ks rq.token
        let pen := if ps.all (fun p => p.2.contains 'p') then [] else (ps.filter (fun p => p.2.contains 'p')).map (·.1.node.id)
        let clP := withDown cl (cl.down ++ pen)
        check ps (PolicyM.simple (pick clP cfg rq) (fun ρ => wrapLA pen (fallback cl cfg rq ρ)) (fallbackGroups cl cfg rq)) rq.routeAsLwt
          shuffle ((allNodes cl).length + 1) nS impl pen true
      | _, _, _, _, _ => "bad-case"
    else
    if !(head == "plan" || head.startsWith "plan.") then "bad-case" else
    match parseTopologyEx topo, parseStrategies kss, parseConfig cfg, parseRequest req, nSamples.toNat? with
    | some ps, some ks, some (cfg, shuffle), some rq, some nS =>
      if nS == 0 || ps.any (fun p => (parseSharder p.2).isNone) then "bad-case" else
      let cl := mkCluster ps ks rq.token
      check ps (PolicyM.simple (pick cl cfg rq) (fallback cl cfg rq) (fallbackGroups cl cfg rq)) rq.routeAsLwt shuffle
        ((allNodes cl).length + 1) nS impl
    | _, _, _, _, _ => "bad-case"
  | [head, topo, kss, cfg, req, tablet, nSamples] =>
    if head == "xplan" || head.startsWith "xplan." then
      -- two liveness snapshots: `pick()` on the flags, the lazily called `fallback()` after the connected-override of the
      -- nodes `tablet` (= flip list) was inverted: `PlanRefresh.plan2`
      match parseTopologyEx topo, parseStrategies kss, parseConfig cfg, parseRequest req, nSamples.toNat?,
        (if tablet == "-" then some [] else parseNatList tablet) with
      | some ps, some ks, some (cfg, shuffle), some rq, some nS, some flip =>
        if nS == 0 || ps.any (fun p => (parseSharder p.2).isNone) ||
          flip.any (fun i => !ps.any (fun p => p.1.node.id == i)) then "bad-case" else
        let cl := mkCluster ps ks rq.token
        let down₂ := cl.down.filter (fun i => !flip.contains i) ++ flip.filter (fun i => !cl.down.contains i)
        let cl₂ := withDown cl down₂
        check ps ⟨pick cl cfg rq, fallback cl₂ cfg rq, fallbackGroups cl₂ cfg rq, fallback cl cfg rq, fallbackGroups cl cfg rq⟩
          rq.routeAsLwt shuffle
          ((allNodes cl).length + 1) nS impl [] true
      | _, _, _, _, _, _ => "bad-case"
    else
    if !(head == "tplan" || head.startsWith "tplan.") then "bad-case" else
    match parseTopologyEx topo, parseStrategies kss, parseConfig cfg, parseRequest req, nSamples.toNat? with
    | some ps, some ks, some (cfg, shuffle), some rq, some nS =>
      match parseTablets ps tablet with
      | none => "bad-case"
      | some tabs =>
        if nS == 0 || ks.isEmpty || ps.any (fun p => (parseSharder p.2).isNone) then "bad-case" else
        let cl := mkCluster ps ks rq.token
        -- the tablet table is `(k0, t)`: `tablets_for_table` answers it for requests on keyspace k0 only; any other
        -- request (another / unknown keyspace, no table) is routed by the ring
        if rq.table != some 0 then
          check ps (PolicyM.simple (pick cl cfg rq) (fallback cl cfg rq) (fallbackGroups cl cfg rq)) rq.routeAsLwt shuffle
            ((allNodes cl).length + 1) nS impl
        else
        let reps := coveringReps tabs rq.token
        let V := tabletV reps
        let groups : RhoFb → List (List Target) := fun ρ =>
          (if tokenAware cl cfg rq then replicaGroupsT cl cfg rq V ρ else [[], [], []]) ++
            (fallbackGroups cl cfg (rqNoToken rq) ρ).drop 3
        check ps (PolicyM.simple (pickT cl cfg rq V) (fallbackT cl cfg rq V) (groups)) rq.routeAsLwt shuffle
          ((allNodes cl).length + reps.length + 1) nS impl
    | _, _, _, _, _ => "bad-case"
  | head :: nSteps :: rest =>
    if head == "thplan" || head.startsWith "thplan." then
      match nSteps.toNat? with
      | none => "bad-case"
      | some n =>
        if n == 0 || n > 64 || rest.length != 2 * n + 5 then "bad-case" else
        match rest.drop (2 * n) with
        | [kss, cfg, req, tablet, nSamples] =>
          match parseStrategies kss, parseConfig cfg, parseRequest req, nSamples.toNat?, parseRawTablets tablet,
            parseTHSteps (rest.take (2 * n)) true with
          | some ks, some (cfg, shuffle), some rq, some nS, some tabs, some steps =>
            match steps.getLast? with
            | none => "bad-case"
            | some lastPs =>
              let knownIn := fun (tx : List (Peer × String)) (id : Nat) => tx.any (fun p => p.1.node.id == id)
              if nS == 0 || ks.isEmpty then "bad-case" else
              if steps.length == 1 && tabs.any (fun t => t.2.2.any (fun r => !knownIn lastPs r.1)) then "bad-case" else
              let st := thState ks.length steps tabs
              -- no tablet ever holds a Node object a refresh has replaced (Props.C05Tablets.thplan_no_stale_object)
              if !(ScyllaVerif.C05TabletHistory.staleReps st).isEmpty then "MODEL-STALE-OBJECT" else
              -- the known nodes carry the verdicts / datacenters of the last metadata (Props.C05Tablets.known_of_last_metadata)
              if st.known.map (fun e => (e.1, e.2.enabled, e.2.node.dc)) !=
                  (thPeers lastPs).map (fun p => (p.hostId, p.accepted, p.dc)) then "MODEL-INCONSISTENT known/last" else
              let cl := mkCluster lastPs ks rq.token
              if rq.table != some 0 then
                check lastPs (PolicyM.simple (pick cl cfg rq) (fallback cl cfg rq) (fallbackGroups cl cfg rq)) rq.routeAsLwt shuffle
                  ((allNodes cl).length + 1) nS impl
              else
              let V := ScyllaVerif.C05TabletHistory.viewOf st ("k0", "t") (lastPs.map (·.1.node)) rq.token
              let groups : RhoFb → List (List Target) := fun ρ =>
                (if tokenAware cl cfg rq then replicaGroupsT cl cfg rq V ρ else [[], [], []]) ++
                  (fallbackGroups cl cfg (rqNoToken rq) ρ).drop 3
              check lastPs (PolicyM.simple (pickT cl cfg rq V) (fallbackT cl cfg rq V) (groups)) rq.routeAsLwt shuffle
                ((allNodes cl).length + (V none).length + 1) nS impl
          | _, _, _, _, _, _ => "bad-case"
        | _ => "bad-case"
    else
    if !(head == "hplan" || head.startsWith "hplan.") then "bad-case" else
    match nSteps.toNat? with
    | none => "bad-case"
    | some n =>
      if n == 0 || rest.length != 2 * n + 4 then "bad-case" else
      match rest.drop (2 * n) with
      | [kss, cfg, req, nSamples] =>
        match parseStrategies kss, parseConfig cfg, parseRequest req, nSamples.toNat? with
        | some ks, some (cfg, shuffle), some rq, some nS =>
          if nS == 0 then "bad-case" else
          match runHistory ks (rest.take (2 * n)) none [] with
          | none => "bad-case"
          | some (st, lastPs) =>
            let down := (lastPs.filter (fun p => p.2.contains 'x')).map (·.1.node.id)
            -- the cluster the policy reads in the state the history produced ...
            let cl := clusterOf st down (fun _ => 0)
            -- ... must be the cluster built from scratch from the last metadata (Props.C05Refresh.cluster_after_history)
            let fresh := mkCluster lastPs ks rq.token
            let ρf0 : RhoFb := ⟨[], [], [], 0, 0, 0⟩
            if fallback cl cfg rq ρf0 != fallback fresh cfg rq ρf0 || cl.disabled != fresh.disabled then
              "MODEL-INCONSISTENT history/fresh" else
            check lastPs (PolicyM.simple (pick cl cfg rq) (fallback cl cfg rq) (fallbackGroups cl cfg rq)) rq.routeAsLwt shuffle
              ((allNodes cl).length + 1) nS impl
        | _, _, _, _ => "bad-case"
      | _ => "bad-case"
  | _ => "bad-case"

end ScyllaVerif.Drive.C05

import ScyllaVerif.Model.Util
import ScyllaVerif.Model.Ring
import ScyllaVerif.Model.Replicas
import ScyllaVerif.Model.Plan
import ScyllaVerif.Drive.Topology
/-! Line-protocol driver for C05 (default load-balancing policy, `Plan`).

Case: `plan[.<tag>] <topology> <keyspace strategies> <config> <request> <samples>` (topology syntax: `Drive/Topology.lean`;
the flags word of a peer contains `d` = disabled by the host filter, `x` = no usable connection).
```
config  := pref "/" ("t"|"n") "/" ("f"|"n") "/" ("s"|"x")      token-aware / failover permitted / shuffling (not read by the model)
pref    := "i" (inherit; config only) | "a" (Any) | "d"<dc> | "r"<dc>"."<rack>
request := (token|"-") "/" (keyspace index|"-") "/" ("0"|"1") "/" consistency "/" serial "/" pref
           consistency := any one two three quorum all lq eq lo serial lserial;  serial := "-" | "s" | "l" (never read)
```
Implementation line: `set=<ids> rep=<ids> lwt=<ids|x> | <sample>*` with `sample := P<target|->/F<targets>/L<ids>`
(`target := id ["s"]`, `s` = the policy supplied a shard): one `pick`, one `fallback` and one `Plan` iteration per sample,
each with fresh random choices of the thread RNG.

The model prints `set` (node ids of the plan, sorted - independent of the random choices), `rep` (ids that occur as
replicas, i.e. with a shard), `lwt` (the replica prefix in order for LWT requests) itself, and then acts as a CHECKER for
the samples: a sample is echoed iff `pick` is one of the model's possible answers, `fallback` decomposes into the model's
groups (each group: the expected members minus those already seen; any order for a shuffled replica group, one of the
model's rotations for a round-robin group, exactly the model's order otherwise) and the plan is `planOf` of a possible
pick and an acceptable fallback. Otherwise `REJECT …`. -/
namespace ScyllaVerif.Drive.C05
open ScyllaVerif.Util ScyllaVerif.Ring ScyllaVerif.Replicas ScyllaVerif.Plan ScyllaVerif.Drive.Topology

def parsePref (s : String) : Option Pref :=
  if s == "a" then some .any
  else if s.startsWith "d" then (s.drop 1).toString.toNat?.map .dc
  else if s.startsWith "r" then
    match (s.drop 1).toString.splitOn "." with
    | [d, r] => match d.toNat?, r.toNat? with
      | some d, some r => some (.dcRack d r)
      | _, _ => none
    | _ => none
  else none

def parseFlag (yes no s : String) : Option Bool :=
  if s == yes then some true else if s == no then some false else none

def parseConfig (s : String) : Option Config :=
  match s.splitOn "/" with
  | [p, ta, fo, sh] =>
    let pref : Option (Option Pref) := if p == "i" then some none else (parsePref p).map some
    match pref, parseFlag "t" "n" ta, parseFlag "f" "n" fo, parseFlag "s" "x" sh with
    | some pref, some ta, some fo, some _ => some ⟨pref, ta, fo⟩
    | _, _, _, _ => none
  | _ => none

def parseConsistency (s : String) : Option Consistency :=
  match s with
  | "any" => some .any | "one" => some .one | "two" => some .two | "three" => some .three
  | "quorum" => some .quorum | "all" => some .all | "lq" => some .localQuorum | "eq" => some .eachQuorum
  | "lo" => some .localOne | "serial" => some .serial | "lserial" => some .localSerial
  | _ => none

def parseRequest (s : String) : Option Request :=
  match s.splitOn "/" with
  | [tok, ks, lwt, cons, ser, p] =>
    let tok : Option (Option Int) := if tok == "-" then some none else
      match tok.toInt? with
      | some t => if i64ok t then some (some (tokenNew t)) else none
      | none => none
    let ks : Option (Option Nat) := parseOptNat ks
    match tok, ks, parseFlag "1" "0" lwt, parseConsistency cons, parsePref p with
    | some tok, some ks, some lwt, some cons, some p =>
      if ser == "-" || ser == "s" || ser == "l" then some ⟨cons, tok, ks, lwt, p⟩ else none
    | _, _, _, _, _ => none
  | _ => none

/-- Flags → the lists of disabled / down host ids. -/
def mkCluster (ps : List (Peer × String)) (ks : List Strategy) : Cluster :=
  { loc := Topology.locator (ps.map (·.1)) ks
    keyspaces := ks
    disabled := (ps.filter (fun p => p.2.contains 'd')).map (·.1.node.id)
    down := (ps.filter (fun p => p.2.contains 'x')).map (·.1.node.id)
    sh := fun _ => 0 }

/-- Observed target: host id and whether the policy supplied a shard. -/
abbrev Obs := Nat × Bool

def obsOf (t : Target) : Obs := (t.1.id, t.2.isSome)

def parseObs (s : String) : Option Obs :=
  if s.endsWith "s" then (s.dropEnd 1).toString.toNat?.map (·, true) else s.toNat?.map (·, false)

def parseObsList (s : String) : Option (List Obs) :=
  if s == "-" then some [] else (s.splitOn ",").mapM parseObs

/-- First occurrence per host id. -/
def dedupObs : List Obs → List Nat → List Obs
  | [], _ => []
  | o :: l, seen => if seen.contains o.1 then dedupObs l seen else o :: dedupObs l (o.1 :: seen)

def sortNat (l : List Nat) : List Nat := l.mergeSort (fun a b => decide (a ≤ b))

/-- A group of the fallback chain as the checker sees it: `perm` = any order is acceptable; `alts` = the orders the
model can produce (before removing already seen ids). -/
structure GroupSpec where
  perm : Bool
  alts : List (List Obs)

/-- Does the observed list decompose into the groups?  `marks` = compare the shard marks too. -/
def checkGroups (marks : Bool) : List GroupSpec → List Nat → List Obs → Bool
  | [], _, obs => obs.isEmpty
  | g :: gs, seen, obs =>
    let norm : List Obs → List Obs := fun l => if marks then l else l.map (fun o => (o.1, false))
    let exps := g.alts.map (fun a => norm (dedupObs a seen))
    match exps with
    | [] => false
    | e0 :: _ =>
      let k := e0.length
      let block := norm (obs.take k)
      let ok := block.length == k && (if g.perm then e0.all (block.contains ·) else exps.any (· == block))
      ok && checkGroups marks gs (seen ++ e0.map (·.1)) (obs.drop k)

def showObs (o : Obs) : String := toString o.1 ++ (if o.2 then "s" else "")

def showObsList (l : List Obs) : String := if l.isEmpty then "-" else ",".intercalate (l.map showObs)

def showPick (p : Option Obs) : String := match p with | none => "-" | some o => showObs o

def run (case impl : String) : String :=
  match words case with
  | [head, topo, kss, cfg, req, nSamples] =>
    if !(head == "plan" || head.startsWith "plan.") then "bad-case" else
    match parseTopologyEx topo, parseStrategies kss, parseConfig cfg, parseRequest req, nSamples.toNat? with
    | some ps, some ks, some cfg, some rq, some _ =>
      let cl := mkCluster ps ks
      let lwt := rq.routeAsLwt
      let n := (allNodes cl).length + 1
      let ρ0 : RhoFb := ⟨[], [], [], 0, 0, 0⟩
      -- ρ-independent summary
      let fb0 := fallback cl cfg rq ρ0
      let setIds := sortNat (fb0.map (·.1.id))
      let repIds := sortNat ((fb0.filter (·.2.isSome)).map (·.1.id))
      let lwtIds := if lwt then natList ((fb0.filter (·.2.isSome)).map (·.1.id)) else "x"
      let pre := s!"set={natList setIds} rep={natList repIds} lwt={lwtIds} |"
      -- checker data: the groups under every rotation offset, the possible answers of `pick`
      let groupsAt := (List.range n).map (fun k => fallbackGroups cl cfg rq ⟨[], [], [], k, k, k⟩)
      let specs : List GroupSpec := (List.range 8).map (fun i =>
        { perm := decide (i < 3) && !lwt
          alts := (groupsAt.map (fun gs => (gs.getD i []).map obsOf)).eraseDups })
      let picks : List (Option Obs) :=
        ((List.range n).flatMap (fun i => (List.range n).map (fun j =>
          (pick cl cfg rq ⟨i, j, i, j, i, j, i, i, i, i, i⟩).map obsOf))).eraseDups
      let planOk (l : List Obs) : Bool :=
        (picks.contains none && checkGroups false specs [] l) ||
        picks.any (fun p => match p, l with
          | some o, h :: t => h.1 == o.1 && checkGroups false specs [o.1] t
          | _, _ => false)
      let ws := words impl
      match ws.dropWhile (· != "|") with
      | [] => pre ++ " REJECT no-samples-part"
      | _ :: samples =>
        let verdicts := samples.map (fun s =>
          match s.splitOn "/" with
          | [p, f, l] =>
            if !(p.startsWith "P" && f.startsWith "F" && l.startsWith "L") then some "unparsable" else
            let p := (p.drop 1).toString
            let pk : Option (Option Obs) := if p == "-" then some none else (parseObs p).map some
            match pk, parseObsList (f.drop 1).toString, parseObsList (l.drop 1).toString with
            | some pk, some f, some l =>
              if !picks.contains pk then some ("pick-not-in " ++ " ".intercalate (picks.map showPick))
              else if !checkGroups true specs [] f then some ("fallback-not-producible e.g. " ++ showObsList (fb0.map obsOf))
              else if !planOk l then some "plan-not-producible"
              else none
            | _, _, _ => some "unparsable"
          | _ => some "unparsable")
        match (verdicts.zip samples).find? (·.1.isSome) with
        | some (some why, s) => pre ++ " REJECT " ++ s ++ " " ++ why
        | _ => pre ++ String.join (samples.map (" " ++ ·))
    | _, _, _, _, _ => "bad-case"
  | _ => "bad-case"

end ScyllaVerif.Drive.C05

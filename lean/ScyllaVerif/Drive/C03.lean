import ScyllaVerif.Model.Util
import ScyllaVerif.Model.Murmur3
import ScyllaVerif.Model.PartitionKey
import ScyllaVerif.Model.SerializedValuesC03
import ScyllaVerif.Model.PkFetchC03
/-! Line-protocol driver for C03.  Input: `<case>\t<implementation output>`; output: the model's line.

* `hash <hex> <chunk lengths>`   → `<finish (chunks.foldl write init)> <murmur3Spec data>`
* `cdc <hex> <chunk lengths>`    → `<cdcFinish (chunks.foldl cdcWrite cdcInit)> <cdcRust data>`
* `vector <hex> <expected>`      → `<murmur3Spec data>`
* `pkidx <wire indexes>`         → the sorted `index:sequence` list (checker mode when marker indexes repeat)
* `token <cdc 0|1> <wire> <values…>` → `pk=… tok=… key=…`
* `ptoken <cdc 0|1> <values…>`   → `calculate_token_for_partition_key`
* `svnth <n1,n2,…> <values…>`    → the results of successive `nth(n_i)` calls on one `SerializedValues::iter()`
* `btoken <stmts> <rows>`          → `batchFirstToken` (`peek_first_token`): stmts = `;`-separated `U` | `P<cdc>:<ncols>:<wire>`,
  rows = `;`-separated comma lists (`.` = empty row), `none` = no statements / no rows
* `sesspart schema=<0|1|2> seed=<s>` → the implementation's line (snapshot + operations) with the results recomputed by
  `preparedPartitioner` / `boundCalculateToken` / `clusterComputeTokenChecked`
* `pname <hex utf-8 name | N>`   → `parsed=<from_str> selected=<partitioner after unwrap_or_default>`
* `pkfetch <id hex> <name:kind:pos:type:value,…>` → the implementation's line (`ks=… pk=… log=… ; ctok … ; ntok …`) with
  the keyspace's presence, the partition-key column order and every token recomputed from the COLUMN ROWS of the case
  (`PkFetchC03.tableOfRows` / `keyspaceOfTables` / `resolveKeyspace`) and the operations' inputs
Value syntax: hex, `-` (empty), `N` (null), `U` (unset), `z<len>x<hh>` (`len` bytes, byte `i` = `hh + 7 i mod 256`). -/
namespace ScyllaVerif.Drive.C03
open ScyllaVerif.Util ScyllaVerif.Murmur3 ScyllaVerif.PartitionKey

/-- Splits `data` into chunks of the given lengths (`none` unless they add up exactly). -/
def splitChunks : List UInt8 → List Nat → Option (List (List UInt8))
  | [], [] => some []
  | _ :: _, [] => none
  | data, n :: ns =>
    if n ≤ data.length then (splitChunks (data.drop n) ns).map (fun cs => data.take n :: cs) else none

def patternBytes (len b : Nat) : List UInt8 := (List.range len).map (fun i => UInt8.ofNat ((b + 7 * i) % 256))

def parseValue (s : String) : Option RawValue :=
  if s == "N" then some .null
  else if s == "U" then some .unset
  else match s.toList with
    | 'z' :: rest =>
      match (String.ofList rest).splitOn "x" with
      | [l, h] =>
        match l.toNat?, parseHex h with
        | some len, some [b] => some (.value (patternBytes len b.toNat))
        | _, _ => none
      | _ => none
    | _ => (parseHex s).map RawValue.value

def showPk (pk : List PkIndex) : String :=
  if pk.isEmpty then "-" else ",".intercalate (pk.map (fun p => s!"{p.index}:{p.sequence}"))

def parsePk (s : String) : Option (List PkIndex) :=
  if s == "-" then some []
  else (s.splitOn ",").mapM (fun e =>
    match e.splitOn ":" with
    | [a, b] => match a.toNat?, b.toNat? with
      | some i, some q => some ⟨i, q⟩
      | _, _ => none
    | _ => none)

def showExtractErr : ExtractErr → String
  | .noPkIndexValue i c => s!"err noPkIndexValue {i} {c}"
  | .panic => "panic"

def showTokenErr : TokenErr → String
  | .extraction e => showExtractErr e
  | .valueTooLong n => s!"err tooLong {n}"
  | .serialization => "err serialization"

def showKey (k : List UInt8) : String :=
  if k.length ≤ 64 then toHex k else s!"len{k.length}:{murmur3Spec k}"

def lexLe (a b : PkIndex) : Bool := a.index < b.index || (a.index == b.index && a.sequence ≤ b.sequence)

def cdcFlag (s : String) : Option Bool :=
  if s == "0" then some false else if s == "1" then some true else none

/-! `sesspart`: the implementation's line carries the session's metadata snapshot and, per operation, its inputs and
its results; the model recomputes the results from the snapshot and the inputs and prints the line again. -/

def bytesOf (s : String) : List UInt8 := s.toUTF8.toList

/-- `ks.table:pkcols:partitioner-hex|N` -/
def parseSnapEntry (e : String) : Option (List UInt8 × List UInt8 × Nat × Option (List UInt8)) :=
  match e.splitOn ":" with
  | [qual, pk, part] =>
    match qual.splitOn ".", pk.toNat? with
    | [ks, t], some n =>
      if part == "N" then some (bytesOf ks, bytesOf t, n, none)
      else (parseHex part).map (fun p => (bytesOf ks, bytesOf t, n, some p))
    | _, _ => none
  | _ => none

def insertTable {α : Type} (ks t : List UInt8) (a : α) :
    List (List UInt8 × List (List UInt8 × α)) → List (List UInt8 × List (List UInt8 × α))
  | [] => [(ks, [(t, a)])]
  | (k, ts) :: rest => if k == ks then (k, ts ++ [(t, a)]) :: rest else (k, ts) :: insertTable ks t a rest

def parseVals (s : String) : Option (List RawValue) :=
  if s.startsWith "many" then
    ((String.ofList (s.toList.drop 4)).toNat?).map (fun n => List.replicate n (.value [1]))
  else (s.splitOn ",").mapM parseValue

def showTok : Except TokenErr (Option Int64) → String
  | .ok (some t) => s!"ok:{t}"
  | .ok none => "none"
  | .error (.extraction (.noPkIndexValue i c)) => s!"err:noPk:{i}:{c}"
  | .error (.extraction .panic) => "panic"
  | .error (.valueTooLong n) => s!"err:tooLong:{n}"
  | .error .serialization => "err:serialization"

def showCtok : Except ClusterTokenErr Int64 → String
  | .ok t => s!"ok:{t}"
  | .error .unknownTable => "err:unknownTable"
  | .error .serialization => "err:serialization"
  | .error (.valueTooLong n) => s!"err:tooLong:{n}"

def sesspartOp (schemaP : SchemaSnapshot) (schemaT : TableSnapshot) (op : String) : String :=
  match words op with
  | ["prep", ks, t, wire, vals, _part, _tok] =>
    match parseNatList wire, parseVals vals with
    | some w, some values =>
      let part := preparedPartitioner (some (bytesOf ks, bytesOf t)) schemaP
      let cdc := part == .cdc
      let tok := boundCalculateToken cdc (pkIndexesOfWire w) values
      let ps := match part with | .cdc => "cdc" | .murmur3 => "murmur3"
      s!"prep {ks} {t} {wire} {vals} {ps} {showTok tok}"
    | _, _ => "bad-op"
  | ["cprep", ks, t, wire, vals, _part, _tok] =>
    -- the same statement prepared through a CachingSession (first call: prepared and cached; second: from the cache)
    match parseNatList wire, parseVals vals with
    | some w, some values =>
      let part := preparedPartitioner (some (bytesOf ks, bytesOf t)) schemaP
      let tok := boundCalculateToken (part == .cdc) (pkIndexesOfWire w) values
      let ps := match part with | .cdc => "cdc" | .murmur3 => "murmur3"
      s!"cprep {ks} {t} {wire} {vals} {ps} {showTok tok}"
    | _, _ => "bad-op"
  | ["ptokp", ks, t, key, _res] =>
    match parseVals key with
    | some values =>
      s!"ptokp {ks} {t} {key} {showCtok (clusterComputeTokenPreserialized schemaT (bytesOf ks) (bytesOf t) values)}"
    | none => "bad-op"
  | "route" :: rest => " ".intercalate ("route" :: rest)   -- arrival of real EXECUTEs: oracle only, echoed
  | ["ctok", ks, t, types, key, _res] =>
    match cdcFlag types, parseVals key with
    | some typesOk, some values =>
      s!"ctok {ks} {t} {types} {key} {showCtok (clusterComputeTokenChecked typesOk schemaT (bytesOf ks) (bytesOf t) values)}"
    | _, _ => "bad-op"
  | _ => "bad-op"

def sesspart (impl : String) : String :=
  if impl.startsWith "e2e-skip" then impl
  else
    match impl.splitOn " ; " with
    | [] => "bad-line"
    | head :: ops =>
      match words head with
      | schema :: snap :: extra =>
        if !snap.startsWith "snap=" || extra.length > 1 then "bad-line"
        else
          let entries := String.ofList (snap.toList.drop 5)
          let parsed := if entries == "-" then some [] else (entries.splitOn ",").mapM parseSnapEntry
          match parsed with
          | none => "bad-line"
          | some es =>
            let schemaP : SchemaSnapshot := es.foldl (fun acc (ks, t, _, p) => insertTable ks t p acc) []
            let schemaT : TableSnapshot := es.foldl (fun acc (ks, t, n, p) => insertTable ks t ⟨n, p⟩ acc) []
            -- `views=…` (evidence only: `keyspace.views` is read by no token path, so it is no model input)
            let headLine := " ".intercalate (schema :: snap :: extra)
            " ; ".intercalate (headLine :: ops.map (sesspartOp schemaP schemaT))
      | _ => "bad-line"

/-! `pkfetch`: the metadata fetch of ONE table from its `system_schema.columns` rows (in the order of the case), in a
keyspace `ks` that also holds `t` and the CDC log table `t_scylla_cdc_log`. -/

open ScyllaVerif.PkFetchC03 in
def parseColRow (s : String) : Option ColRow :=
  match s.splitOn ":" with
  | [name, kind, pos, ty, _val] =>
    let k : Option ColKind := if kind == "p" then some .partitionKey else if kind == "c" then some .clustering
      else if kind == "r" then some .other else none
    match k, pos.toInt? with
    | some k, some p => some ⟨name, k, p, ty⟩
    | _, _ => none
  | _ => none

/-- `ty:hex` items of a positional key. -/
def parseTyped (s : String) : Option (List (String × List UInt8)) :=
  if s == "-" then some []
  else (s.splitOn ",").mapM (fun e => match e.splitOn ":" with
    | [ty, h] => (parseHex h).map (fun b => (ty, b))
    | _ => none)

/-- `name=ty:hex` items of a named key. -/
def parseNamed (s : String) : Option (List (String × String × List UInt8)) :=
  if s == "-" then some []
  else (s.splitOn ",").mapM (fun e => match e.splitOn "=" with
    | [n, tv] => match tv.splitOn ":" with
      | [ty, h] => (parseHex h).map (fun b => (n, ty, b))
      | _ => none
    | _ => none)

def cdcPartitionerName : List UInt8 := bytesOf "com.scylladb.dht.CDCPartitioner"

open ScyllaVerif.PkFetchC03 in
def pkfetch (rowsS impl : String) : String :=
  match (rowsS.splitOn ",").mapM parseColRow with
  | none => "bad-case"
  | some rows =>
    let one : FetchedTable := ⟨["pk"], [], [("pk", "blob")]⟩
    let fetched := keyspaceOfTables [("t", .ok one), ("t_scylla_cdc_log", .ok one), ("pkf", tableOfRows rows)]
    let resolved := resolveKeyspace none fetched
    let part : String → Option (List UInt8) := fun n => if n == "t_scylla_cdc_log" then some cdcPartitionerName else none
    let schemaP : SchemaSnapshot := match resolved with
      | none => []
      | some ts => [(bytesOf "ks", ts.map (fun (n, _) => (bytesOf n, part n)))]
    let schemaT : TableSnapshot := match resolved with
      | none => []
      | some ts => [(bytesOf "ks", ts.map (fun (n, t) => (bytesOf n, ⟨t.pkSpecs.length, part n⟩)))]
    let specs : Option (List (String × String)) := (resolved.bind (fun ts => ts.lookup "pkf")).map (·.pkSpecs)
    let pkS := match resolved.bind (fun ts => ts.lookup "pkf") with
      | none => "notable"
      | some t => if t.partitionKey.isEmpty then "-" else ",".intercalate t.partitionKey
    let logP := match preparedPartitioner (some (bytesOf "ks", bytesOf "t_scylla_cdc_log")) schemaP with
      | .cdc => "cdc" | .murmur3 => "murmur3"
    let head := s!"ks={if resolved.isSome then "present" else "absent"} pk={pkS} log={logP}"
    let op : String → String := fun o =>
      match words o with
      | ["ctok", "log", key, _res] =>
        match parseHex key with
        | some id => s!"ctok log {key} {showCtok (clusterComputeToken schemaT (bytesOf "ks") (bytesOf "t_scylla_cdc_log") [.value id])}"
        | none => "bad-op"
      | ["ctok", "pkf", key, _res] =>
        match parseTyped key with
        | some kv =>
          let ok := match specs with | some sp => keyTypesOk sp (kv.map (·.1)) | none => true
          s!"ctok pkf {key} {showCtok (clusterComputeTokenChecked ok schemaT (bytesOf "ks") (bytesOf "pkf") (kv.map (fun x => .value x.2)))}"
        | none => "bad-op"
      | ["ntok", "pkf", key, _res] =>
        match parseNamed key with
        | some nv =>
          let r : Except ClusterTokenErr Int64 := match specs with
            | none => .error .unknownTable
            | some sp =>
              match namedKey sp nv with
              | none => .error .serialization
              | some kv => clusterComputeTokenChecked (keyTypesOk sp (kv.map (·.1))) schemaT (bytesOf "ks") (bytesOf "pkf")
                  (kv.map (fun x => .value x.2))
          s!"ntok pkf {key} {showCtok r}"
        | none => "bad-op"
      | _ => "bad-op"
    if impl.startsWith "e2e-skip" then impl
    else match impl.splitOn " ; " with
      | [] => "bad-line"
      | _ :: ops => " ; ".intercalate (head :: ops.map op)

def run (case impl : String) : String :=
  match words case with
  | ["hash", hex, lens] =>
    match parseHex hex, parseNatList lens with
    | some data, some ls =>
      match splitChunks data ls with
      | some chunks => s!"{finish (chunks.foldl write init)} {murmur3Spec data}"
      | none => "bad-case"
    | _, _ => "bad-case"
  | ["cdc", hex, lens] =>
    match parseHex hex, parseNatList lens with
    | some data, some ls =>
      match splitChunks data ls with
      | some chunks => s!"{cdcFinish (chunks.foldl cdcWrite cdcInit)} {cdcRust data}"
      | none => "bad-case"
    | _, _ => "bad-case"
  | ["vector", hex, _expected] =>
    match parseHex hex with
    | some data => s!"{murmur3Spec data}"
    | none => "bad-case"
  | ["pkidx", wire] =>
    match parseNatList wire with
    | some w =>
      let pk := pkIndexesOfWire w
      if (w.eraseDups).length == w.length then showPk pk
      else
        -- repeated marker indexes (no server sends them): the unstable sort may order equal keys either way
        match parsePk impl.trimAscii.toString with
        | none => "REJECT unparsable"
        | some obs =>
          let sortedByIndex := (obs.zip obs.tail).all (fun (a, b) => a.index ≤ b.index)
          if sortedByIndex && obs.mergeSort lexLe == pk.mergeSort lexLe then impl
          else "REJECT expected-a-sort-of " ++ showPk pk
    | none => "bad-case"
  | "token" :: cdc :: wire :: vals =>
    match cdcFlag cdc, parseNatList wire, vals.mapM parseValue with
    | some cdc, some w, some values =>
      -- repeated marker indexes: the order of equal keys after the unstable sort is an input (taken from the
      -- implementation's `pk=` field after checking that it is a sort of the wire pairs)
      let observed : Option (List PkIndex) :=
        match (impl.trimAscii.toString.splitOn " ").head? with
        | some f => if f.startsWith "pk=" then parsePk (String.ofList (f.toList.drop 3)) else none
        | none => none
      let stable := pkIndexesOfWire w
      let pk :=
        if (w.eraseDups).length == w.length then stable
        else match observed with
          | some obs =>
            if (obs.zip obs.tail).all (fun (a, b) => a.index ≤ b.index) &&
                obs.mergeSort lexLe == stable.mergeSort lexLe then obs else stable
          | none => stable
      let tok := match boundCalculateToken cdc pk values with
        | .ok none => "none"
        | .ok (some t) => s!"ok {t}"
        | .error e => showTokenErr e
      let key := match boundComputePartitionKey pk values with
        | .ok k => showKey k
        | .error e => showTokenErr e
      s!"pk={showPk pk} tok={tok} key={key}"
    | _, _, _ => "bad-case"
  | "ptoken" :: cdc :: vals =>
    match cdcFlag cdc, vals.mapM parseValue with
    | some cdc, some values =>
      match tokenForPartitionKey cdc values with
      | .ok t => s!"ok {t}"
      | .error n => s!"err tooLong {n}"
    | _, _ => "bad-case"
  | "svnth" :: ks :: vals =>
    match parseNatList ks, vals.mapM parseValue with
    | some ks, some values =>
      let showV : RawValue → String := fun v => match v with
        | .null => "N" | .unset => "U" | .value bs => "v:" ++ toHex bs
      -- successive `nth` calls on one iterator over the serialized buffer
      let rec go (ks : List Nat) (buf : List UInt8) (acc : List String) : List String :=
        match ks with
        | [] => acc.reverse
        | k :: rest =>
          match ScyllaVerif.SerializedValuesC03.nth k buf with
          | .done => go rest [] ("none" :: acc)
          | .panic => ("panic" :: acc).reverse
          | .item v buf' => go rest buf' (showV v :: acc)
      let buf := ScyllaVerif.SerializedValuesC03.encodeValues values
      " ".intercalate (go ks buf []) ++ " buf=" ++ toHex (be16 values.length ++ buf)
    | _, _ => "bad-case"
  | ["btoken", stmts, rows] =>
    let parseStmt : String → Option BatchStmt := fun d =>
      if d == "U" then some .unprepared
      else match d.toList with
        | 'P' :: rest =>
          match (String.ofList rest).splitOn ":" with
          | [c, n, w] =>
            match cdcFlag c, n.toNat?, parseNatList w with
            | some cdc, some ncols, some wire => some (.prepared cdc (pkIndexesOfWire wire) ncols)
            | _, _, _ => none
          | _ => none
        | _ => none
    let parseRow : String → Option (List RawValue) := fun r =>
      if r == "." then some [] else (r.splitOn ",").mapM parseValue
    let stmts? := if stmts == "none" then some [] else (stmts.splitOn ";").mapM parseStmt
    let rows? := if rows == "none" then some [] else (rows.splitOn ";").mapM parseRow
    match stmts?, rows? with
    | some ss, some rs => showTok (batchFirstToken ss rs)
    | _, _ => "bad-case"
  | "sesspart" :: _ => sesspart impl
  | ["pkfetch", _id, rows] => pkfetch rows impl
  | ["pname", name] =>
    let showP : PartitionerName → String := fun p => match p with | .murmur3 => "murmur3" | .cdc => "cdc"
    if name == "N" then s!"parsed=none selected={showP (selectPartitioner none)}"
    else match parseHex name with
      | some bs =>
        let parsed := match partitionerFromStr bs with | none => "none" | some p => showP p
        s!"parsed={parsed} selected={showP (selectPartitioner (some bs))}"
      | none => "bad-case"
  | _ => "bad-case"

end ScyllaVerif.Drive.C03

import ScyllaVerif.Model.Util
import ScyllaVerif.Model.Keyspace
import ScyllaVerif.Model.KeyspaceTopology
/-! Line-protocol driver for C20.  Input: `<case>\t<implementation output>`; output: the model's line.

* `name <hex utf8> <cs>`                       → `ok <hex of the USE statement>` | `err <kind>`
* `resp <hex name> <cs> <kind> <hex resp name>` → `ok` | `err <label>`  (one `USE` exchange on one connection)
-/
namespace ScyllaVerif.Drive.C20
open ScyllaVerif.Util ScyllaVerif.Keyspace ScyllaVerif.KeyspaceTopology

def strOfHex (h : String) : Option String :=
  match parseHex h with
  | none => none
  | some bs => String.fromUTF8? (ByteArray.mk bs.toArray)

def hexOfStr (s : String) : String := toHex s.toUTF8.toList

def badName : BadName → String
  | .empty => "Empty"
  | .tooLong => "TooLong"
  | .illegalCharacter => "IllegalCharacter"

def useErrLabel : UseErr → String
  | .broken => "RequestError"
  | .dbError => "RequestError"
  | .unexpected => "RequestError"
  | .mismatch => "KeyspaceNameMismatch"
  | .timeout => "RequestTimeout"

def parseBool : String → Option Bool
  | "0" => some false
  | "1" => some true
  | _ => none


/-! ### pool scripts: the model run to quiescence after every client step -/

inductive RuleKind where
  | reject | mismatch | void | upper | closeOnce
  deriving DecidableEq

structure Rule where
  idx : Nat
  shard : Option Nat
  conn : Option Nat := none   -- `closeOnce`: the connection chosen when the rule was installed
  kind : RuleKind
  spent : Bool

abbrev P := Pool VerifiedName

/-- What the scripted node does with the k-th accepted connection: refuse it, or place it on `shard` of
`nr` shards whatever its source port. -/
inductive Accept where
  | refuse
  | place (shard nr : Nat)

structure Sim where
  pool : P
  names : List (String × Bool)
  sharded : Bool
  n : Nat                       -- shards the node currently reports (S mode) / connections per host (H mode)
  rules : List Rule
  holdNew : Bool
  held : List Nat
  holdNext : List (Nat × Nat) := []   -- (connection, k): the node holds back the next k `USE` statements on it
  stuck : List (Nat × Nat) := []      -- (connection, k): the k oldest statements in flight on it are held back
  script : List Accept := []    -- what the node does with the next accepted connections (then: by source port)
  plain : Nat := 0              -- open futures that are immediate retries on the regular port
  log : List (Ev VerifiedName) := []   -- every pool event issued (replayed through the cluster model by `sess` cases)

def otherKs : VerifiedName := ⟨"zz_other", true⟩

/-- The keyspace a server selects: unquoted identifiers are lower-cased. -/
def srvName (v : VerifiedName) : String :=
  if v.caseSensitive then v.name else String.ofList (v.name.toList.map asciiLower)

def Sim.nameIdx (s : Sim) (v : VerifiedName) : Option Nat :=
  s.names.findIdx? (fun e => e.1 == v.name && e.2 == v.caseSensitive)

def Sim.verified (s : Sim) (i : Nat) : Option (Except BadName VerifiedName) :=
  match s.names[i]? with
  | none => none
  | some (nm, cs) => some (VerifiedName.new nm cs)

/-- What the scripted node does with `USE k` on connection `i`: `none` = it closes the connection. -/
def Sim.reply (s : Sim) (i : Nat) (k : VerifiedName) : Sim × Option (SrvReply VerifiedName) :=
  let sh := (s.pool.net i).shard
  let ki := s.nameIdx k
  let hit (r : Rule) : Bool := !r.spent && some r.idx == ki && (r.shard.isNone || r.shard == some sh) &&
    (r.conn.isNone || r.conn == some i)
  match s.rules.find? hit with
  | none => (s, some .ack)
  | some r =>
    match r.kind with
    | .reject => (s, some .dbError)
    | .mismatch => (s, some (.ackOther otherKs))
    | .void => (s, some .unexpected)
    | .upper => (s, some .ack)
    | .closeOnce =>
      -- the first matching rule is spent
      let rec spend : List Rule → List Rule
        | [] => []
        | r :: rs => if hit r then { r with spent := true } :: rs else r :: spend rs
      ({ s with rules := spend s.rules }, none)

def Sim.ev (s : Sim) (e : Ev VerifiedName) : Sim := { s with pool := step s.pool e, log := s.log ++ [e] }

/-- The node answers the `USE` at position `pos` of connection `i`'s queue (0 = the oldest; a broken connection
fails it). -/
def Sim.serveAt (s : Sim) (i pos : Nat) : Sim :=
  match (s.pool.net i).queue[pos]? with
  | none => s
  | some (_, k) =>
    let ev (r : SrvReply VerifiedName) : Ev VerifiedName := if pos = 0 then .serve i r else .serveOoo i (pos - 1) r
    if (s.pool.net i).broken then s.ev (ev .ack)
    else
      match s.reply i k with
      | (s, some r) => s.ev (ev r)
      | (s, none) => (s.ev (.breakConn i)).ev (ev .ack)

def Sim.stuckCount (s : Sim) (i : Nat) : Nat := ((s.stuck.find? (·.1 == i)).map (·.2)).getD 0

/-- The node answers everything it does not hold back on `i`: all of it in order, or - when the oldest `k`
statements are held - the later ones, out of order. -/
def Sim.drain : Nat → Sim → Nat → Sim
  | 0, s, _ => s
  | fuel + 1, s, i =>
    if s.held.contains i && !(s.pool.net i).broken then s
    else
      let k := if (s.pool.net i).broken then 0 else s.stuckCount i
      if (s.pool.net i).queue.length ≤ k then s else Sim.drain fuel (s.serveAt i k) i

/-- A statement has just been written on `i`: if the node was told to hold the next ones, it now holds it. -/
def Sim.noteSubmit (s : Sim) (i : Nat) : Sim :=
  match s.holdNext.find? (·.1 == i) with
  | some (_, k + 1) =>
    let others := s.holdNext.filter (·.1 != i)
    let st := s.stuckCount i
    { s with holdNext := if k = 0 then others else (i, k) :: others,
             stuck := (i, st + 1) :: s.stuck.filter (·.1 != i) }
  | _ => s

def outcomeTok : Outcome → String
  | .ok => "ok"
  | .err e => "e:" ++ useErrLabel e
  | .panic => "PANIC"

/-- `use_keyspace(names[i])` awaited: the task writes its `USE` on every snapshot connection, the node answers
what it does not hold back; if an answer is still missing, the pool's timeout answers the caller and the `USE`
stays in flight (it is answered when the node releases it). -/
def Sim.runTask (s : Sim) (tid : Nat) : Sim × String :=
  match findTask s.pool.tasks tid with
  | none => (s, "MODEL-BUG")
  | some t =>
    let s := t.snapshot.foldl (fun s i =>
      let live := !(s.pool.net i).broken
      let s := s.ev (.taskSubmit tid i)
      if live then s.noteSubmit i else s) s
    let s := t.snapshot.foldl (fun s i => s.drain 32 i) s
    match findTask s.pool.tasks tid with
    | none => (s, "MODEL-BUG")
    | some t =>
      if t.resp.isSome then (s, match t.resp with | some o => outcomeTok o | none => "MODEL-STUCK")
      else if !t.allDone then
        let s := s.ev (.taskTimeout tid)
        (s, "e:RequestTimeout")
      else
        let s := s.ev (.taskFinish tid)
        match findTask s.pool.tasks tid with
        | some t => (s, match t.resp with | some o => outcomeTok o | none => "MODEL-STUCK")
        | none => (s, "MODEL-BUG")

def Sim.useKs (s : Sim) (k : VerifiedName) : Sim × String :=
  let tid := s.pool.tasks.length
  (s.ev (.useKs k)).runTask tid

def Sim.connErrors (s : Sim) : Sim :=
  let broken := (s.pool.conns ++ s.pool.excess).filter fun i => (s.pool.net i).broken
  broken.foldl (fun s i => s.ev (.connError i)) s

/-- Resolve every setting-keyspace future whose connection is not held (`fuel` bounds re-setting). -/
def Sim.settle : Nat → Sim → Sim
  | 0, s => s
  | fuel + 1, s =>
    match s.pool.setting.find? (fun e => !s.held.contains e.1) with
    | none => s
    | some (i, k, _) =>
      let before := s.pool.opening
      let s := if (s.pool.net i).broken then s.ev (.ksSet i .ack)
        else
          match s.reply i k with
          | (s, some r) => s.ev (.ksSet i r)
          | (s, none) => (s.ev (.breakConn i)).ev (.ksSet i .ack)
      -- a requested-shard miss is dropped and retried at once on the regular port
      let s := if s.pool.opening > before then { s with plain := s.plain + (s.pool.opening - before) } else s
      Sim.settle fuel s

/-- Resolve the pending open futures. The pool asks for a specific shard (through the shard-aware port) when it
knows the sharder, is not blocked and already has a connection; immediate retries use the regular port. The
node follows its script (refuse / place on a given shard) and otherwise honours the requested shard (an
unrequested connection lands on the lowest shard that still misses a connection). -/
def Sim.openAll : Nat → Sim → Sim
  | 0, s => s
  | fuel + 1, s =>
    if s.pool.opening = 0 then s
    else
      let missing := (List.range s.pool.nShards).filter fun sh => s.pool.shardCount sh == 0 &&
        !(s.pool.setting.any fun e => (s.pool.net e.1).shard == sh)
      let want := missing.headD 0
      let (isPlain, s) := if s.plain > 0 then (true, { s with plain := s.plain - 1 }) else (false, s)
      let requested : Option Nat :=
        if s.sharded && !isPlain && s.pool.perShard && s.pool.canUseShardAware && !s.pool.conns.isEmpty then some want
        else none
      match s.script with
      | .refuse :: rest =>
        let s := { s with script := rest }
        let s := s.ev (.openFailed requested.isSome)
        let s := if requested.isSome then { s with plain := s.plain + 1 } else s
        Sim.openAll fuel s
      | acc :: rest =>
        let (sh, nr) := match acc with
          | .place sh nr => (sh, nr)
          | .refuse => (0, 1)
        let i := s.pool.nextId
        let before := s.pool.opening
        let s := { s with script := rest, n := nr }
        let s := s.ev (.opened sh (some nr) requested)
        let s := if s.pool.opening ≥ before then { s with plain := s.plain + 1 } else s
        let s := if s.holdNew then { s with held := i :: s.held } else s
        Sim.openAll fuel s
      | [] =>
        let sh := if s.sharded then want else 0
        let sharder := if s.sharded then some s.n else none
        let i := s.pool.nextId
        let before := s.pool.opening
        let s := s.ev (.opened sh sharder requested)
        let s := if s.pool.opening ≥ before then { s with plain := s.plain + 1 } else s
        let s := if s.holdNew then { s with held := i :: s.held } else s
        Sim.openAll fuel s

def Sim.total (s : Sim) : Nat := s.n

/-- Resolve open futures and setting-keyspace futures until none is left (a resolved setting future can push a
new open future: the retry after a requested-shard miss). -/
def Sim.resolve : Nat → Sim → Sim
  | 0, s => s
  | fuel + 1, s =>
    let s := s.openAll 16
    let s := s.settle 16
    if s.pool.opening = 0 then s else Sim.resolve fuel s

/-- Run the refiller until the pool is full or nothing more happens (`rounds` refills at most). -/
def Sim.quiesce : Nat → Sim → Sim
  | 0, s => s.connErrors.resolve 8
  | rounds + 1, s =>
    let s := s.connErrors
    let s := s.resolve 8
    if s.pool.isFull then s
    else if !s.pool.needFilling then s
    else Sim.quiesce rounds (s.ev .refill)

/-- `q<keyspace at arrival>@<shard of the connection>` for a connection. -/
def Sim.qTok (s : Sim) (i : Nat) : String :=
  let ks := match (s.pool.net i).serverKs with
    | some v => srvName v
    | none => "-"
  let sh := if s.sharded then toString (s.pool.net i).shard else "-"
  "q" ++ ks ++ "@" ++ sh

/-- All sequences of `len` elements of `xs`. -/
def seqsOf {α : Type} (xs : List α) : Nat → List (List α)
  | 0 => [[]]
  | len + 1 => (seqsOf xs len).flatMap fun tl => xs.map (· :: tl)

/-- Every connection the MODEL's `connection_for_shard` (`shard = some s`) / `random_connection` (`none`) hands out
for some random choices: the model functions themselves are run over all choices that matter (indices below the
number of published connections / of shards). -/
def possibleHandouts (p : P) (shard : Option Nat) : List Nat :=
  let m := max 1 p.conns.length
  let n := p.nShards
  let rs := List.range m
  let pairs := (List.range n).flatMap fun a => rs.map fun b => (a, b)
  let rhos : List (Nat → Nat × Nat) := (seqsOf pairs n).map fun (sq : List (Nat × Nat)) => fun (k : Nat) => sq.getD k (0, 0)
  let outs := rhos.flatMap fun ρ => rs.flatMap fun r =>
    match shard with
    | some s => [p.connectionForShard s r ρ]
    | none => (List.range n).map fun rsh => p.randomConnection rsh r ρ
  (outs.filterMap id).eraseDups

/-- A query for `shard` (`none`: through `random_connection`): the implementation's answer must be what one of the
connections the MODEL hands out would give. -/
def Sim.queryOpt (s : Sim) (shard : Option Nat) (implTok : String) : String :=
  -- the refiller may or may not have handled the error event of a connection that has just broken: both the
  -- state before and after `connError` are legitimate
  let before := possibleHandouts s.pool shard
  let after := (possibleHandouts (List.foldl (fun p i => step p (.connError i)) s.pool
    ((s.pool.conns ++ s.pool.excess).filter fun i => (s.pool.net i).broken)) shard).filter
      fun i => !(s.pool.net i).broken
  let live := (before.filter fun i => !(s.pool.net i).broken) ++ after
  if implTok == "q!" && (live.isEmpty || before.any fun i => (s.pool.net i).broken) then implTok
  else if live.any (fun i => s.qTok i == implTok) then implTok
  else if live.isEmpty then "q!"
  else (live.head?.map s.qTok).getD "q?" ++ "(model)"

def Sim.query (s : Sim) (shard : Nat) (implTok : String) : String := s.queryOpt (some shard) implTok

/-- Connections the driver still holds (published, excess, or having their keyspace set) and that are not
broken: the others were dropped (excess cleared, reshard, requested-shard miss), i.e. closed. -/
def Sim.alive (s : Sim) (i : Nat) : Bool :=
  !(s.pool.net i).broken &&
    (s.pool.conns.contains i || s.pool.excess.contains i || s.pool.setting.any (·.1 == i))

def Sim.row (s : Sim) (i : Nat) : String :=
  ">".intercalate ((s.pool.net i).acked.map fun v => match s.nameIdx v with | some j => toString j | none => "?")

/-- The live connection with the smallest (acknowledged-USE history, shard, id). -/
def Sim.victim (s : Sim) (shard : Option Nat) : Option Nat :=
  let live := (List.range s.pool.nextId).filter fun i =>
    s.alive i && (shard.isNone || shard == some (s.pool.net i).shard)
  live.foldl (fun best i => match best with
    | none => some i
    | some b =>
      if s.row i < s.row b || (s.row i == s.row b && (s.pool.net i).shard < (s.pool.net b).shard) then some i
      else some b) none

def Sim.list (s : Sim) : String :=
  let rows := (List.range s.pool.nextId).filter s.alive |>.map s.row
  let sorted := rows.toArray.qsort (· < ·) |>.toList
  "l[" ++ ",".intercalate sorted ++ "]"

def parseRule (op : String) (arg : String) : Option Rule :=
  let kind : Option RuleKind := match op with
    | "R" => some .reject | "M" => some .mismatch | "V" => some .void | "P" => some .upper | "C" => some .closeOnce
    | _ => none
  match kind, arg.splitOn "," with
  | some kind, [i, sh] =>
    if sh.startsWith "c" then
      -- `<op><i>,c<j>`: the rule applies to connection j alone
      match i.toNat?, (sh.drop 1).toString.toNat? with
      | some i, some j => some { idx := i, shard := none, conn := some j, kind, spent := false }
      | _, _ => none
    else
    match i.toNat?, (if sh == "*" then some none else sh.toNat?.map some) with
    | some i, some shard => some { idx := i, shard, kind, spent := false }
    | _, _ => none
  | _, _ => none

/-- Runs the steps; `impl` are the implementation's tokens (consulted only for the random connection choice). -/
def Sim.steps : List String → List String → Sim → List String → Option (List String)
  | [], _, _, acc => some acc.reverse
  | st :: rest, impl, s, acc =>
    let op := (st.take 1).toString
    let arg := (st.drop 1).toString
    let tok := impl.headD ""
    match op with
    | "U" =>
      match arg.toNat? with
      | none => none
      | some i =>
        match s.verified i with
        | none => none
        | some (.error _) => Sim.steps rest (impl.drop 1) s ("e:BadKeyspaceName" :: acc)
        | some (.ok k) =>
          let (s, t) := s.useKs k
          Sim.steps rest (impl.drop 1) s (t :: acc)
    | "Q" =>
      match arg.toNat? with
      | none => none
      | some sh => Sim.steps rest (impl.drop 1) s (s.query sh tok :: acc)
    | "J" => Sim.steps rest (impl.drop 1) s (s.queryOpt none tok :: acc)
    | "K" =>
      -- `Kc<j>`: connection j (the j-th the pool opened; `H<n>s` pools only, where the node staggers its handshakes
      -- so that its accept order IS the pool's order)
      let byId : Option (Option Nat) := if arg.startsWith "c" then (arg.drop 1).toString.toNat?.map some else some none
      match byId, (if arg.startsWith "c" then some 0 else arg.toNat?) with
      | none, _ => none
      | _, none => none
      | some byId, some sh =>
        match (match byId with | some j => (if s.alive j then some j else none) | none => s.victim (if s.sharded then some sh else none)) with
        | some i => Sim.steps rest (impl.drop 1) (s.ev (.breakConn i)) ("k" :: acc)
        | none => Sim.steps rest (impl.drop 1) s ("k-" :: acc)
    | "W" =>
      let s := s.quiesce 8
      Sim.steps rest (impl.drop 1) s (s!"w{s.pool.conns.length}" :: acc)
    | "H" =>
      let s := s.connErrors
      let s := s.settle 16
      let s := if s.pool.needFilling then s.ev .refill else s
      let s := s.resolve 8
      let pending := s.pool.setting.any fun e => s.held.contains e.1 && !(s.pool.net e.1).broken
      Sim.steps rest (impl.drop 1) s ((if pending then "h" else "h-") :: acc)
    | "G" =>
      -- the node releases what it held: everything in flight is answered, oldest first
      let s := { s with holdNew := false, held := [], holdNext := [], stuck := [] }
      let s := (List.range s.pool.nextId).foldl (fun s i => s.drain 32 i) s
      Sim.steps rest impl s acc
    | "E" =>
      -- hold back the `USE` answers on the existing connections: all (`E`) or only the next k (`E<k>`)
      let live := (List.range s.pool.nextId).filter s.alive
      if arg == "" then Sim.steps rest impl { s with held := live ++ s.held } acc
      else match arg.toNat? with
        | some k => Sim.steps rest impl { s with holdNext := live.map (·, k) } acc
        | none => none
    | "O" =>
      -- the node answers the k-th held statement of the connection of shard `sh` now
      match arg.splitOn "," with
      | [shs, ks] =>
        match shs.toNat?, ks.toNat? with
        | some sh, some k =>
          let target := (List.range s.pool.nextId).find? fun i =>
            s.alive i && (!s.sharded || (s.pool.net i).shard == sh) &&
              ((s.held.contains i && (s.pool.net i).queue.length > k) || s.stuckCount i > k)
          match target with
          | some i =>
            let s := s.serveAt i k
            let s := { s with stuck := s.stuck.map fun e => if e.1 == i then (i, e.2 - 1) else e }
            Sim.steps rest (impl.drop 1) s ("o" :: acc)
          | none => Sim.steps rest (impl.drop 1) s ("o-" :: acc)
        | _, _ => none
      | _ => none
    | "Y" =>
      -- a user statement `USE names[i]` on the connection of shard `sh`
      match arg.splitOn "," with
      | [ni, shs] =>
        match ni.toNat?, shs.toNat? with
        | some ni, some sh =>
          match s.verified ni with
          | some (.ok k) =>
            let target := s.pool.conns.find? fun i => !(s.pool.net i).broken && (s.pool.net i).shard == sh
            match target with
            | some i =>
              let s := s.ev (.userUse i k)
              let s := s.drain 32 i
              Sim.steps rest (impl.drop 1) s ("y" :: acc)
            | none => Sim.steps rest (impl.drop 1) s ("y!" :: acc)
          | _ => none
        | _, _ => none
      | _ => none
    | "D" => Sim.steps rest impl { s with holdNew := true } acc
    | "X" => Sim.steps rest impl { s with rules := [] } acc
    | "L" => Sim.steps rest (impl.drop 1) s (s.list :: acc)
    | _ =>
      match parseRule op arg with
      | some r =>
        if r.kind == .closeOnce then
          match s.victim r.shard with
          | some i => Sim.steps rest impl { s with rules := s.rules ++ [{ r with conn := some i }] } acc
          | none => Sim.steps rest impl s acc
        else Sim.steps rest impl { s with rules := s.rules ++ [r] } acc
      | none => none

def parseNames (field : String) : Option (List (String × Bool)) :=
  (field.splitOn ",").mapM fun e =>
    match e.splitOn ":" with
    | [h, cs] =>
      match strOfHex h, parseBool cs with
      | some s, some b => some (s, b)
      | _, _ => none
    | _ => none

def parseAccept (e : String) : Option Accept :=
  if e == "x" then some .refuse
  else match e.splitOn "/" with
    | [a, b] => match a.toNat?, b.toNat? with
      | some sh, some nr => if sh < nr ∧ nr ≤ 8 then some (.place sh nr) else none
      | _, _ => none
    | _ => none

/-- `S<n>` / `H<n>`, optionally `@e.e.e` = what the node does with the first accepted connections. -/
def parseMode (m : String) : Option (Bool × Nat × List Accept) :=
  let (base, script) : String × Option (List Accept) := match m.splitOn "@" with
    | [b] => (b, some [])
    | [b, sc] => (b, (sc.splitOn ".").mapM parseAccept)
    | _ => (m, none)
  -- `H<n>s`: the node staggers the handshakes (a property of the test node only: the model is the same)
  let base := if base.startsWith "H" && base.endsWith "s" then (base.dropEnd 1).toString else base
  match (base.take 1).toString, (base.drop 1).toString.toNat?, script with
  | "S", some n, some sc => if 1 ≤ n ∧ n ≤ 8 then some (true, n, sc) else none
  | "H", some n, some sc => if 1 ≤ n ∧ n ≤ 8 ∧ sc.isEmpty then some (false, n, sc) else none
  | _, _, _ => none

def runPool (mode init names script impl : String) : String :=
  match parseMode mode, parseNames names with
  | some (sharded, n, nodeScript), some names =>
    let initKs : Option (Option VerifiedName) :=
      if init == "-" then some none
      else match init.toNat? with
        | none => none
        | some i => match names[i]? with
          | some (nm, cs) => match VerifiedName.new nm cs with
            | .ok v => some (some v)
            | .error _ => none
          | none => none
    match initKs with
    | none => "bad-case"
    | some ks =>
      let pool : P := Pool.init sharded (if sharded then 1 else n) ks
      let s : Sim := { pool, names, sharded, n, rules := [], holdNew := false, held := [], script := nodeScript }
      -- `wait_until_initialized`: the first fill
      match Sim.steps ((script.splitOn ";").filter (· ≠ "")) (impl.splitOn ";") s [] with
      | some toks => ";".intercalate toks
      | none => "bad-case"
  | _, _ => "bad-case"


/-! ### `sess` scripts: the SESSION model (`sstep`: calls, the worker's fan-out, deliveries, every node's pool) run
to quiescence after every client step; the pool events of a node are produced by the per-node simulation above and
replayed through the cluster model -/

structure CSim where
  ss : Session
  names : List (String × Bool)
  hostMask : Nat := 0                  -- bit i: the session's host filter rejects node i (it gets no pool)
  zeroMask : Nat := 0                  -- bit i: node i owns no tokens: the default policy never routes to it (routing only)
  rules : List (Nat × Option Nat)      -- (name index, node or all): the node answers that `USE` with an error
  muted : List Nat := []               -- nodes that do not answer `USE` at all (the statement is dropped)
  stuck : List (Nat × List (Nat × Nat)) := []   -- per node: (connection, number of dropped statements still in its queue)
  -- `known_nodes` as node objects (host = the mock cluster's node index; pool = the cluster model's node id: the two
  -- differ once a refresh has re-created the `Node` of a known host) and the datacenter / rack the cluster reports
  topo : List NodeObj := []
  attrs : List (Nat × Nat) := []       -- per host (dc, rack) as reported in system.local / system.peers

/-- The cluster-model node of a mock-cluster node (host), and back. -/
def CSim.mid (c : CSim) (h : Nat) : Nat := ((c.topo.find? (·.host == h)).map (·.pool)).getD h
def CSim.hostOf (c : CSim) (m : Nat) : Nat := ((c.topo.find? (·.pool == m)).map (·.host)).getD m

def CSim.nodeSim (c : CSim) (m : Nat) : Sim :=
  let pool := c.ss.cluster.pools m
  let n := c.hostOf m
  { pool, names := c.names, sharded := false, n := 1, holdNew := false, held := [],
    stuck := ((c.stuck.find? (·.1 == n)).map (·.2)).getD [],
    holdNext := if c.muted.contains n then (List.range pool.nextId).map (·, 1000) else [],
    rules := (c.rules.filter fun r => r.2.isNone || r.2 == some n).map fun r =>
      { idx := r.1, shard := none, kind := .reject, spent := false } }

/-- Run a per-node simulation step and replay its pool events through the session model. -/
def CSim.onNode (c : CSim) (n : Nat) (f : Sim → Sim) : CSim :=
  let s := f (c.nodeSim n)
  { c with ss := s.log.foldl (fun ss e => sstep ss (.cluster (.pool n e))) c.ss,
           stuck := (n, s.stuck) :: c.stuck.filter (·.1 != n) }

def CSim.cl (c : CSim) (e : CEv VerifiedName) : CSim := { c with ss := sstep c.ss (.cluster e) }

def CSim.useKs (c : CSim) (i : Nat) (implTok : String := "") : Option (CSim × String) :=
  match c.names[i]? with
  | none => none
  | some (nm, cs) =>
    let c := { c with ss := sstep c.ss (.call nm cs) }
    match c.ss.calls.head?.map (·.outcome) with
    | some (CallOutcome.rejected _) => some (c, "e:BadKeyspaceName")
    | some (CallOutcome.fanout fid) =>
      match c.ss.cluster.fanouts.find? (·.id = fid) with
      | none => some (c, "MODEL-BUG")
      | some f =>
        let c := f.nodes.foldl (fun c n =>
          let c := c.cl (.deliver fid n)
          let tid := (c.ss.cluster.pools n).tasks.length - 1
          c.onNode n fun s => (s.runTask tid).1) c
        let c := c.cl (.fanoutFinish fid)
        let tok := match (c.ss.cluster.fanouts.find? (·.id = fid)).bind (·.resp) with
          | some o => outcomeTok o
          | none => "MODEL-STUCK"
        -- which of several different node errors is reported follows the iteration order of a HashMap in the code
        -- (`known_nodes.values()`): any non-broken node error is a legitimate answer
        let nodeErrs := f.nodes.filterMap fun n => match c.ss.cluster.nodeAnswer ((c.ss.cluster.fanouts.find? (·.id = fid)).getD f) n with
          | some (.error e) => if e == .broken then none else some ("e:" ++ useErrLabel e)
          | _ => none
        let tok := if tok.startsWith "e:" && nodeErrs.contains tok && nodeErrs.contains implTok then implTok else tok
        some (c, tok)
    | none => some (c, "MODEL-BUG")

def CSim.nodeRow (c : CSim) (n : Nat) : String :=
  let s := c.nodeSim (c.mid n)
  let rows := (List.range s.pool.nextId).filter s.alive |>.map fun i =>
    ">".intercalate ((s.pool.net i).acked.map srvName)
  let sorted := rows.toArray.qsort (· < ·) |>.toList
  s!"n{n}:" ++ ",".intercalate sorted

/-- `target = some n`: the request is TARGETED at node n (SingleTargetLoadBalancingPolicy), whether it owns tokens or
not; `none`: any known node. -/
def CSim.queryToks (c : CSim) (target : Option Nat := none) (pre : String := "q") : List String :=
  (c.ss.cluster.known.filter fun n => match target with | some t => t == c.hostOf n | none => !c.zeroMask.testBit (c.hostOf n)).flatMap fun n =>
    let p := c.ss.cluster.pools n
    ((possibleHandouts p (some 0)).filter fun i => !(p.net i).broken).map fun i =>
      pre ++ (match (p.net i).serverKs with | some v => srvName v | none => "-") ++ s!"@{c.hostOf n}"

/-- `Session::prepare`: a PREPARE on one `random_connection` of EVERY known node that has one
(`iter_working_connections_to_nodes`); every one of them is among the model's `workingConnections`. -/
def CSim.prepareToks (c : CSim) (implToks : List String) : String :=
  let perNode := c.ss.cluster.known.filterMap fun n =>
    let p := c.ss.cluster.pools n
    let cands := ((possibleHandouts p none).filter fun i => !(p.net i).broken && p.workingConnections.contains i).map fun i =>
      "p" ++ (match (p.net i).serverKs with | some v => srvName v | none => "-") ++ s!"@{c.hostOf n}"
    match cands with
    | [] => none
    | c0 :: _ => some ((implToks.find? cands.contains).getD c0)
  if perNode.isEmpty then "p!" else ",".intercalate (perNode.toArray.qsort (· < ·)).toList

/-- A metadata refresh: `calculate_new_topology` (Model/KeyspaceTopology.lean) over the peers the cluster reports now and
the host filter's current answers; the pools of the nodes it creates are then run to quiescence. The token: per host
`=` the same `Arc<Node>` (enabled), `-` the same (disabled), `n` a new enabled `Node` (new pool), `x` a new disabled
one, `i` a new object on the old pool. -/
def CSim.refreshStep (c : CSim) (pre : String) : CSim × String :=
  let peers : List Peer := (List.range c.attrs.length).map fun h =>
    let a := c.attrs.getD h (0, 0)
    { host := h, addr := h, dc := a.1, rack := a.2, accepted := !c.hostMask.testBit h }
  let arms := peers.map fun p => arm p (c.topo.find? (·.host == p.host))
  let r := refreshEvents (K := VerifiedName) true 1 c.ss.cluster c.topo peers
  let before := c.ss.cluster.nNodes
  let c := r.2.foldl (fun c e => c.cl e) { c with topo := r.1 }
  let created := (List.range (c.ss.cluster.nNodes - before)).map (before + ·)
  let c := created.foldl (fun c m => if c.ss.cluster.filtered.contains m then c else c.onNode m fun s => s.quiesce 8) c
  let letter : Arm → String
    | .keep => "=" | .keepDisabled => "-" | .create => "n" | .newDisabled => "x" | .inheritIp => "i"
  (c, pre ++ String.join (arms.map letter))

def CSim.steps : List String → List String → CSim → List String → Option (List String)
  | [], _, _, acc => some acc.reverse
  | st :: rest, impl, c, acc =>
    let op := (st.take 1).toString
    let arg := (st.drop 1).toString
    let tok := impl.headD ""
    match op with
    | "U" =>
      match arg.toNat? with
      | none => none
      | some i =>
        match c.useKs i tok with
        | none => none
        | some (c, t) => CSim.steps rest (impl.drop 1) c (t :: acc)
    | "R" =>
      match arg.splitOn "," with
      | [i, who] =>
        match i.toNat?, (if who == "*" then some none else who.toNat?.map some) with
        | some i, some node => CSim.steps rest impl { c with rules := c.rules ++ [(i, node)] } acc
        | _, _ => none
      | _ => none
    | "X" => CSim.steps rest impl { c with rules := [] } acc
    | "T" =>
      match arg.toNat? with
      | some n => CSim.steps rest impl { c with muted := n :: c.muted } acc
      | none => none
    | "t" => CSim.steps rest impl { c with muted := [] } acc
    | "K" =>
      match arg.toNat? with
      | none => none
      | some n =>
        if n ≥ c.attrs.length then none
        else
          let c := c.onNode (c.mid n) fun s => s.pool.conns.foldl (fun s i => s.ev (.breakConn i)) s
          CSim.steps rest (impl.drop 1) c ("k" :: acc)
    | "W" =>
      -- host-filtered nodes have no pool: nothing to wait for there
      let pooled := c.ss.cluster.known.filter fun n => !c.ss.cluster.filtered.contains n
      let c := pooled.foldl (fun c n => c.onNode n fun s => s.quiesce 8) c
      let full := pooled.all fun n => (c.ss.cluster.pools n).isFull
      CSim.steps rest (impl.drop 1) c ((if full then "w1" else "w0") :: acc)
    | "A" =>
      -- the new host appears in the peer list: the `(true, None)` / `(false, None)` arms of calculate_new_topology
      let (c, _) := { c with attrs := c.attrs ++ [(0, 0)] }.refreshStep ""
      CSim.steps rest (impl.drop 1) c (s!"a{c.ss.cluster.known.length}" :: acc)
    -- `D<h>` / `B<h>`: the cluster reports another datacenter / rack for host h (toggled); `F<h>`: the host filter's
    -- answer for host h flips; then a metadata refresh
    | "D" | "B" | "F" =>
      match arg.toNat? with
      | none => none
      | some h =>
        if h ≥ c.attrs.length then none
        else
          let c := match op with
            | "D" => { c with attrs := c.attrs.set h (let a := c.attrs.getD h (0, 0); (1 - a.1, a.2)) }
            | "B" => { c with attrs := c.attrs.set h (let a := c.attrs.getD h (0, 0); (a.1, 1 - a.2)) }
            | _ => { c with hostMask := c.hostMask ^^^ (1 <<< h) }
          let (c, t) := c.refreshStep "d"
          CSim.steps rest (impl.drop 1) c (t :: acc)
    | "P" => CSim.steps rest (impl.drop 1) c (c.prepareToks (tok.splitOn ",") :: acc)
    | "Q" =>
      let (karg, target) : String × Option (Option Nat) := match arg.splitOn "@" with
        | [k] => (k, some none)
        | [k, t] => (k, t.toNat?.map some)
        | _ => ("", none)
      match karg.toNat?, target with
      | none, _ => none
      | _, none => none
      | some k, some target =>
        let cands := c.queryToks target
        let subs := tok.splitOn ","
        let okAll := subs.length == min k 16 && subs.all fun t => if cands.isEmpty then t == "q!" else cands.contains t
        let t := if okAll then tok else ",".intercalate (List.replicate (min k 16) (cands.headD "q!")) ++ "(model)"
        CSim.steps rest (impl.drop 1) c (t :: acc)
    | "L" =>
      let rows := (List.range c.attrs.length).map c.nodeRow
      CSim.steps rest (impl.drop 1) c (("l[" ++ "|".intercalate rows ++ "]") :: acc)
    | _ => none

def runSess (n names script impl : String) : String :=
  -- `<n>` or `<n>/<mask>`: bit i of the mask = the host filter rejects node i
  -- a third field `/<zmask>`: bit i = node i owns no tokens. The model has no tokens: the fan-out addresses every
  -- known node (`fanout_targets_every_known_node`), so the mask changes nothing here - the implementation must agree
  let (n, mask, zmask) := match n.splitOn "/" with
    | [a] => (a.toNat?, some 0, some 0)
    | [a, m] => (a.toNat?, m.toNat?, some 0)
    | [a, m, z] => (a.toNat?, m.toNat?, z.toNat?)
    | _ => (none, none, none)
  match n, mask, zmask.bind (fun z => if z < 256 then parseNames names else none) with
  | some n, some mask, some names =>
    if n < 1 ∨ n > 4 ∨ mask ≥ 256 ∨ (List.range n).all (fun i => (zmask.getD 0).testBit i) then "bad-case"
    else
      let c0 : CSim := { ss := Session.init true 1, names, rules := [], hostMask := mask, zeroMask := zmask.getD 0 }
      let c := (List.range n).foldl (fun c i => c.cl (.addNode true 1 (mask.testBit i))) c0
      let c := { c with attrs := List.replicate n (0, 0),
                        topo := (List.range n).map fun i => { host := i, addr := i, dc := 0, rack := 0, enabled := !mask.testBit i, pool := i } }
      match CSim.steps ((script.splitOn ";").filter (· ≠ "")) (impl.splitOn ";") c [] with
      | some toks => ";".intercalate toks
      | none => "bad-case"
  | _, _, _ => "bad-case"

def run (case impl : String) : String :=
  match words case with
  | ["name", h, cs] =>
    match strOfHex h, parseBool cs with
    | some s, some b =>
      match VerifiedName.new s b with
      | .ok v => "ok " ++ hexOfStr (useStatement v)
      | .error e => "err " ++ badName e
    | _, _ => "bad-case"
  | ["resp", h, cs, kind, hr] =>
    match strOfHex h, parseBool cs, strOfHex hr with
    | some s, some b, some r =>
      match VerifiedName.new s b with
      | .error e => "err BadKeyspaceName:" ++ badName e
      | .ok v =>
        let reply : Option WireReply := match kind with
          | "setks" => some (.setKeyspace r)
          | "error" => some .error
          | "void" => some .other
          | "close" => some .brokenConn
          | _ => none
        match reply with
        | none => "bad-case"
        | some reply =>
          match verifyUseResult v reply with
          | .ok () => "ok"
          | .error e => "err " ++ useErrLabel e
    | _, _, _ => "bad-case"
  | ["ukr", labels] =>
    let parse (l : String) : Option UseRes := match l with
      | "ok" => some (.ok ())
      | "broken" => some (.error .broken)
      | "timeout" => some (.error .timeout)
      | "db" => some (.error .dbError)
      | "mismatch" => some (.error .mismatch)
      | "unexpected" => some (.error .unexpected)
      | _ => none
    let name : UseErr → String
      | .broken => "broken" | .timeout => "timeout" | .dbError => "db" | .mismatch => "mismatch" | .unexpected => "unexpected"
    match (if labels == "-" then some [] else (labels.splitOn ",").mapM parse) with
    | none => "bad-case"
    | some rs =>
      match useKeyspaceResult rs with
      | .ok => "ok"
      | .err e => "err:" ++ name e
      | .panic => "panic"
  | ["pool", mode, init, names, script] => runPool mode init names script impl.trimAscii.toString
  | ["sess", n, names, script] =>
    if impl.trimAscii.toString == "sess-skip" then "sess-skip" else runSess n names script impl.trimAscii.toString
  | ["race", mode, init, names, script] =>
    -- judged by the oracle at the node only; the model checks that the case is well-formed
    match parseMode mode, parseNames names with
    | some _, some ns =>
      if (init == "-" || (init.toNat?.any (· < ns.length))) && script.length > 0 then "race" else "bad-case"
    | _, _ => "bad-case"
  | _ => "bad-case"

end ScyllaVerif.Drive.C20

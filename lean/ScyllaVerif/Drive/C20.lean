import ScyllaVerif.Model.Util
import ScyllaVerif.Model.Keyspace
/-! Line-protocol driver for C20.  Input: `<case>\t<implementation output>`; output: the model's line.

* `name <hex utf8> <cs>`                       → `ok <hex of the USE statement>` | `err <kind>`
* `resp <hex name> <cs> <kind> <hex resp name>` → `ok` | `err <label>`  (one `USE` exchange on one connection)
-/
namespace ScyllaVerif.Drive.C20
open ScyllaVerif.Util ScyllaVerif.Keyspace

def strOfHex (h : String) : Option String :=
  match parseHex h with
  | none => none
  | some bs => String.fromUTF8? (ByteArray.mk bs.toArray)

def hexOfStr (s : String) : String := toHex s.toUTF8.toList

def badName : BadName → String
  | .empty => "Empty"
  | .tooLong => "TooLong"
  | .illegalCharacter => "IllegalCharacter"

def useErrLabel : UseErr → String
  | .broken => "RequestError"
  | .dbError => "RequestError"
  | .unexpected => "RequestError"
  | .mismatch => "KeyspaceNameMismatch"
  | .timeout => "RequestTimeout"

def parseBool : String → Option Bool
  | "0" => some false
  | "1" => some true
  | _ => none

def run (case _impl : String) : String :=
  match words case with
  | ["name", h, cs] =>
    match strOfHex h, parseBool cs with
    | some s, some b =>
      match VerifiedName.new s b with
      | .ok v => "ok " ++ hexOfStr (useStatement v)
      | .error e => "err " ++ badName e
    | _, _ => "bad-case"
  | ["resp", h, cs, kind, hr] =>
    match strOfHex h, parseBool cs, strOfHex hr with
    | some s, some b, some r =>
      match VerifiedName.new s b with
      | .error e => "err BadKeyspaceName:" ++ badName e
      | .ok v =>
        let reply : Option WireReply := match kind with
          | "setks" => some (.setKeyspace r)
          | "error" => some .error
          | "void" => some .other
          | "close" => some .brokenConn
          | _ => none
        match reply with
        | none => "bad-case"
        | some reply =>
          match verifyUseResult v reply with
          | .ok () => "ok"
          | .error e => "err " ++ useErrLabel e
    | _, _, _ => "bad-case"
  | _ => "bad-case"

end ScyllaVerif.Drive.C20

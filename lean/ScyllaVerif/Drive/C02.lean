import ScyllaVerif.Model.Util
import ScyllaVerif.Model.StreamMap
import ScyllaVerif.Model.C02StreamIdWords
import ScyllaVerif.Model.Conn
import ScyllaVerif.Model.FrameStream
import ScyllaVerif.Model.ConnIO
import ScyllaVerif.Model.ConnSched
import ScyllaVerif.Model.Response
import ScyllaVerif.Model.FrameHdr
/-! Line-protocol driver for C02 (and the connection half of C10).

* `map <op>;<op>;…`   — hook level: `ResponseHandlerMap` operations
    `a<req>` allocate, `o<req>` orphan, `l<stream>` lookup, `A<n>` bulk-allocate `n` fresh request ids,
    `L<from>:<n>` bulk-lookup, `h` into_handlers (then a fresh map).
* `conn <wc> <op>;…`  — the real router over an in-memory stream, driven by a deterministic schedule; the
  driver turns each operation into `Conn.Ev`s (settling = `writerTake`/`orphanerStep` until idle).
    `s` submit, `S` submit and drop before the router runs, `c<k>` drop request k's future, `p<k>` poll it,
    `C<k>` drop it WITHOUT letting the router run (the orphan notice races the next operation),
    `r<j>` server answers the j-th oldest unanswered frame it has read, `u<stream>` frame on a stream the
    server does not owe, `b<hex>` raw bytes from the server, `x` server closes, `g`/`G` close/open a gate on
    the client's writes (the writer blocks in `flush`, later tasks stay in the submit channel; behind the gate
    the 1024-slot submit channel fills up: further callers park — `submitFull`, later `enqueue`; the permits and
    the orphan ages are the model's: `Model/ConnSched.lean` `sstep`),
    `w` the client's writes fail from now on (`WriteError`), `h` a keep-alive hint (`trigger_keepalive`), `t<ms>` virtual time (keep-alive; the orphaner's
    1 s tick: more than 1024 stream ids orphaned for ≥ 1 s → `TooManyOrphanedStreamIds`).
  The reader (`ConnIO.reader`) and the keepaliver (`ConnIO.kaTurn`) are the model's.
-/
namespace ScyllaVerif.Drive.C02
open ScyllaVerif.Util ScyllaVerif.StreamMap ScyllaVerif.Conn ScyllaVerif.FrameStream ScyllaVerif.ConnIO
open ScyllaVerif.ConnSched (Sched SEv sstep stamp)

/-- Split an operation into its letter and its argument. -/
def splitOp (op : String) : Option (Char × String) :=
  match op.toList with
  | [] => none
  | c :: rest => some (c, String.ofList rest)

/-! ### hook level -/

structure MapSt where
  m : HMap
  fresh : Nat
  out : List String   -- reversed

def bulkAllocate : Nat → HMap → Nat → Nat → Nat → Option Nat → Option Nat → (HMap × Nat × Nat × Nat × Option Nat × Option Nat)
  | 0, m, fresh, ok, failed, first, last => (m, fresh, ok, failed, first, last)
  | n + 1, m, fresh, ok, failed, first, last =>
    match m.allocate fresh with
    | some (id, m') => bulkAllocate n m' (fresh + 1) (ok + 1) failed (first.orElse fun _ => some id) (some id)
    | none => bulkAllocate n m (fresh + 1) ok (failed + 1) first last

def bulkLookup : Nat → Nat → HMap → Nat → Nat → Nat → (HMap × Nat × Nat × Nat)
  | 0, _, m, h, o, mi => (m, h, o, mi)
  | n + 1, s, m, h, o, mi =>
    if s ≥ idCount then (m, h, o, mi) else
    match m.lookup s with
    | (.handler _, m') => bulkLookup n (s + 1) m' (h + 1) o mi
    | (.orphaned, m') => bulkLookup n (s + 1) m' h (o + 1) mi
    | (.missing, m') => bulkLookup n (s + 1) m' h o (mi + 1)

def optStr : Option Nat → String
  | none => "-"
  | some n => toString n

def mapOp (st : MapSt) (op : String) : Option MapSt :=
  match splitOp op with
  | none => none
  | some (c, arg) =>
    if c == 'h' then
      if arg != "" then none else
      let hs := st.m.intoHandlers
      let body := if hs.isEmpty then "-" else "/".intercalate (hs.map fun p => s!"{p.1}:{p.2}")
      some { st with m := HMap.new, out := ("h=" ++ body) :: st.out }
    else if c == 'L' then
      match arg.splitOn ":" |>.mapM String.toNat? with
      | some [s, n] =>
        if s + n > idCount then none else
        let (m', h, o, mi) := bulkLookup n s st.m 0 0 0
        some { st with m := m', out := s!"L{h}/{o}/{mi}" :: st.out }
      | _ => none
    else
    match arg.toNat? with
    | none => none
    | some n =>
      if c == 'a' then
        match st.m.allocate n with
        | some (id, m') => some { st with m := m', out := toString id :: st.out }
        | none => some { st with out := "full" :: st.out }
      else if c == 'o' then some { st with m := st.m.orphan n, out := "o" :: st.out }
      else if c == 'l' then
        if n ≥ idCount then none else
        match st.m.lookup n with
        | (.handler r, m') => some { st with m := m', out := s!"H{r}" :: st.out }
        | (.orphaned, m') => some { st with m := m', out := "O" :: st.out }
        | (.missing, m') => some { st with m := m', out := "M" :: st.out }
      else if c == 'A' then
        let (m', fresh', ok, failed, first, last) := bulkAllocate n st.m st.fresh 0 0 none none
        some { st with m := m', fresh := fresh', out := s!"A{ok}/{failed}:{optStr first}-{optStr last}" :: st.out }
      else none

def runMap (ops : List String) : String :=
  let rec go : List String → MapSt → Option MapSt
    | [], st => some st
    | op :: rest, st =>
      match mapOp st op with
      | none => none
      | some st' => go rest st'
  match go ops ⟨HMap.new, 1000000, []⟩ with
  | none => "bad-case"
  | some st => ",".intercalate st.out.reverse

/-! ### the bare bitmap (`ids …`): `A<n>`, `a`, `f<i16>`, `F<from>:<n>`, `V`, `D` — every step is `C02StreamIdWords.idStep` -/

open ScyllaVerif.C02StreamIdWords in
def idsBulk : Nat → StreamIdSet → Nat → Nat → Option Int → Option Int → (StreamIdSet × Nat × Nat × Option Int × Option Int)
  | 0, s, ok, failed, first, last => (s, ok, failed, first, last)
  | n + 1, s, ok, failed, first, last =>
    match idStep s .alloc with
    | (s', some id) => idsBulk n s' (ok + 1) failed (first.orElse fun _ => some id) (some id)
    | (s', none) => idsBulk n s' ok (failed + 1) first last

open ScyllaVerif.C02StreamIdWords in
def idsFreeRange : Nat → Nat → StreamIdSet → StreamIdSet
  | 0, _, s => s
  | n + 1, id, s => idsFreeRange n (id + 1) (idStep s (.free id)).1

def optIntStr : Option Int → String
  | none => "-"
  | some n => toString n

/-- Ranges `a-b` joined by `+` (`-` if empty) of an increasing list. -/
def idRanges (ids : List Nat) : String :=
  let rec go : List Nat → Nat → Nat → List String → List String
    | [], lo, hi, acc => (s!"{lo}-{hi}" :: acc).reverse
    | id :: rest, lo, hi, acc =>
      if id == hi + 1 then go rest lo id acc else go rest id id (s!"{lo}-{hi}" :: acc)
  match ids with
  | [] => "-"
  | id :: rest => "+".intercalate (go rest id id [])

open ScyllaVerif.C02StreamIdWords in
def idsOp (s : StreamIdSet) (op : String) : Option (StreamIdSet × String) :=
  match splitOp op with
  | none => none
  | some (c, arg) =>
    if c == 'a' then
      if arg != "" then none else
      match idStep s .alloc with
      | (s', some id) => some (s', toString id)
      | (s', none) => some (s', "full")
    else if c == 'A' then
      match arg.toNat? with
      | some n =>
        if n > 40000 then none else
        let (s', ok, failed, first, last) := idsBulk n s 0 0 none none
        some (s', s!"A{ok}/{failed}:{optIntStr first}-{optIntStr last}")
      | none => none
    else if c == 'f' then
      match arg.toInt? with
      | some id =>
        if id < -32768 || id > 32767 then none else
        match freeI16 s id with
        | some _ => some ((idStep s (.free id)).1, "f")
        | none => some ((idStep s (.free id)).1, "panic")
      | none => none
    else if c == 'F' then
      match arg.splitOn ":" |>.mapM String.toNat? with
      | some [a, n] => if a + n > idCount then none else some (idsFreeRange n a s, "F")
      | _ => none
    else if c == 'V' || c == 'D' then
      if arg != "" then none else
      let (got, full) := drain (idCount + 1) s []
      let sorted := got.mergeSort (fun a b => a ≤ b)
      some (if c == 'V' then freeAll full got else full, s!"{c}{idRanges sorted}")
    else none

def runIds (ops : List String) : String :=
  let rec go : List String → StreamIdSet → List String → Option (List String)
    | [], _, out => some out.reverse
    | op :: rest, s, out =>
      match idsOp s op with
      | none => none
      | some (s', o) => go rest s' (o :: out)
  match go ops StreamIdSet.new [] with
  | none => "bad-case"
  | some out => ",".intercalate out

/-! ### connection level -/

def breakLabel : BreakKind → String
  | .frameHeaderParseError => "FrameHeaderParseError"
  | .unexpectedStreamId => "UnexpectedStreamId"
  | .cqlEventHandlingError => "CqlEventHandlingError"
  | .writeError => "WriteError"
  | .tooManyOrphanedStreamIds => "TooManyOrphanedStreamIds"
  | .keepaliveTimeout => "KeepaliveTimeout"
  | .keepaliveRequestError => "KeepaliveRequestError"

def errLabel : ErrKind → String
  | .unableToAllocStreamId => "UnableToAllocStreamId"
  | .broken k => "Broken:" ++ breakLabel k
  | .channelError => "Broken:ChannelError"

def outcomeStr : Outcome → String
  | .frame f => if f == unsolicitedMarker then "ok:unsolicited" else s!"ok:{f}"
  | .err e => "err:" ++ errLabel e

def callerStr : Option CallerSt → String
  | none => "none"
  | some .waiting => "pending"
  | some (.delivered o) => "delivered:" ++ outcomeStr o
  | some (.done o) => outcomeStr o
  | some .abandoned => "cancelled"

structure ConnSt where
  c : Conn
  gateClosed : Bool := false
  blocked : Bool := false       -- the writer sits in `flush` behind the closed gate
  hidden : Nat := 0             -- frames buffered by the writer that the server has not seen
  srv : List Nat := []          -- stream ids of the frames the server has seen, in order (reversed)
  hiddenLog : List Nat := []    -- stream ids of the buffered frames (reversed)
  inbuf : List UInt8 := []      -- bytes the reader has received that do not yet form a whole frame
  eof : Bool := false
  writeFail : Bool := false     -- the client's writes fail
  users : List Nat := []        -- request ids of the test's own requests, newest first
  bodies : List (Nat × String) := []  -- request id ↦ tag of the body of the raw (`b`) frame that answered it
  -- the keepaliver (`keepalive_interval`, `keepalive_timeout` in ms), under a virtual clock
  ka : Option (Nat × Nat) := none
  clock : Nat := 0
  kaNext : Nat := 0
  kaPending : Option (Nat × Nat) := none
  kaHint : Bool := false        -- `trigger_keepalive` was called and the keepaliver has not consumed the hint yet
  events : Bool := false        -- the connection has an event sender (`conne` cases)
  evChan : EvChan := { room := 1000000000 }   -- its event channel (mode 0: drained; 1: receiver gone; 2: one slot)
  preferTick : Bool := false    -- the draw of `select!` when a tick is due and a hint is stored (`KaSt.preferTick`)
  orphTimes : List (Nat × Nat) := []   -- orphaned stream id ↦ when it was orphaned (`OrphanageTracker`)
  -- `WriteCoalescingDelay::Milliseconds(ms)` (`writer` 1741-1747): after a write that found the queue empty the writer
  -- SLEEPS `ms` of virtual time before it looks at the queue again; what it wrote stays in the 8 KiB `BufWriter`
  -- (`hidden` from the server) until a wake-up finds the queue empty and the batch is flushed
  coalMs : Option Nat := none
  wSleep : Option Nat := none   -- the writer sleeps until this time
  granted : List Nat := []      -- parked callers to which tokio's semaphore has assigned freed capacity; they still
                                -- sit in `reserve()` (model: `sending`) until they are polled (`enqueue`)

/-- The scheduler view of the state (`Model/ConnSched.lean`): channel permits and orphan ages are the model's. -/
def toSched (st : ConnSt) : Sched := { c := st.c, granted := st.granted, clock := st.clock, ages := st.orphTimes }

def ofSched (st : ConnSt) (s : Sched) : ConnSt :=
  { st with c := s.c, granted := s.granted, clock := s.clock, orphTimes := s.ages }

/-- One scheduler event of the model. -/
def via (st : ConnSt) (e : SEv) : ConnSt := ofSched st (sstep (toSched st) e)

/-- A connection state computed by another part of the model (reader, keepaliver) is installed. -/
def install (st : ConnSt) (c' : Conn) : ConnSt := ofSched st (stamp (toSched st) c')

/-- The keepaliver runs on the router task (a real waker): capacity assigned to its parked request is used at once. -/
def kaPush (st : ConnSt) : ConnSt :=
  match st.kaPending with
  | some (r, _) => if st.granted.contains r then via st (.poll r) else st
  | none => st

/-- `n` × the writer's receive-allocate-write (`SEv.writerOne`: the freed slot goes to the oldest parked caller),
logging the stream ids written (the id the writer will get is asked from the map first, so that the log does not
have to search the server list). -/
def takeN : Nat → ConnSt → ConnSt
  | 0, st => st
  | n + 1, st =>
    let written : Option Nat :=
      if st.c.broken then none else
      match st.c.queue with
      | [] => none
      | r :: _ => (st.c.map.allocate r).map (·.1)
    let st1 := kaPush (via st .writerOne)
    let st' := match written with
      | some s =>
        if st.writeFail then st1
        else if st.gateClosed || st.coalMs.isSome then { st1 with hiddenLog := s :: st.hiddenLog, hidden := st.hidden + 1 }
        else { st1 with srv := s :: st.srv }
      | none => st1
    takeN n st'

def orphanN : Nat → ConnSt → ConnSt
  | 0, st => st
  | n + 1, st => orphanN n (via st .orphaner)

def toKa (st : ConnSt) (interval timeout : Nat) : KaSt :=
  { c := st.c, interval := interval, timeout := timeout, clock := st.clock, next := st.kaNext, pending := st.kaPending,
    hint := st.kaHint, preferTick := st.preferTick, full := decide (st.c.queue.length + st.granted.length ≥ ScyllaVerif.ConnSched.chanCap) }

/-- One turn of the router task: keepaliver, writer (one batch), orphaner. -/
def routerTurn (st : ConnSt) : ConnSt :=
  let st := match st.ka with
    | none => st
    | some (i, t) =>
      let k := kaTurn (toKa st i t)
      { install st k.c with kaNext := k.next, kaPending := k.pending, kaHint := k.hint }
  let st1 :=
    match st.coalMs with
    | some ms =>
      -- the `Milliseconds` arm: write what is queued, sleep; on waking write what has queued up meanwhile and sleep
      -- again, or - nothing queued - flush the batch and go back to `recv().await`
      if st.c.broken then st else
      match st.wSleep with
      | none =>
        if st.c.queue.isEmpty then st
        else { takeN st.c.queue.length st with wSleep := some (st.clock + ms) }
      | some d =>
        if st.clock < d then st
        else if st.c.queue.isEmpty then
          { st with srv := st.hiddenLog ++ st.srv, hidden := 0, hiddenLog := [], wSleep := none }
        else { takeN st.c.queue.length st with wSleep := some (st.clock + ms) }
    | none =>
    if st.c.broken || st.blocked || st.c.queue.isEmpty then st else
    let st' := takeN st.c.queue.length st
    if st.writeFail then via st' (.break_ .writeError)
    else if st.gateClosed then { st' with blocked := true } else st'
  orphanN st1.c.notices.length st1

/-- Run the router until it is idle. -/
def settle (st : ConnSt) : ConnSt := routerTurn (routerTurn (routerTurn st))

/-- Index of the (unique) outstanding entry with stream `s` among the entries the server has seen. -/
def visibleIdx (st : ConnSt) (s : Nat) : Option Nat :=
  let vis := st.c.server.take (st.c.server.length - st.hidden)
  vis.findIdx? (fun p => p.1 == s)

/-- How the harness prints a response body: 8 bytes = a request tag (big-endian u64). -/
def tagStr (body : List UInt8) : String :=
  if body.length > 64 then
    -- long bodies are printed as length + FNV-1a
    let h : UInt32 := body.foldl (fun h b => (h ^^^ b.toUInt32) * 16777619) 2166136261
    s!"big:{body.length}:{h.toNat}"
  else
  if body.length == 8 then
    let v := body.foldl (fun acc b => acc * 256 + b.toNat) 0
    if v == 18446744073709551615 then "unsolicited" else toString v
  else "?" ++ toHex body

/-- Printing: the bytes each answered request was handed — the model's `ConnIO.answerOf`
(`Props.C10.delivered_frame_was_sent`). -/
def noteBodies (st : ConnSt) : ConnSt :=
  let fs := (readFrames st.inbuf).1
  if fs.isEmpty then st else
  let new := st.c.server.filterMap fun (_, r) =>
    (answerOf st.c fs r).map fun f => (r, tagStr f.body)
  { st with bodies := new ++ st.bodies }

/-- `parse_response(..)` yields `Response::Event` (`connection.rs:1896`): the EVENT opcode; the body extensions that
the frame's flags announce are stripped first exactly as for any response (`parse_response_body_extensions`,
`frame/mod.rs:216-269`, C08's model `parseExt`: TRACING = a 16-byte id, WARNING = a string list, CUSTOM_PAYLOAD = a
bytes map, in this order; unknown flag bits are ignored); the COMPRESSION flag is an error on these connections (no
compression was negotiated: `NoCompressionNegotiated`); what remains must be accepted by C08's model of
`EventV2::deserialize`. -/
def eventOk (f : Frame) : Bool :=
  f.opcode == 0x0C && !(ScyllaVerif.C08.hasFlag f.flags.toNat ScyllaVerif.C08.FLAG_COMPRESSION) &&
    match (ScyllaVerif.C08.run (do let _ ← ScyllaVerif.C08.parseExt f.flags.toNat; ScyllaVerif.C08.deserEvent) f.body).1 with
    | .ok _ => true
    | _ => false

/-- Bytes have arrived (or the peer has closed): the model's reader runs. -/
def runReader (st : ConnSt) : ConnSt :=
  let st := noteBodies st
  if st.events then
    let (c', rest, ch') := readerEv eventOk st.evChan st.c st.inbuf st.eof
    { install st c' with inbuf := rest, evChan := ch' }
  else
    let (c', rest) := reader st.c st.inbuf st.eof
    { install st c' with inbuf := rest }

/-- The raw bytes sent so far do not end on a frame boundary (the harness sends nothing else then). With an event
sender whole frames may wait in `inbuf` behind a blocked event; they do not count. -/
def rawPartial (st : ConnSt) : Bool :=
  match (readFrames st.inbuf).2 with
  | .boundary => false
  | _ => true

/-- Byte `i` of the body of a BIG answer (`B` op; harness `big_body`): a fixed pattern; with a victim stream and a
body long enough, the 17 bytes from offset 2^20 on are a whole RESULT frame addressed to that stream. -/
def bigByte (len : Nat) (victim : Option Nat) (i : Nat) : UInt8 :=
  match victim with
  | some vs =>
    if len ≥ 1048576 + 17 && i ≥ 1048576 && i < 1048576 + 17 then
      let o := i - 1048576
      if o == 0 then 0x84 else if o == 1 then 0 else if o == 2 then UInt8.ofNat (vs / 256)
      else if o == 3 then UInt8.ofNat (vs % 256) else if o == 4 then 0x08 else if o < 8 then 0
      else if o == 8 then 8 else 0xEE
    else UInt8.ofNat (i % 251)
  | none => UInt8.ofNat (i % 251)

def fnvLoop (len : Nat) (victim : Option Nat) : Nat → Nat → UInt32 → UInt32
  | 0, _, h => h
  | fuel + 1, i, h => fnvLoop len victim fuel (i + 1) ((h ^^^ (bigByte len victim i).toUInt32) * 16777619)

/-- How the harness prints a body longer than 64 bytes: its length and FNV-1a. The frame read of the model
(`FrameStream.readFrame`) takes exactly the announced `length` bytes whatever their number - there is no 1 MiB bound
in it; the buffer growth of `read_response_frame` beyond `MAX_BODY_PREALLOCATION` (preallocate min(length, 1 MiB),
then grow as the body arrives, the read LIMIT staying `length`) is C08's `readBodyLoop` / `readBody`
(`Model/FrameHdr.lean`); `Props.C10.large_body_is_read_whole`. -/
def bigTag (len : Nat) (victim : Option Nat) : String :=
  s!"big:{len}:{(fnvLoop len victim len 0 2166136261).toNat}"

/-- Big-endian u64 (a request tag). -/
def tagBytes (k : Nat) : List UInt8 :=
  (List.range 8).map fun i => UInt8.ofNat (k / 256 ^ (7 - i) % 256)

/-- The gate opens: the blocked `flush` completes (unless the router is gone), then the writer goes on. -/
def openGate (st : ConnSt) : ConnSt :=
  let srv := if st.c.broken then st.srv else st.hiddenLog ++ st.srv
  settle { st with gateClosed := false, blocked := false, hidden := 0, hiddenLog := [], srv := srv }

def userReq (st : ConnSt) (k : Nat) : Option Nat := st.users.reverse[k]?

/-- The orphaner's interval ticks every second of virtual time (`tokio::time::interval(OLD_AGE_ORPHAN_THRESHOLD)`). -/
def orphanTick (st : ConnSt) (oldClock : Nat) : ConnSt :=
  if st.clock / 1000 > oldClock / 1000 && st.clock ≥ 1000 then via st .orphanTick else st

def connOp (st : ConnSt) (op : String) : Option ConnSt :=
  match splitOp op with
  | none => none
  | some (c, arg) =>
    let noArg (r : ConnSt) : Option ConnSt := if arg == "" then some r else none
    if c == 's' then noArg (settle { via st .submit with users := st.c.nextReq :: st.users })
    else if c == 'S' then
      let r := st.c.nextReq
      let st1 := { via st .submit with users := r :: st.users }
      noArg (settle (via st1 (.cancel r)))
    else if c == 'g' then noArg { st with gateClosed := true }
    else if c == 'G' then noArg (openGate st)
    else if c == 'h' then
      -- `Connection::trigger_keepalive`: without a keepaliver nobody consumes the permit
      noArg (if st.ka.isNone then st else settle { st with kaHint := true })
    else if c == 'w' then
      let st := { st with writeFail := true }
      -- a writer waiting in `flush` is woken and fails
      noArg (settle (if st.blocked then { via st (.break_ .writeError) with blocked := false } else st))
    else if c == 'x' then
      if st.eof then noArg st else
      noArg (settle (runReader { st with eof := true }))
    else if c == 'b' then
      match parseHex arg with
      | none => none
      | some bytes =>
        if st.eof then some st else
        some (settle (runReader { st with inbuf := st.inbuf ++ bytes }))
    else if c == 'B' then
      -- `B<j>:<len>:<k>:<cut>`: the j-th request the server holds is answered with a body of `len` bytes (whose tail
      -- is addressed to the k-th one's stream), in one or two writes: for the model ONE frame, whatever its length
      match (arg.splitOn ":").map String.toNat? with
      | [some j, some len, some k, some _cut] =>
        if len < 65 || len > 8388608 || st.events || st.ka.isSome then none else
        if st.eof || rawPartial st then some st else
        let vis := st.c.server.length - st.hidden
        if j < vis then
          match st.c.server[j]? with
          | some (_, r) =>
            let victim := if k != j && k < vis then (st.c.server[k]?).map (·.1) else none
            some (settle (via { st with bodies := (r, bigTag len victim) :: st.bodies } (.respond j)))
          | none => some st
        else some st
      | _ => none
    else if c == 'u' then
      match arg.toInt? with
      | none => none
      | some s =>
        if s < -32768 || s > 32767 then none else
        if s < 0 then
          -- a RESULT frame on a negative stream: ignored — unless an event sender is registered and it is stream -1
          if st.events && s == -1 && !st.eof && !rawPartial st then
            some (settle (runReader { st with inbuf := st.inbuf ++ encode ⟨0, -1, 0x08, List.replicate 8 0xFF⟩ }))
          else some st
        else
        let s := s.toNat
        if st.eof || rawPartial st then some st else
        if (visibleIdx st s).isSome then some st else
        if st.gateClosed && s < 2000 then some st else
        if st.events then
          some (settle (runReader { st with inbuf := st.inbuf ++ encode ⟨0, (s : Int), 0x08, List.replicate 8 0xFF⟩ }))
        else some (settle (via st (.unsolicited s)))
    else
    match arg.toNat? with
    | none => none
    | some n =>
      if c == 'c' then
        match userReq st n with
        | some r => some (settle (via st (.cancel r)))
        | none => some st
      else if c == 'C' then
        match userReq st n with
        | some r => some (via st (.cancel r))
        | none => some st
      else if c == 'p' then
        match userReq st n with
        | some r => some (settle (via st (.poll r)))
        | none => some st
      else if c == 'r' then
        if st.eof || rawPartial st then some st else
        if n < st.c.server.length - st.hidden then
          if st.events then
            -- through the byte stream: the answer may have to wait behind a blocked event
            match st.c.server[n]? with
            | some (s, r) =>
              let body := tagBytes ((st.users.reverse.idxOf? r).getD 0)
              some (settle (runReader { st with inbuf := st.inbuf ++ encode ⟨0, (s : Int), 0x08, body⟩ }))
            | none => some st
          else some (settle (via st (.respond n)))
        else some st
      else if c == 't' then
        let st1 := via st (.advance n)
        some (settle (orphanTick st1 st.clock))
      else none

def recvAll : List Nat → Conn → Conn
  | [], c => c
  | r :: rest, c => recvAll rest (step c (.recv r))

/-- Every request future is polled once (oldest first). -/
def pollAll (st : ConnSt) : ConnSt := st.users.reverse.foldl (fun st r => via st (.poll r)) st

def userOutcome (st : ConnSt) (users : List Nat) : Outcome → String
  | .frame f =>
    if f == unsolicitedMarker then "ok:unsolicited" else
    match st.bodies.find? (fun p => p.1 == f) with
    | some (_, tag) => "ok:" ++ tag
    | none =>
    match users.idxOf? f with
    | some k => s!"ok:{k}"
    | none => "ok:foreign"
  | .err e => "err:" ++ errLabel e

def userCallerStr (st : ConnSt) (users : List Nat) : Option CallerSt → String
  | none => "none"
  | some .waiting => "pending"
  | some (.delivered o) => "delivered:" ++ userOutcome st users o
  | some (.done o) => userOutcome st users o
  | some .abandoned => "cancelled"

def connLine (st : ConnSt) : String :=
  let st := if st.gateClosed then openGate st else settle st
  -- the end of the schedule: (poll every future, let the router run) × 3, poll again
  let st := settle (pollAll st)
  let st := settle (pollAll st)
  let st := settle (pollAll st)
  let c := recvAll st.users st.c
  let users := st.users.reverse
  let callers := (users.zip (List.range users.length)).map fun (r, k) =>
    s!"{k}={userCallerStr st users (getCaller c.callers r)}"
  let cs := if callers.isEmpty then "-" else " ".intercalate callers
  let cause := match c.cause with
    | none => "-"
    | some k => breakLabel k
  s!"{cs} | srv={natList st.srv.reverse} | broken={cause}"

def runConnFrom (st0 : ConnSt) (ops : List String) : String :=
  let rec go : List String → ConnSt → Option ConnSt
    | [], st => some st
    | op :: rest, st =>
      match connOp st op with
      | none => none
      | some st' => go rest st'
  match go ops st0 with
  | none => "bad-case"
  | some st => connLine st

def runConn (ops : List String) : String := runConnFrom { c := Conn.init } ops

/-- `conn m<ms> …`: the writer coalesces with `WriteCoalescingDelay::Milliseconds(ms)` (hook
`RawConnection::spawn_with_coalescing`). The schedule ends with two sleeps' worth of virtual time (the writer wakes,
writes what queued up, wakes again and flushes). No gate / write-failure / raw-frame operations in this form. -/
def runConnMs (ms : Nat) (ops : List String) : String :=
  if ms == 0 || ms > 1000 then "bad-case" else
  if ops.any (fun o => o.startsWith "g" || o.startsWith "G" || o.startsWith "w" || o.startsWith "u" ||
      o.startsWith "b") then "bad-case" else
  runConnFrom { c := Conn.init, coalMs := some ms } (ops ++ [s!"t{ms}", s!"t{ms}"])

/-- The same with an event sender registered. -/
def runConnEv (mode : Nat) (ops : List String) : String :=
  let ch : EvChan := if mode == 1 then { closed := true, room := 0 } else if mode == 2 then { room := 1 }
    else { room := 1000000000 }
  runConnFrom { c := Conn.init, events := true, evChan := ch } ops

/-- Keep-alive enabled: the first tick completes one interval after the start. The schedule ends with a silent
stall of the server, longer than interval + timeout (in steps of 100 ms of virtual time). -/
def runConnKaWith (preferTick : Bool) (interval timeout : Nat) (ops : List String) : String :=
  runConnFrom { c := Conn.init, ka := some (interval, timeout), kaNext := interval, preferTick := preferTick }
    (ops ++ List.replicate ((interval + timeout) / 100 + 3) "t100")

/-- The one nondeterministic choice of the keepaliver (`select!` between a due tick and a stored hint) is checked
by membership: the implementation's line must be what the model yields for one of the two draws. -/
def runConnKa (interval timeout : Nat) (ops : List String) (impl : String) : String :=
  let l0 := runConnKaWith false interval timeout ops
  if l0 == impl then l0 else
  let l1 := runConnKaWith true interval timeout ops
  if l1 == impl then l1 else l0

/-- An event sender AND keep-alive (the control connection's configuration): `conne <wc>/<mode>/<I>/<T>`. -/
def runConnKaEv (mode interval timeout : Nat) (ops : List String) (impl : String) : String :=
  let ch : EvChan := if mode == 1 then { closed := true, room := 0 } else if mode == 2 then { room := 1 }
    else { room := 1000000000 }
  let line (preferTick : Bool) : String :=
    runConnFrom { c := Conn.init, events := true, evChan := ch, ka := some (interval, timeout), kaNext := interval,
                  preferTick := preferTick }
      (ops ++ List.replicate ((interval + timeout) / 100 + 3) "t100")
  let l0 := line false
  if l0 == impl then l0 else
  let l1 := line true
  if l1 == impl then l1 else l0

def splitOps (s : String) : List String := (s.splitOn ";").filter (· ≠ "")

/-- Syntax of one schedule operation (what the harness accepts). -/
def opWellFormed (op : String) : Bool :=
  match splitOp op with
  | none => false
  | some (c, arg) =>
    if "sSgGxwh".toList.contains c then arg == ""
    else if "cCprt".toList.contains c then arg.toNat?.isSome
    else if c == 'u' then
      match arg.toInt? with
      | some s => decide (-32768 ≤ s) && decide (s ≤ 32767)
      | none => false
    else if c == 'b' then (parseHex arg).isSome
    else false

def run (case _impl : String) : String :=
  match words case with
  | ["map", ops] => runMap (splitOps ops)
  | ["map"] => runMap []
  | ["ids", ops] => runIds (splitOps ops)
  | ["ids"] => runIds []
  | ["conn", wc, ops] =>
    if wc == "0" || wc == "1" then runConn (splitOps ops)
    else if wc.startsWith "m" then
      match (wc.drop 1).toNat? with
      | some ms => runConnMs ms (splitOps ops)
      | none => "bad-case"
    else "bad-case"
  | ["conn", wc] => if wc == "0" || wc == "1" then runConn [] else "bad-case"
  -- `connx`: the schedule language of `conn`, judged by the harness oracles only (schedules with the whole stream-id
  -- space in flight, whose model line would take minutes; the thorough tier runs them as `conn` too)
  | ["connx", wc, ops] =>
    if (wc == "0" || wc == "1") && (splitOps ops).all opWellFormed then "connx" else "bad-case"
  | ["connx", wc] => if wc == "0" || wc == "1" then "connx" else "bad-case"
  | _ => "bad-case"

end ScyllaVerif.Drive.C02

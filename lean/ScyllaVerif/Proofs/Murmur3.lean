/-
Helper lemmas for C03 (Murmur3 streaming hasher): block consumption, buffer bookkeeping, the invariant of `write`.
-/
import ScyllaVerif.Model.Murmur3

namespace ScyllaVerif.Proofs.Murmur3
open ScyllaVerif.Murmur3

/-! ### reads depend only on the bytes read -/

theorem getD_append_left (xs ys : List UInt8) (i : Nat) (h : i < xs.length) :
    (xs ++ ys).getD i 0 = xs.getD i 0 := by
  simp [List.getD, List.getElem?_append_left h]

theorem foldl_congr_mem {α β : Type} (f g : β → α → β) (l : List α) (b : β)
    (h : ∀ acc, ∀ x ∈ l, f acc x = g acc x) : l.foldl f b = l.foldl g b := by
  induction l generalizing b with
  | nil => rfl
  | cons x xs ih =>
    simp only [List.foldl_cons]
    rw [h b x List.mem_cons_self]
    exact ih _ (fun acc y hy => h acc y (List.mem_cons_of_mem _ hy))

theorem le64_congr (a b : List UInt8) (h : ∀ i, i < 8 → a.getD i 0 = b.getD i 0) : le64 a = le64 b := by
  unfold le64
  apply foldl_congr_mem
  intro acc i hi
  rw [h i (List.mem_range.mp hi)]

theorem be64_congr (a b : List UInt8) (h : ∀ i, i < 8 → a.getD i 0 = b.getD i 0) : be64 a = be64 b := by
  unfold be64
  apply foldl_congr_mem
  intro acc i hi
  rw [h i (List.mem_range.mp hi)]

theorem fetch16_congr (a b : List UInt8) (h : ∀ i, i < 16 → a.getD i 0 = b.getD i 0) :
    fetch16 a = fetch16 b := by
  unfold fetch16
  congr 1
  · exact le64_congr a b (fun i hi => h i (by omega))
  · apply le64_congr
    intro i hi
    have := h (8 + i) (by omega)
    simpa [List.getD, List.getElem?_drop] using this

theorem fetch16_append (xs ys : List UInt8) (h : 16 ≤ xs.length) : fetch16 (xs ++ ys) = fetch16 xs :=
  fetch16_congr _ _ (fun i hi => getD_append_left xs ys i (by omega))

theorem tailXor_congr (a b : List UInt8) (lo hi : Nat) (h : ∀ i, i < hi → a.getD i 0 = b.getD i 0) :
    tailXor a lo hi = tailXor b lo hi := by
  unfold tailXor
  apply foldl_congr_mem
  intro acc j hj
  have := List.mem_range.mp (List.mem_reverse.mp hj)
  rw [h (lo + j) (by omega)]

theorem tailAndFinal_congr (h : St) (a b : List UInt8) (rem len : Nat)
    (hab : ∀ i, i < rem → a.getD i 0 = b.getD i 0) :
    tailAndFinal h a rem len = tailAndFinal h b rem len := by
  unfold tailAndFinal
  rw [tailXor_congr a b 8 rem hab, tailXor_congr a b 0 (min 8 rem) (fun i hi => hab i (by omega))]

/-! ### consuming full blocks -/

/-- Everything the block loop does to a byte string: the state after all full blocks, and the rest. -/
def consume (h : St) (xs : List UInt8) : St × List UInt8 :=
  (blocks h xs (xs.length / 16), xs.drop (16 * (xs.length / 16)))

theorem consume_lt (h : St) (xs : List UInt8) (hx : xs.length < 16) : consume h xs = (h, xs) := by
  unfold consume
  have : xs.length / 16 = 0 := by omega
  rw [this]
  rfl

theorem blocks_succ (h : St) (xs : List UInt8) (n : Nat) :
    blocks h xs (n + 1) = blocks (hash16 h (fetch16 xs)) (xs.drop 16) n := rfl

theorem consume_block (h : St) (xs : List UInt8) (hx : 16 ≤ xs.length) :
    consume h xs = consume (hash16 h (fetch16 xs)) (xs.drop 16) := by
  unfold consume
  have h1 : xs.length / 16 = (xs.length - 16) / 16 + 1 := by omega
  have h2 : (xs.drop 16).length = xs.length - 16 := List.length_drop
  rw [h2, h1, blocks_succ, List.drop_drop]
  have h3 : 16 * ((xs.length - 16) / 16 + 1) = 16 + 16 * ((xs.length - 16) / 16) := by omega
  rw [h3]

theorem consume_rest_length (h : St) (xs : List UInt8) : (consume h xs).2.length = xs.length % 16 := by
  unfold consume
  simp only [List.length_drop]
  omega

theorem phase2_eq_consume (h : St) (xs : List UInt8) : phase2 h xs = consume h xs := by
  fun_induction phase2 h xs with
  | case1 h xs hx ih => rw [ih, ← consume_block h xs hx]
  | case2 h xs hx => rw [consume_lt h xs (by omega)]

/-- Consuming a concatenation = consuming the first part, then the rest of it followed by the second part. -/
theorem consume_append (h : St) (xs ys : List UInt8) :
    consume h (xs ++ ys) = consume (consume h xs).1 ((consume h xs).2 ++ ys) := by
  induction hn : xs.length using Nat.strongRecOn generalizing h xs with
  | _ n ih =>
    by_cases hx : xs.length < 16
    · rw [consume_lt h xs hx]
    · have hx' : 16 ≤ xs.length := by omega
      rw [consume_block h (xs ++ ys) (by simp; omega), consume_block h xs hx',
        fetch16_append xs ys hx']
      have hd : (xs ++ ys).drop 16 = xs.drop 16 ++ ys := by
        rw [List.drop_append]
        have : 16 - xs.length = 0 := by omega
        simp [this]
      rw [hd]
      exact ih (xs.drop 16).length (by simp; omega) _ _ rfl

/-! ### buffer bookkeeping -/

theorem copyInto_length (buf : List UInt8) (off : Nat) (src : List UInt8)
    (h : off + src.length ≤ buf.length) : (copyInto buf off src).length = buf.length := by
  unfold copyInto
  simp only [List.length_append, List.length_take, List.length_drop]
  omega

theorem copyInto_take (buf : List UInt8) (off : Nat) (src : List UInt8) (h : off ≤ buf.length) :
    (copyInto buf off src).take (off + src.length) = buf.take off ++ src := by
  unfold copyInto
  have hl : (buf.take off ++ src).length = off + src.length := by
    simp only [List.length_append, List.length_take]; omega
  rw [← hl, List.take_left']
  rfl

theorem getD_take (xs : List UInt8) (n i : Nat) (h : i < n) : (xs.take n).getD i 0 = xs.getD i 0 := by
  simp [List.getD, h]

/-! ### the invariant of the streaming hasher -/

/-- `s` is the hasher state after the bytes `data` have been written (in whatever chunks):
`(h1, h2)` is the state after all full 16-byte blocks of `data`, the first `|data| mod 16` bytes of the buffer are
the rest, `total_len = |data|`. -/
def Inv (s : Hasher) (data : List UInt8) : Prop :=
  s.buf.length = 16 ∧ s.totalLen = data.length ∧
    consume (0, 0) data = ((s.h1, s.h2), s.buf.take (data.length % 16))

theorem inv_init : Inv init [] := by
  refine ⟨by simp [init], rfl, ?_⟩
  rfl

theorem inv_write (s : Hasher) (data pk : List UInt8) (hinv : Inv s data) : Inv (write s pk) (data ++ pk) := by
  obtain ⟨hbuf, htot, hcons⟩ := hinv
  have hr : (s.buf.take (data.length % 16)).length = data.length % 16 := by
    simp only [List.length_take]; omega
  have happ : consume (0, 0) (data ++ pk) = consume (s.h1, s.h2) (s.buf.take (data.length % 16) ++ pk) := by
    rw [consume_append, hcons]
  unfold write
  simp only [htot]
  split
  · -- phase 1 + 2 + 3
    rename_i hc
    obtain ⟨hpos, hfit⟩ := hc
    have hmin : min (16 - data.length % 16) pk.length = 16 - data.length % 16 := by omega
    rw [hmin]
    generalize hb1 : copyInto s.buf (data.length % 16) (pk.take (16 - data.length % 16)) = buf1
    have hpt : (pk.take (16 - data.length % 16)).length = 16 - data.length % 16 := by
      simp only [List.length_take]; omega
    have hb1len : buf1.length = 16 := by
      rw [← hb1, copyInto_length _ _ _ (by rw [hpt]; omega), hbuf]
    have hb1eq : buf1 = s.buf.take (data.length % 16) ++ pk.take (16 - data.length % 16) := by
      have := copyInto_take s.buf (data.length % 16) (pk.take (16 - data.length % 16)) (by omega)
      rw [hb1, hpt] at this
      have h16 : data.length % 16 + (16 - data.length % 16) = 16 := by omega
      rw [h16, List.take_of_length_le (by omega)] at this
      exact this
    have hsplit : s.buf.take (data.length % 16) ++ pk = buf1 ++ pk.drop (16 - data.length % 16) := by
      rw [hb1eq, List.append_assoc, List.take_append_drop]
    rw [phase2_eq_consume]
    have hstep : consume (s.h1, s.h2) (buf1 ++ pk.drop (16 - data.length % 16)) =
        consume (hash16 (s.h1, s.h2) (fetch16 buf1)) (pk.drop (16 - data.length % 16)) := by
      rw [consume_block _ _ (by simp; omega), fetch16_append _ _ (by omega)]
      congr 1
      rw [List.drop_append, List.drop_of_length_le (by omega)]
      simp [hb1len]
    generalize hres : consume (hash16 (s.h1, s.h2) (fetch16 buf1)) (pk.drop (16 - data.length % 16)) = res at *
    have hreslen : res.2.length = (pk.length - (16 - data.length % 16)) % 16 := by
      rw [← hres, consume_rest_length]; simp
    refine ⟨?_, by simp, ?_⟩
    · simp only []
      rw [copyInto_length _ _ _ (by omega), hb1len]
    · simp only []
      rw [happ, hsplit, hstep]
      have hmod : (data ++ pk).length % 16 = 0 + res.2.length := by
        rw [hreslen]; simp only [List.length_append]; omega
      rw [hmod, copyInto_take _ _ _ (by omega)]
      simp
  · split
    · -- buffer empty: phase 2 + 3
      rename_i _ hz
      rw [phase2_eq_consume]
      rw [hz] at happ
      simp only [List.take_zero, List.nil_append] at happ
      generalize hres : consume (s.h1, s.h2) pk = res at *
      have hreslen : res.2.length = pk.length % 16 := by rw [← hres, consume_rest_length]
      refine ⟨?_, by simp, ?_⟩
      · simp only []
        rw [copyInto_length _ _ _ (by omega), hbuf]
      · simp only []
        rw [happ]
        have hmod : (data ++ pk).length % 16 = 0 + res.2.length := by
          rw [hreslen]; simp only [List.length_append]; omega
        rw [hmod, copyInto_take _ _ _ (by omega)]
        simp
    · -- buffer non-empty, cannot be filled: phase 3 only
      rename_i hc hz
      have hshort : data.length % 16 + pk.length < 16 := by omega
      refine ⟨?_, by simp, ?_⟩
      · simp only []
        rw [copyInto_length _ _ _ (by omega), hbuf]
      · simp only []
        rw [happ, consume_lt _ _ (by simp only [List.length_append, hr]; omega)]
        have hmod : (data ++ pk).length % 16 = data.length % 16 + pk.length := by
          simp only [List.length_append]; omega
        rw [hmod, copyInto_take _ _ _ (by omega)]

theorem inv_foldl (chunks : List (List UInt8)) (s : Hasher) (data : List UInt8) (hinv : Inv s data) :
    Inv (chunks.foldl write s) (data ++ chunks.flatten) := by
  induction chunks generalizing s data with
  | nil => simpa using hinv
  | cons c cs ih =>
    simp only [List.foldl_cons, List.flatten_cons, ← List.append_assoc]
    exact ih _ _ (inv_write s data c hinv)

theorem finishRaw_of_inv (s : Hasher) (data : List UInt8) (hinv : Inv s data) :
    finishRaw s = murmur3Raw data := by
  obtain ⟨hbuf, htot, hcons⟩ := hinv
  unfold finishRaw murmur3Raw
  unfold consume at hcons
  simp only [Prod.mk.injEq] at hcons
  obtain ⟨hh, hrest⟩ := hcons
  simp only [htot, hh, hrest]
  apply tailAndFinal_congr
  intro i hi
  exact (getD_take s.buf _ i hi).symm

end ScyllaVerif.Proofs.Murmur3

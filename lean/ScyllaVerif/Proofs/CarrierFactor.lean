import ScyllaVerif.Model.TypedCarrier
import ScyllaVerif.Proofs.CodecEnc
/-!
C01, `carrier_factor`: the typed `SerializeValue` impls (Model/TypedCarrier.lean: `serCarrier`) are the dynamic
serializer `encImpl` applied to the embedding of the carrier value — by mutual structural induction over
`Carrier` / `List Carrier`.
-/
namespace ScyllaVerif.Proofs.CarrierFactor
open ScyllaVerif.Vint ScyllaVerif.Cql ScyllaVerif.Codec ScyllaVerif.TypedCarrier

theorem foldEnc_map {α β : Type} (f : β → Bytes → Except SerErr Bytes) (g : α → β) (xs : List α) (buf : Bytes) :
    foldEnc f (xs.map g) buf = foldEnc (fun x b => f (g x) b) xs buf := by
  induction xs generalizing buf with
  | nil => rfl
  | cons x xs ih =>
    simp only [List.map_cons, foldEnc]
    cases f (g x) buf with
    | error e => rfl
    | ok b => exact ih b

theorem foldEnc_congr {α : Type} (f g : α → Bytes → Except SerErr Bytes) (xs : List α)
    (h : ∀ x, x ∈ xs → ∀ b, f x b = g x b) (buf : Bytes) : foldEnc f xs buf = foldEnc g xs buf := by
  induction xs generalizing buf with
  | nil => rfl
  | cons x xs ih =>
    simp only [foldEnc, h x List.mem_cons_self]
    cases g x buf with
    | error e => rfl
    | ok b => exact ih (fun y hy => h y (List.mem_cons_of_mem _ hy)) b

def Factor (c : Carrier) : Prop :=
  ∀ (t : CqlTy) (x : RustVal) (ws : Bool) (buf : Bytes), wtVal c x = true → compat c t = true →
    serCarrier c t x ws buf = encImpl t (embed c x) ws buf

def FactorTuple (cs : List Carrier) : Prop :=
  ∀ (ts : List CqlTy) (xs : List RustVal) (buf : Bytes), wtTuple cs xs = true → compatTuple cs ts = true →
    serTuple cs ts xs buf = encTupleImpl ts (embedTuple cs xs) buf

/-- Scalar carriers: the typed impl's `exact_type_check!` list and bytes are the view of the embedding. -/
theorem prim_factor (c : Carrier) (x : RustVal) (v : CqlVal) (h : embedPrim c x = some v) :
    ∃ acc body viaB, primView c x = some (acc, body, viaB) ∧ viewOf v = .scalar acc body viaB := by
  cases c <;> cases x <;> simp [embedPrim] at h <;> subst h <;> exact ⟨_, _, _, rfl, rfl⟩

macro "prim_tac" : tactic => `(tactic| (
  intro t x ws buf hwt _
  simp only [wtVal] at hwt
  cases he : embedPrim _ x with
  | none => rw [he] at hwt; cases hwt
  | some v =>
    obtain ⟨acc, body, viaB, hp, hv⟩ := prim_factor _ x v he
    rw [encImpl]
    simp [serCarrier, embed, he, hp, hv]))

theorem embedTuple_length : ∀ (cs : List Carrier) (xs : List RustVal), wtTuple cs xs = true →
    (embedTuple cs xs).length = cs.length
  | [], [], _ => rfl
  | [], _ :: _, h => by simp [wtTuple] at h
  | _ :: _, [], h => by simp [wtTuple] at h
  | c :: cs, x :: xs, h => by
    simp only [wtTuple, Bool.and_eq_true] at h
    simp [embedTuple, embedTuple_length cs xs h.2]

/-- list / set types, for `Vec` and the set carriers alike. -/
theorem seq_factor (c : Carrier) (elt : CqlTy) (xs : List RustVal) (ws : Bool) (buf : Bytes)
    (h : ∀ y, y ∈ xs → ∀ b, serCarrier c elt y true b = encImpl elt (embed c y) true b) :
    seqImpl (fun y b => serCarrier c elt y true b) xs ws buf =
      (if (xs.map (fun y => embed c y)).length > i32Max then .error .tooManyElements
       else
         match foldEnc (fun v b => encImpl elt v true b) (xs.map (fun y => embed c y))
           (builderNew ws buf ++ be32 (xs.map (fun y => embed c y)).length) with
         | .error e => .error e
         | .ok b => builderFinish ws buf.length b) := by
  simp only [seqImpl, List.length_map, foldEnc_map]
  rw [foldEnc_congr _ _ xs h]
  rfl

mutual
theorem factor : ∀ c : Carrier, Factor c
  | .i8 => by prim_tac
  | .i16 => by prim_tac
  | .i32 => by prim_tac
  | .i64 => by prim_tac
  | .f32 => by prim_tac
  | .f64 => by prim_tac
  | .bool => by prim_tac
  | .string => by prim_tac
  | .blob => by prim_tac
  | .inet => by prim_tac
  | .uuid => by prim_tac
  | .timeuuid => by prim_tac
  | .date => by prim_tac
  | .time => by prim_tac
  | .timestamp => by prim_tac
  | .duration => by prim_tac
  | .varint => by prim_tac
  | .decimal => by prim_tac
  | .counter => by prim_tac
  | .opt c => by
    intro t x ws buf hwt hc
    cases x <;> simp [wtVal] at hwt
    · rw [encImpl]; simp [serCarrier, embed, viewOf]
    · rename_i y
      simp only [serCarrier, embed]
      exact factor c t y ws buf hwt (by simpa [compat] using hc)
  | .maybeUnset c => by
    intro t x ws buf hwt hc
    cases x <;> simp [wtVal] at hwt
    · rw [encImpl]; simp [serCarrier, embed, viewOf]
    · rename_i y
      simp only [serCarrier, embed]
      exact factor c t y ws buf hwt (by simpa [compat] using hc)
  | .maybeEmpty c => by
    intro t x ws buf hwt hc
    simp only [compat, Bool.and_eq_true] at hc
    cases x <;> simp [wtVal] at hwt
    · rw [encImpl]; simp [serCarrier, embed, viewOf, hc.1]
    · rename_i y
      simp only [serCarrier, embed, hc.1, Bool.not_true, Bool.false_eq_true, if_false]
      exact factor c t y ws buf hwt hc.2
  | .vec c => by
    intro t x ws buf hwt hc
    cases x <;> simp [wtVal] at hwt
    rename_i xs
    cases t with
    | list elt =>
      simp only [compat] at hc
      rw [encImpl]
      simp only [serCarrier, embed, viewOf]
      exact seq_factor c elt xs ws buf (fun y hy b => factor c elt y true b (hwt y hy) hc)
    | set elt =>
      simp only [compat] at hc
      rw [encImpl]
      simp only [serCarrier, embed, viewOf]
      exact seq_factor c elt xs ws buf (fun y hy b => factor c elt y true b (hwt y hy) hc)
    | vector elt dim =>
      simp only [compat] at hc
      rw [encImpl]
      simp only [serCarrier, embed, viewOf, List.length_map, foldEnc_map]
      rw [foldEnc_congr (fun y b => serCarrier c elt y false b) (fun y b => encImpl elt (embed c y) false b) xs
        (fun y hy b => factor c elt y false b (hwt y hy) hc)]
      rw [foldEnc_congr (varElemImpl (fun y b => serCarrier c elt y false b))
        (fun y b => varElemImpl (fun v b => encImpl elt v false b) (embed c y) b) xs
        (fun y hy b => by simp only [varElemImpl, factor c elt y false [] (hwt y hy) hc])]
      rfl
    | native n => rw [encImpl]; simp [serCarrier, embed, viewOf]
    | map k v => rw [encImpl]; simp [serCarrier, embed, viewOf]
    | tuple ts => rw [encImpl]; simp [serCarrier, embed, viewOf]
    | udt ks name fs => rw [encImpl]; simp [serCarrier, embed, viewOf]
  | .set c => by
    intro t x ws buf hwt hc
    cases x <;> simp [wtVal] at hwt
    rename_i xs
    cases t with
    | list elt =>
      simp only [compat] at hc
      rw [encImpl]
      simp only [serCarrier, embed, viewOf]
      exact seq_factor c elt xs ws buf (fun y hy b => factor c elt y true b (hwt y hy) hc)
    | set elt =>
      simp only [compat] at hc
      rw [encImpl]
      simp only [serCarrier, embed, viewOf]
      exact seq_factor c elt xs ws buf (fun y hy b => factor c elt y true b (hwt y hy) hc)
    | vector elt dim => simp [compat] at hc
    | native n => rw [encImpl]; simp [serCarrier, embed, viewOf]
    | map k v => rw [encImpl]; simp [serCarrier, embed, viewOf]
    | tuple ts => rw [encImpl]; simp [serCarrier, embed, viewOf]
    | udt ks name fs => rw [encImpl]; simp [serCarrier, embed, viewOf]
  | .map k v => by
    intro t x ws buf hwt hc
    cases x <;> simp [wtVal] at hwt
    rename_i kvs
    cases t with
    | map kt vt =>
      simp only [compat, Bool.and_eq_true] at hc
      rw [encImpl]
      simp only [serCarrier, embed, viewOf, List.length_map, foldEnc_map]
      rw [foldEnc_congr (pairImpl (fun y b => serCarrier k kt y true b) (fun y b => serCarrier v vt y true b))
        (fun kv b => pairImpl (fun k b => encImpl kt k true b) (fun v b => encImpl vt v true b)
          (embed k kv.1, embed v kv.2) b) kvs
        (fun kv hkv b => by
          have h1 := hwt kv.1 kv.2 hkv
          simp only [pairImpl, factor k kt kv.1 true b h1.1 hc.1]
          cases encImpl kt (embed k kv.1) true b with
          | error e => rfl
          | ok b1 => exact factor v vt kv.2 true b1 h1.2 hc.2)]
      rfl
    | native n => rw [encImpl]; simp [serCarrier, embed, viewOf]
    | list e => rw [encImpl]; simp [serCarrier, embed, viewOf]
    | set e => rw [encImpl]; simp [serCarrier, embed, viewOf]
    | vector e d => rw [encImpl]; simp [serCarrier, embed, viewOf]
    | tuple ts => rw [encImpl]; simp [serCarrier, embed, viewOf]
    | udt ks name fs => rw [encImpl]; simp [serCarrier, embed, viewOf]
  | .tuple cs => by
    intro t x ws buf hwt hc
    cases x <;> simp [wtVal] at hwt
    rename_i xs
    cases t with
    | tuple ts =>
      simp only [compat] at hc
      rw [encImpl]
      simp only [serCarrier, embed, viewOf, embedTuple_length cs xs hwt, factorTuple cs ts xs _ hwt hc]
      rfl
    | native n => rw [encImpl]; simp [serCarrier, embed, viewOf]
    | list e => rw [encImpl]; simp [serCarrier, embed, viewOf]
    | set e => rw [encImpl]; simp [serCarrier, embed, viewOf]
    | vector e d => rw [encImpl]; simp [serCarrier, embed, viewOf]
    | map k v => rw [encImpl]; simp [serCarrier, embed, viewOf]
    | udt ks name fs => rw [encImpl]; simp [serCarrier, embed, viewOf]
  | .dyn => by
    intro t x ws buf hwt _
    cases x <;> simp [wtVal] at hwt
    simp only [serCarrier, embed]
theorem factorTuple : ∀ cs : List Carrier, FactorTuple cs
  | [] => by
    intro ts xs buf hwt _
    cases xs with
    | nil => cases ts <;> simp [serTuple, embedTuple, encTupleImpl]
    | cons x xs => simp [wtTuple] at hwt
  | c :: cs => by
    intro ts xs buf hwt hc
    cases xs with
    | nil => simp [wtTuple] at hwt
    | cons x xs =>
      simp only [wtTuple, Bool.and_eq_true] at hwt
      cases ts with
      | nil => simp [serTuple, embedTuple, encTupleImpl]
      | cons t ts =>
        simp only [compatTuple, Bool.and_eq_true] at hc
        simp only [serTuple, embedTuple, encTupleImpl, factor c t x true buf hwt.1 hc.1]
        cases encImpl t (embed c x) true buf with
        | error e => rfl
        | ok b => exact factorTuple cs ts xs b hwt.2 hc.2
end

end ScyllaVerif.Proofs.CarrierFactor

import ScyllaVerif.Proofs.Decode
import ScyllaVerif.Proofs.CustomNP
/-
C08 — every decoder of the model satisfies the allocation accounting predicate `AllocW` (Proofs/Decode.lean).
-/
namespace ScyllaVerif.C08

/-- One step of the structural walk through a `do` block. -/
macro "aw_step" : tactic => `(tactic| first
  | exact aw_pure _
  | exact aw_fail _
  | apply aw_tag
  | (apply aw_bind0 (by omega))
  | apply aw_ite
  | intro _)

variable {A B : Nat}

theorem aw_takeN0 (_hA : 1 ≤ A) (n : Nat) (k : String) : AllocW 0 A B (takeN n k) :=
  aw_mono (aw_takeN n k) (by omega) (Nat.le_refl _) (Nat.le_refl _)

theorem aw_readU8 (hA : 1 ≤ A) : AllocW 1 A B readU8 := by
  unfold readU8; exact aw_bindL hA (aw_takeN 1 _) (fun _ => aw_pure _)
theorem aw_readShort (hA : 1 ≤ A) : AllocW 2 A B readShort := by
  unfold readShort; exact aw_bindL hA (aw_takeN 2 _) (fun _ => aw_pure _)
theorem aw_readInt (hA : 1 ≤ A) : AllocW 4 A B readInt := by
  unfold readInt; exact aw_bindL hA (aw_takeN 4 _) (fun _ => aw_pure _)
theorem aw_readLong (hA : 1 ≤ A) : AllocW 8 A B readLong := by
  unfold readLong; exact aw_bindL hA (aw_takeN 8 _) (fun _ => aw_pure _)

theorem aw_readIntLength (hA : 1 ≤ A) : AllocW 4 A B readIntLength := by
  unfold readIntLength
  refine aw_bindL hA (aw_readInt hA) (fun v => ?_)
  split
  · exact aw_fail _
  · exact aw_pure _

theorem aw_checkUtf8 (raw : Bytes) : AllocW 0 A B (checkUtf8 raw) := by
  unfold checkUtf8; split
  · exact aw_pure _
  · exact aw_fail _

theorem aw_readRaw (hA : 1 ≤ A) (n : Nat) : AllocW 0 A B (readRaw n) := by
  rw [readRaw_eq_takeN]; exact aw_takeN0 hA n _

theorem aw_readString (hA : 1 ≤ A) : AllocW 2 A B readString := by
  unfold readString
  exact aw_bindL hA (aw_readShort hA) (fun n => aw_bind0 hA (aw_readRaw hA n) (fun raw => aw_checkUtf8 raw))

theorem aw_readLongString (hA : 1 ≤ A) : AllocW 4 A B readLongString := by
  unfold readLongString
  exact aw_bindL hA (aw_readIntLength hA) (fun n => aw_bind0 hA (aw_readRaw hA n) (fun raw => aw_checkUtf8 raw))

theorem aw_readBytes (hA : 1 ≤ A) : AllocW 4 A B readBytes := by
  unfold readBytes
  exact aw_bindL hA (aw_readIntLength hA) (fun n => aw_readRaw hA n)

theorem aw_readBytesOpt (hA : 1 ≤ A) : AllocW 4 A B readBytesOpt := by
  unfold readBytesOpt
  refine aw_bindL hA (aw_readInt hA) (fun n => ?_)
  split
  · exact aw_pure _
  · exact aw_bind0 hA (aw_readRaw hA _) (fun _ => aw_pure _)

theorem aw_readShortBytes (hA : 1 ≤ A) : AllocW 2 A B readShortBytes := by
  unfold readShortBytes
  exact aw_bindL hA (aw_readShort hA) (fun n => aw_readRaw hA n)

theorem takeN_length (n : Nat) (k : String) (s : St) (raw : Bytes) (s' : St) (h : takeN n k s = (.ok raw, s')) :
    raw.length = n ∧ n ≤ s.buf.length ∧ s'.buf = s.buf.drop n ∧ s'.alloc = s.alloc ∧ s'.depth = s.depth := by
  unfold takeN at h
  split at h
  · simp at h
  · injection h with h1 h2
    injection h1 with h1
    subst h1; subst h2
    refine ⟨?_, by omega, rfl, rfl, rfl⟩
    simp only [List.length_take]; omega

/-- `read_uuid`: the `try_into().unwrap()` is guarded by `read_raw_bytes(16)`. -/
theorem aw_readUuid (hA : 1 ≤ A) : AllocW 0 A B readUuid := by
  unfold readUuid
  have := aw_bindP (w1 := 0) (w2 := 0) (A := A) (B := B) (fun raw : Bytes => raw.length = 16) hA (aw_readRaw hA 16)
    (fun s a s' h => (takeN_length 16 "few" s a s' (by rw [← readRaw_eq_takeN]; exact h)).1)
    (f := fun raw => if raw.length = 16 then pure raw else panicAt "read_uuid: try_into().unwrap()")
    (fun raw hr => by simp only [hr, if_true]; exact aw_pure raw)
  simpa using this

theorem aw_readInet (hA : 1 ≤ A) : AllocW 1 A B readInet := by
  unfold readInet
  refine aw_bindL hA (aw_readU8 hA) (fun len => ?_)
  split
  · refine aw_bind0 hA (aw_readRaw hA _) (fun ip => aw_bind0 hA (aw_mono (aw_readInt hA) (by omega) (Nat.le_refl _) (Nat.le_refl _)) (fun p => ?_))
    split
    · exact aw_fail _
    · exact aw_pure _
  · exact aw_fail _

theorem aw_readConsistency (hA : 1 ≤ A) : AllocW 2 A B readConsistency := by
  unfold readConsistency
  refine aw_bindL hA (aw_readShort hA) (fun c => ?_)
  split
  · exact aw_pure _
  · exact aw_fail _

def U16 : Nat := 65535

/-- A `u16` always fits. -/
theorem readShort_le (s : St) (n : Nat) (s' : St) (h : readShort s = (.ok n, s')) : n ≤ U16 := by
  unfold readShort at h
  by_cases hl : s.buf.length < 2
  · simp [takeN, hl] at h
  · simp only [bind_def, takeN, hl, if_false, pure_def] at h
    match hb : s.buf with
    | a :: b :: rest =>
      rw [hb] at h
      simp only [List.take, beNat, List.foldl] at h
      have := a.toNat_lt; have := b.toNat_lt
      injection h with h1 _
      injection h1 with h1
      unfold U16; omega
    | [_] => simp [hb] at hl
    | [] => simp [hb] at hl

/-- `readShort >>= fun n => allocReq n >>= loopN n body >>= k` (the shape of every `u16`-counted list). -/
theorem aw_shortCounted {body : M α} {k : List α → M β} (hA : 1 ≤ A)
    (hb : AllocW 1 A B body) (hk : ∀ l, AllocW 0 A (B + U16) (k l)) :
    AllocW 2 A (B + U16) (readShort >>= fun n => allocReq n >>= fun _ => loopN n body >>= k) := by
  have := aw_bindP (w1 := 2) (w2 := 0) (B := B + U16) (fun n => n ≤ U16) hA (aw_readShort hA) readShort_le
    (f := fun n => allocReq n >>= fun _ => loopN n body >>= k)
    (fun n hn => aw_u16Loop hA n U16 hn hb hk)
  simpa using this

theorem bind_pure_M (m : M α) : (m >>= fun a => (pure a : M α)) = m := by
  funext s
  simp only [bind_def, pure_def]
  cases m s with
  | mk o s1 => cases o <;> rfl

/-- The same without a continuation. -/
theorem aw_shortCounted' {body : M α} (hA : 1 ≤ A) (hb : AllocW 1 A B body) :
    AllocW 2 A (B + U16) (readShort >>= fun n => allocReq n >>= fun _ => loopN n body) := by
  have := aw_shortCounted (k := fun l => (pure l : M (List α))) hA hb (fun l => aw_pure l)
  simpa only [bind_pure_M] using this

theorem aw_readStringList (hA : 1 ≤ A) : AllocW 2 A (B + U16) readStringList := by
  unfold readStringList
  exact aw_shortCounted' hA (aw_mono (aw_readString hA) (by omega) (Nat.le_refl _) (Nat.le_refl _))

theorem aw_readStringMap (hA : 1 ≤ A) : AllocW 2 A (B + U16) readStringMap := by
  unfold readStringMap
  refine aw_shortCounted' hA ?_
  exact aw_mono (aw_bindL hA (aw_readString hA) (fun k => aw_bind0 hA
    (aw_mono (aw_readString hA) (Nat.zero_le _) (Nat.le_refl _) (Nat.le_refl _)) (fun v => aw_pure _)))
    (by omega) (Nat.le_refl _) (Nat.le_refl _)

theorem aw_readBytesMap (hA : 1 ≤ A) : AllocW 2 A (B + U16) readBytesMap := by
  unfold readBytesMap
  refine aw_shortCounted' hA ?_
  exact aw_mono (aw_bindL hA (aw_readString hA) (fun k => aw_bind0 hA
    (aw_mono (aw_readBytes hA) (Nat.zero_le _) (Nat.le_refl _) (Nat.le_refl _)) (fun v => aw_pure _)))
    (by omega) (Nat.le_refl _) (Nat.le_refl _)

theorem aw_readStringMultimap (hA : 1 ≤ A) : AllocW 2 A (B + U16 + U16) readStringMultimap := by
  unfold readStringMultimap
  refine aw_shortCounted' hA ?_
  exact aw_mono (aw_bindL hA (aw_readString hA) (fun k => aw_bind0 hA
    (aw_mono (aw_readStringList hA) (Nat.zero_le _) (Nat.le_refl _) (Nat.le_refl _)) (fun v => aw_pure _)))
    (by omega) (Nat.le_refl _) (Nat.le_refl _)

theorem aw_zero {m : M α} (h : AllocW w A B m) : AllocW 0 A B m :=
  aw_mono h (Nat.zero_le _) (Nat.le_refl _) (Nat.le_refl _)

theorem aw_getUni : AllocW 0 A B getUni := by
  intro s; simp only [getUni]; exact ⟨by omega, by omega, by omega, List.suffix_refl _⟩

theorem aw_remaining : AllocW 0 A B remaining := by
  intro s; simp only [remaining]; exact ⟨by omega, by omega, by omega, List.suffix_refl _⟩

/-- Walks through a `do` block whose pieces are readers with known accounting (all at surplus 0). -/
macro "aw0" : tactic => `(tactic| repeat (first
  | exact aw_pure _
  | exact aw_fail _
  | exact aw_noteDepth _ (by unfold DEPTH_BOUND customDepthBound TOP_FUEL MAX_TYPE_NESTING_DEPTH; omega)
  | exact aw_zero (aw_readU8 (by assumption))
  | exact aw_zero (aw_readShort (by assumption))
  | exact aw_zero (aw_readInt (by assumption))
  | exact aw_zero (aw_readIntLength (by assumption))
  | exact aw_zero (aw_readString (by assumption))
  | exact aw_zero (aw_readBytes (by assumption))
  | exact aw_zero (aw_readBytesOpt (by assumption))
  | exact aw_zero (aw_readShortBytes (by assumption))
  | exact aw_zero (aw_readInet (by assumption))
  | exact aw_zero (aw_readConsistency (by assumption))
  | exact aw_readUuid (by assumption)
  | assumption
  | apply aw_tag
  | apply aw_bind0 (by assumption)
  | apply aw_ite
  | intro _))

theorem aw_deserType (hA : 1 ≤ A) : ∀ fuel, AllocW 2 A B (deserType fuel)
  | 0 => by unfold deserType; exact aw_fail _
  | fuel + 1 => by
    have ih : AllocW 0 A B (deserType fuel) := aw_zero (aw_deserType hA fuel)
    unfold deserType
    refine aw_bind0 hA (aw_noteDepth _ (by unfold DEPTH_BOUND TOP_FUEL MAX_TYPE_NESTING_DEPTH; omega)) (fun _ => aw_bindL hA (aw_tag _ (aw_readShort hA)) (fun id => ?_))
    split
    · refine aw_bind0 hA (aw_tag _ (aw_zero (aw_readString hA))) (fun str => aw_bind0 hA aw_getUni (fun uni => ?_))
      have hnp := customParse_np uni str
      split
      · aw0
      · aw0
      · rename_i site he
        exact absurd he (hnp site)
      · aw0
    · aw0
    · aw0
    · aw0
    · refine aw_bind0 hA (aw_tag _ (aw_zero (aw_readString hA))) (fun _ => aw_bind0 hA
        (aw_tag _ (aw_zero (aw_readString hA))) (fun _ => aw_bind0 hA (aw_tag _ (aw_zero (aw_readShort hA)))
        (fun n => aw_bind0 hA (aw_zero (aw_loopN hA (w := 0) ?_ n)) (fun _ => aw_pure _))))
      aw0
    · refine aw_bind0 hA (aw_tag _ (aw_zero (aw_readShort hA)))
        (fun n => aw_bind0 hA (aw_zero (aw_loopN hA ih n)) (fun _ => aw_pure _))
    · split <;> aw0

theorem aw_cappedLoop' {body : M α} (hA : 1 ≤ A) (c n : Nat) (hb : AllocW 1 A B body) :
    AllocW 0 (A + 1) B (remaining >>= fun rem => allocReq (min n (rem / c)) >>= fun _ => loopN n body) := by
  have := aw_cappedLoop (k := fun l => (pure l : M (List α))) hA c n hb (fun l => aw_pure l)
  simpa only [bind_pure_M] using this

theorem aw_deserTableSpec (hA : 1 ≤ A) : AllocW 2 A B deserTableSpec := by
  unfold deserTableSpec
  refine aw_bindL hA (aw_tag _ (aw_readString hA)) (fun _ => ?_)
  aw0

theorem aw_optRead (hA : 1 ≤ A) {m : M α} (c : Bool) (h : AllocW 0 A B m) : AllocW 0 A B (optRead c m) := by
  unfold optRead
  split
  · exact aw_bind0 hA h (fun _ => aw_pure _)
  · exact aw_pure _

theorem aw_condRead {m : M α} (c : Bool) (d : α) (h : AllocW 0 A B m) : AllocW 0 A B (condRead c m d) := by
  unfold condRead
  split
  · exact h
  · exact aw_pure _

theorem aw_takeRest : AllocW 0 A B takeRest := by
  intro s; simp only [takeRest, List.length_nil]; exact ⟨by omega, by omega, by omega, List.nil_suffix⟩

/-- `tracked m` behaves like `m`, and the flag it returns is always `true`: what a reader leaves is a suffix. -/
theorem aw_tracked {m : M α} (h : AllocW w A B m) : AllocW w A B (tracked m) := by
  intro s
  have := h s
  unfold tracked
  cases hms : m s with
  | mk o s1 => rw [hms] at this; cases o <;> simpa using this

theorem tracked_true {m : M α} (h : AllocW w A B m) (s : St) (r : α × Bool) (s' : St)
    (e : tracked m s = (.ok r, s')) : r.2 = true := by
  have := h s
  unfold tracked at e
  cases hms : m s with
  | mk o s1 =>
    rw [hms] at this e
    cases o with
    | ok a =>
      simp only at this e
      injection e with e1 e2
      injection e1 with e1
      subst e1
      simp only [List.isSuffixOf_iff_suffix]
      exact this.2.2.2
    | err k => simp at e
    | panic k => simp at e

/-- `tracked m >>= fun r => … sliceRef r.2 …`: the continuation may assume the flag. -/
theorem aw_trackedBind {m : M α} {f : α × Bool → M β} (hA : 1 ≤ A) (hm : AllocW w1 A B m)
    (hf : ∀ r, r.2 = true → AllocW w2 A B (f r)) : AllocW (w1 + w2) A B (tracked m >>= f) :=
  aw_bindP (fun r => r.2 = true) hA (aw_tracked hm) (fun s r s' e => tracked_true hm s r s' e) hf

theorem aw_sliceRef_true : AllocW 0 A B (sliceRef true) := by
  unfold sliceRef; simp only [if_true]; exact aw_pure ()

/-- The `body_len - buf_len` / `advance` pattern never panics: the copy only shrinks, and by no more than the body. -/
theorem aw_readThenAdvance {m : M α} (h : AllocW w A B m) : AllocW w A B (readThenAdvance m) := by
  intro s
  have hm := h s
  unfold readThenAdvance
  simp only [bind_def, remaining, onCopy]
  cases hms : m s with
  | mk o s1 =>
    rw [hms] at hm
    cases o with
    | err k => simpa using hm
    | panic k => exact hm.elim
    | ok a =>
      simp only at hm ⊢
      have hle : ¬ (s1.buf.length > s.buf.length) := by omega
      simp only [hle, if_false, bind_def, advance, pure_def]
      have hle2 : ¬ (s.buf.length - s1.buf.length > s.buf.length) := by omega
      simp only [hle2, if_false, List.length_drop]
      exact ⟨by omega, by omega, hm.2.2.1, List.drop_suffix _ _⟩



theorem aw_tableSpecFor (hA : 1 ≤ A) (gts : Option (Bytes × Bytes)) : AllocW 0 A B (tableSpecFor gts) := by
  unfold tableSpecFor
  split
  · exact aw_pure _
  · exact aw_zero (aw_deserTableSpec hA)

theorem aw_deserColSpec (hA : 1 ≤ A) (gts : Option (Bytes × Bytes)) : AllocW 1 A B (deserColSpec gts) := by
  unfold deserColSpec
  exact aw_bind0 hA (aw_tableSpecFor hA gts) (fun ts => aw_bindL hA (aw_tag _ (aw_mono (w' := 1) (aw_readString hA)
    (by omega) (Nat.le_refl _) (Nat.le_refl _))) (fun name => aw_bind0 hA (aw_zero (aw_deserType hA 129))
    (fun _ => aw_pure _)))

theorem aw_deserColSpecs (hA : 1 ≤ A) (gts : Option (Bytes × Bytes)) (n : Nat) :
    AllocW 0 (A + 1) B (deserColSpecs gts n) := by
  unfold deserColSpecs
  exact aw_cappedLoop' hA 4 n (aw_tag _ (aw_deserColSpec hA gts))

/-- From here on the constants are fixed: at most `2 · remaining + 2 · 65535` slots on failure. -/
abbrev AW (w : Nat) (m : M α) : Prop := AllocW w 2 (U16 + U16) m

theorem aw2_colSpecs (gts : Option (Bytes × Bytes)) (n : Nat) : AW 0 (deserColSpecs gts n) :=
  aw_deserColSpecs (A := 1) (Nat.le_refl _) gts n

theorem aw2_optTableSpec (c : Bool) : AW 0 (optRead c (tag "gts" deserTableSpec)) :=
  aw_optRead (by omega) c (aw_tag _ (aw_zero (aw_deserTableSpec (by omega))))

theorem aw2_deserResultMetadata (f : Features) : AW 0 (deserResultMetadata f) := by
  have hA : 1 ≤ 2 := by omega
  unfold deserResultMetadata
  refine aw_bind0 hA (aw_tag _ (aw_zero (aw_readInt hA))) (fun flags => ?_)
  simp only []
  split
  · exact aw_fail _
  · refine aw_bind0 hA (aw_tag _ (aw_zero (aw_readIntLength hA))) (fun cc => aw_bind0 hA
      (aw_optRead hA _ (aw_tag _ (aw_zero (aw_readBytes hA)))) (fun _ => aw_bind0 hA
      (aw_optRead hA _ (aw_tag _ (aw_zero (aw_readShortBytes hA)))) (fun _ => aw_bind0 hA
      (aw_condRead _ _ (aw_bind0 hA (aw2_optTableSpec _) (fun gts => aw2_colSpecs gts cc))) (fun _ => aw_pure _))))

theorem aw2_deserPreparedMetadata : AW 0 deserPreparedMetadata := by
  have hA : 1 ≤ 2 := by omega
  unfold deserPreparedMetadata
  refine aw_bind0 hA (aw_tag _ (aw_zero (aw_readInt hA))) (fun flags => aw_bind0 hA
    (aw_tag _ (aw_zero (aw_readIntLength hA))) (fun cc => aw_bind0 hA (aw_tag _ (aw_zero (aw_readIntLength hA)))
    (fun pkc => ?_)))
  refine aw_cappedLoop (A := 1) (Nat.le_refl _) 2 pkc
    (aw_tag _ (aw_mono (w' := 1) (aw_readShort (Nat.le_refl _)) (by omega) (Nat.le_refl _) (Nat.le_refl _))) (fun idxs => ?_)
  exact aw_bind0 hA (aw2_optTableSpec _) (fun gts => aw_bind0 hA (aw2_colSpecs gts cc) (fun _ => aw_pure _))

theorem aw2_deserPrepared (f : Features) : AW 0 (deserPrepared f) := by
  have hA : 1 ≤ 2 := by omega
  unfold deserPrepared
  refine aw_bind0 hA (aw_tag _ (aw_zero (aw_readShortBytes hA))) (fun id => aw_bind0 hA
    (aw_optRead hA _ (aw_tag _ (aw_zero (aw_readShortBytes hA)))) (fun rmid => aw_bind0 hA
    (aw_tag _ aw2_deserPreparedMetadata) (fun pm => aw_bind0 hA (aw_tag _ (aw2_deserResultMetadata f)) (fun rp => ?_))))
  split
  · exact aw_fail _
  · exact aw_pure _

theorem aw2_deserRawRowsHdr (f : Features) : AW 0 (deserRawRowsHdr f) := by
  have hA : 1 ≤ 2 := by omega
  unfold deserRawRowsHdr
  refine aw_bind0 hA (aw_tag _ (aw_zero (aw_readInt hA))) (fun flags => ?_)
  simp only []
  split
  · exact aw_fail _
  · exact aw_bind0 hA (aw_tag _ (aw_zero (aw_readIntLength hA))) (fun cc => aw_bind0 hA
      (aw_optRead hA _ (aw_tag _ (aw_zero (aw_readBytes hA)))) (fun _ => aw_pure _))

/-- `frame.to_bytes()` (= `slice_ref`) after the header reads never panics. -/
theorem aw2_deserRawRows (f : Features) : AW 0 (deserRawRows f) := by
  have hA : 1 ≤ 2 := by omega
  unfold deserRawRows
  have := aw_trackedBind (w2 := 0) hA (aw2_deserRawRowsHdr f)
    (f := fun r => sliceRef r.2 >>= fun _ => (pure r.1 : M RawRows))
    (fun r h => by rw [h]; exact aw_bind0 hA aw_sliceRef_true (fun _ => aw_pure _))
  simpa using this

theorem aw2_parsedMeta (r : RawRows) (p : MetaPresence) : AW 0 (parsedMeta r p) := by
  have hA : 1 ≤ 2 := by omega
  unfold parsedMeta
  exact aw_tag _ (aw_bind0 hA (aw_optRead hA _ (aw_tag _ (aw_zero (aw_readShortBytes hA)))) (fun _ =>
    aw_bind0 hA (aw2_optTableSpec _) (fun gts => aw_bind0 hA (aw2_colSpecs gts _) (fun _ => aw_pure _))))

/-- `slice_ref` after the metadata deserializer never panics: what the deserializer leaves is a suffix. -/
theorem aw2_parsedMetaSliced (r : RawRows) (p : MetaPresence) : AW 0 (parsedMetaSliced r p) := by
  have hA : 1 ≤ 2 := by omega
  unfold parsedMetaSliced
  have := aw_trackedBind (w2 := 0) hA (aw2_parsedMeta r p)
    (f := fun sm => sliceRef sm.2 >>= fun _ => (pure sm.1 : M (MetaSource × ResultMeta)))
    (fun sm h => by rw [h]; exact aw_bind0 hA aw_sliceRef_true (fun _ => aw_pure _))
  simpa using this

theorem aw2_metaFor (r : RawRows) (cached : Option ResultMeta) : AW 0 (metaFor r cached) := by
  unfold metaFor
  split
  · exact aw_pure _
  · exact aw_pure _
  · exact aw2_parsedMetaSliced r _

theorem aw2_deserMetadata (r : RawRows) (cached : Option ResultMeta) : AW 0 (deserMetadata r cached) := by
  have hA : 1 ≤ 2 := by omega
  unfold deserMetadata
  refine aw_bind0 hA (aw2_metaFor r cached) (fun sm => ?_)
  have hrc : AW 0 (tag "rowscount" readIntLength) := aw_tag _ (aw_zero (aw_readIntLength hA))
  have := aw_trackedBind (w1 := 0) (w2 := 0) hA hrc
    (f := fun rc => sliceRef rc.2 >>= fun _ => takeRest >>= fun raw => (pure ⟨sm.1, sm.2, rc.1, raw⟩ : M DeserRows))
    (fun rc h => by rw [h]; exact aw_bind0 hA aw_sliceRef_true (fun _ => aw_bind0 hA aw_takeRest (fun _ => aw_pure _)))
  simpa using this

theorem aw2_readStringList : AW 0 readStringList :=
  aw_zero (aw_readStringList (A := 2) (B := U16) (by omega))

theorem aw2_readFld (t : FldTy) : AW 0 (readFld t) := by
  have hA : 1 ≤ 2 := by omega
  cases t <;> unfold readFld
  · exact aw_bind0 hA (aw_zero (aw_readInt hA)) (fun _ => aw_pure _)
  · exact aw_bind0 hA (aw_zero (aw_readConsistency hA)) (fun _ => aw_pure _)
  · exact aw_bind0 hA (aw_zero (aw_readU8 hA)) (fun _ => aw_pure _)
  · exact aw_bind0 hA (aw_zero (aw_readU8 hA)) (fun _ => aw_pure _)
  · exact aw_bind0 hA (aw_zero (aw_readString hA)) (fun _ => aw_pure _)
  · exact aw_bind0 hA aw2_readStringList (fun _ => aw_pure _)
  · exact aw_bind0 hA (aw_zero (aw_readShortBytes hA)) (fun _ => aw_pure _)

theorem aw2_readFlds : ∀ ts, AW 0 (readFlds ts)
  | [] => by unfold readFlds; exact aw_pure _
  | t :: ts => by
    unfold readFlds
    exact aw_bind0 (by omega) (aw2_readFld t) (fun _ => aw_bind0 (by omega) (aw2_readFlds ts) (fun _ => aw_pure _))

theorem aw2_deserError (f : Features) : AW 0 (deserError f) := by
  have hA : 1 ≤ 2 := by omega
  unfold deserError
  exact aw_bind0 hA (aw_tag _ (aw_zero (aw_readInt hA))) (fun code => aw_bind0 hA (aw_tag _ (aw_zero (aw_readString hA)))
    (fun _ => aw_bind0 hA (aw_tag _ (aw2_readFlds _)) (fun _ => aw_pure _)))

/-- `readShort; allocReq cnt; tag (loopN cnt readString)`: the argument list of a FUNCTION / AGGREGATE change. -/
theorem aw2_args {k : List Bytes → M β} (t1 t2 : String) (hk : ∀ l, AW 0 (k l)) :
    AW 0 (tag t1 readShort >>= fun cnt => allocReq cnt >>= fun _ => tag t2 (loopN cnt readString) >>= k) := by
  have hA : 1 ≤ 2 := by omega
  refine aw_bindP (w1 := 0) (w2 := 0) (fun n => n ≤ U16) hA (aw_tag _ (aw_zero (aw_readShort hA))) ?_ ?_
  · intro s a s' h
    rw [tag_def] at h
    cases hr : readShort s with
    | mk o s1 =>
      rw [hr] at h
      cases o with
      | ok n => simp only at h; injection h with h1 h2; injection h1 with h1; subst h1; exact readShort_le s _ _ hr
      | err e => simp at h
      | panic e => simp at h
  · intro n hn s
    have hl := aw_loopN (A := 2) (B := U16) hA (aw_mono (w' := 1) (aw_readString hA) (by omega) (Nat.le_refl _)
      (Nat.le_refl _)) n { s with alloc := s.alloc + n }
    simp only [bind_def, allocReq, tag_def]
    cases hls : loopN n readString { s with alloc := s.alloc + n } with
    | mk o s1 =>
      rw [hls] at hl
      cases o with
      | err e => simp only at hl ⊢; unfold U16 at *; omega
      | panic e => exact hl.elim
      | ok l =>
        simp only [Nat.mul_one] at hl ⊢
        have h2 := hk l s1
        cases hks : k l s1 with
        | mk o2 s2 =>
          rw [hks] at h2
          cases o2 with
          | panic e => exact h2.elim
          | ok b => simp only at h2 ⊢; exact ⟨by omega, by omega, by omega, h2.2.2.2.trans hl.2.2.2⟩
          | err e =>
            simp only at h2 ⊢
            have := mul_split 2 s.buf.length s1.buf.length hl.2.1 hA
            omega

theorem aw2_deserSchemaChange : AW 0 deserSchemaChange := by
  have hA : 1 ≤ 2 := by omega
  unfold deserSchemaChange
  refine aw_bind0 hA (aw_tag _ (aw_zero (aw_readString hA))) (fun ct => aw_bind0 hA
    (aw_tag _ (aw_zero (aw_readString hA))) (fun target => aw_bind0 hA (aw_tag _ (aw_zero (aw_readString hA)))
    (fun ks => ?_)))
  split
  · exact aw_pure _
  · split
    · exact aw_bind0 hA (aw_tag _ (aw_zero (aw_readString hA))) (fun _ => aw_pure _)
    · split
      · exact aw_bind0 hA (aw_tag _ (aw_zero (aw_readString hA))) (fun _ => aw_pure _)
      · split
        · exact aw_bind0 hA (aw_tag _ (aw_zero (aw_readString hA))) (fun _ => aw2_args _ _ (fun _ => aw_pure _))
        · split
          · exact aw_bind0 hA (aw_tag _ (aw_zero (aw_readString hA))) (fun _ => aw2_args _ _ (fun _ => aw_pure _))
          · exact aw_fail _

theorem aw2_readHostIds : ∀ n, AW 0 (readHostIds n)
  | 0 => by unfold readHostIds; exact aw_pure _
  | n + 1 => by
    have hA : 1 ≤ 2 := by omega
    unfold readHostIds
    refine aw_bind0 hA (aw_tag _ (aw_zero (aw_readString hA))) (fun s => ?_)
    split
    · exact aw_fail _
    · exact aw_bind0 hA (aw2_readHostIds n) (fun _ => aw_pure _)

theorem aw2_deserEvent : AW 0 deserEvent := by
  have hA : 1 ≤ 2 := by omega
  unfold deserEvent
  refine aw_bind0 hA (aw_tag _ (aw_zero (aw_readString hA))) (fun ty => ?_)
  split
  · refine aw_bind0 hA (aw_tag _ (aw_zero (aw_readString hA))) (fun c => aw_bind0 hA
      (aw_tag _ (aw_zero (aw_readInet hA))) (fun a => ?_))
    split
    · exact aw_pure _
    · exact aw_fail _
  · split
    · refine aw_bind0 hA (aw_tag _ (aw_zero (aw_readString hA))) (fun c => aw_bind0 hA
        (aw_tag _ (aw_zero (aw_readInet hA))) (fun a => ?_))
      split
      · exact aw_pure _
      · exact aw_fail _
    · split
      · exact aw_bind0 hA aw2_deserSchemaChange (fun _ => aw_pure _)
      · split
        · refine aw_bind0 hA (aw_tag _ (aw_zero (aw_readString hA))) (fun c => ?_)
          split
          · refine aw_bind0 hA (aw_tag _ aw2_readStringList) (fun conns => aw_bind0 hA
              (aw_tag _ (aw_zero (aw_readShort hA))) (fun n => ?_))
            split
            · exact aw_fail _
            · exact aw_bind0 hA (aw2_readHostIds n) (fun _ => aw_pure _)
          · exact aw_fail _
        · exact aw_fail _

theorem aw2_deserResult (f : Features) : AW 0 (deserResult f) := by
  have hA : 1 ≤ 2 := by omega
  unfold deserResult
  have hk : AW 0 (tag "result.kind" readInt) := aw_tag _ (aw_zero (aw_readInt hA))
  have key : ∀ kt : Int × Bool, kt.2 = true → AW 0 (
      if kt.1 = 1 then (pure ResultResp.void : M ResultResp)
      else if kt.1 = 2 then do
        sliceRef kt.2
        let r ← deserRawRows f
        pure (.rows r)
      else if kt.1 = 3 then do let ks ← tag "setks" readString; pure (.setKeyspace ks)
      else if kt.1 = 4 then do let p ← deserPrepared f; pure (.prepared p)
      else if kt.1 = 5 then do let sc ← deserSchemaChange; pure (.schemaChange sc)
      else fail "result.unknownkind") := ?_
  · have := aw_trackedBind (w1 := 0) (w2 := 0) hA hk key
    simpa using this
  intro kt hkt
  split
  · exact aw_pure _
  · split
    · rw [hkt]
      exact aw_bind0 hA aw_sliceRef_true (fun _ => aw_bind0 hA (aw2_deserRawRows f) (fun _ => aw_pure _))
    · split
      · exact aw_bind0 hA (aw_tag _ (aw_zero (aw_readString hA))) (fun _ => aw_pure _)
      · split
        · exact aw_bind0 hA (aw2_deserPrepared f) (fun _ => aw_pure _)
        · split
          · exact aw_bind0 hA aw2_deserSchemaChange (fun _ => aw_pure _)
          · exact aw_fail _

theorem aw2_deserResponse (f : Features) (op : Nat) : AW 0 (deserResponse f op) := by
  have hA : 1 ≤ 2 := by omega
  unfold deserResponse
  split
  · exact aw_bind0 hA (aw2_deserError f) (fun _ => aw_pure _)
  · split
    · exact aw_pure _
    · split
      · exact aw_bind0 hA (aw_tag _ (aw_zero (aw_readString hA))) (fun _ => aw_pure _)
      · split
        · exact aw_bind0 hA (aw_tag _ (aw_zero (aw_readStringMultimap (A := 2) (B := 0) hA |> fun h => by
            simpa using h))) (fun _ => aw_pure _)
        · split
          · exact aw_bind0 hA (aw2_deserResult f) (fun _ => aw_pure _)
          · split
            · exact aw_bind0 hA aw2_deserEvent (fun _ => aw_pure _)
            · split
              · exact aw_bind0 hA (aw_tag _ (aw_zero (aw_readBytesOpt hA))) (fun _ => aw_pure _)
              · split
                · exact aw_bind0 hA (aw_tag _ (aw_zero (aw_readBytesOpt hA))) (fun _ => aw_pure _)
                · exact aw_fail _

/-- `read_uuid` on a copy followed by `body.advance(16)`: the advance is guarded by the successful read. -/
theorem aw_readTrace (hA : 1 ≤ A) : AllocW 0 A B readTrace := by
  intro s
  unfold readTrace
  simp only [bind_def, onCopy, tag_def, readUuid, readRaw_eq_takeN]
  cases ht : takeN 16 "few" s with
  | mk o s1 =>
    cases o with
    | err k =>
      have : s1 = s := by
        unfold takeN at ht
        split at ht
        · injection ht with _ h2; exact h2.symm
        · simp at ht
      subst this
      simp only []; omega
    | panic k =>
      exfalso
      unfold takeN at ht
      split at ht <;> simp at ht
    | ok raw =>
      obtain ⟨hl, hlen, hb, ha, hd⟩ := takeN_length 16 "few" s raw s1 ht
      have hn : ¬ (16 > s.buf.length) := by omega
      simp only [hl, if_true, pure_def, advance, hn, if_false, List.length_drop, ha, hd]
      exact ⟨by omega, by omega, by omega, List.drop_suffix _ _⟩

theorem aw2_parseExt (flags : Nat) : AW 0 (parseExt flags) := by
  have hA : 1 ≤ 2 := by omega
  unfold parseExt
  exact aw_bind0 hA (aw_optRead hA _ (aw_readTrace hA)) (fun _ => aw_bind0 hA
    (aw_condRead _ _ (aw_readThenAdvance (aw_tag _ aw2_readStringList))) (fun _ => aw_bind0 hA
    (aw_optRead hA _ (aw_readThenAdvance (aw_tag _ (aw_zero (aw_readBytesMap (A := 2) (B := U16) hA))))) (fun _ => aw_pure _)))

end ScyllaVerif.C08

import ScyllaVerif.Model.Carrier
/-
Helper lemmas for C17: when every sequence has the dimension of the vector column it meets (`dimsOk`), `ser`
never answers `InvalidNumberOfElements`.
-/
namespace ScyllaVerif.Proofs.CarrierDims
open ScyllaVerif.Vint ScyllaVerif.Cql ScyllaVerif.Carrier

def NoDimErr (r : Res) : Prop := ∀ e, r.2 = some e → e.kind ≠ .invalidNumberOfElements
def RelD (r : Res) (d : Bool) : Prop := d = true → NoDimErr r

theorem nd_leaf (buf : Bytes) (k : SerKind) (hk : k ≠ .invalidNumberOfElements) : NoDimErr (serLeaf buf k) := by
  intro e he; simp [serLeaf] at he; subst he; exact hk

theorem nd_ok (b : Bytes) : NoDimErr (b, none) := by intro e he; simp at he

theorem nd_setValue (ws : Bool) (c buf : Bytes) : NoDimErr (setValue ws c buf) := by
  unfold setValue
  split
  · exact nd_leaf _ _ (by decide)
  · split <;> exact nd_ok _

theorem nd_wrap (st : Step) (r : Res) (h : NoDimErr r) : NoDimErr (wrap st r) := by
  obtain ⟨b, e⟩ := r
  cases e with
  | none => exact h
  | some e =>
    intro e' he'
    simp only [wrap, Option.some.injEq] at he'
    subst he'
    exact h e rfl

theorem nd_foldSer {α : Type} (f : α → Bytes → Res) (vs : List α)
    (h : ∀ v, v ∈ vs → ∀ b, NoDimErr (f v b)) : ∀ b, NoDimErr (foldSer f vs b) := by
  induction vs with
  | nil => intro b; exact nd_ok b
  | cons v vs ih =>
    intro b
    have hv := h v (by simp) b
    unfold foldSer
    generalize f v b = r at hv
    obtain ⟨b1, e⟩ := r
    cases e with
    | some e => exact hv
    | none => exact ih (fun w hw => h w (by simp [hw])) b1

theorem nd_framed (ws : Bool) (buf : Bytes) (inner : Bytes → Res) (h : ∀ b, NoDimErr (inner b)) :
    NoDimErr (framed ws buf inner) := by
  unfold framed
  have hi := h (builderNew ws buf)
  generalize inner (builderNew ws buf) = r at hi
  obtain ⟨b, e⟩ := r
  cases e with
  | some e => exact hi
  | none =>
    unfold builderFinish
    cases ws with
    | false => exact nd_ok _
    | true =>
      simp only [if_true]
      split
      · exact nd_leaf _ _ (by decide)
      · exact nd_ok _

theorem nd_seqBody (n : Nat) (loop : Bytes → Res) (h : ∀ b, NoDimErr (loop b)) (b0 : Bytes) :
    NoDimErr (seqBody n loop b0) := by
  unfold seqBody
  split
  · exact nd_leaf _ _ (by decide)
  · exact h _

theorem nd_varElem (f : RVal → Bytes → Res) (v : RVal) (b : Bytes) (h : NoDimErr (f v [])) :
    NoDimErr (varElem f v b) := by
  unfold varElem
  generalize f v [] = r at h
  obtain ⟨eb, e⟩ := r
  cases e with
  | none => exact nd_ok _
  | some e =>
    intro e' he'
    simp only [Option.some.injEq] at he'
    subst he'
    exact h e rfl

theorem nd_pairSer (fk fv : RVal → Bytes → Res) (kv : RVal × RVal)
    (hk : ∀ b, NoDimErr (fk kv.1 b)) (hv : ∀ b, NoDimErr (fv kv.2 b)) (b : Bytes) :
    NoDimErr (pairSer fk fv kv b) := by
  unfold pairSer
  have h1 := nd_wrap .key _ (hk b)
  generalize wrap Step.key (fk kv.1 b) = r at h1
  obtain ⟨b1, e⟩ := r
  cases e with
  | some e => exact h1
  | none => exact nd_wrap .val _ (hv b1)

theorem nd_serScalar (s : Scalar) (body : Bytes) (t : CqlTy) (ws : Bool) (buf : Bytes) :
    NoDimErr (serScalar s body t ws buf) := by
  unfold serScalar
  split
  · split
    · split
      · exact nd_framed ws buf _ (fun b => nd_ok _)
      · exact nd_setValue ws body buf
    · exact nd_leaf _ _ (by decide)
  · exact nd_leaf _ _ (by decide)

theorem allB_mem' {α : Type} (p : α → Bool) : ∀ (vs : List α) (v : α), allB p vs = true → v ∈ vs → p v = true
  | [], _, _, hm => by simp at hm
  | w :: ws, v, hf, hm => by
    simp only [allB, Bool.and_eq_true] at hf
    rcases List.mem_cons.mp hm with rfl | h
    · exact hf.1
    · exact allB_mem' p ws v hf.2 h

-- Opens `ser t x ws buf` / `dimsOk t x` at a concrete type constructor and closes the views that do not recurse.
set_option hygiene false in
macro "open_dims" : tactic => `(tactic| (
  intro x ws buf
  rw [ser, dimsOk]
  generalize strip x = sc
  obtain ⟨chk, core⟩ := sc
  simp only []
  intro hd
  split
  · exact nd_leaf _ _ (by decide)
  cases core <;> simp only [] at hd ⊢ <;>
    first
    | exact nd_ok _
    | exact nd_setValue ws [] buf
    | exact nd_serScalar _ _ _ ws buf
    | exact nd_leaf _ _ (by decide)
    | skip))

mutual
theorem ser_reld : ∀ (t : CqlTy) (x : RVal) (ws : Bool) (buf : Bytes), RelD (ser t x ws buf) (dimsOk t x)
  | .native n => by
    open_dims
    all_goals exact nd_leaf _ _ (by decide)
  | .list elt => by
    open_dims
    all_goals first
      | exact nd_framed _ _ _ (fun b => nd_seqBody _ _
          (nd_foldSer _ _ (fun v hv b => nd_wrap _ _ (ser_reld elt v true b (allB_mem' _ _ v hd hv)))) b)
      | exact nd_leaf _ _ (by decide)
  | .set elt => by
    open_dims
    all_goals first
      | exact nd_framed _ _ _ (fun b => nd_seqBody _ _
          (nd_foldSer _ _ (fun v hv b => nd_wrap _ _ (ser_reld elt v true b (allB_mem' _ _ v hd hv)))) b)
      | exact nd_leaf _ _ (by decide)
  | .vector elt dim => by
    open_dims
    all_goals try (exact nd_leaf _ _ (by decide))
    rename_i vs
    simp only [Bool.and_eq_true, decide_eq_true_eq] at hd
    simp only [hd.1, ne_eq, not_true_eq_false, if_false]
    split
    · exact nd_framed _ _ _ (nd_foldSer _ _ (fun v hv b => nd_wrap _ _ (ser_reld elt v false b (allB_mem' _ _ v hd.2 hv))))
    · exact nd_framed _ _ _ (nd_foldSer _ _ (fun v hv b => nd_varElem _ v b (ser_reld elt v false [] (allB_mem' _ _ v hd.2 hv))))
  | .map kt vt => by
    open_dims
    all_goals try (exact nd_leaf _ _ (by decide))
    exact nd_framed _ _ _ (fun b => nd_seqBody _ _ (nd_foldSer _ _ (fun kv hkv b => by
      have h := allB_mem' (fun kv => dimsOk kt kv.1 && dimsOk vt kv.2) _ kv hd hkv
      simp only [Bool.and_eq_true] at h
      exact nd_pairSer _ _ kv (fun b => ser_reld kt kv.1 true b h.1) (fun b => ser_reld vt kv.2 true b h.2) b)) b)
  | .tuple ts => by
    open_dims
    all_goals try (exact nd_leaf _ _ (by decide))
    split
    · exact nd_leaf _ _ (by decide)
    · exact nd_framed _ _ _ (fun b => serTuple_reld ts _ 0 b hd)
  | .udt ks name fields => by
    open_dims
    all_goals try (exact nd_leaf _ _ (by decide))
    split
    · exact nd_leaf _ _ (by decide)
    · exact nd_framed _ _ _ (fun b => serUdt_reld fields _ b hd)
theorem serTuple_reld : ∀ (ts : List CqlTy) (fs : List RVal) (i : Nat) (buf : Bytes),
    RelD (serTuple ts fs i buf) (dimsTuple ts fs)
  | [], fs, i, buf => by intro _; simp only [serTuple]; exact nd_ok _
  | t :: ts, [], i, buf => by intro _; simp only [serTuple]; exact nd_ok _
  | t :: ts, f :: fs, i, buf => by
    intro hd
    rw [dimsTuple] at hd
    simp only [Bool.and_eq_true] at hd
    rw [serTuple]
    have h1 := nd_wrap (.field i) _ (ser_reld t f true buf hd.1)
    generalize wrap (Step.field i) (ser t f true buf) = r at h1
    obtain ⟨b1, e⟩ := r
    cases e with
    | some e => exact h1
    | none => exact serTuple_reld ts fs (i + 1) b1 hd.2
theorem serUdt_reld : ∀ (fields : List (String × CqlTy)) (m : List (String × RVal)) (buf : Bytes),
    RelD (serUdt fields m buf) (dimsUdt fields m)
  | [], m, buf => by
    intro _
    rw [serUdt]
    split
    · exact nd_ok _
    · exact nd_leaf _ _ (by decide)
  | (n, t) :: rest, m, buf => by
    intro hd
    rw [dimsUdt] at hd
    rw [serUdt]
    split
    · rename_i hl
      simp only [hl] at hd
      exact serUdt_reld rest m _ hd
    · rename_i v hl
      simp only [hl, Bool.and_eq_true] at hd
      have h1 := nd_wrap (.udtField n) _ (ser_reld t v true buf hd.1)
      generalize wrap (Step.udtField n) (ser t v true buf) = r at h1
      obtain ⟨b1, e⟩ := r
      cases e with
      | some e => exact h1
      | none => exact serUdt_reld rest (removeName n m) b1 hd.2
end

end ScyllaVerif.Proofs.CarrierDims

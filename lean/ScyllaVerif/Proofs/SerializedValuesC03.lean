/-
C03: `SerializedValuesIterator::{next, nth}` on the encoding of a value list, and the refinement of the list-level
extraction loop (`Model/PartitionKey.lean`) by the buffer-level one.
-/
import ScyllaVerif.Model.SerializedValuesC03

namespace ScyllaVerif.Proofs.SerializedValuesC03
open ScyllaVerif.PartitionKey ScyllaVerif.SerializedValuesC03

/-- A value `SerializedValues` can hold: at most `i32::MAX` bytes. -/
def cellOk : RawValue → Prop
  | .value bs => bs.length < 2147483648
  | _ => True

theorem readInt_be32 (n : Nat) (hn : n < 4294967296) (rest : List UInt8) :
    readInt (be32 n ++ rest) = some (n, rest) := by
  unfold be32 readInt
  simp only [List.cons_append, List.nil_append, UInt8.toNat_ofNat']
  congr 2
  omega

theorem encodeCell_ne_nil (v : RawValue) : encodeCell v ≠ [] := by
  cases v <;> simp [encodeCell, be32]

theorem readValue_cell (v : RawValue) (hv : cellOk v) (rest : List UInt8) :
    readValue (encodeCell v ++ rest) = .item v rest := by
  cases v with
  | null =>
    unfold readValue encodeCell
    rw [readInt_be32 _ (by decide)]
    simp
  | unset =>
    unfold readValue encodeCell
    rw [readInt_be32 _ (by decide)]
    simp
  | value bs =>
    have hl : bs.length < 2147483648 := hv
    unfold readValue encodeCell
    rw [List.append_assoc, readInt_be32 _ (by omega)]
    simp only []
    rw [if_neg (by omega), if_neg (by omega), if_pos hl, if_pos (by simp)]
    simp

theorem next_nil : next (encodeValues []) = .done := by
  simp [next, encodeValues]

theorem next_cons (v : RawValue) (vs : List RawValue) (hv : cellOk v) :
    next (encodeValues (v :: vs)) = .item v (encodeValues vs) := by
  unfold next encodeValues
  simp only [List.map_cons, List.flatten_cons]
  have : (encodeCell v ++ (vs.map encodeCell).flatten).isEmpty = false := by
    cases h : encodeCell v with
    | nil => exact absurd h (encodeCell_ne_nil v)
    | cons a as => rfl
  rw [this]
  simp only [Bool.false_eq_true, if_false]
  exact readValue_cell v hv _

/-- **`nth` on a well-formed buffer is list indexing**: item `n` of the encoded list and the encoding of what follows
it, `None` when the list is too short — NULL and "not set" cells count as items like any value. -/
theorem nth_encode (vs : List RawValue) (hvs : ∀ v ∈ vs, cellOk v) (n : Nat) :
    nth n (encodeValues vs) =
      match vs.drop n with
      | [] => .done
      | v :: rest => .item v (encodeValues rest) := by
  induction n generalizing vs with
  | zero =>
    cases vs with
    | nil => simp [nth, next_nil]
    | cons v vs => simp [nth, next_cons v vs (hvs v List.mem_cons_self)]
  | succ n ih =>
    cases vs with
    | nil => simp [nth, next_nil]
    | cons v vs =>
      simp only [nth, next_cons v vs (hvs v List.mem_cons_self), List.drop_succ_cons]
      exact ih vs (fun w hw => hvs w (List.mem_cons_of_mem _ hw))

/-- **Refinement.** Walking the serialized buffer with `nth` is the list-level loop (`iter.drop (index - offset)`),
for every pk index table — well-formed or not — and every list of values, NULL / unset cells included. -/
theorem extractBufLoop_eq (count : Nat) (ps : List PkIndex) (iter : List RawValue) (hvs : ∀ v ∈ iter, cellOk v)
    (off : Nat) (acc : List (Option (List UInt8))) :
    extractBufLoop count ps (encodeValues iter) off acc = extractLoop count ps iter off acc := by
  induction ps generalizing iter off acc with
  | nil => rfl
  | cons p ps ih =>
    unfold extractBufLoop extractLoop
    split
    · rfl
    · rw [nth_encode iter hvs]
      cases hd : iter.drop (p.index - off) with
      | nil => rfl
      | cons v rest =>
        simp only []
        cases store acc p.sequence v with
        | none => rfl
        | some acc' =>
          simp only []
          split
          · rfl
          · apply ih
            intro w hw
            have : w ∈ iter.drop (p.index - off) := by rw [hd]; exact List.mem_cons_of_mem _ hw
            exact hvs w (List.mem_of_mem_drop this)

theorem extractBuf_eq (pk : List PkIndex) (values : List RawValue) (hvs : ∀ v ∈ values, cellOk v) :
    extractBuf pk values.length (encodeValues values) = extract pk values :=
  extractBufLoop_eq values.length pk values hvs 0 _

end ScyllaVerif.Proofs.SerializedValuesC03

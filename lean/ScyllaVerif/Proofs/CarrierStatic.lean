import ScyllaVerif.Model.Carrier
/-
Helper lemmas for C17: the static relation `accepts` (carrier type × column type) against the value-directed
condition `fits`.
-/
namespace ScyllaVerif.Proofs.CarrierStatic
open ScyllaVerif.Vint ScyllaVerif.Cql ScyllaVerif.Carrier

/-! ### `fits` / `dimsOk` through the transparent layers -/

theorem fits_none (t : CqlTy) : fits t .none = true := by rw [fits]; simp [strip]
theorem fits_unset (t : CqlTy) : fits t .unset = true := by rw [fits]; simp [strip]
theorem fits_muUnset (t : CqlTy) : fits t .muUnset = true := by rw [fits]; simp [strip]
theorem fits_meEmpty (t : CqlTy) : fits t .meEmpty = t.supportsEmpty := by rw [fits]; simp [strip]
theorem fits_some (t : CqlTy) (v : RVal) : fits t (.some v) = fits t v := by
  rw [fits]; conv => rhs; rw [fits]
  simp only [strip]
theorem fits_muSet (t : CqlTy) (v : RVal) : fits t (.muSet v) = fits t v := by
  rw [fits]; conv => rhs; rw [fits]
  simp only [strip]
theorem fits_meValue (t : CqlTy) (v : RVal) : fits t (.meValue v) = (t.supportsEmpty && fits t v) := by
  rw [fits]; conv => rhs; rw [fits]
  simp only [strip]
  generalize strip v = sc
  obtain ⟨chk, core⟩ := sc
  cases t.supportsEmpty <;> cases chk <;> simp

theorem dims_some (t : CqlTy) (v : RVal) : dimsOk t (.some v) = dimsOk t v := by
  rw [dimsOk]; conv => rhs; rw [dimsOk]
  simp only [strip]
theorem dims_muSet (t : CqlTy) (v : RVal) : dimsOk t (.muSet v) = dimsOk t v := by
  rw [dimsOk]; conv => rhs; rw [dimsOk]
  simp only [strip]
theorem dims_meValue (t : CqlTy) (v : RVal) : dimsOk t (.meValue v) = dimsOk t v := by
  rw [dimsOk]; conv => rhs; rw [dimsOk]
  simp only [strip]

theorem allB_imp2 {α : Type} (p q r : α → Bool) (vs : List α)
    (h : ∀ v, v ∈ vs → p v = true → q v = true → r v = true)
    (hp : allB p vs = true) (hq : allB q vs = true) : allB r vs = true := by
  induction vs with
  | nil => rfl
  | cons v vs ih =>
    simp only [allB, Bool.and_eq_true] at hp hq ⊢
    exact ⟨h v (by simp) hp.1 hq.1, ih (fun w hw => h w (by simp [hw])) hp.2 hq.2⟩

theorem allB_false_of_head {α : Type} (r : α → Bool) (v : α) (vs : List α) (h : r v = false) :
    allB r (v :: vs) = false := by simp [allB, h]

end ScyllaVerif.Proofs.CarrierStatic

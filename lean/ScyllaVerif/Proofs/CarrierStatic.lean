import ScyllaVerif.Model.Carrier
/-
Helper lemmas for C17: the static relation `accepts` (carrier type × column type) against the value-directed
condition `fits`.
-/
namespace ScyllaVerif.Proofs.CarrierStatic
open ScyllaVerif.Vint ScyllaVerif.Cql ScyllaVerif.Carrier

/-! ### `fits` / `dimsOk` through the transparent layers -/

theorem fits_none (t : CqlTy) : fits t .none = true := by rw [fits]; simp [strip]
theorem fits_unset (t : CqlTy) : fits t .unset = true := by rw [fits]; simp [strip]
theorem fits_muUnset (t : CqlTy) : fits t .muUnset = true := by rw [fits]; simp [strip]
theorem fits_meEmpty (t : CqlTy) : fits t .meEmpty = t.supportsEmpty := by rw [fits]; simp [strip]
theorem fits_some (t : CqlTy) (v : RVal) : fits t (.some v) = fits t v := by
  rw [fits]; conv => rhs; rw [fits]
  simp only [strip]
theorem fits_muSet (t : CqlTy) (v : RVal) : fits t (.muSet v) = fits t v := by
  rw [fits]; conv => rhs; rw [fits]
  simp only [strip]
theorem fits_meValue (t : CqlTy) (v : RVal) : fits t (.meValue v) = (t.supportsEmpty && fits t v) := by
  rw [fits]; conv => rhs; rw [fits]
  simp only [strip]
  generalize strip v = sc
  obtain ⟨chk, core⟩ := sc
  cases t.supportsEmpty <;> cases chk <;> simp

theorem dims_some (t : CqlTy) (v : RVal) : dimsOk t (.some v) = dimsOk t v := by
  rw [dimsOk]; conv => rhs; rw [dimsOk]
  simp only [strip]
theorem dims_muSet (t : CqlTy) (v : RVal) : dimsOk t (.muSet v) = dimsOk t v := by
  rw [dimsOk]; conv => rhs; rw [dimsOk]
  simp only [strip]
theorem dims_meValue (t : CqlTy) (v : RVal) : dimsOk t (.meValue v) = dimsOk t v := by
  rw [dimsOk]; conv => rhs; rw [dimsOk]
  simp only [strip]

theorem allB_imp2 {α : Type} (p q r : α → Bool) (vs : List α)
    (h : ∀ v, v ∈ vs → p v = true → q v = true → r v = true)
    (hp : allB p vs = true) (hq : allB q vs = true) : allB r vs = true := by
  induction vs with
  | nil => rfl
  | cons v vs ih =>
    simp only [allB, Bool.and_eq_true] at hp hq ⊢
    exact ⟨h v (by simp) hp.1 hq.1, ih (fun w hw => h w (by simp [hw])) hp.2 hq.2⟩

theorem allB_false_of_head {α : Type} (r : α → Bool) (v : α) (vs : List α) (h : r v = false) :
    allB r (v :: vs) = false := by simp [allB, h]

theorem fits_scalar (t : CqlTy) (s : Scalar) (b : Bytes) :
    fits t (.scalar s b) = (match t with
      | .native n => s.serNatives.contains n
      | _ => false) := by
  rw [fits]; simp only [strip, Bool.not_false, Bool.true_or, Bool.true_and]
  cases t <;> rfl

theorem fits_vec (t : CqlTy) (vs : List RVal) :
    fits t (.vec vs) = (match t with
      | .list elt => allB (fun v => fits elt v) vs
      | .set elt => allB (fun v => fits elt v) vs
      | .vector elt dim => decide (vs.length = dim) && allB (fun v => fits elt v) vs
      | _ => false) := by
  rw [fits]; simp only [strip, Bool.not_false, Bool.true_or, Bool.true_and]
  cases t <;> rfl

theorem fits_set (t : CqlTy) (vs : List RVal) :
    fits t (.set vs) = (match t with
      | .list elt => allB (fun v => fits elt v) vs
      | .set elt => allB (fun v => fits elt v) vs
      | _ => false) := by
  rw [fits]; simp only [strip, Bool.not_false, Bool.true_or, Bool.true_and]
  cases t <;> rfl

theorem fits_map (t : CqlTy) (kvs : List (RVal × RVal)) :
    fits t (.map kvs) = (match t with
      | .map kt vt => allB (fun kv => fits kt kv.1 && fits vt kv.2) kvs
      | _ => false) := by
  rw [fits]; simp only [strip, Bool.not_false, Bool.true_or, Bool.true_and]
  cases t <;> rfl

theorem fits_tuple (t : CqlTy) (fs : List RVal) :
    fits t (.tuple fs) = (match t with
      | .tuple ts => decide (fs.length ≤ ts.length) && fitsTuple ts fs
      | _ => false) := by
  rw [fits]; simp only [strip, Bool.not_false, Bool.true_or, Bool.true_and]
  cases t <;> rfl

theorem dims_vec (t : CqlTy) (vs : List RVal) :
    dimsOk t (.vec vs) = (match t with
      | .list elt => allB (fun v => dimsOk elt v) vs
      | .set elt => allB (fun v => dimsOk elt v) vs
      | .vector elt dim => decide (vs.length = dim) && allB (fun v => dimsOk elt v) vs
      | _ => true) := by
  rw [dimsOk]; simp only [strip]
  cases t <;> rfl

theorem dims_set (t : CqlTy) (vs : List RVal) :
    dimsOk t (.set vs) = (match t with
      | .list elt => allB (fun v => dimsOk elt v) vs
      | .set elt => allB (fun v => dimsOk elt v) vs
      | _ => true) := by
  rw [dimsOk]; simp only [strip]
  cases t <;> rfl

theorem dims_map (t : CqlTy) (kvs : List (RVal × RVal)) :
    dimsOk t (.map kvs) = (match t with
      | .map kt vt => allB (fun kv => dimsOk kt kv.1 && dimsOk vt kv.2) kvs
      | _ => true) := by
  rw [dimsOk]; simp only [strip]
  cases t <;> rfl

theorem dims_tuple (t : CqlTy) (fs : List RVal) :
    dimsOk t (.tuple fs) = (match t with
      | .tuple ts => dimsTuple ts fs
      | _ => true) := by
  rw [dimsOk]; simp only [strip]
  cases t <;> rfl

theorem hasTypes_length : ∀ (cs : List Carrier) (fs : List RVal), hasTypes cs fs = true → fs.length = cs.length
  | [], [], _ => rfl
  | [], _ :: _, h => by simp [hasTypes] at h
  | _ :: _, [], h => by simp [hasTypes] at h
  | c :: cs, f :: fs, h => by
    simp only [hasTypes, Bool.and_eq_true] at h
    simp [hasTypes_length cs fs h.2]

mutual
/-- A value of a carrier type that `accepts` the column type passes every type / shape check of `ser`
(vector dimensions permitting). -/
theorem accepts_fits : ∀ (c : Carrier) (t : CqlTy) (x : RVal), accepts c t = true → hasType c x = true →
    noDyn c = true → dimsOk t x = true → fits t x = true
  | .scalar s, t, x, ha, ht, _, _ => by
    cases x <;> simp [hasType] at ht
    subst ht
    rw [fits_scalar]
    cases t <;> simp only [accepts] at ha ⊢ <;> exact ha
  | .unset, t, x, _, ht, _, _ => by
    cases x <;> simp [hasType] at ht
    exact fits_unset t
  | .opt c, t, x, ha, ht, hn, hd => by
    rw [accepts] at ha; rw [noDyn] at hn
    cases x <;> simp [hasType] at ht
    · exact fits_none t
    · rw [fits_some]; rw [dims_some] at hd; exact accepts_fits c t _ ha ht hn hd
  | .maybeUnset c, t, x, ha, ht, hn, hd => by
    rw [accepts] at ha; rw [noDyn] at hn
    cases x <;> simp [hasType] at ht
    · exact fits_muUnset t
    · rw [fits_muSet]; rw [dims_muSet] at hd; exact accepts_fits c t _ ha ht hn hd
  | .maybeEmpty c, t, x, ha, ht, hn, hd => by
    rw [accepts] at ha; rw [noDyn] at hn
    simp only [Bool.and_eq_true] at ha
    cases x <;> simp [hasType] at ht
    · rw [fits_meEmpty]; exact ha.1
    · rw [fits_meValue, ha.1]; rw [dims_meValue] at hd
      simpa using accepts_fits c t _ ha.2 ht hn hd
  | .vec c, t, x, ha, ht, hn, hd => by
    rw [noDyn] at hn
    cases x <;> simp [hasType] at ht
    rename_i vs
    rw [fits_vec]; rw [dims_vec] at hd
    cases t <;> simp only [accepts] at ha hd ⊢ <;> try (exact Bool.noConfusion ha)
    · exact allB_imp2 _ _ _ vs (fun v _ h1 h2 => accepts_fits c _ v ha h1 hn h2) ht hd
    · exact allB_imp2 _ _ _ vs (fun v _ h1 h2 => accepts_fits c _ v ha h1 hn h2) ht hd
    · simp only [Bool.and_eq_true] at hd ⊢
      exact ⟨hd.1, allB_imp2 _ _ _ vs (fun v _ h1 h2 => accepts_fits c _ v ha h1 hn h2) ht hd.2⟩
  | .hashSet c, t, x, ha, ht, hn, hd => by
    rw [noDyn] at hn
    cases x <;> simp [hasType] at ht
    rename_i vs
    rw [fits_set]; rw [dims_set] at hd
    cases t <;> simp only [accepts] at ha hd ⊢ <;> try (exact Bool.noConfusion ha)
    · exact allB_imp2 _ _ _ vs (fun v _ h1 h2 => accepts_fits c _ v ha h1 hn h2) ht hd
    · exact allB_imp2 _ _ _ vs (fun v _ h1 h2 => accepts_fits c _ v ha h1 hn h2) ht hd
  | .btreeSet c, t, x, ha, ht, hn, hd => by
    rw [noDyn] at hn
    cases x <;> simp [hasType] at ht
    rename_i vs
    rw [fits_set]; rw [dims_set] at hd
    cases t <;> simp only [accepts] at ha hd ⊢ <;> try (exact Bool.noConfusion ha)
    · exact allB_imp2 _ _ _ vs (fun v _ h1 h2 => accepts_fits c _ v ha h1 hn h2) ht hd
    · exact allB_imp2 _ _ _ vs (fun v _ h1 h2 => accepts_fits c _ v ha h1 hn h2) ht hd
  | .hashMap k v, t, x, ha, ht, hn, hd => by
    rw [noDyn] at hn
    simp only [Bool.and_eq_true] at hn
    cases x <;> simp [hasType] at ht
    rename_i kvs
    rw [fits_map]; rw [dims_map] at hd
    cases t <;> simp only [accepts] at ha hd ⊢ <;> try (exact Bool.noConfusion ha)
    simp only [Bool.and_eq_true] at ha
    refine allB_imp2 (fun kv => hasType k kv.1 && hasType v kv.2) _ _ kvs (fun kv _ h1 h2 => ?_) ht hd
    simp only [Bool.and_eq_true] at h1 h2 ⊢
    exact ⟨accepts_fits k _ kv.1 ha.1 h1.1 hn.1 h2.1, accepts_fits v _ kv.2 ha.2 h1.2 hn.2 h2.2⟩
  | .btreeMap k v, t, x, ha, ht, hn, hd => by
    rw [noDyn] at hn
    simp only [Bool.and_eq_true] at hn
    cases x <;> simp [hasType] at ht
    rename_i kvs
    rw [fits_map]; rw [dims_map] at hd
    cases t <;> simp only [accepts] at ha hd ⊢ <;> try (exact Bool.noConfusion ha)
    simp only [Bool.and_eq_true] at ha
    refine allB_imp2 (fun kv => hasType k kv.1 && hasType v kv.2) _ _ kvs (fun kv _ h1 h2 => ?_) ht hd
    simp only [Bool.and_eq_true] at h1 h2 ⊢
    exact ⟨accepts_fits k _ kv.1 ha.1 h1.1 hn.1 h2.1, accepts_fits v _ kv.2 ha.2 h1.2 hn.2 h2.2⟩
  | .tuple cs, t, x, ha, ht, hn, hd => by
    rw [noDyn] at hn
    cases x <;> simp [hasType] at ht
    rename_i fs
    rw [fits_tuple]; rw [dims_tuple] at hd
    cases t <;> simp only [accepts] at ha hd ⊢ <;> try (exact Bool.noConfusion ha)
    rename_i ts
    simp only [Bool.and_eq_true, decide_eq_true_eq] at ha ⊢
    have hl := hasTypes_length cs fs ht
    exact ⟨by omega, acceptsZip_fits cs ts fs ha.2 ht hn hd⟩
  | .dyn, _, _, _, _, hn, _ => by simp [noDyn] at hn
  | .listIter _, _, _, _, ht, _, _ => by simp [hasType] at ht
  | .vecIter _, _, _, _, ht, _, _ => by simp [hasType] at ht
  | .mapIter _ _, _, _, _, ht, _, _ => by simp [hasType] at ht
  | .udtIter, _, _, _, ht, _, _ => by simp [hasType] at ht
  | .raw, _, _, _, ht, _, _ => by simp [hasType] at ht
theorem acceptsZip_fits : ∀ (cs : List Carrier) (ts : List CqlTy) (fs : List RVal), acceptsZip cs ts = true →
    hasTypes cs fs = true → noDynList cs = true → dimsTuple ts fs = true → fitsTuple ts fs = true
  | [], ts, fs, _, ht, _, _ => by
    cases fs with
    | nil => cases ts <;> simp [fitsTuple]
    | cons _ _ => simp [hasTypes] at ht
  | c :: cs, ts, [], _, _, _, _ => by cases ts <;> simp [fitsTuple]
  | c :: cs, [], f :: fs, _, _, _, _ => by simp [fitsTuple]
  | c :: cs, t :: ts, f :: fs, ha, ht, hn, hd => by
    simp only [acceptsZip, hasTypes, noDynList, dimsTuple, fitsTuple, Bool.and_eq_true] at ha ht hn hd ⊢
    exact ⟨accepts_fits c t f ha.1 ht.1 hn.1 hd.1, acceptsZip_fits cs ts fs ha.2 ht.2 hn.2 hd.2⟩
end

/-! ### a mismatched pair is rejected for every fully populated value -/

theorem allB_false_first {α : Type} (r : α → Bool) (vs : List α) (hne : vs.isEmpty = false)
    (h : ∀ v, v ∈ vs → r v = false) : allB r vs = false := by
  cases vs with
  | nil => simp at hne
  | cons v vs => simp [allB, h v (by simp)]

theorem fullList_mem : ∀ (vs : List RVal) (v : RVal), full.fullList vs = true → v ∈ vs → full v = true
  | [], _, _, hm => by simp at hm
  | w :: ws, v, hf, hm => by
    simp only [full.fullList, Bool.and_eq_true] at hf
    rcases List.mem_cons.mp hm with rfl | h
    · exact hf.1
    · exact fullList_mem ws v hf.2 h

theorem fullPairs_mem : ∀ (kvs : List (RVal × RVal)) (kv : RVal × RVal), full.fullPairs kvs = true → kv ∈ kvs →
    full kv.1 = true ∧ full kv.2 = true
  | [], _, _, hm => by simp at hm
  | (k, v) :: r, kv, hf, hm => by
    simp only [full.fullPairs, Bool.and_eq_true] at hf
    rcases List.mem_cons.mp hm with rfl | h
    · exact ⟨hf.1.1, hf.1.2⟩
    · exact fullPairs_mem r kv hf.2 h

theorem allB_mem {α : Type} (p : α → Bool) : ∀ (vs : List α) (v : α), allB p vs = true → v ∈ vs → p v = true
  | [], _, _, hm => by simp at hm
  | w :: ws, v, hf, hm => by
    simp only [allB, Bool.and_eq_true] at hf
    rcases List.mem_cons.mp hm with rfl | h
    · exact hf.1
    · exact allB_mem p ws v hf.2 h

mutual
/-- If the carrier type does not accept the column type, no fully populated value of it passes `ser`'s checks. -/
theorem reject_full : ∀ (c : Carrier) (t : CqlTy) (x : RVal), accepts c t = false → hasType c x = true →
    full x = true → fits t x = false
  | .scalar s, t, x, ha, ht, _ => by
    cases x <;> simp [hasType] at ht
    subst ht
    rw [fits_scalar]
    cases t <;> simp only [accepts] at ha ⊢ <;> exact ha
  | .unset, t, x, ha, _, _ => by simp [accepts] at ha
  | .opt c, t, x, ha, ht, hf => by
    rw [accepts] at ha
    cases x <;> simp [hasType] at ht
    · simp [full] at hf
    · rw [fits_some]; exact reject_full c t _ ha ht (by simpa [full] using hf)
  | .maybeUnset c, t, x, ha, ht, hf => by
    rw [accepts] at ha
    cases x <;> simp [hasType] at ht
    · simp [full] at hf
    · rw [fits_muSet]; exact reject_full c t _ ha ht (by simpa [full] using hf)
  | .maybeEmpty c, t, x, ha, ht, hf => by
    rw [accepts] at ha
    cases x <;> simp [hasType] at ht
    · simp [full] at hf
    · rw [fits_meValue]
      cases hse : t.supportsEmpty with
      | false => rfl
      | true =>
        rw [hse] at ha
        simp only [Bool.true_and] at ha ⊢
        exact reject_full c t _ ha ht (by simpa [full] using hf)
  | .vec c, t, x, ha, ht, hf => by
    cases x <;> simp [hasType] at ht
    rename_i vs
    simp only [full, Bool.and_eq_true, Bool.not_eq_true'] at hf
    rw [fits_vec]
    cases t <;> simp only [accepts] at ha ⊢
    · exact allB_false_first _ vs hf.1 (fun v hv => reject_full c _ v ha (allB_mem _ vs v ht hv) (fullList_mem vs v hf.2 hv))
    · exact allB_false_first _ vs hf.1 (fun v hv => reject_full c _ v ha (allB_mem _ vs v ht hv) (fullList_mem vs v hf.2 hv))
    · rw [allB_false_first _ vs hf.1 (fun v hv => reject_full c _ v ha (allB_mem _ vs v ht hv) (fullList_mem vs v hf.2 hv))]
      simp
  | .hashSet c, t, x, ha, ht, hf => by
    cases x <;> simp [hasType] at ht
    rename_i vs
    simp only [full, Bool.and_eq_true, Bool.not_eq_true'] at hf
    rw [fits_set]
    cases t <;> simp only [accepts] at ha ⊢
    · exact allB_false_first _ vs hf.1 (fun v hv => reject_full c _ v ha (allB_mem _ vs v ht hv) (fullList_mem vs v hf.2 hv))
    · exact allB_false_first _ vs hf.1 (fun v hv => reject_full c _ v ha (allB_mem _ vs v ht hv) (fullList_mem vs v hf.2 hv))
  | .btreeSet c, t, x, ha, ht, hf => by
    cases x <;> simp [hasType] at ht
    rename_i vs
    simp only [full, Bool.and_eq_true, Bool.not_eq_true'] at hf
    rw [fits_set]
    cases t <;> simp only [accepts] at ha ⊢
    · exact allB_false_first _ vs hf.1 (fun v hv => reject_full c _ v ha (allB_mem _ vs v ht hv) (fullList_mem vs v hf.2 hv))
    · exact allB_false_first _ vs hf.1 (fun v hv => reject_full c _ v ha (allB_mem _ vs v ht hv) (fullList_mem vs v hf.2 hv))
  | .hashMap k v, t, x, ha, ht, hf => by
    cases x <;> simp [hasType] at ht
    rename_i kvs
    simp only [full, Bool.and_eq_true, Bool.not_eq_true'] at hf
    rw [fits_map]
    cases t <;> simp only [accepts] at ha ⊢
    refine allB_false_first _ kvs hf.1 (fun kv hkv => ?_)
    have hty := allB_mem (fun kv => hasType k kv.1 && hasType v kv.2) kvs kv ht hkv
    simp only [Bool.and_eq_true] at hty
    obtain ⟨hf1, hf2⟩ := fullPairs_mem kvs kv hf.2 hkv
    rcases Bool.and_eq_false_iff.mp ha with h | h
    · simp [reject_full k _ kv.1 h hty.1 hf1]
    · simp [reject_full v _ kv.2 h hty.2 hf2]
  | .btreeMap k v, t, x, ha, ht, hf => by
    cases x <;> simp [hasType] at ht
    rename_i kvs
    simp only [full, Bool.and_eq_true, Bool.not_eq_true'] at hf
    rw [fits_map]
    cases t <;> simp only [accepts] at ha ⊢
    refine allB_false_first _ kvs hf.1 (fun kv hkv => ?_)
    have hty := allB_mem (fun kv => hasType k kv.1 && hasType v kv.2) kvs kv ht hkv
    simp only [Bool.and_eq_true] at hty
    obtain ⟨hf1, hf2⟩ := fullPairs_mem kvs kv hf.2 hkv
    rcases Bool.and_eq_false_iff.mp ha with h | h
    · simp [reject_full k _ kv.1 h hty.1 hf1]
    · simp [reject_full v _ kv.2 h hty.2 hf2]
  | .tuple cs, t, x, ha, ht, hf => by
    cases x <;> simp [hasType] at ht
    rename_i fs
    simp only [full] at hf
    rw [fits_tuple]
    cases t <;> simp only [accepts] at ha ⊢
    rename_i ts
    have hl := hasTypes_length cs fs ht
    rcases Bool.and_eq_false_iff.mp ha with h | h
    · have : ¬ fs.length ≤ ts.length := by simp at h; omega
      simp [this]
    · rw [rejectZip_full cs ts fs h ht hf]; simp
  | .dyn, _, _, ha, _, _ => by simp [accepts] at ha
  | .listIter _, _, _, _, ht, _ => by simp [hasType] at ht
  | .vecIter _, _, _, _, ht, _ => by simp [hasType] at ht
  | .mapIter _ _, _, _, _, ht, _ => by simp [hasType] at ht
  | .udtIter, _, _, _, ht, _ => by simp [hasType] at ht
  | .raw, _, _, _, ht, _ => by simp [hasType] at ht
theorem rejectZip_full : ∀ (cs : List Carrier) (ts : List CqlTy) (fs : List RVal), acceptsZip cs ts = false →
    hasTypes cs fs = true → full.fullList fs = true → fitsTuple ts fs = false
  | [], ts, fs, ha, _, _ => by simp [acceptsZip] at ha
  | c :: cs, [], fs, ha, _, _ => by simp [acceptsZip] at ha
  | c :: cs, t :: ts, [], _, ht, _ => by simp [hasTypes] at ht
  | c :: cs, t :: ts, f :: fs, ha, ht, hf => by
    simp only [acceptsZip, hasTypes, full.fullList, fitsTuple, Bool.and_eq_true] at ha ht hf ⊢
    rcases Bool.and_eq_false_iff.mp ha with h | h
    · simp [reject_full c t f h ht.1 hf.1]
    · simp [rejectZip_full cs ts fs h ht.2 hf.2]
end

end ScyllaVerif.Proofs.CarrierStatic

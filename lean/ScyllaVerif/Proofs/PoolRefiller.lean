import ScyllaVerif.Model.Routing
/-! C10, pool level over the refiller model of `Model/Routing.lean` (the transcription of `PoolRefiller` with shard
buckets, `maybe_reshard`, excess connections and the non-publishing arms of `handle_ready_connection`, shared with
C12): the PUBLISHED pool always holds exactly the connections of the refiller's buckets. -/
namespace ScyllaVerif.PoolRefiller
open ScyllaVerif.Routing

/-- What routing can be handed: the connections of the published pool. -/
def offered (rf : Refiller) : List Conn :=
  match rf.shared with
  | none => []
  | some (.notSharded l) => l
  | some (.sharded _ b) => b.flatten

/-- What the refiller holds in its shard buckets. -/
def held (rf : Refiller) : List Conn := rf.conns.flatten

def SizePos : PoolSize → Prop
  | .perHost k => 0 < k
  | .perShard k => 0 < k

structure PubInv (rf : Refiller) : Prop where
  len : rf.conns.length = (match rf.sharder with | some s => s.nr | none => 1)
  pub : offered rf = held rf

theorem flatten_all_empty (l : List (List Conn)) (h : l.all List.isEmpty = true) : l.flatten = [] := by
  induction l with
  | nil => rfl
  | cons b rest ih =>
    simp only [List.all_cons, Bool.and_eq_true] at h
    have hb : b = [] := by simpa using h.1
    simp [hb, ih h.2]

theorem offered_publish (rf : Refiller)
    (hlen : rf.conns.length = (match rf.sharder with | some s => s.nr | none => 1)) :
    offered rf.publish = held rf := by
  unfold Refiller.publish
  split
  · rename_i he
    simp only [offered, held]
    exact (flatten_all_empty _ he).symm
  · split
    · rename_i s hs
      simp only [offered, held]
    · rename_i hs
      simp only [hs] at hlen
      simp only [offered, held]
      match hc : rf.conns, hlen with
      | [b], _ => simp

theorem publish_fields (rf : Refiller) : rf.publish.conns = rf.conns ∧ rf.publish.sharder = rf.sharder ∧
    rf.publish.size = rf.size ∧ rf.publish.excess = rf.excess := by
  unfold Refiller.publish
  split
  · exact ⟨rfl, rfl, rfl, rfl⟩
  · split <;> exact ⟨rfl, rfl, rfl, rfl⟩

theorem pubInv_publish {rf : Refiller}
    (hlen : rf.conns.length = (match rf.sharder with | some s => s.nr | none => 1)) : PubInv rf.publish := by
  obtain ⟨hc, hs, _, _⟩ := publish_fields rf
  refine ⟨by rw [hc, hs]; exact hlen, ?_⟩
  rw [offered_publish rf hlen]
  simp only [held, hc]

theorem length_set' {α} (l : List α) (i : Nat) (x : α) : (l.set i x).length = l.length := List.length_set

theorem activeCount_replicate (n : Nat) : ((List.replicate n ([] : List Conn)).map List.length).sum = 0 := by
  induction n with
  | zero => rfl
  | succ n ih => simp [List.replicate_succ, ih]

/-- The core of `handle_ready_connection` after `maybe_reshard`: either "published = held" still holds, or the
buckets were just cleared (then the connection is accepted, which publishes). -/
theorem handleReady_core {rf1 rf' : Refiller} (hlen : rf1.conns.length = (match rf1.sharder with | some s => s.nr | none => 1))
    (hst : offered rf1 = held rf1 ∨ (rf1.activeCount = 0 ∧ ∀ (i : Nat) (b : List Conn), rf1.conns[i]? = some b → b = []))
    (hsz : SizePos rf1.size) (c : Conn) (requested : Bool)
    (he : (match rf1.conns[shardIdOf c]? with
      | none => none
      | some bucket =>
        if rf1.canAccept bucket then some ({ rf1 with conns := rf1.conns.set (shardIdOf c) (bucket ++ [c]) }).publish
        else if requested then some rf1
        else
          let ex := rf1.excess ++ [c]
          some { rf1 with excess := if ex.length > rf1.excessLimit then [] else ex }) = some rf') :
    PubInv rf' ∧ rf'.size = rf1.size := by
  split at he
  · cases he
  · rename_i bucket hb
    by_cases hacc : rf1.canAccept bucket = true
    · simp only [hacc, if_true, Option.some.injEq] at he
      subst he
      refine ⟨pubInv_publish ?_, (publish_fields _).2.2.1⟩
      simp only [List.length_set]; exact hlen
    · rcases hst with hpub | ⟨h0, hall⟩
      · simp only [hacc, Bool.false_eq_true, if_false] at he
        split at he
        · simp only [Option.some.injEq] at he; subst he; exact ⟨⟨hlen, hpub⟩, rfl⟩
        · simp only [Option.some.injEq] at he; subst he; exact ⟨⟨hlen, hpub⟩, rfl⟩
      · exfalso
        apply hacc
        have hbe := hall _ _ hb
        unfold Refiller.canAccept
        cases hs : rf1.size with
        | perHost k =>
          simp only [hs, SizePos] at hsz
          simp [h0, hsz]
        | perShard k =>
          simp only [hs, SizePos] at hsz
          simp [hbe, hsz]

/-- `handle_ready_connection` keeps "published = held" — also across `maybe_reshard` (which clears the buckets
WITHOUT publishing: the first connection after a reshard is always accepted, and accepting publishes) and through
the arms that do not publish (connection dropped or parked as excess: the buckets are untouched). -/
theorem pubInv_handleReady {rf rf' : Refiller} (h : PubInv rf) (hsz : SizePos rf.size) (c : Conn) (requested : Bool)
    (he : rf.handleReady c requested = some rf') : PubInv rf' ∧ rf'.size = rf.size := by
  unfold Refiller.handleReady at he
  simp only at he
  by_cases hsame : rf.sharder = sharderOf c
  · have hr : rf.maybeReshard (sharderOf c) = rf := by simp [Refiller.maybeReshard, hsame]
    rw [hr] at he
    exact handleReady_core h.len (Or.inl h.pub) hsz c requested he
  · have hconns : (rf.maybeReshard (sharderOf c)).conns =
        List.replicate (match sharderOf c with | some s => s.nr | none => 1) [] := by
      unfold Refiller.maybeReshard; rw [if_neg hsame]; rfl
    have hsh : (rf.maybeReshard (sharderOf c)).sharder = sharderOf c := by
      unfold Refiller.maybeReshard; rw [if_neg hsame]
    have hsize : (rf.maybeReshard (sharderOf c)).size = rf.size := by
      unfold Refiller.maybeReshard; rw [if_neg hsame]
    have := handleReady_core (rf1 := rf.maybeReshard (sharderOf c)) (rf' := rf')
      (by rw [hconns, hsh, List.length_replicate])
      (Or.inr ⟨by unfold Refiller.activeCount; rw [hconns]; exact activeCount_replicate _, by
        intro i b hb
        rw [hconns] at hb
        exact List.eq_of_mem_replicate (List.mem_of_getElem? hb)⟩)
      (hsize ▸ hsz) c requested he
    exact ⟨this.1, this.2.trans hsize⟩

theorem pubInv_removeConn {rf : Refiller} (h : PubInv rf) (c : Conn) :
    PubInv (rf.removeConn c) ∧ (rf.removeConn c).size = rf.size := by
  unfold Refiller.removeConn
  simp only
  split
  · rename_i b' hb'
    refine ⟨pubInv_publish ?_, (publish_fields _).2.2.1⟩
    simp only [List.length_set]; exact h.len
  · split
    · exact ⟨⟨h.len, h.pub⟩, rfl⟩
    · exact ⟨h, rfl⟩

theorem pubInv_step {rf rf' : Refiller} (h : PubInv rf) (hsz : SizePos rf.size) (e : PoolEvt)
    (he : rf.step e = some rf') : PubInv rf' ∧ rf'.size = rf.size := by
  cases e with
  | ready c requested =>
    simp only [Refiller.step, Option.map_eq_some_iff] at he
    obtain ⟨rf1, h1, rfl⟩ := he
    obtain ⟨hi, hs⟩ := pubInv_handleReady h hsz c requested h1
    split
    · exact ⟨⟨hi.len, hi.pub⟩, hs⟩
    · exact ⟨hi, hs⟩
  | broken c =>
    simp only [Refiller.step, Option.some.injEq] at he
    subst he
    exact pubInv_removeConn h c

theorem pubInv_init (size : PoolSize) : PubInv (Refiller.init size) :=
  ⟨rfl, rfl⟩

/-- After ANY sequence of ready / broken connection events (that does not panic), what the pool offers to routing
is exactly what the refiller holds in its buckets. -/
theorem published_is_held (size : PoolSize) (hsz : SizePos size) (evts : List PoolEvt) (rf : Refiller)
    (h : (Refiller.init size).run evts = some rf) : offered rf = held rf := by
  have key : ∀ (evts : List PoolEvt) (r0 : Refiller), PubInv r0 → SizePos r0.size → r0.run evts = some rf →
      PubInv rf := by
    intro evts
    induction evts with
    | nil => intro r0 h0 _ he; simp only [Refiller.run, Option.some.injEq] at he; subst he; exact h0
    | cons e rest ih =>
      intro r0 h0 hs he
      simp only [Refiller.run] at he
      split at he
      · cases he
      · rename_i r1 h1
        obtain ⟨hi, hsz1⟩ := pubInv_step h0 hs e h1
        exact ih r1 hi (hsz1 ▸ hs) he
  exact (key evts _ (pubInv_init size) hsz h).pub

end ScyllaVerif.PoolRefiller

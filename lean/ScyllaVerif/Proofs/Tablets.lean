/-
Helper lemmas for C15 (`Props/C15.lean`): the standard library's binary search computes the partition point
of a partitioned list; `takeWhile`/`dropWhile` on a partitioned list are filters; association lists.
-/
import ScyllaVerif.Model.Tablets

namespace ScyllaVerif.Tablets

/-! ### binary search -/

theorem bsLoop_spec (f : Nat → Bool) (k : Nat) (hf : ∀ i, f i = true ↔ i < k) :
    ∀ fuel size base, size ≤ fuel → 1 ≤ size → (base = 0 ∨ base < k) → k ≤ base + size →
      (bsLoop f fuel size base = 0 ∨ bsLoop f fuel size base < k) ∧ k ≤ bsLoop f fuel size base + 1 := by
  intro fuel
  induction fuel with
  | zero => intro size base h1 h2; omega
  | succ fuel ih =>
    intro size base h1 h2 h3 h4
    unfold bsLoop
    by_cases hs : size > 1
    · simp only [hs, if_true]
      by_cases hm : f (base + size / 2) = true
      · have := (hf _).mp hm
        simp only [hm, if_true]
        exact ih _ _ (by omega) (by omega) (by omega) (by omega)
      · have hm' : ¬ (base + size / 2 < k) := fun h => hm ((hf _).mpr h)
        have hm2 : f (base + size / 2) = false := by simpa using hm
        simp only [hm2, Bool.false_eq_true, if_false]
        exact ih _ _ (by omega) (by omega) h3 (by omega)
    · simp only [hs, if_false]
      exact ⟨h3, by omega⟩

/-- On a predicate-at-index that is true exactly below `k ≤ n`, the library's binary search returns `k`. -/
theorem bsearch_eq (f : Nat → Bool) (n k : Nat) (hk : k ≤ n) (hf : ∀ i, f i = true ↔ i < k) :
    bsearch f n = k := by
  unfold bsearch
  by_cases hn : n = 0
  · simp only [hn, if_true]; omega
  · simp only [hn, if_false]
    obtain ⟨h1, h2⟩ := bsLoop_spec f k hf n n 0 (Nat.le_refl _) (by omega) (Or.inl rfl) (by omega)
    by_cases hb : f (bsLoop f n n 0) = true
    · have := (hf _).mp hb
      simp only [hb, if_true]; omega
    · have hb' : ¬ (bsLoop f n n 0 < k) := fun h => hb ((hf _).mpr h)
      have hb2 : f (bsLoop f n n 0) = false := by simpa using hb
      simp only [hb2, Bool.false_eq_true, if_false]
      omega

/-- the binary search result never exceeds the length (what `drain(..right)` relies on) -/
theorem bsLoop_lt (f : Nat → Bool) : ∀ fuel size base, 1 ≤ size → bsLoop f fuel size base < base + size := by
  intro fuel
  induction fuel with
  | zero => intro size base h; unfold bsLoop; omega
  | succ fuel ih =>
    intro size base h
    unfold bsLoop
    by_cases hs : size > 1
    · simp only [hs, if_true]
      by_cases hm : f (base + size / 2) = true
      · simp only [hm, if_true]
        have := ih (size - size / 2) (base + size / 2) (by omega)
        omega
      · have hm2 : f (base + size / 2) = false := by simpa using hm
        simp only [hm2, Bool.false_eq_true, if_false]
        have := ih (size - size / 2) base (by omega)
        omega
    · simp only [hs, if_false]; omega

theorem bsearch_le (f : Nat → Bool) (n : Nat) : bsearch f n ≤ n := by
  unfold bsearch
  by_cases hn : n = 0
  · simp [hn]
  · simp only [hn, if_false]
    have := bsLoop_lt f n n 0 (by omega)
    split <;> omega

/-! ### partitioned lists -/

/-- `p` is downward closed along the list: once false it stays false (the precondition of `partition_point`). -/
def Partitioned {α : Type} (p : α → Bool) (xs : List α) : Prop :=
  xs.Pairwise (fun a b => p b = true → p a = true)

theorem partitioned_tail_false {α : Type} (p : α → Bool) (a : α) (xs : List α)
    (h : Partitioned p (a :: xs)) (ha : p a = false) : ∀ b ∈ xs, p b = false := by
  intro b hb
  have := (List.pairwise_cons.mp h).1 b hb
  cases hpb : p b
  · rfl
  · rw [this hpb] at ha; cases ha

theorem pAt_iff {α : Type} (p : α → Bool) (xs : List α) (h : Partitioned p xs) :
    ∀ i, pAt p xs i = true ↔ i < (xs.takeWhile p).length := by
  induction xs with
  | nil => intro i; simp [pAt]
  | cons a xs ih =>
    intro i
    have ht := (List.pairwise_cons.mp h).2
    cases hpa : p a
    · have hall := partitioned_tail_false p a xs h hpa
      simp only [List.takeWhile_cons, hpa, Bool.false_eq_true, if_false, List.length_nil]
      constructor
      · intro hi
        exfalso
        unfold pAt at hi
        cases i with
        | zero => simp [hpa] at hi
        | succ j =>
          simp only [List.getElem?_cons_succ] at hi
          cases hx : xs[j]? with
          | none => simp [hx] at hi
          | some x =>
            have := hall x (List.mem_of_getElem? hx)
            simp [hx, this] at hi
      · intro hi; omega
    · simp only [List.takeWhile_cons, hpa, if_true, List.length_cons]
      cases i with
      | zero => simp [pAt, hpa]
      | succ j =>
        have := ih ht j
        unfold pAt at this ⊢
        simp only [List.getElem?_cons_succ]
        rw [this]; omega

/-- **`partition_point` meets its specification** on a partitioned list: the number of leading elements
satisfying the predicate. -/
theorem partitionPoint_eq {α : Type} (p : α → Bool) (xs : List α) (h : Partitioned p xs) :
    partitionPoint p xs = (xs.takeWhile p).length := by
  unfold partitionPoint
  apply bsearch_eq
  · exact (List.takeWhile_sublist p).length_le
  · exact pAt_iff p xs h

theorem takeWhile_eq_filter {α : Type} (p : α → Bool) (xs : List α) (h : Partitioned p xs) :
    xs.takeWhile p = xs.filter p := by
  induction xs with
  | nil => rfl
  | cons a xs ih =>
    have ht := (List.pairwise_cons.mp h).2
    cases hpa : p a
    · have hall := partitioned_tail_false p a xs h hpa
      simp only [List.takeWhile_cons, hpa, List.filter_cons]
      symm
      simp only [Bool.false_eq_true, if_false]
      exact List.filter_eq_nil_iff.mpr (fun b hb => by simp [hall b hb])
    · simp only [List.takeWhile_cons, hpa, if_true, List.filter_cons]
      rw [ih ht]

theorem dropWhile_eq_filter {α : Type} (p : α → Bool) (xs : List α) (h : Partitioned p xs) :
    xs.dropWhile p = xs.filter (fun x => !p x) := by
  induction xs with
  | nil => rfl
  | cons a xs ih =>
    have ht := (List.pairwise_cons.mp h).2
    cases hpa : p a
    · have hall := partitioned_tail_false p a xs h hpa
      simp only [List.dropWhile_cons, hpa, List.filter_cons]
      simp only [Bool.false_eq_true, if_false, Bool.not_false, if_true]
      congr 1
      symm
      exact List.filter_eq_self.mpr (fun b hb => by simp [hall b hb])
    · simp only [List.dropWhile_cons, hpa, if_true, List.filter_cons]
      simp only [Bool.not_true, Bool.false_eq_true, if_false]
      exact ih ht

theorem take_takeWhile_length {α : Type} (p : α → Bool) (xs : List α) :
    xs.take (xs.takeWhile p).length = xs.takeWhile p := by
  induction xs with
  | nil => rfl
  | cons a xs ih =>
    cases hpa : p a <;> simp [hpa, ih]

theorem drop_takeWhile_length {α : Type} (p : α → Bool) (xs : List α) :
    xs.drop (xs.takeWhile p).length = xs.dropWhile p := by
  induction xs with
  | nil => rfl
  | cons a xs ih =>
    cases hpa : p a <;> simp [hpa, ih]

theorem takeWhile_length_mono {α : Type} (p q : α → Bool) (xs : List α)
    (h : ∀ x ∈ xs, p x = true → q x = true) : (xs.takeWhile p).length ≤ (xs.takeWhile q).length := by
  induction xs with
  | nil => simp
  | cons a xs ih =>
    have ih' := ih (fun x hx => h x (List.mem_cons_of_mem _ hx))
    cases hpa : p a
    · simp [List.takeWhile_cons, hpa]
    · have := h a List.mem_cons_self hpa
      simp only [List.takeWhile_cons, hpa, this, if_true, List.length_cons]
      omega

theorem pairwise_trichotomy {α : Type} (R : α → α → Prop) (xs : List α) (h : xs.Pairwise R) :
    ∀ a ∈ xs, ∀ b ∈ xs, a = b ∨ R a b ∨ R b a := by
  induction xs with
  | nil => intro a ha; cases ha
  | cons x xs ih =>
    obtain ⟨hx, ht⟩ := List.pairwise_cons.mp h
    intro a ha b hb
    rcases List.mem_cons.mp ha with rfl | ha' <;> rcases List.mem_cons.mp hb with rfl | hb'
    · exact Or.inl rfl
    · exact Or.inr (Or.inl (hx b hb'))
    · exact Or.inr (Or.inr (hx a ha'))
    · exact ih ht a ha' b hb'

theorem filterMap_congr' {α β : Type} (f g : α → Option β) (l : List α) (h : ∀ x ∈ l, f x = g x) :
    l.filterMap f = l.filterMap g := by
  induction l with
  | nil => rfl
  | cons a l ih =>
    have ha := h a List.mem_cons_self
    have ih' := ih (fun x hx => h x (List.mem_cons_of_mem _ hx))
    simp only [List.filterMap_cons, ha, ih']

/-! ### association lists -/

theorem alGet_alPush {κ α : Type} [DecidableEq κ] (k k' : κ) (x : α) (m : List (κ × List α)) :
    alGet k' (alPush k x m) = if k' = k then some ((alGet k m).getD [] ++ [x]) else alGet k' m := by
  induction m with
  | nil =>
    by_cases h : k' = k
    · subst h; simp [alPush, alGet]
    · have h' : ¬ k = k' := fun e => h e.symm
      simp [alPush, alGet, h, h']
  | cons e m ih =>
    obtain ⟨k0, v⟩ := e
    by_cases h0 : k0 = k
    · subst h0
      by_cases h : k' = k0
      · subst h; simp [alPush, alGet]
      · have h' : ¬ k0 = k' := fun e => h e.symm
        simp [alPush, alGet, h, h']
    · by_cases h : k' = k
      · subst h
        simp only [alPush, h0, if_false, alGet, if_true]
        rw [ih]; simp
      · simp only [alPush, h0, if_false, alGet, h]
        rw [ih]; simp [h]

end ScyllaVerif.Tablets

import ScyllaVerif.Model.ConnSched
import ScyllaVerif.Proofs.Conn
/-! Invariants of the bounded resources around the connection (C02): submit-channel capacity, orphan ages. -/
namespace ScyllaVerif.ConnSched
open ScyllaVerif.StreamMap ScyllaVerif.Conn

/-! ### how the connection's events move `queue` / `sending` / `broken` -/

theorem doBreak_qs (c : Conn) (k : BreakKind) :
    (doBreak c k).queue = [] ∧ (doBreak c k).sending = [] ∧ (doBreak c k).broken = true := ⟨rfl, rfl, rfl⟩

/-- reader / orphaner / explicit-break events: the channel is untouched, or the router ended. -/
theorem other_qs (c : Conn) (e : Ev)
    (he : (∃ i, e = .respond i) ∨ (∃ s, e = .unsolicited s) ∨ (∃ k, e = .break_ k) ∨ e = .orphanerStep ∨ (∃ r, e = .recv r)) :
    ((step c e).queue = c.queue ∧ (step c e).sending = c.sending ∧ (step c e).broken = c.broken) ∨
    ((step c e).queue = [] ∧ (step c e).sending = [] ∧ (step c e).broken = true) := by
  rcases he with ⟨i, rfl⟩ | ⟨s, rfl⟩ | ⟨k, rfl⟩ | rfl | ⟨r, rfl⟩
  · simp only [step]
    split
    · exact Or.inl ⟨rfl, rfl, rfl⟩
    · split
      · exact Or.inl ⟨rfl, rfl, rfl⟩
      · rename_i s0 r0 _
        cases hl : c.map.lookup s0 with
        | mk res m' =>
          cases res with
          | handler r' => exact Or.inl ⟨rfl, rfl, rfl⟩
          | orphaned => exact Or.inl ⟨rfl, rfl, rfl⟩
          | missing => exact Or.inr (doBreak_qs _ _)
  · simp only [step]
    split
    · exact Or.inl ⟨rfl, rfl, rfl⟩
    · split
      · exact Or.inl ⟨rfl, rfl, rfl⟩
      · split
        · exact Or.inl ⟨rfl, rfl, rfl⟩
        · cases hl : c.map.lookup s with
          | mk res m' =>
            cases res with
            | handler r' => exact Or.inl ⟨rfl, rfl, rfl⟩
            | orphaned => exact Or.inl ⟨rfl, rfl, rfl⟩
            | missing => exact Or.inr (doBreak_qs _ _)
  · simp only [step]
    split
    · exact Or.inl ⟨rfl, rfl, rfl⟩
    · exact Or.inr (doBreak_qs _ _)
  · simp only [step]
    split
    · exact Or.inl ⟨rfl, rfl, rfl⟩
    · split <;> exact Or.inl ⟨rfl, rfl, rfl⟩
  · simp only [step]
    split <;> exact Or.inl ⟨rfl, rfl, rfl⟩

/-! ### lists -/

theorem length_filter_ne {l : List Nat} (hn : l.Nodup) (r : Nat) :
    (l.filter (· != r)).length = if r ∈ l then l.length - 1 else l.length := by
  induction l with
  | nil => simp
  | cons a rest ih =>
    have hn' := (List.nodup_cons.mp hn)
    rw [List.filter_cons]
    by_cases ha : a = r
    · subst ha
      have hnot : a ∉ rest := hn'.1
      have : (rest.filter (· != a)).length = rest.length := by
        rw [ih hn'.2]; simp [hnot]
      simp [this]
    · have hb : (a != r) = true := by simpa using ha
      have hr : (r ∈ a :: rest) ↔ r ∈ rest := by
        simp only [List.mem_cons]
        constructor
        · rintro (e | m)
          · exact absurd e.symm ha
          · exact m
        · exact Or.inr
      simp only [hb, if_true, List.length_cons, ih hn'.2, hr]
      split
      · rename_i hm
        have : 0 < rest.length := List.length_pos_of_mem hm
        omega
      · rfl

theorem nodup_filter {l : List Nat} (hn : l.Nodup) (p : Nat → Bool) : (l.filter p).Nodup :=
  List.Nodup.sublist List.filter_sublist hn

theorem sending_nodup {c : Conn} (h : Inv c) : c.sending.Nodup := by
  apply List.nodup_iff_count.mpr
  intro a
  have := h.map.reqOnce a
  omega

/-! ### the invariant -/

structure SInv (s : Sched) : Prop where
  inv : Inv s.c
  sub : ∀ r, r ∈ s.granted → r ∈ s.c.sending
  nodup : s.granted.Nodup
  cap : s.c.queue.length + s.granted.length ≤ chanCap
  room : (∃ r, r ∈ s.c.sending ∧ r ∉ s.granted) → s.c.queue.length + s.granted.length = chanCap
  keys : s.ages.map (·.1) = s.c.map.orphans
  le : ∀ p, p ∈ s.ages → p.2 ≤ s.clock
  dead : s.c.broken = true → s.granted = []

theorem syncAges_keys (o : List Nat) (a : List (Nat × Nat)) (n : Nat) : (syncAges o a n).map (·.1) = o := by
  unfold syncAges
  induction o with
  | nil => rfl
  | cons s rest ih =>
    rw [List.map_cons, List.map_cons, ih]
    congr 1
    cases hf : a.find? (fun p => p.1 == s) with
    | none => rfl
    | some p =>
      have := List.find?_some hf
      simpa using this

theorem syncAges_le (o : List Nat) (a : List (Nat × Nat)) (n : Nat) (ha : ∀ p, p ∈ a → p.2 ≤ n) :
    ∀ p, p ∈ syncAges o a n → p.2 ≤ n := by
  intro p hp
  unfold syncAges at hp
  obtain ⟨s, _, e⟩ := List.mem_map.mp hp
  cases hf : a.find? (fun p => p.1 == s) with
  | none => rw [hf] at e; subst e; exact Nat.le_refl _
  | some q => rw [hf] at e; subst e; exact ha _ (List.mem_of_find?_eq_some hf)

theorem agesFor_keys (o : List Nat) (a : List (Nat × Nat)) (n : Nat) : (agesFor o a n).map (·.1) = o := by
  unfold agesFor
  split
  · rename_i h; exact (eq_of_beq h).symm
  · exact syncAges_keys o a n

theorem agesFor_le (o : List Nat) (a : List (Nat × Nat)) (n : Nat) (ha : ∀ p, p ∈ a → p.2 ≤ n) :
    ∀ p, p ∈ agesFor o a n → p.2 ≤ n := by
  unfold agesFor
  split
  · exact ha
  · exact syncAges_le o a n ha

/-- An orphaned id keeps the time at which it was orphaned for as long as it stays orphaned. -/
theorem syncAges_stable (o : List Nat) (a : List (Nat × Nat)) (n : Nat) (p : Nat × Nat)
    (hk : (a.map (·.1)).Nodup) (hp : p ∈ a) (ho : p.1 ∈ o) : p ∈ syncAges o a n := by
  unfold syncAges
  apply List.mem_map.mpr
  refine ⟨p.1, ho, ?_⟩
  cases hf : a.find? (fun q => q.1 == p.1) with
  | none =>
    have := List.find?_eq_none.mp hf p hp
    simp at this
  | some q =>
    have hq := List.mem_of_find?_eq_some hf
    have hqk : q.1 = p.1 := by simpa using List.find?_some hf
    -- keys are unique
    have : q = p := by
      clear hf
      induction a with
      | nil => cases hp
      | cons x rest ih =>
        simp only [List.map_cons, List.nodup_cons] at hk
        rcases List.mem_cons.mp hp with e1 | m1 <;> rcases List.mem_cons.mp hq with e2 | m2
        · rw [e1, e2]
        · exfalso; apply hk.1; rw [← e1, ← hqk]; exact List.mem_map.mpr ⟨q, m2, rfl⟩
        · exfalso; apply hk.1; rw [← e2, hqk]; exact List.mem_map.mpr ⟨p, m1, rfl⟩
        · exact ih hk.2 m1 m2
    rw [this]

theorem sinv_core {s : Sched} (h : SInv s) (g' : List Nat) (c' : Conn) (hinv : Inv c') (hb : c'.broken = false)
    (hsub : ∀ r, r ∈ g' → r ∈ c'.sending) (hnd : g'.Nodup)
    (hcap : c'.queue.length + g'.length ≤ chanCap)
    (hroom : (∃ r, r ∈ c'.sending ∧ r ∉ g') → c'.queue.length + g'.length = chanCap) :
    SInv ({ s with c := c', granted := g', ages := agesFor c'.map.orphans s.ages s.clock } : Sched) :=
  ⟨hinv, hsub, hnd, hcap, hroom, agesFor_keys _ _ _, agesFor_le _ _ _ h.le,
   fun hb' => by have : c'.broken = true := hb'; rw [hb] at this; cases this⟩

theorem stamp_alive (s : Sched) (c' : Conn) (hb : c'.broken = false) :
    stamp s c' = { s with c := c', ages := agesFor c'.map.orphans s.ages s.clock } := by
  unfold stamp; simp [hb]

/-- The router is gone: nobody holds a permit, the channel is empty. -/
theorem sinv_dead {s : Sched} (h : SInv s) (g : List Nat) (c' : Conn) (hinv : Inv c') (hb : c'.broken = true) :
    SInv (stamp { s with granted := g } c') := by
  unfold stamp
  obtain ⟨hq, hs, _⟩ := hinv.map.brk hb
  simp only [hb, if_true]
  refine ⟨hinv, ?_, ?_, ?_, ?_, agesFor_keys _ _ _, agesFor_le _ _ _ h.le, fun _ => rfl⟩
  · intro r hr; cases hr
  · exact List.nodup_nil
  · show c'.queue.length + 0 ≤ chanCap
    rw [hq]; exact Nat.zero_le _
  · rintro ⟨r, hr, _⟩
    have : r ∈ c'.sending := hr
    rw [hs] at this; cases this

/-- The connection moves to `c'`, the permits become `g'`. -/
theorem sinv_stamp {s : Sched} (h : SInv s) (g' : List Nat) (c' : Conn) (hinv : Inv c')
    (hsub : c'.broken = false → ∀ r, r ∈ g' → r ∈ c'.sending) (hnd : g'.Nodup)
    (hcap : c'.broken = false → c'.queue.length + g'.length ≤ chanCap)
    (hroom : c'.broken = false → (∃ r, r ∈ c'.sending ∧ r ∉ g') → c'.queue.length + g'.length = chanCap) :
    SInv (stamp { s with granted := g' } c') := by
  cases hb : c'.broken with
  | true => exact sinv_dead h g' c' hinv hb
  | false =>
    rw [stamp_alive _ _ hb]
    exact sinv_core h g' c' hinv hb (hsub hb) hnd (hcap hb) (hroom hb)

/-- … and a permit freed by this step goes to the oldest parked caller that has none. -/
theorem sinv_stamp_grant {s : Sched} (h : SInv s) (g' : List Nat) (c' : Conn) (hinv : Inv c') (hb : c'.broken = false)
    (hsub : ∀ r, r ∈ g' → r ∈ c'.sending) (hnd : g'.Nodup)
    (h0 : c'.queue.length + g'.length ≤ chanCap)
    (h1 : (∃ x, x ∈ c'.sending ∧ x ∉ g') → c'.queue.length + g'.length + 1 ≤ chanCap)
    (h2 : (∃ x y, x ≠ y ∧ x ∈ c'.sending ∧ y ∈ c'.sending ∧ x ∉ g' ∧ y ∉ g') →
      c'.queue.length + g'.length + 1 = chanCap) :
    SInv (grant1 (stamp { s with granted := g' } c')) := by
  rw [stamp_alive _ _ hb]
  unfold grant1
  simp only
  cases hf : c'.sending.find? (fun r => !g'.contains r) with
  | none =>
    simp only
    refine sinv_core h g' c' hinv hb hsub hnd h0 ?_
    rintro ⟨r, hr, hng⟩
    have := List.find?_eq_none.mp hf r hr
    simp at this
    exact absurd this hng
  | some y =>
    simp only
    have hy : y ∈ c'.sending := List.mem_of_find?_eq_some hf
    have hyn : y ∉ g' := by
      have := List.find?_some hf
      simpa using this
    refine sinv_core h (g' ++ [y]) c' hinv hb ?_ ?_ ?_ ?_
    · intro r hr
      rcases List.mem_append.mp hr with m | m
      · exact hsub r m
      · simp only [List.mem_singleton] at m; subst m; exact hy
    · apply List.nodup_append.mpr
      refine ⟨hnd, by simp, ?_⟩
      intro a ha b hb' e
      simp only [List.mem_singleton] at hb'
      subst hb'; subst e; exact hyn ha
    · simp only [List.length_append, List.length_singleton]
      have := h1 ⟨y, hy, hyn⟩; omega
    · rintro ⟨x, hx, hxn⟩
      simp only [List.length_append, List.length_singleton]
      have hxg : x ∉ g' := fun m => hxn (List.mem_append_left _ m)
      have hxy : x ≠ y := fun e => hxn (by rw [e]; simp)
      have := h2 ⟨x, y, hxy, hx, hy, hxg, hyn⟩
      omega

/-! ### the connection's own events, as far as the channel is concerned -/

theorem step_broken_stays (c : Conn) (e : Ev) (hb : c.broken = true) : (step c e).broken = true := by
  cases e <;> simp only [step, hb, if_true] <;> try rfl
  all_goals (split <;> first | rfl | exact hb)

theorem submit_qs {c : Conn} (hb : c.broken = false) :
    (step c .submit).queue = c.queue ++ [c.nextReq] ∧ (step c .submit).sending = c.sending ∧
      (step c .submit).broken = false := by
  simp only [step, hb, Bool.false_eq_true, if_false]; exact ⟨trivial, trivial, trivial⟩

theorem submitFull_qs {c : Conn} (hb : c.broken = false) :
    (step c .submitFull).queue = c.queue ∧ (step c .submitFull).sending = c.sending ++ [c.nextReq] ∧
      (step c .submitFull).broken = false := by
  simp only [step, hb, Bool.false_eq_true, if_false]; exact ⟨trivial, trivial, trivial⟩

theorem enqueue_qs {c : Conn} (hb : c.broken = false) {r : Nat} (hr : r ∈ c.sending) :
    (step c (.enqueue r)).queue = c.queue ++ [r] ∧ (step c (.enqueue r)).sending = c.sending.filter (· != r) ∧
      (step c (.enqueue r)).broken = false := by
  have : c.sending.contains r = true := by simpa using hr
  simp only [step, hb, Bool.false_eq_true, if_false, this, if_true]; exact ⟨trivial, trivial, trivial⟩

theorem cancel_qs (c : Conn) (r : Nat) :
    (step c (.cancel r)).queue = c.queue ∧ (step c (.cancel r)).broken = c.broken ∧
      ((step c (.cancel r)).sending = c.sending ∨ (step c (.cancel r)).sending = c.sending.filter (· != r)) := by
  simp only [step]
  split
  · exact ⟨rfl, rfl, Or.inr rfl⟩
  · exact ⟨rfl, rfl, Or.inr rfl⟩
  · exact ⟨rfl, rfl, Or.inl rfl⟩

theorem writerTake_qs {c : Conn} (hb : c.broken = false) :
    (step c .writerTake).sending = c.sending ∧ (step c .writerTake).broken = false ∧
      (step c .writerTake).queue = c.queue.tail := by
  simp only [step, hb, Bool.false_eq_true, if_false]
  split
  · rename_i hq; rw [hq]; exact ⟨rfl, hb, rfl⟩
  · rename_i r q hq
    split
    · rw [hq]; exact ⟨rfl, rfl, rfl⟩
    · rw [hq]; exact ⟨rfl, rfl, rfl⟩

/-! ### preservation -/

theorem mem_filter_ne {l : List Nat} {x r : Nat} : x ∈ l.filter (· != r) ↔ x ∈ l ∧ x ≠ r := by
  simp [List.mem_filter]

theorem sinv_same {s : Sched} (h : SInv s) (c' : Conn) (hinv : Inv c')
    (hq : c'.broken = false → c'.queue = s.c.queue ∧ c'.sending = s.c.sending) : SInv (stamp s c') := by
  have : stamp s c' = stamp { s with granted := s.granted } c' := rfl
  rw [this]
  apply sinv_stamp h s.granted c' hinv
  · intro hb r hr; rw [(hq hb).2]; exact h.sub r hr
  · exact h.nodup
  · intro hb; rw [(hq hb).1]; exact h.cap
  · intro hb hex; rw [(hq hb).1]; rw [(hq hb).2] at hex; exact h.room hex

theorem sinv_other {s : Sched} (h : SInv s) (e : Ev)
    (he : (∃ i, e = .respond i) ∨ (∃ st, e = .unsolicited st) ∨ (∃ k, e = .break_ k) ∨ e = .orphanerStep ∨
      (∃ r, e = .recv r)) : SInv (stamp s (step s.c e)) := by
  apply sinv_same h _ (h.inv.step e)
  intro hb
  rcases other_qs s.c e he with ⟨hq, hs, _⟩ | ⟨_, _, hb'⟩
  · exact ⟨hq, hs⟩
  · rw [hb] at hb'; cases hb'

theorem SInv.init : SInv Sched.init := by
  refine ⟨Inv.init, ?_, List.nodup_nil, ?_, ?_, rfl, ?_, fun _ => rfl⟩
  · intro r hr; cases hr
  · exact Nat.zero_le _
  · rintro ⟨r, hr, _⟩; cases hr
  · intro p hp; cases hp

theorem SInv.step {s : Sched} (h : SInv s) (e : SEv) : SInv (sstep s e) := by
  cases e with
  | submit =>
    simp only [sstep]
    cases hb : s.c.broken with
    | true =>
      split
      · exact sinv_dead h s.granted _ (h.inv.step _) (step_broken_stays _ _ hb)
      · exact sinv_dead h s.granted _ (h.inv.step _) (step_broken_stays _ _ hb)
    | false =>
      split
      · rename_i hfull
        obtain ⟨hq, hs, hb'⟩ := submitFull_qs hb
        have : stamp s (Conn.step s.c .submitFull) = stamp { s with granted := s.granted } (Conn.step s.c .submitFull) := rfl
        rw [this]
        apply sinv_stamp h s.granted _ (h.inv.step _)
        · intro _ r hr; rw [hs]; exact List.mem_append_left _ (h.sub r hr)
        · exact h.nodup
        · intro _; rw [hq]; exact h.cap
        · intro _ _; rw [hq]; have := h.cap; omega
      · rename_i hfull
        obtain ⟨hq, hs, hb'⟩ := submit_qs hb
        have : stamp s (Conn.step s.c .submit) = stamp { s with granted := s.granted } (Conn.step s.c .submit) := rfl
        rw [this]
        apply sinv_stamp h s.granted _ (h.inv.step _)
        · intro _ r hr; rw [hs]; exact h.sub r hr
        · exact h.nodup
        · intro _; rw [hq]; simp only [List.length_append, List.length_singleton]; omega
        · intro _ hex
          rw [hs] at hex
          have := h.room hex
          omega
  | poll r =>
    simp only [sstep]
    split
    · rename_i hc
      simp only [Bool.and_eq_true, List.contains_iff_mem, Bool.not_eq_true'] at hc
      obtain ⟨hg, hb⟩ := hc
      have hg : r ∈ s.granted := by simpa using hg
      obtain ⟨hq, hs, hb'⟩ := enqueue_qs hb (h.sub r hg)
      have hlen := length_filter_ne h.nodup r
      simp only [hg, if_true] at hlen
      have hpos : 0 < s.granted.length := List.length_pos_of_mem hg
      apply sinv_stamp h _ _ (h.inv.step _)
      · intro _ x hx
        rw [hs]
        obtain ⟨hx1, hx2⟩ := mem_filter_ne.mp hx
        exact mem_filter_ne.mpr ⟨h.sub x hx1, hx2⟩
      · exact nodup_filter h.nodup _
      · intro _; rw [hq, hlen]; simp only [List.length_append, List.length_singleton]
        have := h.cap; omega
      · intro _ ⟨x, hx, hxn⟩
        rw [hs] at hx
        obtain ⟨hx1, hx2⟩ := mem_filter_ne.mp hx
        have hxg : x ∉ s.granted := fun m => hxn (mem_filter_ne.mpr ⟨m, hx2⟩)
        have := h.room ⟨x, hx1, hxg⟩
        rw [hq, hlen]; simp only [List.length_append, List.length_singleton]; omega
    · exact sinv_other h _ (Or.inr (Or.inr (Or.inr (Or.inr ⟨r, rfl⟩))))
  | cancel r =>
    simp only [sstep]
    obtain ⟨hq, hbk, hs⟩ := cancel_qs s.c r
    have hinv' : Inv (Conn.step s.c (.cancel r)) := h.inv.step _
    cases hb : s.c.broken with
    | true =>
      have hb' : (Conn.step s.c (.cancel r)).broken = true := by rw [hbk]; exact hb
      have hd := sinv_dead h (s.granted.filter (· != r)) _ hinv' hb'
      have : (stamp { s with granted := s.granted.filter (· != r) } (Conn.step s.c (.cancel r))).c.broken = true := hb'
      simp only [this, Bool.not_true, Bool.and_false, Bool.false_eq_true, if_false]
      exact hd
    | false =>
      have hb' : (Conn.step s.c (.cancel r)).broken = false := by rw [hbk]; exact hb
      have hsub' : ∀ x, x ∈ s.c.sending → x ≠ r → x ∈ (Conn.step s.c (.cancel r)).sending := by
        intro x hx hne
        rcases hs with e | e <;> rw [e]
        · exact hx
        · exact mem_filter_ne.mpr ⟨hx, hne⟩
      have hsup : ∀ x, x ∈ (Conn.step s.c (.cancel r)).sending → x ∈ s.c.sending := by
        intro x hx
        rcases hs with e | e <;> rw [e] at hx
        · exact hx
        · exact (mem_filter_ne.mp hx).1
      have hc : (stamp { s with granted := s.granted.filter (· != r) } (Conn.step s.c (.cancel r))).c.broken = false := hb'
      have gsub : ∀ x, x ∈ s.granted.filter (· != r) → x ∈ (Conn.step s.c (.cancel r)).sending := by
        intro x hx
        obtain ⟨hx1, hx2⟩ := mem_filter_ne.mp hx
        exact hsub' x (h.sub x hx1) hx2
      have hlen := length_filter_ne h.nodup r
      by_cases hg : r ∈ s.granted
      · have hgc : s.granted.contains r = true := by simpa using hg
        simp only [hgc, hc, Bool.not_false, Bool.and_true, if_true]
        simp only [hg, if_true] at hlen
        have hpos : 0 < s.granted.length := List.length_pos_of_mem hg
        apply sinv_stamp_grant h _ _ hinv' hb' gsub (nodup_filter h.nodup _)
        · rw [hq, hlen]; have := h.cap; omega
        · intro _; rw [hq, hlen]; have := h.cap; omega
        · rintro ⟨x, y, hxy, hx, hy, hxn, hyn⟩
          rw [hq, hlen]
          -- one of the two is not `r`, and was without a permit before
          have key : ∃ z, z ∈ s.c.sending ∧ z ∉ s.granted := by
            by_cases hxr : x = r
            · have hyr : y ≠ r := fun e => hxy (hxr.trans e.symm)
              exact ⟨y, hsup y hy, fun m => hyn (mem_filter_ne.mpr ⟨m, hyr⟩)⟩
            · exact ⟨x, hsup x hx, fun m => hxn (mem_filter_ne.mpr ⟨m, hxr⟩)⟩
          have := h.room key
          omega
      · have hgc : s.granted.contains r = false := by simpa using hg
        simp only [hgc, Bool.false_and, Bool.false_eq_true, if_false]
        simp only [hg, if_false] at hlen
        apply sinv_stamp h _ _ hinv'
        · intro _; exact gsub
        · exact nodup_filter h.nodup _
        · intro _; rw [hq, hlen]; exact h.cap
        · intro _ ⟨x, hx, hxn⟩
          rw [hq, hlen]
          apply h.room
          refine ⟨x, hsup x hx, fun m => ?_⟩
          by_cases hxr : x = r
          · exact hg (hxr ▸ m)
          · exact hxn (mem_filter_ne.mpr ⟨m, hxr⟩)
  | writerOne =>
    simp only [sstep]
    cases hb : s.c.broken with
    | true =>
      have hc : Conn.step s.c .writerTake = s.c := by simp [Conn.step, hb]
      rw [hc]
      simp only [Nat.lt_irrefl, decide_false, Bool.false_and, Bool.false_eq_true, if_false]
      exact sinv_dead h s.granted _ h.inv hb
    | false =>
      obtain ⟨hs, hb', hq⟩ := writerTake_qs hb
      have hinv' : Inv (Conn.step s.c .writerTake) := h.inv.step _
      split
      · rename_i hlt
        simp only [Bool.and_eq_true, decide_eq_true_eq] at hlt
        have hlt := hlt.1
        rw [hq] at hlt
        have hql : s.c.queue.tail.length + 1 = s.c.queue.length := by
          cases hqq : s.c.queue with
          | nil => rw [hqq] at hlt; simp at hlt
          | cons a q => simp
        have : stamp s (Conn.step s.c .writerTake) = stamp { s with granted := s.granted } (Conn.step s.c .writerTake) := rfl
        rw [this]
        apply sinv_stamp_grant h s.granted _ hinv' hb'
        · intro x hx; rw [hs]; exact h.sub x hx
        · exact h.nodup
        · rw [hq]; have := h.cap; omega
        · rintro ⟨x, hx, hxn⟩
          rw [hs] at hx
          have := h.room ⟨x, hx, hxn⟩
          rw [hq]; omega
        · rintro ⟨x, y, _, hx, _, hxn, _⟩
          rw [hs] at hx
          have := h.room ⟨x, hx, hxn⟩
          rw [hq]; omega
      · rename_i hnlt
        have hqe : (Conn.step s.c .writerTake).queue = s.c.queue := by
          simp only [Bool.and_eq_true, decide_eq_true_eq, not_and, Bool.not_eq_true', Bool.not_eq_false] at hnlt
          rw [hq]
          cases hqq : s.c.queue with
          | nil => rfl
          | cons a q =>
            exfalso
            have h1 : (Conn.step s.c .writerTake).queue.length < s.c.queue.length := by rw [hq, hqq]; simp
            have := hnlt h1
            rw [hb'] at this; cases this
        exact sinv_same h _ hinv' (fun _ => ⟨hqe, hs⟩)
  | orphaner => exact sinv_other h _ (Or.inr (Or.inr (Or.inr (Or.inl rfl))))
  | respond i => exact sinv_other h _ (Or.inl ⟨i, rfl⟩)
  | unsolicited st => exact sinv_other h _ (Or.inr (Or.inl ⟨st, rfl⟩))
  | break_ k => exact sinv_other h _ (Or.inr (Or.inr (Or.inl ⟨k, rfl⟩)))
  | advance dt =>
    simp only [sstep]
    exact ⟨h.inv, h.sub, h.nodup, h.cap, h.room, h.keys, fun p hp => Nat.le_trans (h.le p hp) (Nat.le_add_right _ _), h.dead⟩
  | orphanTick =>
    simp only [sstep]
    split
    · exact h
    · split
      · exact sinv_other h _ (Or.inr (Or.inr (Or.inl ⟨_, rfl⟩)))
      · exact h

theorem SInv.run {s : Sched} (h : SInv s) (evs : List SEv) : SInv (srun s evs) := by
  unfold srun
  induction evs generalizing s with
  | nil => exact h
  | cons e rest ih => exact ih (h.step e)

/-! ### the orphan set has no duplicates; when it does not change, neither do the ages -/

theorem lookup_orphans_nodup (m : HMap) (s : Nat) (h : m.orphans.Nodup) : (m.lookup s).2.orphans.Nodup := by
  unfold HMap.lookup
  simp only
  split
  · exact nodup_filter h _
  · split <;> exact h

theorem orphan_orphans_nodup (m : HMap) (r : Nat) (h : m.orphans.Nodup) : (m.orphan r).orphans.Nodup := by
  unfold HMap.orphan
  split
  · exact h
  · rename_i s _
    simp only
    split
    · exact h
    · rename_i hc
      exact List.nodup_cons.mpr ⟨by simpa using hc, h⟩

theorem allocate_orphans (m m' : HMap) (r id : Nat) (h : m.allocate r = some (id, m')) : m'.orphans = m.orphans := by
  obtain ⟨ids', _, e⟩ := hallocate_some h
  rw [e]

theorem doBreak_orphans (c : Conn) (k : BreakKind) : (doBreak c k).map.orphans = [] := rfl

theorem step_orphans_nodup (c : Conn) (e : Ev) (h : c.map.orphans.Nodup) : (Conn.step c e).map.orphans.Nodup := by
  cases e with
  | submit => simp only [Conn.step]; split <;> exact h
  | submitFull => simp only [Conn.step]; split <;> exact h
  | enqueue r => simp only [Conn.step]; split <;> (try split) <;> exact h
  | submitRace => simp only [Conn.step]; split <;> exact h
  | push r => simp only [Conn.step]; split <;> (try split) <;> exact h
  | writerTake =>
    simp only [Conn.step]
    split
    · exact h
    · split
      · exact h
      · split
        · rename_i s map' ha
          show map'.orphans.Nodup
          rw [allocate_orphans _ _ _ _ ha]; exact h
        · exact h
  | cancel r => simp only [Conn.step]; split <;> exact h
  | orphanerStep =>
    simp only [Conn.step]
    split
    · exact h
    · split
      · exact h
      · exact orphan_orphans_nodup _ _ h
  | respond i =>
    simp only [Conn.step]
    split
    · exact h
    · split
      · exact h
      · rename_i s0 r0 _
        have hl := lookup_orphans_nodup c.map s0 h
        cases hlk : c.map.lookup s0 with
        | mk res m' =>
          rw [hlk] at hl
          cases res with
          | handler r' => exact hl
          | orphaned => exact hl
          | missing => rw [doBreak_orphans]; exact List.nodup_nil
  | unsolicited s =>
    simp only [Conn.step]
    split
    · exact h
    · split
      · exact h
      · split
        · exact h
        · have hl := lookup_orphans_nodup c.map s h
          cases hlk : c.map.lookup s with
          | mk res m' =>
            rw [hlk] at hl
            cases res with
            | handler r' => exact hl
            | orphaned => exact hl
            | missing => rw [doBreak_orphans]; exact List.nodup_nil
  | recv r => simp only [Conn.step]; split <;> exact h
  | break_ k =>
    simp only [Conn.step]
    split
    · exact h
    · rw [doBreak_orphans]; exact List.nodup_nil

/-- If the orphan set did not change, the ages do not change (what lets an implementation skip the recomputation). -/
theorem syncAges_same (ages : List (Nat × Nat)) (now : Nat) (hk : (ages.map (·.1)).Nodup) :
    syncAges (ages.map (·.1)) ages now = ages := by
  unfold syncAges
  rw [List.map_map]
  conv => rhs; rw [← List.map_id ages]
  apply List.map_congr_left
  intro p hp
  simp only [Function.comp, id]
  cases hf : ages.find? (fun q => q.1 == p.1) with
  | none =>
    have := List.find?_eq_none.mp hf p hp
    simp at this
  | some q =>
    have hq := List.mem_of_find?_eq_some hf
    have hqk : q.1 = p.1 := by simpa using List.find?_some hf
    simp only
    clear hf
    induction ages with
    | nil => cases hp
    | cons x rest ih =>
      simp only [List.map_cons, List.nodup_cons] at hk
      rcases List.mem_cons.mp hp with e1 | m1 <;> rcases List.mem_cons.mp hq with e2 | m2
      · rw [e1, e2]
      · exfalso; apply hk.1; rw [← e1, ← hqk]; exact List.mem_map.mpr ⟨q, m2, rfl⟩
      · exfalso; apply hk.1; rw [← e2, hqk]; exact List.mem_map.mpr ⟨p, m1, rfl⟩
      · exact ih hk.2 m1 m2

theorem grant1_c (s : Sched) : (grant1 s).c = s.c ∧ (grant1 s).ages = s.ages ∧ (grant1 s).clock = s.clock := by
  unfold grant1; split <;> exact ⟨rfl, rfl, rfl⟩

/-- Every scheduler event is one event of the connection (or none), and the ages are re-synchronised with the
orphan set of the resulting state (or untouched). -/
theorem sstep_shape (s : Sched) (e : SEv) :
    ((sstep s e).c = s.c ∨ ∃ e', (sstep s e).c = Conn.step s.c e') ∧
    ((sstep s e).ages = s.ages ∨ (sstep s e).ages = agesFor (sstep s e).c.map.orphans s.ages s.clock) := by
  cases e with
  | submit =>
    simp only [sstep]
    split
    · exact ⟨Or.inr ⟨.submitFull, rfl⟩, Or.inr rfl⟩
    · exact ⟨Or.inr ⟨.submit, rfl⟩, Or.inr rfl⟩
  | poll r =>
    simp only [sstep]
    split
    · exact ⟨Or.inr ⟨.enqueue r, rfl⟩, Or.inr rfl⟩
    · exact ⟨Or.inr ⟨.recv r, rfl⟩, Or.inr rfl⟩
  | cancel r =>
    simp only [sstep]
    split
    · obtain ⟨hc, ha, _⟩ := grant1_c (stamp { s with granted := s.granted.filter (· != r) } (Conn.step s.c (.cancel r)))
      rw [hc, ha]; exact ⟨Or.inr ⟨.cancel r, rfl⟩, Or.inr rfl⟩
    · exact ⟨Or.inr ⟨.cancel r, rfl⟩, Or.inr rfl⟩
  | writerOne =>
    simp only [sstep]
    split
    · obtain ⟨hc, ha, _⟩ := grant1_c (stamp s (Conn.step s.c .writerTake))
      rw [hc, ha]; exact ⟨Or.inr ⟨.writerTake, rfl⟩, Or.inr rfl⟩
    · exact ⟨Or.inr ⟨.writerTake, rfl⟩, Or.inr rfl⟩
  | orphaner => exact ⟨Or.inr ⟨.orphanerStep, rfl⟩, Or.inr rfl⟩
  | respond i => exact ⟨Or.inr ⟨.respond i, rfl⟩, Or.inr rfl⟩
  | unsolicited st => exact ⟨Or.inr ⟨.unsolicited st, rfl⟩, Or.inr rfl⟩
  | break_ k => exact ⟨Or.inr ⟨.break_ k, rfl⟩, Or.inr rfl⟩
  | advance dt => exact ⟨Or.inl rfl, Or.inl rfl⟩
  | orphanTick =>
    simp only [sstep]
    split
    · exact ⟨Or.inl rfl, Or.inl rfl⟩
    · split
      · exact ⟨Or.inr ⟨.break_ .tooManyOrphanedStreamIds, rfl⟩, Or.inr rfl⟩
      · exact ⟨Or.inl rfl, Or.inl rfl⟩

theorem orphans_nodup_run (evs : List SEv) : (srun Sched.init evs).c.map.orphans.Nodup := by
  have key : ∀ (evs : List SEv) (s : Sched), s.c.map.orphans.Nodup → (srun s evs).c.map.orphans.Nodup := by
    intro evs
    induction evs with
    | nil => intro s h; exact h
    | cons e rest ih =>
      intro s h
      apply ih
      rcases (sstep_shape s e).1 with hc | ⟨e', hc⟩
      · rw [hc]; exact h
      · rw [hc]; exact step_orphans_nodup _ _ h
  exact key evs _ List.nodup_nil

/-- When an event leaves the orphan set as it was, the ages are as they were. -/
theorem ages_same_of_orphans_same (s : Sched) (h : SInv s) (e : SEv)
    (ho : (sstep s e).c.map.orphans = s.c.map.orphans) : (sstep s e).ages = s.ages := by
  rcases (sstep_shape s e).2 with ha | ha
  · exact ha
  · rw [ha, ho, ← h.keys]
    unfold agesFor
    simp

/-- The skipped recomputation would have given the same: `agesFor` IS `syncAges` on every reachable state. -/
theorem agesFor_eq_syncAges (s : Sched) (h : SInv s) (hn : s.c.map.orphans.Nodup) (o : List Nat) :
    agesFor o s.ages s.clock = syncAges o s.ages s.clock := by
  unfold agesFor
  split
  · rename_i he
    have he := eq_of_beq he
    rw [he]
    exact (syncAges_same s.ages s.clock (by rw [h.keys]; exact hn)).symm
  · rfl

end ScyllaVerif.ConnSched

import ScyllaVerif.Model.Carrier
import ScyllaVerif.Proofs.CarrierStatic
/-
Helper lemmas for C17: the field walk of `serialize_udt` (`fitsUdt`: fields in type order, value looked up and
removed by name, left-over check) is the declarative rule "every field the value names exists in the type and
fits the type of the like-named field" (field names distinct on both sides).
-/
namespace ScyllaVerif.Proofs.CarrierUdt
open ScyllaVerif.Cql ScyllaVerif.Carrier

theorem lookupLast_none (n : String) : ∀ (m : List (String × RVal)), lookupLast n m = none ↔ ∀ p, p ∈ m → p.1 ≠ n
  | [] => by simp [lookupLast]
  | (k, v) :: r => by
    rw [lookupLast]
    cases h : lookupLast n r with
    | some x =>
      simp only [reduceCtorEq, false_iff]
      intro hall
      have := (lookupLast_none n r).mpr (fun p hp => hall p (by simp [hp]))
      rw [h] at this; cases this
    | none =>
      have hr := (lookupLast_none n r).mp h
      by_cases hk : k = n
      · subst hk
        simp only [if_true, reduceCtorEq, false_iff]
        intro hall; exact hall (k, v) (by simp) rfl
      · simp only [hk, if_false, true_iff]
        intro p hp
        rcases List.mem_cons.mp hp with rfl | hp
        · exact hk
        · exact hr p hp

theorem lookupLast_some_mem (n : String) : ∀ (m : List (String × RVal)) (v : RVal), lookupLast n m = some v → (n, v) ∈ m
  | [], v, h => by simp [lookupLast] at h
  | (k, a) :: r, v, h => by
    rw [lookupLast] at h
    cases hl : lookupLast n r with
    | some x =>
      simp only [hl, Option.some.injEq] at h; subst h
      exact List.mem_cons_of_mem _ (lookupLast_some_mem n r x hl)
    | none =>
      simp only [hl] at h
      by_cases hk : k = n
      · simp only [hk, if_true, Option.some.injEq] at h; subst h; subst hk; simp
      · simp [hk] at h

theorem mem_removeName (n : String) (m : List (String × RVal)) (p : String × RVal) :
    p ∈ removeName n m ↔ p ∈ m ∧ p.1 ≠ n := by
  simp [removeName, List.mem_filter]

theorem nodup_removeName (n : String) (m : List (String × RVal)) (h : (m.map (·.1)).Nodup) :
    ((removeName n m).map (·.1)).Nodup :=
  List.Nodup.sublist (List.Sublist.map _ List.filter_sublist) h

theorem nodup_unique : ∀ (m : List (String × RVal)) (k : String) (a b : RVal), (m.map (·.1)).Nodup →
    (k, a) ∈ m → (k, b) ∈ m → a = b
  | [], _, _, _, _, ha, _ => by simp at ha
  | (k', v) :: r, k, a, b, hnd, ha, hb => by
    simp only [List.map_cons, List.nodup_cons, List.mem_map, not_exists, not_and] at hnd
    rcases List.mem_cons.mp ha with ha | ha <;> rcases List.mem_cons.mp hb with hb | hb
    · cases ha; cases hb; rfl
    · cases ha; exact absurd rfl (hnd.1 (k', b) hb)
    · cases hb; exact absurd rfl (hnd.1 (k', a) ha)
    · exact nodup_unique r k a b hnd.2 ha hb

/-- The UDT field walk equals the declarative rule. -/
theorem fitsUdt_iff : ∀ (fields : List (String × CqlTy)) (m : List (String × RVal)),
    (fields.map (·.1)).Nodup → (m.map (·.1)).Nodup →
    (fitsUdt fields m = true ↔ ∀ p, p ∈ m → ∃ t, (p.1, t) ∈ fields ∧ fits t p.2 = true)
  | [], m, _, _ => by
    rw [fitsUdt]
    cases m with
    | nil => simp
    | cons p r =>
      simp only [List.isEmpty_cons, Bool.false_eq_true, false_iff]
      intro h
      obtain ⟨t, ht, _⟩ := h p (by simp)
      simp at ht
  | (n, t) :: rest, m, hf, hm => by
    have hf' : n ∉ rest.map (·.1) ∧ (rest.map (·.1)).Nodup := by simpa using hf
    rw [fitsUdt]
    cases hl : lookupLast n m with
    | none =>
      have hne := (lookupLast_none n m).mp hl
      simp only []
      rw [fitsUdt_iff rest m hf'.2 hm]
      constructor
      · intro h p hp
        obtain ⟨t', ht', hfit⟩ := h p hp
        exact ⟨t', List.mem_cons_of_mem _ ht', hfit⟩
      · intro h p hp
        obtain ⟨t', ht', hfit⟩ := h p hp
        rcases List.mem_cons.mp ht' with heq | hin
        · exact absurd (by cases heq; rfl) (hne p hp)
        · exact ⟨t', hin, hfit⟩
    | some v =>
      have hv := lookupLast_some_mem n m v hl
      simp only [Bool.and_eq_true]
      rw [fitsUdt_iff rest (removeName n m) hf'.2 (nodup_removeName n m hm)]
      constructor
      · rintro ⟨hfit, hrest⟩ p hp
        by_cases hpn : p.1 = n
        · have : p.2 = v := nodup_unique m n p.2 v hm (by rw [← hpn]; exact hp) hv
          exact ⟨t, by rw [hpn]; simp, by rw [this]; exact hfit⟩
        · obtain ⟨t', ht', hfit'⟩ := hrest p ((mem_removeName n m p).mpr ⟨hp, hpn⟩)
          exact ⟨t', List.mem_cons_of_mem _ ht', hfit'⟩
      · intro h
        constructor
        · obtain ⟨t', ht', hfit⟩ := h (n, v) hv
          rcases List.mem_cons.mp ht' with heq | hin
          · cases heq; exact hfit
          · exact absurd (List.mem_map.mpr ⟨(n, t'), hin, rfl⟩) hf'.1
        · intro p hp
          obtain ⟨hpm, hpn⟩ := (mem_removeName n m p).mp hp
          obtain ⟨t', ht', hfit⟩ := h p hpm
          rcases List.mem_cons.mp ht' with heq | hin
          · exact absurd (by cases heq; rfl) hpn
          · exact ⟨t', hin, hfit⟩

end ScyllaVerif.Proofs.CarrierUdt

import ScyllaVerif.Model.Codec
import ScyllaVerif.Proofs.Vint
/-!
Helper lemmas for C01, encoder side: the back-patching builder produces `length ++ content`, the
buffer-threading loops produce concatenations, hence `encImpl = buf ++ encSpec` by mutual structural
induction over `CqlTy` / `List CqlTy` / `List (String × CqlTy)`.
-/
namespace ScyllaVerif.Proofs.CodecEnc
open ScyllaVerif.Vint ScyllaVerif.Cql ScyllaVerif.Codec ScyllaVerif.Proofs.Vint

/-- Append the spec bytes to the buffer (errors unchanged). -/
def app (buf : Bytes) : Except SerErr Bytes → Except SerErr Bytes
  | .ok s => .ok (buf ++ s)
  | .error e => .error e

@[simp] theorem app_ok (buf s : Bytes) : app buf (.ok s) = .ok (buf ++ s) := rfl
@[simp] theorem app_error (buf : Bytes) (e : SerErr) : app buf (.error e) = .error e := rfl

theorem app_nil (r : Except SerErr Bytes) : app [] r = r := by
  cases r with
  | ok s => rfl
  | error e => rfl

theorem be32_length (n : Nat) : (be32 n).length = 4 := beBytes_length 4 n

theorem placeholder_length : placeholder.length = 4 := rfl

/-- `CellValueBuilder::new` … `append`* … `finish` = `frame`: the placeholder is overwritten by the
length of exactly what was appended after it. -/
theorem builder_frame (ws : Bool) (buf body : Bytes) :
    builderFinish ws buf.length (builderNew ws buf ++ body) = app buf (frame ws body) := by
  cases ws with
  | false => simp [builderFinish, builderNew, frame]
  | true =>
    simp only [builderFinish, builderNew, frame, if_true]
    have hlen : (buf ++ placeholder ++ body).length - buf.length - 4 = body.length := by
      simp [List.length_append, placeholder_length]
    rw [hlen]
    by_cases h : body.length > i32Max
    · simp [h]
    · simp only [h, if_false, app_ok]
      congr 1
      have h1 : (buf ++ placeholder ++ body).take buf.length = buf := by
        rw [List.append_assoc, List.take_left']
        rfl
      have h2 : (buf ++ placeholder ++ body).drop (buf.length + 4) = body := by
        have : buf.length + 4 = (buf ++ placeholder).length := by simp [placeholder_length]
        rw [this, List.drop_left']
        rfl
      rw [h1, h2, List.append_assoc]

theorem setValue_frame (ws : Bool) (body buf : Bytes) :
    setValue ws body buf = app buf (frameChecked ws body) := by
  unfold setValue frameChecked
  by_cases h : body.length > i32Max
  · simp [h]
  · cases ws <;> simp [h, List.append_assoc]

/-- The sequential loop over one buffer is the concatenation of the element encodings. -/
theorem foldEnc_concat {α : Type} (f : α → Bytes → Except SerErr Bytes) (g : α → Except SerErr Bytes)
    (vs : List α) :
    (∀ v, v ∈ vs → g v ≠ .error .bareNullInVector → ∀ b, f v b = app b (g v)) →
    concatEnc g vs ≠ .error .bareNullInVector →
    ∀ buf, foldEnc f vs buf = app buf (concatEnc g vs) := by
  induction vs with
  | nil => intro _ _ buf; simp [foldEnc, concatEnc]
  | cons v vs ih =>
    intro hf hne buf
    have hv : g v ≠ .error .bareNullInVector := by
      intro h; apply hne; simp [concatEnc, h]
    have hfv := hf v (List.mem_cons_self) hv buf
    simp only [foldEnc, concatEnc, hfv]
    cases hg : g v with
    | error e => simp
    | ok s =>
      simp only [app_ok]
      have hne' : concatEnc g vs ≠ .error .bareNullInVector := by
        intro h; apply hne; simp [concatEnc, hg, h]
      rw [ih (fun w hw => hf w (List.mem_cons_of_mem _ hw)) hne' (buf ++ s)]
      cases concatEnc g vs with
      | error e => simp
      | ok r => simp [List.append_assoc]

/-- The statement proved for every type by mutual induction. -/
def Agree (t : CqlTy) : Prop :=
  ∀ (v : CqlVal) (ws : Bool) (buf : Bytes), encSpec t v ws ≠ .error .bareNullInVector →
    encImpl t v ws buf = app buf (encSpec t v ws)

def AgreeTuple (ts : List CqlTy) : Prop :=
  ∀ (fs : List CqlVal) (buf : Bytes), encTupleSpec ts fs ≠ .error .bareNullInVector →
    encTupleImpl ts fs buf = app buf (encTupleSpec ts fs)

/-- UDT field loop: same bytes and same left-over map. -/
def AgreeUdt (fields : List (String × CqlTy)) : Prop :=
  ∀ (m : List (String × CqlVal)) (buf : Bytes), encUdtSpec fields m ≠ .error .bareNullInVector →
    encUdtImpl fields m buf =
      (match encUdtSpec fields m with
       | .ok (s, l) => .ok (buf ++ s, l)
       | .error e => .error e)

theorem scalar_agree (acc : List NativeTy) (body : Bytes) (viaB : Bool) (t : CqlTy) (ws : Bool) (buf : Bytes) :
    encScalarImpl acc body viaB t ws buf = app buf (encScalarSpec acc body viaB t ws) := by
  unfold encScalarImpl encScalarSpec
  cases t with
  | native n =>
    by_cases hc : n ∈ acc
    · cases viaB
      · simp [hc, setValue_frame]
      · simp [hc, builder_frame]
    · simp [hc]
  | _ => simp

/-- A sequence framed by a builder: shared by list / set / vector / map / tuple / UDT. -/
theorem framed_loop (ws : Bool) (buf pre : Bytes) (loop : Bytes → Except SerErr Bytes)
    (cells : Except SerErr Bytes)
    (hloop : loop (builderNew ws buf ++ pre) = app (builderNew ws buf ++ pre) cells) :
    (match loop (builderNew ws buf ++ pre) with
     | .error e => .error e
     | .ok b => builderFinish ws buf.length b) =
    app buf (match cells with
      | .error e => .error e
      | .ok c => frame ws (pre ++ c)) := by
  cases cells with
  | error e => simp [hloop]
  | ok c =>
    simp only [hloop, app_ok]
    rw [List.append_assoc, builder_frame]


theorem pair_agree (fk fv : CqlVal → Bytes → Except SerErr Bytes) (gk gv : CqlVal → Except SerErr Bytes)
    (kv : CqlVal × CqlVal)
    (hk : gk kv.1 ≠ .error .bareNullInVector → ∀ b, fk kv.1 b = app b (gk kv.1))
    (hv : gv kv.2 ≠ .error .bareNullInVector → ∀ b, fv kv.2 b = app b (gv kv.2))
    (hne : pairSpec gk gv kv ≠ .error .bareNullInVector) (b : Bytes) :
    pairImpl fk fv kv b = app b (pairSpec gk gv kv) := by
  unfold pairImpl
  unfold pairSpec at hne ⊢
  have hk' : gk kv.1 ≠ .error .bareNullInVector := by
    intro h; apply hne; simp [h]
  rw [hk hk']
  cases hks : gk kv.1 with
  | error e => simp
  | ok kb =>
    simp only [app_ok]
    have hv' : gv kv.2 ≠ .error .bareNullInVector := by
      intro h; apply hne; simp [hks, h]
    rw [hv hv']
    cases gv kv.2 with
    | error e => simp
    | ok vb => simp [List.append_assoc]

theorem varElem_agree (f : CqlVal → Bytes → Except SerErr Bytes) (g : CqlVal → Except SerErr Bytes)
    (v : CqlVal) (hf : g v ≠ .error .bareNullInVector → ∀ b, f v b = app b (g v))
    (hne : varElemSpec g v ≠ .error .bareNullInVector) (b : Bytes) :
    varElemImpl f v b = app b (varElemSpec g v) := by
  unfold varElemImpl
  unfold varElemSpec at hne ⊢
  have he : g v ≠ .error .bareNullInVector := by
    intro h; apply hne; simp [h]
  rw [hf he, app_nil]
  cases g v with
  | error e => simp
  | ok eb => simp [List.append_assoc]

/-- Closes the four non-recursive views (null, unset, empty, scalar) of `agree`. -/
macro "flat_views" : tactic => `(tactic| first
  | (rename_i ws0 _ _; cases ws0 <;> simp_all [setNull, setUnset]; done)
  | (simp_all [setNull, setUnset]; done)
  | (split <;> simp_all [setValue_frame]; done)
  | (simp only [scalar_agree]; done))

mutual
theorem agree : ∀ t : CqlTy, Agree t
  | .native n => by
    intro v ws buf hne
    rw [encSpec] at hne
    rw [encImpl, encSpec]
    generalize viewOf v = w at hne ⊢
    cases w with
    | null => cases ws <;> simp_all [setNull]
    | unset => cases ws <;> simp_all [setUnset]
    | empty => simp only [setValue_frame]; split <;> rfl
    | scalar acc body viaB => simp only [scalar_agree]
    | _ => simp
  | .list elt => by
    intro v ws buf hne
    rw [encSpec] at hne
    rw [encImpl, encSpec]
    generalize viewOf v = w at hne ⊢
    cases w with
    | null => cases ws <;> simp_all [setNull]
    | unset => cases ws <;> simp_all [setUnset]
    | empty => simp only [setValue_frame]; split <;> rfl
    | scalar acc body viaB => simp only [scalar_agree]
    | seq vs =>
      simp only at hne ⊢
      by_cases hlen : vs.length > i32Max
      · simp [hlen]
      · simp only [hlen, if_false] at hne ⊢
        have hc : concatEnc (fun v => encSpec elt v true) vs ≠ .error .bareNullInVector := by
          intro h; apply hne; simp [h]
        have hl := foldEnc_concat (fun v b => encImpl elt v true b) (fun v => encSpec elt v true) vs
          (fun v _ hv b => agree elt v true b hv) hc
        simp only [hl]
        cases concatEnc (fun v => encSpec elt v true) vs with
        | error e => simp
        | ok c => simp only [app_ok]; rw [List.append_assoc, builder_frame]
    | _ => simp
  | .set elt => by
    intro v ws buf hne
    rw [encSpec] at hne
    rw [encImpl, encSpec]
    generalize viewOf v = w at hne ⊢
    cases w with
    | null => cases ws <;> simp_all [setNull]
    | unset => cases ws <;> simp_all [setUnset]
    | empty => simp only [setValue_frame]; split <;> rfl
    | scalar acc body viaB => simp only [scalar_agree]
    | seq vs =>
      simp only at hne ⊢
      by_cases hlen : vs.length > i32Max
      · simp [hlen]
      · simp only [hlen, if_false] at hne ⊢
        have hc : concatEnc (fun v => encSpec elt v true) vs ≠ .error .bareNullInVector := by
          intro h; apply hne; simp [h]
        have hl := foldEnc_concat (fun v b => encImpl elt v true b) (fun v => encSpec elt v true) vs
          (fun v _ hv b => agree elt v true b hv) hc
        simp only [hl]
        cases concatEnc (fun v => encSpec elt v true) vs with
        | error e => simp
        | ok c => simp only [app_ok]; rw [List.append_assoc, builder_frame]
    | _ => simp
  | .map kt vt => by
    intro v ws buf hne
    rw [encSpec] at hne
    rw [encImpl, encSpec]
    generalize viewOf v = w at hne ⊢
    cases w with
    | null => cases ws <;> simp_all [setNull]
    | unset => cases ws <;> simp_all [setUnset]
    | empty => simp only [setValue_frame]; split <;> rfl
    | scalar acc body viaB => simp only [scalar_agree]
    | map kvs =>
      simp only at hne ⊢
      by_cases hlen : kvs.length > i32Max
      · simp [hlen]
      · simp only [hlen, if_false] at hne ⊢
        have hc : concatEnc (pairSpec (fun k => encSpec kt k true) (fun v => encSpec vt v true)) kvs ≠
            .error .bareNullInVector := by
          intro h; apply hne; simp [h]
        have hl := foldEnc_concat (pairImpl (fun k b => encImpl kt k true b) (fun v b => encImpl vt v true b))
          (pairSpec (fun k => encSpec kt k true) (fun v => encSpec vt v true)) kvs
          (fun kv _ hv b => pair_agree _ _ _ _ kv (fun h b => agree kt kv.1 true b h)
            (fun h b => agree vt kv.2 true b h) hv b) hc
        simp only [hl]
        cases concatEnc (pairSpec (fun k => encSpec kt k true) (fun v => encSpec vt v true)) kvs with
        | error e => simp
        | ok c => simp only [app_ok]; rw [List.append_assoc, builder_frame]
    | _ => simp
  | .tuple ts => by
    intro v ws buf hne
    rw [encSpec] at hne
    rw [encImpl, encSpec]
    generalize viewOf v = w at hne ⊢
    cases w with
    | null => cases ws <;> simp_all [setNull]
    | unset => cases ws <;> simp_all [setUnset]
    | empty => simp only [setValue_frame]; split <;> rfl
    | scalar acc body viaB => simp only [scalar_agree]
    | tuple fs =>
      simp only at hne ⊢
      by_cases hlen : ts.length < fs.length
      · simp [hlen]
      · simp only [hlen, if_false] at hne ⊢
        have hc : encTupleSpec ts fs ≠ .error .bareNullInVector := by
          intro h; apply hne; simp [h]
        rw [agreeTuple ts fs _ hc]
        cases encTupleSpec ts fs with
        | error e => simp
        | ok c => simp only [app_ok]; rw [builder_frame]
    | _ => simp
  | .udt dks dname fields => by
    intro v ws buf hne
    rw [encSpec] at hne
    rw [encImpl, encSpec]
    generalize viewOf v = w at hne ⊢
    cases w with
    | null => cases ws <;> simp_all [setNull]
    | unset => cases ws <;> simp_all [setUnset]
    | empty => simp only [setValue_frame]; split <;> rfl
    | scalar acc body viaB => simp only [scalar_agree]
    | udt ks name fs =>
      simp only at hne ⊢
      by_cases hn : (decide (ks ≠ dks) || decide (name ≠ dname)) = true
      · rw [if_pos hn, if_pos hn]; rfl
      · rw [if_neg hn] at hne
        rw [if_neg hn, if_neg hn]
        have hc : encUdtSpec fields fs ≠ .error .bareNullInVector := by
          intro h; apply hne; simp [h]
        rw [agreeUdt fields fs _ hc]
        cases encUdtSpec fields fs with
        | error e => simp
        | ok r =>
          obtain ⟨c, l⟩ := r
          simp only
          by_cases hl : (!l.isEmpty) = true
          · rw [if_pos hl, if_pos hl]; rfl
          · rw [if_neg hl, if_neg hl, builder_frame]
    | _ => simp
  | .vector elt dim => by
    intro v ws buf hne
    rw [encSpec] at hne
    rw [encImpl, encSpec]
    generalize viewOf v = w at hne ⊢
    cases w with
    | null => cases ws <;> simp_all [setNull]
    | unset => cases ws <;> simp_all [setUnset]
    | empty => simp only [setValue_frame]; split <;> rfl
    | scalar acc body viaB => simp only [scalar_agree]
    | seq vs =>
      simp only at hne ⊢
      by_cases hlen : vs.length ≠ dim
      · simp [hlen]
      · simp only [hlen, if_false] at hne ⊢
        cases hs : elt.sizeForVector with
        | some sz =>
          simp only [hs] at hne ⊢
          have hc : concatEnc (fun v => encSpec elt v false) vs ≠ .error .bareNullInVector := by
            intro h; apply hne; simp [h]
          have hl := foldEnc_concat (fun v b => encImpl elt v false b) (fun v => encSpec elt v false) vs
            (fun v _ hv b => agree elt v false b hv) hc
          simp only [hl]
          cases concatEnc (fun v => encSpec elt v false) vs with
          | error e => simp
          | ok c => simp only [app_ok]; rw [builder_frame]
        | none =>
          simp only [hs] at hne ⊢
          have hc : concatEnc (varElemSpec (fun v => encSpec elt v false)) vs ≠ .error .bareNullInVector := by
            intro h; apply hne; simp [h]
          have hl := foldEnc_concat (varElemImpl (fun v b => encImpl elt v false b))
            (varElemSpec (fun v => encSpec elt v false)) vs
            (fun v _ hv b => varElem_agree _ _ v (fun h b => agree elt v false b h) hv b) hc
          simp only [hl]
          cases concatEnc (varElemSpec (fun v => encSpec elt v false)) vs with
          | error e => simp
          | ok c => simp only [app_ok]; rw [builder_frame]
    | _ => simp
theorem agreeTuple : ∀ ts : List CqlTy, AgreeTuple ts
  | [] => by intro fs buf _; simp [encTupleImpl, encTupleSpec]
  | t :: ts => by
    intro fs buf hne
    cases fs with
    | nil => simp [encTupleImpl, encTupleSpec]
    | cons f fs =>
      rw [encTupleSpec] at hne
      rw [encTupleImpl, encTupleSpec]
      have h1 : encSpec t f true ≠ .error .bareNullInVector := by
        intro h; apply hne; simp [h]
      rw [agree t f true buf h1]
      cases h1s : encSpec t f true with
      | error e => simp
      | ok c =>
        simp only [app_ok]
        have h2 : encTupleSpec ts fs ≠ .error .bareNullInVector := by
          intro h; apply hne; simp [h1s, h]
        rw [agreeTuple ts fs _ h2]
        cases encTupleSpec ts fs with
        | error e => simp
        | ok r => simp [List.append_assoc]
theorem agreeUdt : ∀ fields : List (String × CqlTy), AgreeUdt fields
  | [] => by intro m buf _; simp [encUdtImpl, encUdtSpec]
  | (n, t) :: rest => by
    intro m buf hne
    rw [encUdtSpec] at hne
    rw [encUdtImpl, encUdtSpec]
    cases hl : lookupLast n m with
    | none =>
      simp only [hl] at hne ⊢
      have h2 : encUdtSpec rest m ≠ .error .bareNullInVector := by
        intro h; apply hne; simp [h]
      rw [agreeUdt rest m _ h2]
      cases encUdtSpec rest m with
      | error e => simp
      | ok r => obtain ⟨c, l⟩ := r; simp [setNull, List.append_assoc]
    | some v =>
      simp only [hl] at hne ⊢
      have h1 : encSpec t v true ≠ .error .bareNullInVector := by
        intro h; apply hne; simp [h]
      rw [agree t v true buf h1]
      cases h1s : encSpec t v true with
      | error e => simp
      | ok c =>
        simp only [app_ok]
        have h2 : encUdtSpec rest (removeName n m) ≠ .error .bareNullInVector := by
          intro h; apply hne; simp [h1s, h]
        rw [agreeUdt rest _ _ h2]
        cases encUdtSpec rest (removeName n m) with
        | error e => simp
        | ok r => obtain ⟨c', l⟩ := r; simp [List.append_assoc]
end

end ScyllaVerif.Proofs.CodecEnc

/-
Inductive invariant of the merge-channel transition system (`Model/MergeChannel.lean`) and its preservation by
every action; `Props/C19.lean` derives the property theorems from it.
-/
import ScyllaVerif.Model.MergeChannel

namespace ScyllaVerif.MergeChannel

@[simp] theorem flat_nil : flat [] = [] := rfl

theorem flat_append (a b : List (Option (List Nat))) : flat (a ++ b) = flat a ++ flat b := by
  induction a with
  | nil => rfl
  | cons h t ih => cases h <;> simp [flat, ih]

@[simp] theorem flat_snoc_some (a : List (Option (List Nat))) (v : List Nat) :
    flat (a ++ [some v]) = flat a ++ v := by simp [flat_append, flat]

@[simp] theorem flat_snoc_none (a : List (Option (List Nat))) : flat (a ++ [none]) = flat a := by
  simp [flat_append, flat]

@[simp] theorem applyPush_isSome (slot : Option (List Nat)) (x : Nat) : (applyPush slot x).isSome = true := by
  cases slot <;> rfl

@[simp] theorem applyPush_getD (slot : Option (List Nat)) (x : Nat) :
    (applyPush slot x).getD [] = slot.getD [] ++ [x] := by
  cases slot <;> rfl

/-- The consumer will execute `take()` before it can park. -/
def onWayToTake : RPc → Bool
  | .loopTop | .enable | .take1 | .take2 => true
  | _ => false

/-- 1 while a `modify` has applied `f` but not yet returned `Ok`. -/
def applied : SPc → Nat
  | .modNotify _ => 1
  | _ => 0

/-- Number of `modify` calls that returned `Ok`. -/
def okCount (sends : List Bool) : Nat := (sends.filter id).length

@[simp] theorem okCount_snoc_true (l : List Bool) : okCount (l ++ [true]) = okCount l + 1 := by
  simp [okCount, List.filter_append]

@[simp] theorem okCount_snoc_false (l : List Bool) : okCount (l ++ [false]) = okCount l := by
  simp [okCount, List.filter_append]

/-- Which `Notified` states are possible at which program point of `recv`. -/
def futOk : RPc → Fut → Bool
  | .idle, f | .created, f | .loopTop, f | .gone, f => f == .absent
  | .enable, f => f == .init
  | .parked, f => f == .waiting
  | _, f => f == .waiting || f == .done

structure Inv (s : State) : Prop where
  /-- received ++ in flight ++ slot = merged: nothing lost, nothing duplicated, order kept. -/
  data : flat s.received ++ inflight s ++ slotContents s = s.merged
  tie : s.waiter = .none ↔ s.fut ≠ .waiting
  futPc : futOk s.rpc s.fut = true
  regNoPermit : ∀ w, s.waiter = .registered w → s.permit = false
  parkedWaker : s.rpc = .parked → s.waiter = .registered true ∨ s.waiter = .notified
  wokenInv : s.rpc = .parked → s.waiter = .notified → s.woken = true
  /-- a value in the slot is always signalled, unless the consumer is on its way to `take()` anyway. -/
  signal : s.slot.isSome = true →
    s.permit = true ∨ s.waiter = .notified ∨ s.spc = .modNotify true ∨ onWayToTake s.rpc = true
  /-- a consumer that read `sender_dropped = false` and waits is signalled when the sender drops. -/
  dropSignal : s.senderDropped = true → (s.rpc = .await ∨ s.rpc = .parked) →
    s.waiter = .notified ∨ s.permit = true ∨ s.spc = .dropNotify
  sdFlag : s.senderDropped = true ↔ (s.spc = .dropNotify ∨ s.spc = .gone)
  rdFlag : s.receiverDropped = true ↔ s.rpc = .gone
  take2Flag : s.rpc = .take2 → s.senderDropped = true
  retNone : (s.rpc = .ret none ∨ none ∈ s.received) → s.senderDropped = true ∧ s.slot = none
  slotNe : ∀ v, s.slot = some v → v ≠ []
  retNe : ∀ v, s.rpc = .ret (some v) → v ≠ []
  recvNe : ∀ v, some v ∈ s.received → v ≠ []

theorem inv_init : Inv init := by
  constructor <;> simp [init, inflight, slotContents, futOk]

theorem applyPush_ne_nil {slot : Option (List Nat)} {x : Nat} {v : List Nat}
    (h : applyPush slot x = some v) : v ≠ [] := by
  cases slot <;> simp [applyPush] at h <;> subst h <;> simp

theorem inv_sStep (s : State) (h : Inv s) : Inv (sStep s) := by
  obtain ⟨data, tie, futPc, regNoPermit, parkedWaker, wokenInv, signal, dropSignal, sdFlag, rdFlag, take2Flag, retNone, slotNe, retNe, recvNe⟩ := h
  unfold sStep
  split
  · -- modStart
    split
    · constructor <;> simp_all [inflight, slotContents]
    · constructor <;> simp_all [inflight, slotContents]
  · -- modLock
    constructor <;> simp_all [inflight, slotContents]
    · rw [← data]; simp [List.append_assoc]
    · intro v hv; exact applyPush_ne_nil hv
  · -- modNotify
    split
    · unfold notifyOne
      split <;> constructor <;> simp_all [inflight, slotContents]
    · constructor <;> simp_all [inflight, slotContents]
  · constructor <;> simp_all [inflight, slotContents]
  · unfold notifyOne
    split <;> constructor <;> simp_all [inflight, slotContents]
  · exact ⟨data, tie, futPc, regNoPermit, parkedWaker, wokenInv, signal, dropSignal, sdFlag, rdFlag, take2Flag, retNone, slotNe, retNe, recvNe⟩
  · exact ⟨data, tie, futPc, regNoPermit, parkedWaker, wokenInv, signal, dropSignal, sdFlag, rdFlag, take2Flag, retNone, slotNe, retNe, recvNe⟩

theorem inv_awaitStep (s : State) (h : Inv s) (hp : s.rpc = .await ∨ s.rpc = .parked) : Inv (awaitStep s) := by
  obtain ⟨data, tie, futPc, regNoPermit, parkedWaker, wokenInv, signal, dropSignal, sdFlag, rdFlag, take2Flag, retNone, slotNe, retNe, recvNe⟩ := h
  unfold awaitStep pollReady pollNotified dropNotified
  cases hf : s.fut <;> cases hw : s.waiter <;> rcases hp with hp | hp <;>
    simp_all [futOk] <;> constructor <;> simp_all [inflight, slotContents, futOk, onWayToTake]

theorem inv_rStep (s : State) (h : Inv s) : Inv (rStep s) := by
  obtain ⟨data, tie, futPc, regNoPermit, parkedWaker, wokenInv, signal, dropSignal, sdFlag, rdFlag, take2Flag, retNone, slotNe, retNe, recvNe⟩ := h
  unfold rStep
  split
  · -- created
    constructor <;> simp_all [inflight, slotContents, futOk, onWayToTake]
  · -- loopTop
    constructor <;> simp_all [inflight, slotContents, futOk, onWayToTake]
  · -- enable
    unfold enableFut
    split <;> constructor <;> simp_all [inflight, slotContents, futOk, onWayToTake]
  · -- take1
    split <;> constructor <;> simp_all [inflight, slotContents, futOk, onWayToTake]
  · -- loadFlag
    split <;> constructor <;> simp_all [inflight, slotContents, futOk, onWayToTake]
  · -- take2
    cases hs : s.slot <;> constructor <;> simp_all [inflight, slotContents, futOk, onWayToTake]
  · -- ret
    rename_i v hv
    unfold dropNotified
    rcases v with _ | v <;> split <;> (try split) <;> constructor <;>
      simp_all [inflight, slotContents, futOk, onWayToTake] <;> grind
  · exact inv_awaitStep s ⟨data, tie, futPc, regNoPermit, parkedWaker, wokenInv, signal, dropSignal, sdFlag, rdFlag, take2Flag, retNone, slotNe, retNe, recvNe⟩ (Or.inl ‹_›)
  · exact inv_awaitStep s ⟨data, tie, futPc, regNoPermit, parkedWaker, wokenInv, signal, dropSignal, sdFlag, rdFlag, take2Flag, retNone, slotNe, retNe, recvNe⟩ (Or.inr ‹_›)
  · exact ⟨data, tie, futPc, regNoPermit, parkedWaker, wokenInv, signal, dropSignal, sdFlag, rdFlag, take2Flag, retNone, slotNe, retNe, recvNe⟩
  · exact ⟨data, tie, futPc, regNoPermit, parkedWaker, wokenInv, signal, dropSignal, sdFlag, rdFlag, take2Flag, retNone, slotNe, retNe, recvNe⟩

theorem inv_cancel (s : State) (h : Inv s) : Inv (cancel s) := by
  obtain ⟨data, tie, futPc, regNoPermit, parkedWaker, wokenInv, signal, dropSignal, sdFlag, rdFlag, take2Flag, retNone, slotNe, retNe, recvNe⟩ := h
  unfold cancel
  split
  · constructor <;> simp_all [inflight, slotContents, futOk, onWayToTake]
  · unfold dropNotified
    split <;> (try split) <;> constructor <;> simp_all [inflight, slotContents, futOk, onWayToTake]
  · exact ⟨data, tie, futPc, regNoPermit, parkedWaker, wokenInv, signal, dropSignal, sdFlag, rdFlag, take2Flag, retNone, slotNe, retNe, recvNe⟩

theorem inv_step (s : State) (a : Act) (h : Inv s) : Inv (step s a) := by
  cases a with
  | sStep => exact inv_sStep s h
  | rStep => exact inv_rStep s h
  | cancel => exact inv_cancel s h
  | callModify x =>
    by_cases hc : s.spc = .idle
    · obtain ⟨data, tie, futPc, regNoPermit, parkedWaker, wokenInv, signal, dropSignal, sdFlag, rdFlag, take2Flag, retNone, slotNe, retNe, recvNe⟩ := h
      simp only [step, hc, if_true]
      constructor <;> simp_all [inflight, slotContents, futOk, onWayToTake]
    · simp only [step, hc, if_false]; exact h
  | callDropSender =>
    by_cases hc : s.spc = .idle
    · obtain ⟨data, tie, futPc, regNoPermit, parkedWaker, wokenInv, signal, dropSignal, sdFlag, rdFlag, take2Flag, retNone, slotNe, retNe, recvNe⟩ := h
      simp only [step, hc, if_true]
      constructor <;> simp_all [inflight, slotContents, futOk, onWayToTake]
    · simp only [step, hc, if_false]; exact h
  | callRecv =>
    by_cases hc : s.rpc = .idle
    · obtain ⟨data, tie, futPc, regNoPermit, parkedWaker, wokenInv, signal, dropSignal, sdFlag, rdFlag, take2Flag, retNone, slotNe, retNe, recvNe⟩ := h
      simp only [step, hc, if_true]
      constructor <;> simp_all [inflight, slotContents, futOk, onWayToTake]
    · simp only [step, hc, if_false]; exact h
  | callDropReceiver =>
    by_cases hc : s.rpc = .idle
    · obtain ⟨data, tie, futPc, regNoPermit, parkedWaker, wokenInv, signal, dropSignal, sdFlag, rdFlag, take2Flag, retNone, slotNe, retNe, recvNe⟩ := h
      simp only [step, hc, if_true]
      constructor <;> simp_all [inflight, slotContents, futOk, onWayToTake]
    · simp only [step, hc, if_false]; exact h

theorem inv_run (s : State) (acts : List Act) (h : Inv s) : Inv (run s acts) := by
  induction acts generalizing s with
  | nil => exact h
  | cons a rest ih => exact ih (step s a) (inv_step s a h)

/-- The invariant holds in every state reachable by any interleaving of the atomic steps. -/
theorem inv_reachable (acts : List Act) : Inv (run init acts) := inv_run init acts inv_init

/-! ### second invariant: `Ok` results of `modify` ↔ applied updates -/

/-- Every `Ok` returned by `modify` stands for exactly one applied update, and vice versa (a `modify` that has
applied `f` and not yet returned counts through `applied`). -/
def SendsInv (s : State) : Prop := okCount s.sends + applied s.spc = s.merged.length

theorem rStep_sender_fields (s : State) :
    (rStep s).sends = s.sends ∧ (rStep s).merged = s.merged ∧ (rStep s).spc = s.spc := by
  unfold rStep
  split
  · simp
  · simp
  · unfold enableFut; split <;> simp
  · split <;> simp
  · split <;> simp
  · simp
  · unfold dropNotified; split <;> (try split) <;> simp
  · unfold awaitStep pollNotified dropNotified enableFut
    split <;> split <;> (try split) <;> (try split) <;> (try split) <;> simp
  · unfold awaitStep pollNotified dropNotified enableFut
    split <;> split <;> (try split) <;> (try split) <;> (try split) <;> simp
  · simp
  · simp

theorem cancel_sender_fields (s : State) :
    (cancel s).sends = s.sends ∧ (cancel s).merged = s.merged ∧ (cancel s).spc = s.spc := by
  unfold cancel
  split
  · simp
  · unfold dropNotified; split <;> (try split) <;> simp
  · simp

theorem sendsInv_step (s : State) (a : Act) (h : SendsInv s) : SendsInv (step s a) := by
  unfold SendsInv at *
  cases a with
  | callModify x => simp only [step]; split <;> simp_all [applied]
  | callDropSender => simp only [step]; split <;> simp_all [applied]
  | callRecv => simp only [step]; split <;> simp_all [applied]
  | callDropReceiver => simp only [step]; split <;> simp_all [applied]
  | cancel => obtain ⟨h1, h2, h3⟩ := cancel_sender_fields s; simp only [step]; rw [h1, h2, h3]; exact h
  | rStep => obtain ⟨h1, h2, h3⟩ := rStep_sender_fields s; simp only [step]; rw [h1, h2, h3]; exact h
  | sStep =>
    simp only [step, sStep]
    split
    · split <;> simp_all [applied]
    · rename_i x hx; rw [hx] at h; simp [applied] at h ⊢; omega
    · rename_i has hx; rw [hx] at h; simp only [applied] at h
      split
      · unfold notifyOne; split <;> simp [applied] <;> omega
      · simp [applied]; omega
    · simp_all [applied]
    · unfold notifyOne; split <;> simp_all [applied]
    · exact h
    · exact h

theorem sendsInv_reachable (acts : List Act) : SendsInv (run init acts) := by
  have : ∀ (acts : List Act) (s : State), SendsInv s → SendsInv (run s acts) := by
    intro acts
    induction acts with
    | nil => intro s h; exact h
    | cons a rest ih => intro s h; exact ih (step s a) (sendsInv_step s a h)
  exact this acts init (by simp [SendsInv, init, okCount, applied])

end ScyllaVerif.MergeChannel

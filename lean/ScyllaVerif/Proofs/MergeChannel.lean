/-
Inductive invariant of the merge-channel transition system (`Model/MergeChannel.lean`) and its preservation by
every action; `Props/C19.lean` derives the property theorems from it.
-/
import ScyllaVerif.Model.MergeChannel

namespace ScyllaVerif.MergeChannel

@[simp] theorem flat_nil : flat [] = [] := rfl

theorem flat_append (a b : List (Option (List Nat))) : flat (a ++ b) = flat a ++ flat b := by
  induction a with
  | nil => rfl
  | cons h t ih => cases h <;> simp [flat, ih]

@[simp] theorem flat_snoc_some (a : List (Option (List Nat))) (v : List Nat) :
    flat (a ++ [some v]) = flat a ++ v := by simp [flat_append, flat]

@[simp] theorem flat_snoc_none (a : List (Option (List Nat))) : flat (a ++ [none]) = flat a := by
  simp [flat_append, flat]

@[simp] theorem applyPush_isSome (slot : Option (List Nat)) (x : Nat) : (applyPush slot x).isSome = true := by
  cases slot <;> rfl

@[simp] theorem applyPush_getD (slot : Option (List Nat)) (x : Nat) :
    (applyPush slot x).getD [] = slot.getD [] ++ [x] := by
  cases slot <;> rfl

/-- The consumer will execute `take()` before it can park. -/
def onWayToTake : RPc → Bool
  | .loopTop | .enable | .take1 | .take2 => true
  | _ => false

/-- Which `Notified` states are possible at which program point of `recv`. -/
def futOk : RPc → Fut → Bool
  | .idle, f | .created, f | .loopTop, f | .gone, f => f == .absent
  | .enable, f => f == .init
  | .parked, f => f == .waiting
  | _, f => f == .waiting || f == .done

structure Inv (s : State) : Prop where
  /-- received ++ in flight ++ slot = merged: nothing lost, nothing duplicated, order kept. -/
  data : flat s.received ++ inflight s ++ slotContents s = s.merged
  tie : s.waiter = .none ↔ s.fut ≠ .waiting
  futPc : futOk s.rpc s.fut = true
  regNoPermit : ∀ w, s.waiter = .registered w → s.permit = false
  parkedWaker : s.rpc = .parked → s.waiter = .registered true ∨ s.waiter = .notified
  wokenInv : s.rpc = .parked → s.waiter = .notified → s.woken = true
  /-- a value in the slot is always signalled, unless the consumer is on its way to `take()` anyway. -/
  signal : s.slot.isSome = true →
    s.permit = true ∨ s.waiter = .notified ∨ s.spc = .modNotify true ∨ onWayToTake s.rpc = true
  /-- a consumer that read `sender_dropped = false` and waits is signalled when the sender drops. -/
  dropSignal : s.senderDropped = true → (s.rpc = .await ∨ s.rpc = .parked) →
    s.waiter = .notified ∨ s.permit = true ∨ s.spc = .dropNotify
  sdFlag : s.senderDropped = true ↔ (s.spc = .dropNotify ∨ s.spc = .gone)
  rdFlag : s.receiverDropped = true ↔ s.rpc = .gone
  take2Flag : s.rpc = .take2 → s.senderDropped = true
  retNone : (s.rpc = .ret none ∨ none ∈ s.received) → s.senderDropped = true ∧ s.slot = none
  slotNe : ∀ v, s.slot = some v → v ≠ []
  retNe : ∀ v, s.rpc = .ret (some v) → v ≠ []
  recvNe : ∀ v, some v ∈ s.received → v ≠ []

theorem inv_init : Inv init := by
  constructor <;> simp [init, inflight, slotContents, futOk]

theorem applyPush_ne_nil {slot : Option (List Nat)} {x : Nat} {v : List Nat}
    (h : applyPush slot x = some v) : v ≠ [] := by
  cases slot <;> simp [applyPush] at h <;> subst h <;> simp

theorem inv_sStep (s : State) (h : Inv s) : Inv (sStep s) := by
  obtain ⟨data, tie, futPc, regNoPermit, parkedWaker, wokenInv, signal, dropSignal, sdFlag, rdFlag, take2Flag, retNone, slotNe, retNe, recvNe⟩ := h
  unfold sStep
  split
  · -- modStart
    split
    · constructor <;> simp_all [inflight, slotContents]
    · constructor <;> simp_all [inflight, slotContents]
  · -- modLock
    constructor <;> simp_all [inflight, slotContents]
    · rw [← data]; simp [List.append_assoc]
    · intro v hv; exact applyPush_ne_nil hv
  · -- modNotify
    split
    · unfold notifyOne
      split <;> constructor <;> simp_all [inflight, slotContents]
    · constructor <;> simp_all [inflight, slotContents]
  · constructor <;> simp_all [inflight, slotContents]
  · unfold notifyOne
    split <;> constructor <;> simp_all [inflight, slotContents]
  · exact ⟨data, tie, futPc, regNoPermit, parkedWaker, wokenInv, signal, dropSignal, sdFlag, rdFlag, take2Flag, retNone, slotNe, retNe, recvNe⟩
  · exact ⟨data, tie, futPc, regNoPermit, parkedWaker, wokenInv, signal, dropSignal, sdFlag, rdFlag, take2Flag, retNone, slotNe, retNe, recvNe⟩

theorem inv_awaitStep (s : State) (h : Inv s) (hp : s.rpc = .await ∨ s.rpc = .parked) : Inv (awaitStep s) := by
  obtain ⟨data, tie, futPc, regNoPermit, parkedWaker, wokenInv, signal, dropSignal, sdFlag, rdFlag, take2Flag, retNone, slotNe, retNe, recvNe⟩ := h
  unfold awaitStep pollReady pollNotified dropNotified
  cases hf : s.fut <;> cases hw : s.waiter <;> rcases hp with hp | hp <;>
    simp_all [futOk] <;> constructor <;> simp_all [inflight, slotContents, futOk, onWayToTake]

theorem inv_rStep (s : State) (h : Inv s) : Inv (rStep s) := by
  obtain ⟨data, tie, futPc, regNoPermit, parkedWaker, wokenInv, signal, dropSignal, sdFlag, rdFlag, take2Flag, retNone, slotNe, retNe, recvNe⟩ := h
  unfold rStep
  split
  · -- created
    constructor <;> simp_all [inflight, slotContents, futOk, onWayToTake]
  · -- loopTop
    constructor <;> simp_all [inflight, slotContents, futOk, onWayToTake]
  · -- enable
    unfold enableFut
    split <;> constructor <;> simp_all [inflight, slotContents, futOk, onWayToTake]
  · -- take1
    split <;> constructor <;> simp_all [inflight, slotContents, futOk, onWayToTake]
  · -- loadFlag
    split <;> constructor <;> simp_all [inflight, slotContents, futOk, onWayToTake]
  · -- take2
    cases hs : s.slot <;> constructor <;> simp_all [inflight, slotContents, futOk, onWayToTake]
  · -- ret
    rename_i v hv
    unfold dropNotified
    rcases v with _ | v <;> split <;> (try split) <;> constructor <;>
      simp_all [inflight, slotContents, futOk, onWayToTake] <;> grind
  · exact inv_awaitStep s ⟨data, tie, futPc, regNoPermit, parkedWaker, wokenInv, signal, dropSignal, sdFlag, rdFlag, take2Flag, retNone, slotNe, retNe, recvNe⟩ (Or.inl ‹_›)
  · exact inv_awaitStep s ⟨data, tie, futPc, regNoPermit, parkedWaker, wokenInv, signal, dropSignal, sdFlag, rdFlag, take2Flag, retNone, slotNe, retNe, recvNe⟩ (Or.inr ‹_›)
  · exact ⟨data, tie, futPc, regNoPermit, parkedWaker, wokenInv, signal, dropSignal, sdFlag, rdFlag, take2Flag, retNone, slotNe, retNe, recvNe⟩
  · exact ⟨data, tie, futPc, regNoPermit, parkedWaker, wokenInv, signal, dropSignal, sdFlag, rdFlag, take2Flag, retNone, slotNe, retNe, recvNe⟩

theorem inv_cancel (s : State) (h : Inv s) : Inv (cancel s) := by
  obtain ⟨data, tie, futPc, regNoPermit, parkedWaker, wokenInv, signal, dropSignal, sdFlag, rdFlag, take2Flag, retNone, slotNe, retNe, recvNe⟩ := h
  unfold cancel
  split
  · constructor <;> simp_all [inflight, slotContents, futOk, onWayToTake]
  · unfold dropNotified
    split <;> (try split) <;> constructor <;> simp_all [inflight, slotContents, futOk, onWayToTake]
  · exact ⟨data, tie, futPc, regNoPermit, parkedWaker, wokenInv, signal, dropSignal, sdFlag, rdFlag, take2Flag, retNone, slotNe, retNe, recvNe⟩

theorem inv_step (s : State) (a : Act) (h : Inv s) : Inv (step s a) := by
  cases a with
  | sStep => exact inv_sStep s h
  | rStep => exact inv_rStep s h
  | cancel => exact inv_cancel s h
  | callModify x =>
    by_cases hc : s.spc = .idle
    · obtain ⟨data, tie, futPc, regNoPermit, parkedWaker, wokenInv, signal, dropSignal, sdFlag, rdFlag, take2Flag, retNone, slotNe, retNe, recvNe⟩ := h
      simp only [step, hc, if_true]
      constructor <;> simp_all [inflight, slotContents, futOk, onWayToTake]
    · simp only [step, hc, if_false]; exact h
  | callDropSender =>
    by_cases hc : s.spc = .idle
    · obtain ⟨data, tie, futPc, regNoPermit, parkedWaker, wokenInv, signal, dropSignal, sdFlag, rdFlag, take2Flag, retNone, slotNe, retNe, recvNe⟩ := h
      simp only [step, hc, if_true]
      constructor <;> simp_all [inflight, slotContents, futOk, onWayToTake]
    · simp only [step, hc, if_false]; exact h
  | callRecv =>
    by_cases hc : s.rpc = .idle
    · obtain ⟨data, tie, futPc, regNoPermit, parkedWaker, wokenInv, signal, dropSignal, sdFlag, rdFlag, take2Flag, retNone, slotNe, retNe, recvNe⟩ := h
      simp only [step, hc, if_true]
      constructor <;> simp_all [inflight, slotContents, futOk, onWayToTake]
    · simp only [step, hc, if_false]; exact h
  | callDropReceiver =>
    by_cases hc : s.rpc = .idle
    · obtain ⟨data, tie, futPc, regNoPermit, parkedWaker, wokenInv, signal, dropSignal, sdFlag, rdFlag, take2Flag, retNone, slotNe, retNe, recvNe⟩ := h
      simp only [step, hc, if_true]
      constructor <;> simp_all [inflight, slotContents, futOk, onWayToTake]
    · simp only [step, hc, if_false]; exact h

theorem inv_run (s : State) (acts : List Act) (h : Inv s) : Inv (run s acts) := by
  induction acts generalizing s with
  | nil => exact h
  | cons a rest ih => exact ih (step s a) (inv_step s a h)

/-- The invariant holds in every state reachable by any interleaving of the atomic steps. -/
theorem inv_reachable (acts : List Act) : Inv (run init acts) := inv_run init acts inv_init

end ScyllaVerif.MergeChannel

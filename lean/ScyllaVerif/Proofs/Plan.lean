import ScyllaVerif.Model.Plan
/-
Helper lemmas for C05 (`Props/C05.lean`): permutations produced by the random choices, `unique_by` under the
target comparator as first-occurrence-per-host-id, the order of a de-duplicated chain of groups, `firstReturn`.
-/
namespace ScyllaVerif.Proofs.Plan
open ScyllaVerif.Ring ScyllaVerif.Replicas ScyllaVerif.Plan

/-! ### shuffles and rotations are permutations -/

theorem insertAt_perm {α : Type} (a : α) (k : Nat) (l : List α) : (insertAt a k l).Perm (a :: l) := by
  induction l generalizing k with
  | nil => cases k <;> simp [insertAt]
  | cons b l ih =>
    cases k with
    | zero => simp [insertAt]
    | succ k =>
      simp only [insertAt]
      exact ((ih k).cons b).trans (List.Perm.swap a b l)

theorem shuffleWith_perm {α : Type} (ks : List Nat) (l : List α) : (shuffleWith ks l).Perm l := by
  induction l generalizing ks with
  | nil => cases ks <;> simp [shuffleWith]
  | cons a l ih =>
    cases ks with
    | nil => simp [shuffleWith]
    | cons k ks =>
      simp only [shuffleWith]
      exact (insertAt_perm a k _).trans ((ih ks).cons a)

theorem rotateAt_perm {α : Type} (l : List α) (i : Nat) : (rotateAt l i).Perm l := by
  unfold rotateAt
  exact List.perm_append_comm.trans (by rw [List.take_append_drop])

theorem rotated_perm (nodes : List Node) (rot : Nat) : (rotated nodes rot).Perm nodes := by
  unfold rotated
  split
  · exact rotateAt_perm _ _
  · rename_i h
    have : nodes = [] := by
      cases nodes with
      | nil => rfl
      | cons a l => simp at h
    subst this; exact List.Perm.refl _

theorem mem_rotated {nodes : List Node} {rot : Nat} {n : Node} : n ∈ rotated nodes rot ↔ n ∈ nodes :=
  (rotated_perm nodes rot).mem_iff

theorem roundRobin_perm (nodes : List Node) (p : Node → Bool) (rot : Nat) :
    (roundRobin nodes p rot).Perm (nodes.filter p) := (rotated_perm nodes rot).filter p

/-! ### `unique_by` under the target comparator = first occurrence per host id -/

/-- A target is shard-less or carries the shard `with_computed_shard` gives its node. -/
def ShardOK (sh : Nat → Nat) (t : Target) : Prop := t.2 = none ∨ t.2 = some (sh t.1.id)

theorem targetEq_of_shardOK {sh : Nat → Nat} {a b : Target} (ha : ShardOK sh a) (hb : ShardOK sh b) :
    targetEq a b = (a.1.id == b.1.id) := by
  unfold targetEq
  by_cases h : a.1.id = b.1.id
  · rcases ha with ha | ha <;> rcases hb with hb | hb <;> simp [ha, hb, h]
  · simp [h]

/-- First occurrence per host id, given the host ids already seen. -/
def dedupFrom (seen : List Nat) : List Target → List Target
  | [] => []
  | a :: l => if a.1.id ∈ seen then dedupFrom seen l else a :: dedupFrom (a.1.id :: seen) l

theorem uniqueByFrom_eq_dedupFrom {sh : Nat → Nat} (seen l : List Target)
    (hs : ∀ t ∈ seen, ShardOK sh t) (hl : ∀ t ∈ l, ShardOK sh t) :
    uniqueByFrom seen l = dedupFrom (seen.map (·.1.id)) l := by
  induction l generalizing seen with
  | nil => rfl
  | cons a l ih =>
    have ha := hl a (List.mem_cons_self ..)
    have hl' : ∀ t ∈ l, ShardOK sh t := fun t ht => hl t (List.mem_cons_of_mem _ ht)
    have hany : (seen.any (fun s => targetEq s a)) = decide (a.1.id ∈ seen.map (·.1.id)) := by
      rw [Bool.eq_iff_iff]
      simp only [List.any_eq_true, decide_eq_true_eq, List.mem_map]
      constructor
      · rintro ⟨s, hs1, hs2⟩
        rw [targetEq_of_shardOK (hs s hs1) ha] at hs2
        exact ⟨s, hs1, by simpa using hs2⟩
      · rintro ⟨s, hs1, hs2⟩
        exact ⟨s, hs1, by rw [targetEq_of_shardOK (hs s hs1) ha]; simpa using hs2⟩
    simp only [uniqueByFrom, dedupFrom, hany]
    by_cases h : a.1.id ∈ seen.map (·.1.id)
    · simp only [h, decide_true, if_true]
      exact ih seen hs hl'
    · simp only [h, decide_false, if_false, Bool.false_eq_true]
      rw [ih (a :: seen) (by
        intro t ht
        rcases List.mem_cons.mp ht with rfl | ht
        · exact ha
        · exact hs t ht) hl']
      rfl

theorem mem_dedupFrom {seen : List Nat} {l : List Target} {t : Target} (h : t ∈ dedupFrom seen l) :
    t ∈ l ∧ t.1.id ∉ seen := by
  induction l generalizing seen with
  | nil => simp [dedupFrom] at h
  | cons a l ih =>
    simp only [dedupFrom] at h
    split at h
    · exact ⟨List.mem_cons_of_mem _ (ih h).1, (ih h).2⟩
    · rename_i hns
      rcases List.mem_cons.mp h with rfl | h
      · exact ⟨List.mem_cons_self .., hns⟩
      · have := ih h
        exact ⟨List.mem_cons_of_mem _ this.1, fun hc => this.2 (List.mem_cons_of_mem _ hc)⟩

theorem dedupFrom_nodup (seen : List Nat) (l : List Target) : ((dedupFrom seen l).map (·.1.id)).Nodup := by
  induction l generalizing seen with
  | nil => simp [dedupFrom]
  | cons a l ih =>
    simp only [dedupFrom]
    split
    · exact ih seen
    · simp only [List.map_cons, List.nodup_cons]
      refine ⟨?_, ih _⟩
      intro hc
      obtain ⟨t, ht, hid⟩ := List.mem_map.mp hc
      exact (mem_dedupFrom ht).2 (by rw [hid]; exact List.mem_cons_self ..)

/-- Nothing is lost: every host id of the input is already seen or is in the output. -/
theorem dedupFrom_complete {seen : List Nat} {l : List Target} {t : Target} (h : t ∈ l) :
    t.1.id ∈ seen ∨ t.1.id ∈ (dedupFrom seen l).map (·.1.id) := by
  induction l generalizing seen with
  | nil => simp at h
  | cons a l ih =>
    simp only [dedupFrom]
    rcases List.mem_cons.mp h with rfl | h
    · split
      · rename_i hs; exact Or.inl hs
      · exact Or.inr (by simp)
    · split
      · exact ih h
      · rcases ih (seen := a.1.id :: seen) h with h' | h'
        · rcases List.mem_cons.mp h' with h' | h'
          · exact Or.inr (by simp [h'])
          · exact Or.inl h'
        · exact Or.inr (by simp only [List.map_cons]; exact List.mem_cons_of_mem _ h')

/-- De-duplicating a concatenation: the second part is de-duplicated against everything seen so far. -/
theorem dedupFrom_append (seen : List Nat) (A B : List Target) :
    ∃ seen', (∀ x, x ∈ seen' ↔ x ∈ seen ∨ x ∈ A.map (·.1.id)) ∧
      dedupFrom seen (A ++ B) = dedupFrom seen A ++ dedupFrom seen' B := by
  induction A generalizing seen with
  | nil => exact ⟨seen, by simp, rfl⟩
  | cons a A ih =>
    simp only [List.cons_append, dedupFrom]
    split
    · rename_i hs
      obtain ⟨s', h1, h2⟩ := ih seen
      refine ⟨s', ?_, h2⟩
      intro x; rw [h1]; simp only [List.map_cons, List.mem_cons]
      constructor
      · rintro (h | h)
        · exact Or.inl h
        · exact Or.inr (Or.inr h)
      · rintro (h | h | h)
        · exact Or.inl h
        · exact Or.inl (h ▸ hs)
        · exact Or.inr h
    · obtain ⟨s', h1, h2⟩ := ih (a.1.id :: seen)
      refine ⟨s', ?_, by rw [h2]; rfl⟩
      intro x; rw [h1]; simp only [List.map_cons, List.mem_cons]
      constructor
      · rintro ((h | h) | h)
        · exact Or.inr (Or.inl h)
        · exact Or.inl h
        · exact Or.inr (Or.inr h)
      · rintro (h | h | h)
        · exact Or.inl (Or.inr h)
        · exact Or.inl (Or.inl h)
        · exact Or.inr h

/-- An element that is the only one with its host id (and whose id was not seen) survives. -/
theorem mem_dedupFrom_of_unique {seen : List Nat} {l : List Target} {t : Target} (h : t ∈ l)
    (hu : ∀ u ∈ l, u.1.id = t.1.id → u = t) (hs : t.1.id ∉ seen) : t ∈ dedupFrom seen l := by
  induction l generalizing seen with
  | nil => simp at h
  | cons a l ih =>
    have hu' : ∀ u ∈ l, u.1.id = t.1.id → u = t := fun u hu1 => hu u (List.mem_cons_of_mem _ hu1)
    simp only [dedupFrom]
    by_cases hat : a = t
    · subst hat
      rw [if_neg hs]; exact List.mem_cons_self ..
    · have htl : t ∈ l := by
        rcases List.mem_cons.mp h with h | h
        · exact absurd h.symm hat
        · exact h
      have hid : a.1.id ≠ t.1.id := fun hc => hat (hu a (List.mem_cons_self ..) hc)
      split
      · exact ih htl hu' hs
      · refine List.mem_cons_of_mem _ (ih htl hu' ?_)
        intro hc
        rcases List.mem_cons.mp hc with hc | hc
        · exact hid hc.symm
        · exact hs hc

/-! ### order of a de-duplicated chain of groups -/

/-- Index of the first group that contains the node (number of groups if none does). -/
def firstGroup : List (List Target) → Node → Nat
  | [], _ => 0
  | g :: gs, n => if n ∈ g.map (·.1) then 0 else firstGroup gs n + 1

theorem firstGroup_append_of_not_mem {pre : List (List Target)} {n : Node} (h : ∀ g ∈ pre, n ∉ g.map (·.1))
    (post : List (List Target)) : firstGroup (pre ++ post) n = pre.length + firstGroup post n := by
  induction pre with
  | nil => simp
  | cons g pre ih =>
    simp only [List.cons_append, firstGroup, List.length_cons]
    rw [if_neg (h g (List.mem_cons_self ..)), ih (fun g' hg' => h g' (List.mem_cons_of_mem _ hg'))]
    omega

theorem firstGroup_le_length (gs : List (List Target)) (n : Node) : firstGroup gs n ≤ gs.length := by
  induction gs with
  | nil => simp [firstGroup]
  | cons g gs ih => simp only [firstGroup, List.length_cons]; split <;> omega

/-- The de-duplicated chain is sorted by "first group containing the node"; stated for a suffix `post` of the
chain whose prefix `pre` is already covered by the seen ids. -/
theorem dedup_flatten_sorted (pre post : List (List Target)) (seen : List Nat)
    (hcover : ∀ t ∈ pre.flatten, t.1.id ∈ seen) :
    (dedupFrom seen post.flatten).Pairwise
        (fun a b => firstGroup (pre ++ post) a.1 ≤ firstGroup (pre ++ post) b.1) ∧
      ∀ t ∈ dedupFrom seen post.flatten, pre.length ≤ firstGroup (pre ++ post) t.1 := by
  induction post generalizing pre seen with
  | nil => simp [dedupFrom]
  | cons g post ih =>
    simp only [List.flatten_cons]
    obtain ⟨seen', hs', happ⟩ := dedupFrom_append seen g post.flatten
    rw [happ]
    have hcover' : ∀ t ∈ (pre ++ [g]).flatten, t.1.id ∈ seen' := by
      intro t ht
      simp only [List.flatten_append, List.flatten_cons, List.flatten_nil, List.append_nil, List.mem_append] at ht
      rw [hs']
      rcases ht with ht | ht
      · exact Or.inl (hcover t ht)
      · exact Or.inr (List.mem_map.mpr ⟨t, ht, rfl⟩)
    have ih' := ih (pre ++ [g]) seen' hcover'
    have hassoc : (pre ++ [g]) ++ post = pre ++ g :: post := by simp
    rw [hassoc] at ih'
    simp only [List.length_append, List.length_cons, List.length_nil] at ih'
    -- elements kept from g have class exactly pre.length
    have hg : ∀ t ∈ dedupFrom seen g, firstGroup (pre ++ g :: post) t.1 = pre.length := by
      intro t ht
      obtain ⟨htg, hts⟩ := mem_dedupFrom ht
      have hnot : ∀ g' ∈ pre, t.1 ∉ g'.map (·.1) := by
        intro g' hg' hc
        obtain ⟨u, hu, hun⟩ := List.mem_map.mp hc
        apply hts
        have := hcover u (List.mem_flatten.mpr ⟨g', hg', hu⟩)
        rw [hun] at this; exact this
      rw [firstGroup_append_of_not_mem hnot]
      simp only [firstGroup]
      rw [if_pos (List.mem_map.mpr ⟨t, htg, rfl⟩)]
      rfl
    refine ⟨?_, ?_⟩
    · rw [List.pairwise_append]
      refine ⟨?_, ih'.1, ?_⟩
      · apply List.Pairwise.imp_of_mem (R := fun _ _ => True)
        · intro a b ha hb _
          rw [hg a ha, hg b hb]; exact Nat.le_refl _
        · exact List.pairwise_of_forall (fun _ _ => trivial)
      · intro a ha b hb
        rw [hg a ha]
        have := ih'.2 b hb
        omega
    · intro t ht
      rcases List.mem_append.mp ht with ht | ht
      · rw [hg t ht]; exact Nat.le_refl _
      · have := ih'.2 t ht
        omega

/-! ### `firstReturn` over steps that mirror groups -/

/-- A step of `pick` and a group of `fallback` fit together: a returned target is in the group, and the step
falls through only when the group is empty. -/
def Fit (s : Option (Option Target)) (g : List Target) : Prop :=
  (∀ t, s = some (some t) → t ∈ g) ∧ (s = none → g = [])

theorem fit_none : Fit none [] := ⟨by simp, fun _ => rfl⟩

/-- Step `i` of `pick` fits group `i` of `fallback`, for every `i`. -/
def Compat : List (Option (Option Target)) → List (List Target) → Prop
  | [], [] => True
  | s :: ss, g :: gs => Fit s g ∧ Compat ss gs
  | _, _ => False

theorem firstReturn_groups {steps : List (Option (Option Target))} {gs : List (List Target)} {t : Target}
    (hc : Compat steps gs) (h : firstReturn steps = some (some t)) :
    ∃ pre g post, gs = pre ++ g :: post ∧ (∀ g' ∈ pre, g' = []) ∧ t ∈ g := by
  induction steps generalizing gs with
  | nil => simp [firstReturn] at h
  | cons s ss ih =>
    cases gs with
    | nil => exact absurd hc (by simp [Compat])
    | cons g gs =>
      obtain ⟨⟨h1, h2⟩, h3⟩ := hc
      cases s with
      | none =>
        simp only [firstReturn] at h
        obtain ⟨pre, g', post, e, hp, ht⟩ := ih h3 h
        refine ⟨g :: pre, g', post, by rw [e]; rfl, ?_, ht⟩
        intro x hx
        rcases List.mem_cons.mp hx with rfl | hx
        · exact h2 rfl
        · exact hp x hx
      | some r =>
        simp only [firstReturn, Option.some.injEq] at h
        subst h
        exact ⟨[], g, gs, rfl, by simp, h1 t rfl⟩

/-! ### `Plan`: the picked target, then the fallback without it -/

theorem eq_of_id_eq {l : List Target} (hn : (l.map (·.1.id)).Nodup) {a b : Target} (ha : a ∈ l) (hb : b ∈ l)
    (h : a.1.id = b.1.id) : a = b := by
  induction l with
  | nil => simp at ha
  | cons c l ih =>
    simp only [List.map_cons, List.nodup_cons] at hn
    rcases List.mem_cons.mp ha with ha' | ha'
    · rcases List.mem_cons.mp hb with hb' | hb'
      · rw [ha', hb']
      · exact absurd (List.mem_map.mpr ⟨b, hb', by rw [← h, ha']⟩) hn.1
    · rcases List.mem_cons.mp hb with hb' | hb'
      · exact absurd (List.mem_map.mpr ⟨a, ha', by rw [h, hb']⟩) hn.1
      · exact ih hn.2 ha' hb'

theorem litEq_self (t : Target) : litEq t t = true := by simp [litEq]

theorem litEq_id {a b : Target} (h : litEq a b = true) : a.1.id = b.1.id := by
  unfold litEq at h
  simp only [Bool.and_eq_true, beq_iff_eq] at h
  exact h.1

/-- With no host id twice, `pick` answering nothing makes the plan the fallback itself. -/
theorem planOf_none {fb : List Target} (hn : (fb.map (·.1.id)).Nodup) : planOf none fb = fb := by
  cases fb with
  | nil => rfl
  | cons t rest =>
    simp only [planOf]
    congr 1
    apply List.filter_eq_self.mpr
    intro u hu
    simp only [List.map_cons, List.nodup_cons] at hn
    cases h : litEq u t with
    | false => rfl
    | true => exact absurd (List.mem_map.mpr ⟨u, hu, litEq_id h⟩) hn.1

theorem planOf_mem {pk : Option Target} {fb : List Target} (hn : (fb.map (·.1.id)).Nodup)
    (hpk : ∀ t, pk = some t → t ∈ fb) (u : Target) : u ∈ planOf pk fb ↔ u ∈ fb := by
  cases pk with
  | none => rw [planOf_none hn]
  | some t =>
    have ht := hpk t rfl
    simp only [planOf, List.mem_cons, List.mem_filter]
    constructor
    · rintro (rfl | ⟨h, _⟩)
      · exact ht
      · exact h
    · intro hu
      by_cases hut : u = t
      · exact Or.inl hut
      · refine Or.inr ⟨hu, ?_⟩
        cases h : litEq u t with
        | false => rfl
        | true => exact absurd (eq_of_id_eq hn hu ht (litEq_id h)) hut

theorem planOf_nodup {pk : Option Target} {fb : List Target} (hn : (fb.map (·.1.id)).Nodup)
    (hpk : ∀ t, pk = some t → t ∈ fb) : ((planOf pk fb).map (·.1.id)).Nodup := by
  cases pk with
  | none => rw [planOf_none hn]; exact hn
  | some t =>
    have ht := hpk t rfl
    simp only [planOf, List.map_cons, List.nodup_cons]
    refine ⟨?_, hn.sublist (List.filter_sublist.map _)⟩
    intro hc
    obtain ⟨v, hv, hid⟩ := List.mem_map.mp hc
    obtain ⟨hv1, hv2⟩ := List.mem_filter.mp hv
    have : v = t := eq_of_id_eq hn hv1 ht hid
    subst this
    simp [litEq_self] at hv2

theorem planOf_pairwise {R : Target → Target → Prop} {pk : Option Target} {fb : List Target}
    (hn : (fb.map (·.1.id)).Nodup) (hR : fb.Pairwise R) (hmin : ∀ t, pk = some t → ∀ u ∈ fb, R t u) :
    (planOf pk fb).Pairwise R := by
  cases pk with
  | none => rw [planOf_none hn]; exact hR
  | some t =>
    simp only [planOf, List.pairwise_cons]
    exact ⟨fun u hu => hmin t rfl u (List.mem_filter.mp hu).1, hR.sublist List.filter_sublist⟩

theorem planRun_succ (pk : Option Target) (fb : List Target) (fuel : Nat) (st : PlanState) :
    planRun pk fb (fuel + 1) st =
      (match planNext pk fb st with
       | (none, _) => []
       | (some t, st') => t :: planRun pk fb fuel st') := rfl

/-- The `Fallback` state of `Plan::next`, iterated with enough fuel, yields the rest without the filtered target. -/
theorem skipOut_run (pk : Option Target) (fb : List Target) (out : Target) (rest : List Target) (fuel : Nat)
    (hf : rest.length < fuel) :
    planRun pk fb fuel (.fallback rest out) = rest.filter (fun u => !litEq u out) := by
  induction rest generalizing fuel with
  | nil =>
    cases fuel with
    | zero => simp at hf
    | succ fuel => simp [planRun, planNext, skipOut]
  | cons u rest ih =>
    cases fuel with
    | zero => simp at hf
    | succ fuel =>
      simp only [List.length_cons, Nat.add_lt_add_iff_right] at hf
      cases h : litEq u out with
      | true =>
        have := ih (fuel + 1) (by omega)
        rw [planRun_succ] at this ⊢
        simp only [planNext, skipOut, h, if_true, List.filter_cons, Bool.not_true, Bool.false_eq_true, if_false] at this ⊢
        exact this
      | false =>
        rw [planRun_succ]
        simp only [planNext, skipOut, h, Bool.false_eq_true, if_false, List.filter_cons, Bool.not_false, if_true]
        rw [ih fuel hf]

/-- The state machine `Plan::next`, iterated until it answers `None`, yields the closed form `planOf`. -/
theorem planRun_eq_planOf (pk : Option Target) (fb : List Target) :
    planRun pk fb (fb.length + 3) .created = planOf pk fb := by
  cases pk with
  | some t =>
    rw [show fb.length + 3 = (fb.length + 1 + 1) + 1 by omega, planRun_succ]
    simp only [planNext, planOf]
    congr 1
    have := skipOut_run (some t) fb t fb (fb.length + 1 + 1) (by omega)
    rw [planRun_succ] at this ⊢
    simp only [planNext] at this ⊢
    exact this
  | none =>
    cases fb with
    | nil => simp [planRun, planNext, planOf]
    | cons t rest =>
      rw [show (t :: rest).length + 3 = (rest.length + 3) + 1 by simp, planRun_succ]
      simp only [planNext, planOf]
      congr 1
      exact skipOut_run none (t :: rest) t rest (rest.length + 3) (by omega)

/-! ### steps that answer the head of their group (the deterministic LWT steps) -/

/-- A step answers the first element of its group, and falls through only when the group is empty. -/
def FitH (s : Option (Option Target)) (g : List Target) : Prop :=
  (∀ t, s = some (some t) → g.head? = some t) ∧ (s = none → g = [])

theorem fitH_none : FitH none [] := ⟨by simp, fun _ => rfl⟩

def CompatH : List (Option (Option Target)) → List (List Target) → Prop
  | [], [] => True
  | s :: ss, g :: gs => FitH s g ∧ CompatH ss gs
  | _, _ => False

theorem firstReturn_head {steps : List (Option (Option Target))} {gs : List (List Target)} {t : Target}
    (hc : CompatH steps gs) (h : firstReturn steps = some (some t)) : gs.flatten.head? = some t := by
  induction steps generalizing gs with
  | nil => simp [firstReturn] at h
  | cons s ss ih =>
    cases gs with
    | nil => exact absurd hc (by simp [CompatH])
    | cons g gs =>
      obtain ⟨⟨h1, h2⟩, h3⟩ := hc
      cases s with
      | none =>
        simp only [firstReturn] at h
        rw [List.flatten_cons, h2 rfl, List.nil_append]
        exact ih h3 h
      | some r =>
        simp only [firstReturn, Option.some.injEq] at h
        subst h
        have := h1 t rfl
        cases g with
        | nil => simp at this
        | cons a g => simpa using this

theorem firstReturn_append {α : Type} (A B : List (Option α)) :
    firstReturn (A ++ B) = (match firstReturn A with | some r => some r | none => firstReturn B) := by
  induction A with
  | nil => rfl
  | cons a A ih =>
    cases a with
    | none => simpa [firstReturn] using ih
    | some r => rfl

theorem firstReturn_mem {α : Type} {l : List (Option α)} {r : α} (h : firstReturn l = some r) : some r ∈ l := by
  induction l with
  | nil => simp [firstReturn] at h
  | cons a l ih =>
    cases a with
    | none => exact List.mem_cons_of_mem _ (ih (by simpa [firstReturn] using h))
    | some r' =>
      simp only [firstReturn, Option.some.injEq] at h
      subst h; exact List.mem_cons_self ..

theorem dedupFrom_nil_head {l : List Target} {t : Target} (h : l.head? = some t) : (dedupFrom [] l).head? = some t := by
  cases l with
  | nil => simp at h
  | cons a l =>
    simp only [List.head?_cons, Option.some.injEq] at h
    subst h
    simp [dedupFrom]

/-! ### `unique_by` under the comparator, WITHOUT the one-shard-per-node invariant (tablet replicas, odd inputs) -/

theorem targetEq_symm (a b : Target) : targetEq a b = targetEq b a := by
  unfold targetEq
  cases ha : a.2 <;> cases hb : b.2 <;> simp [Bool.beq_comm]

theorem targetEq_refl (a : Target) : targetEq a a = true := by
  unfold targetEq; cases a.2 <;> simp

/-- `impl Hash` / `impl Eq` contract: equal keys have equal hashes. -/
def HashContract (hash : Target → Nat) : Prop := ∀ a b, targetEq a b = true → hash a = hash b

theorem targetHash_contract : HashContract targetHash := by
  intro a b h
  unfold targetEq at h
  simp only [Bool.and_eq_true, beq_iff_eq] at h
  exact h.1

/-- Under the contract the hash map finds an equal key iff one was kept: the bucket restriction is invisible. -/
theorem uniqueByHashedFrom_eq {hash : Target → Nat} (hc : HashContract hash) (seen l : List Target) :
    uniqueByHashedFrom hash seen l = uniqueByFrom seen l := by
  induction l generalizing seen with
  | nil => rfl
  | cons a l ih =>
    have : (seen.any (fun s => hash s == hash a && targetEq s a)) = seen.any (fun s => targetEq s a) := by
      have hf : (fun s => hash s == hash a && targetEq s a) = (fun s => targetEq s a) := by
        funext s
        cases h : targetEq s a with
        | false => simp
        | true => simp [hc s a h]
      rw [hf]
    simp only [uniqueByHashedFrom, uniqueByFrom, this, ih]

theorem uniqueByFrom_sublist (seen l : List Target) : (uniqueByFrom seen l).Sublist l := by
  induction l generalizing seen with
  | nil => exact List.Sublist.refl _
  | cons a l ih =>
    simp only [uniqueByFrom]
    split
    · exact (ih seen).cons a
    · exact (ih (a :: seen)).cons_cons a

/-- What `unique_by` keeps: no kept element equals (under the comparator) a seen or an earlier kept one. -/
theorem uniqueByFrom_pairwise (seen l : List Target) :
    (uniqueByFrom seen l).Pairwise (fun a b => targetEq a b = false) ∧
      ∀ t ∈ uniqueByFrom seen l, ∀ s ∈ seen, targetEq s t = false := by
  induction l generalizing seen with
  | nil => simp [uniqueByFrom]
  | cons a l ih =>
    simp only [uniqueByFrom]
    split
    · exact ih seen
    · rename_i hany
      have hany' : ∀ s ∈ seen, targetEq s a = false := by
        intro s hs
        cases h : targetEq s a with
        | false => rfl
        | true => exact absurd (List.any_eq_true.mpr ⟨s, hs, h⟩) hany
      obtain ⟨h1, h2⟩ := ih (a :: seen)
      refine ⟨List.pairwise_cons.mpr ⟨fun t ht => h2 t ht a (List.mem_cons_self ..), h1⟩, ?_⟩
      intro t ht s hs
      rcases List.mem_cons.mp ht with rfl | ht
      · exact hany' s hs
      · exact h2 t ht s (List.mem_cons_of_mem _ hs)

/-- What `unique_by` drops: only elements equal (under the comparator) to a seen or a kept one. -/
theorem uniqueByFrom_cover {seen l : List Target} {t : Target} (h : t ∈ l) :
    (∃ s ∈ seen, targetEq s t = true) ∨ ∃ u ∈ uniqueByFrom seen l, targetEq u t = true := by
  induction l generalizing seen with
  | nil => simp at h
  | cons a l ih =>
    simp only [uniqueByFrom]
    rcases List.mem_cons.mp h with rfl | h
    · split
      · rename_i hany
        obtain ⟨s, hs, hst⟩ := List.any_eq_true.mp hany
        exact Or.inl ⟨s, hs, hst⟩
      · exact Or.inr ⟨t, List.mem_cons_self .., targetEq_refl t⟩
    · split
      · exact ih h
      · rcases ih (seen := a :: seen) h with ⟨s, hs, hst⟩ | ⟨u, hu, hut⟩
        · rcases List.mem_cons.mp hs with rfl | hs
          · exact Or.inr ⟨s, List.mem_cons_self .., hst⟩
          · exact Or.inl ⟨s, hs, hst⟩
        · exact Or.inr ⟨u, List.mem_cons_of_mem _ hu, hut⟩

/-- An element that only equals itself in the list (and nothing seen) is kept. -/
theorem mem_uniqueByFrom_of_unique {seen l : List Target} {t : Target} (h : t ∈ l)
    (hu : ∀ u ∈ l, targetEq u t = true → u = t) (hs : ∀ s ∈ seen, targetEq s t = false) : t ∈ uniqueByFrom seen l := by
  induction l generalizing seen with
  | nil => simp at h
  | cons a l ih =>
    have hu' : ∀ u ∈ l, targetEq u t = true → u = t := fun u hu1 => hu u (List.mem_cons_of_mem _ hu1)
    simp only [uniqueByFrom]
    by_cases hat : a = t
    · subst hat
      have : seen.any (fun s => targetEq s a) = false := by
        rw [Bool.eq_false_iff]; intro hc
        obtain ⟨s, hs1, hs2⟩ := List.any_eq_true.mp hc
        rw [hs s hs1] at hs2; cases hs2
      rw [this]; exact List.mem_cons_self ..
    · have htl : t ∈ l := by
        rcases List.mem_cons.mp h with h | h
        · exact absurd h.symm hat
        · exact h
      split
      · exact ih htl hu' hs
      · refine List.mem_cons_of_mem _ (ih htl hu' ?_)
        intro s hs1
        rcases List.mem_cons.mp hs1 with rfl | hs1
        · cases hst : targetEq s t with
          | false => rfl
          | true => exact absurd (hu s (List.mem_cons_self ..) hst) hat
        · exact hs s hs1

/-- Kept in a prefix, kept in the whole. -/
theorem mem_uniqueByFrom_append_left {seen A : List Target} (B : List Target) {t : Target}
    (h : t ∈ uniqueByFrom seen A) : t ∈ uniqueByFrom seen (A ++ B) := by
  induction A generalizing seen with
  | nil => simp [uniqueByFrom] at h
  | cons a A ih =>
    simp only [List.cons_append, uniqueByFrom] at h ⊢
    split
    · rename_i hany; rw [if_pos hany] at h; exact ih h
    · rename_i hany
      rw [if_neg hany] at h
      rcases List.mem_cons.mp h with rfl | h
      · exact List.mem_cons_self ..
      · exact List.mem_cons_of_mem _ (ih h)

theorem compat_append {s1 s2 : List (Option (Option Target))} {g1 g2 : List (List Target)}
    (h1 : Compat s1 g1) (h2 : Compat s2 g2) : Compat (s1 ++ s2) (g1 ++ g2) := by
  induction s1 generalizing g1 with
  | nil =>
    cases g1 with
    | nil => exact h2
    | cons g g1 => exact absurd h1 (by simp [Compat])
  | cons s s1 ih =>
    cases g1 with
    | nil => exact absurd h1 (by simp [Compat])
    | cons g g1 => exact ⟨h1.1, ih h1.2⟩

theorem compat_drop {s : List (Option (Option Target))} {g : List (List Target)} (h : Compat s g) (k : Nat) :
    Compat (s.drop k) (g.drop k) := by
  induction k generalizing s g with
  | zero => simpa using h
  | succ k ih =>
    cases s with
    | nil =>
      cases g with
      | nil => simpa using h
      | cons g' gs => exact absurd h (by simp [Compat])
    | cons s' ss =>
      cases g with
      | nil => exact absurd h (by simp [Compat])
      | cons g' gs => simpa using ih h.2

theorem firstReturn_none_all {α : Type} {l : List (Option α)} (h : firstReturn l = none) : ∀ s ∈ l, s = none := by
  induction l with
  | nil => simp
  | cons a l ih =>
    cases a with
    | some r => simp [firstReturn] at h
    | none =>
      intro s hs
      rcases List.mem_cons.mp hs with rfl | hs
      · rfl
      · exact ih (by simpa [firstReturn] using h) s hs

theorem compat_all_none {ss : List (Option (Option Target))} {gs : List (List Target)} (hc : Compat ss gs)
    (h : ∀ s ∈ ss, s = none) : ∀ g ∈ gs, g = [] := by
  induction ss generalizing gs with
  | nil =>
    cases gs with
    | nil => simp
    | cons g gs => exact absurd hc (by simp [Compat])
  | cons s ss ih =>
    cases gs with
    | nil => exact absurd hc (by simp [Compat])
    | cons g gs =>
      intro g' hg'
      rcases List.mem_cons.mp hg' with rfl | hg'
      · exact hc.1.2 (h s (List.mem_cons_self ..))
      · exact ih hc.2 (fun s' hs' => h s' (List.mem_cons_of_mem _ hs')) g' hg'

theorem pairwise_ne_mem {l : List Target} (hp : l.Pairwise (fun a b => targetEq a b = false)) {a b : Target}
    (ha : a ∈ l) (hb : b ∈ l) (hne : a ≠ b) : targetEq a b = false := by
  induction l with
  | nil => simp at ha
  | cons c l ih =>
    obtain ⟨h1, h2⟩ := List.pairwise_cons.mp hp
    rcases List.mem_cons.mp ha with rfl | ha' <;> rcases List.mem_cons.mp hb with hb' | hb'
    · exact absurd hb'.symm hne
    · exact h1 b hb'
    · rw [hb', targetEq_symm]; exact h1 a ha'
    · exact ih h2 ha' hb'

theorem litEq_targetEq {a b : Target} (h : litEq a b = true) : targetEq a b = true := by
  unfold litEq at h
  simp only [Bool.and_eq_true, beq_iff_eq] at h
  unfold targetEq
  rw [h.2]
  cases b.2 <;> simp [h.1]

/-- On a list without comparator-equal pairs, `pick` answering nothing makes the plan the fallback itself. -/
theorem planOf_none_of_pairwise {fb : List Target} (hp : fb.Pairwise (fun a b => targetEq a b = false)) :
    planOf none fb = fb := by
  cases fb with
  | nil => rfl
  | cons t rest =>
    simp only [planOf]
    congr 1
    apply List.filter_eq_self.mpr
    intro u hu
    obtain ⟨h1, _⟩ := List.pairwise_cons.mp hp
    cases h : litEq u t with
    | false => rfl
    | true =>
      have := h1 u hu
      rw [targetEq_symm, litEq_targetEq h] at this; cases this

theorem planOf_mem_of_pairwise {pk : Option Target} {fb : List Target}
    (hp : fb.Pairwise (fun a b => targetEq a b = false)) (hpk : ∀ t, pk = some t → t ∈ fb) (u : Target) :
    u ∈ planOf pk fb ↔ u ∈ fb := by
  cases pk with
  | none => rw [planOf_none_of_pairwise hp]
  | some t =>
    have ht := hpk t rfl
    simp only [planOf, List.mem_cons, List.mem_filter]
    constructor
    · rintro (rfl | ⟨h, _⟩)
      · exact ht
      · exact h
    · intro hu
      by_cases hut : u = t
      · exact Or.inl hut
      · refine Or.inr ⟨hu, ?_⟩
        cases h : litEq u t with
        | false => rfl
        | true =>
          have := pairwise_ne_mem hp hu ht hut
          rw [litEq_targetEq h] at this; cases this

theorem planOf_pairwise_ne {pk : Option Target} {fb : List Target}
    (hp : fb.Pairwise (fun a b => targetEq a b = false)) (hpk : ∀ t, pk = some t → t ∈ fb) :
    (planOf pk fb).Pairwise (fun a b => targetEq a b = false) := by
  cases pk with
  | none => rw [planOf_none_of_pairwise hp]; exact hp
  | some t =>
    have ht := hpk t rfl
    simp only [planOf, List.pairwise_cons]
    refine ⟨?_, hp.sublist List.filter_sublist⟩
    intro u hu
    obtain ⟨hu1, hu2⟩ := List.mem_filter.mp hu
    apply pairwise_ne_mem hp ht hu1
    intro hc
    rw [← hc, litEq_self] at hu2; cases hu2

theorem planOf_pairwise_of {R : Target → Target → Prop} {pk : Option Target} {fb : List Target}
    (hp : fb.Pairwise (fun a b => targetEq a b = false)) (hR : fb.Pairwise R) (hmin : ∀ t, pk = some t → ∀ u ∈ fb, R t u) :
    (planOf pk fb).Pairwise R := by
  cases pk with
  | none => rw [planOf_none_of_pairwise hp]; exact hR
  | some t =>
    simp only [planOf, List.pairwise_cons]
    exact ⟨fun u hu => hmin t rfl u (List.mem_filter.mp hu).1, hR.sublist List.filter_sublist⟩

theorem uniqueByFrom_append (seen A B : List Target) :
    ∃ seen', uniqueByFrom seen (A ++ B) = uniqueByFrom seen A ++ uniqueByFrom seen' B := by
  induction A generalizing seen with
  | nil => exact ⟨seen, rfl⟩
  | cons a A ih =>
    simp only [List.cons_append, uniqueByFrom]
    split
    · exact ih seen
    · obtain ⟨s', h⟩ := ih (a :: seen)
      exact ⟨s', by rw [h]; rfl⟩

end ScyllaVerif.Proofs.Plan

import ScyllaVerif.Model.Carrier
/-
Helper lemmas for C17: `type_check` (deserialization side) succeeds exactly on the pairs of `deserAccepts`.
-/
namespace ScyllaVerif.Proofs.CarrierTc
open ScyllaVerif.Cql ScyllaVerif.Carrier

@[simp] theorem tcWrap_none (st : Step) (r : Option TcErr) : tcWrap st r = none ↔ r = none := by
  cases r <;> simp [tcWrap]

@[simp] theorem tcLeaf_ne (k : TcKind) : tcLeaf k ≠ none := by simp [tcLeaf]

theorem map_case (k v : Carrier) (kt vt : CqlTy)
    (hk : tcheck k kt = none ↔ deserAccepts k kt = true) (hv : tcheck v vt = none ↔ deserAccepts v vt = true) :
    (match tcheck k kt with
      | some e => tcWrap Step.key (some e)
      | none => tcWrap Step.val (tcheck v vt)) = none ↔ (deserAccepts k kt && deserAccepts v vt) = true := by
  cases h : tcheck k kt with
  | some e =>
    have : deserAccepts k kt = false := by
      cases h2 : deserAccepts k kt with
      | false => rfl
      | true => rw [hk.mpr h2] at h; cases h
    simp [tcWrap, this]
  | none => simp [hk.mp h, hv]

mutual
theorem tcheck_iff : ∀ (c : Carrier) (t : CqlTy), tcheck c t = none ↔ deserAccepts c t = true
  | .scalar s, t => by
    cases t <;> simp [tcheck, deserAccepts]
  | .unset, t => by simp [tcheck, deserAccepts]
  | .opt c, t => by rw [tcheck, deserAccepts]; exact tcheck_iff c t
  | .maybeUnset c, t => by simp [tcheck, deserAccepts]
  | .maybeEmpty c, t => by rw [tcheck, deserAccepts]; exact tcheck_iff c t
  | .vec c, t => by cases t <;> simp [tcheck, deserAccepts, tcheck_iff c]
  | .hashSet c, t => by cases t <;> simp [tcheck, deserAccepts, tcheck_iff c]
  | .btreeSet c, t => by cases t <;> simp [tcheck, deserAccepts, tcheck_iff c]
  | .listIter c, t => by cases t <;> simp [tcheck, deserAccepts, tcheck_iff c]
  | .vecIter c, t => by cases t <;> simp [tcheck, deserAccepts, tcheck_iff c]
  | .hashMap k v, t => by
    cases t <;> simp only [tcheck, deserAccepts] <;> try simp
    exact (map_case k v _ _ (tcheck_iff k _) (tcheck_iff v _)).trans (by simp)
  | .btreeMap k v, t => by
    cases t <;> simp only [tcheck, deserAccepts] <;> try simp
    exact (map_case k v _ _ (tcheck_iff k _) (tcheck_iff v _)).trans (by simp)
  | .mapIter k v, t => by
    cases t <;> simp only [tcheck, deserAccepts] <;> try simp
    exact (map_case k v _ _ (tcheck_iff k _) (tcheck_iff v _)).trans (by simp)
  | .tuple cs, t => by
    cases t <;> simp only [tcheck, deserAccepts] <;> try simp
    rename_i ts
    by_cases hl : cs.length = ts.length
    · simp [hl, tcheckZip_iff cs ts 0]
    · simp [hl]
  | .dyn, t => by simp [tcheck, deserAccepts]
  | .udtIter, t => by cases t <;> simp [tcheck, deserAccepts]
  | .raw, t => by simp [tcheck, deserAccepts]
theorem tcheckZip_iff : ∀ (cs : List Carrier) (ts : List CqlTy) (i : Nat),
    tcheckZip cs ts i = none ↔ deserAcceptsZip cs ts = true
  | [], ts, i => by simp [tcheckZip, deserAcceptsZip]
  | c :: cs, [], i => by simp [tcheckZip, deserAcceptsZip]
  | c :: cs, t :: ts, i => by
    rw [tcheckZip, deserAcceptsZip]
    cases h : tcheck c t with
    | some e =>
      have : deserAccepts c t = false := by
        cases h2 : deserAccepts c t with
        | false => rfl
        | true => rw [(tcheck_iff c t).mpr h2] at h; cases h
      simp [tcWrap, this]
    | none => simp [(tcheck_iff c t).mp h, tcheckZip_iff cs ts (i + 1)]
end

/-- The same for the column loop of the row-level check. -/
theorem tcheckCols_iff : ∀ (cs : List Carrier) (ts : List CqlTy) (i : Nat),
    tcheckCols cs ts i = none ↔ deserAcceptsZip cs ts = true
  | [], ts, i => by simp [tcheckCols, deserAcceptsZip]
  | c :: cs, [], i => by simp [tcheckCols, deserAcceptsZip]
  | c :: cs, t :: ts, i => by
    rw [tcheckCols, deserAcceptsZip]
    cases h : tcheck c t with
    | some e =>
      have : deserAccepts c t = false := by
        cases h2 : deserAccepts c t with
        | false => rfl
        | true => rw [(tcheck_iff c t).mpr h2] at h; cases h
      simp [tcWrap, this]
    | none => simp [(tcheck_iff c t).mp h, tcheckCols_iff cs ts (i + 1)]

end ScyllaVerif.Proofs.CarrierTc

import ScyllaVerif.Model.Carrier
/-
Helper lemmas for C17: `type_check` (deserialization side) succeeds exactly on the pairs of `deserAccepts`.
-/
namespace ScyllaVerif.Proofs.CarrierTc
open ScyllaVerif.Cql ScyllaVerif.Carrier

@[simp] theorem tcWrap_none (st : Step) (r : Option TcErr) : tcWrap st r = none ↔ r = none := by
  cases r <;> simp [tcWrap]

@[simp] theorem tcLeaf_ne (k : TcKind) : tcLeaf k ≠ none := by simp [tcLeaf]

theorem map_case (k v : Carrier) (kt vt : CqlTy)
    (hk : tcheck k kt = none ↔ deserAccepts k kt = true) (hv : tcheck v vt = none ↔ deserAccepts v vt = true) :
    (match tcheck k kt with
      | some e => tcWrap Step.key (some e)
      | none => tcWrap Step.val (tcheck v vt)) = none ↔ (deserAccepts k kt && deserAccepts v vt) = true := by
  cases h : tcheck k kt with
  | some e =>
    have : deserAccepts k kt = false := by
      cases h2 : deserAccepts k kt with
      | false => rfl
      | true => rw [hk.mpr h2] at h; cases h
    simp [tcWrap, this]
  | none => simp [hk.mp h, hv]

mutual
theorem tcheck_iff : ∀ (c : Carrier) (t : CqlTy), tcheck c t = none ↔ deserAccepts c t = true
  | .scalar s, t => by
    cases t <;> simp [tcheck, deserAccepts]
  | .unset, t => by simp [tcheck, deserAccepts]
  | .opt c, t => by rw [tcheck, deserAccepts]; exact tcheck_iff c t
  | .maybeUnset c, t => by simp [tcheck, deserAccepts]
  | .maybeEmpty c, t => by rw [tcheck, deserAccepts]; exact tcheck_iff c t
  | .vec c, t => by cases t <;> simp [tcheck, deserAccepts, tcheck_iff c]
  | .hashSet c, t => by cases t <;> simp [tcheck, deserAccepts, tcheck_iff c]
  | .btreeSet c, t => by cases t <;> simp [tcheck, deserAccepts, tcheck_iff c]
  | .listIter c, t => by cases t <;> simp [tcheck, deserAccepts, tcheck_iff c]
  | .vecIter c, t => by cases t <;> simp [tcheck, deserAccepts, tcheck_iff c]
  | .hashMap k v, t => by
    cases t <;> simp only [tcheck, deserAccepts] <;> try simp
    exact (map_case k v _ _ (tcheck_iff k _) (tcheck_iff v _)).trans (by simp)
  | .btreeMap k v, t => by
    cases t <;> simp only [tcheck, deserAccepts] <;> try simp
    exact (map_case k v _ _ (tcheck_iff k _) (tcheck_iff v _)).trans (by simp)
  | .mapIter k v, t => by
    cases t <;> simp only [tcheck, deserAccepts] <;> try simp
    exact (map_case k v _ _ (tcheck_iff k _) (tcheck_iff v _)).trans (by simp)
  | .tuple cs, t => by
    cases t <;> simp only [tcheck, deserAccepts] <;> try simp
    rename_i ts
    by_cases hl : cs.length = ts.length
    · simp [hl, tcheckZip_iff cs ts 0]
    · simp [hl]
  | .dyn, t => by simp [tcheck, deserAccepts]
  | .udtIter, t => by cases t <;> simp [tcheck, deserAccepts]
  | .raw, t => by simp [tcheck, deserAccepts]
theorem tcheckZip_iff : ∀ (cs : List Carrier) (ts : List CqlTy) (i : Nat),
    tcheckZip cs ts i = none ↔ deserAcceptsZip cs ts = true
  | [], ts, i => by simp [tcheckZip, deserAcceptsZip]
  | c :: cs, [], i => by simp [tcheckZip, deserAcceptsZip]
  | c :: cs, t :: ts, i => by
    rw [tcheckZip, deserAcceptsZip]
    cases h : tcheck c t with
    | some e =>
      have : deserAccepts c t = false := by
        cases h2 : deserAccepts c t with
        | false => rfl
        | true => rw [(tcheck_iff c t).mpr h2] at h; cases h
      simp [tcWrap, this]
    | none => simp [(tcheck_iff c t).mp h, tcheckZip_iff cs ts (i + 1)]
end

/-- The same for the column loop of the row-level check. -/
theorem tcheckCols_iff : ∀ (cs : List Carrier) (ts : List CqlTy) (i : Nat),
    tcheckCols cs ts i = none ↔ deserAcceptsZip cs ts = true
  | [], ts, i => by simp [tcheckCols, deserAcceptsZip]
  | c :: cs, [], i => by simp [tcheckCols, deserAcceptsZip]
  | c :: cs, t :: ts, i => by
    rw [tcheckCols, deserAcceptsZip]
    cases h : tcheck c t with
    | some e =>
      have : deserAccepts c t = false := by
        cases h2 : deserAccepts c t with
        | false => rfl
        | true => rw [(tcheck_iff c t).mpr h2] at h; cases h
      simp [tcWrap, this]
    | none => simp [(tcheck_iff c t).mp h, tcheckCols_iff cs ts (i + 1)]

mutual
/-- A column that passed `type_check` cannot reach an `unreachable!` / `expect` of the typed readers, at any depth. -/
theorem accepted_no_panic : ∀ (c : Carrier) (t : CqlTy), deserAccepts c t = true → deserPanics c t = false
  | .scalar s, t, _ => by simp [deserPanics]
  | .unset, t, _ => by simp [deserPanics]
  | .maybeUnset c, t, _ => by simp [deserPanics]
  | .opt c, t, h => by rw [deserAccepts] at h; rw [deserPanics]; exact accepted_no_panic c t h
  | .maybeEmpty c, t, h => by rw [deserAccepts] at h; rw [deserPanics]; exact accepted_no_panic c t h
  | .vec c, t, h => by cases t <;> simp [deserAccepts] at h <;> simp [deserPanics, accepted_no_panic c _ h]
  | .hashSet c, t, h => by cases t <;> simp [deserAccepts] at h <;> simp [deserPanics, accepted_no_panic c _ h]
  | .btreeSet c, t, h => by cases t <;> simp [deserAccepts] at h <;> simp [deserPanics, accepted_no_panic c _ h]
  | .listIter c, t, h => by cases t <;> simp [deserAccepts] at h <;> simp [deserPanics, accepted_no_panic c _ h]
  | .vecIter c, t, h => by cases t <;> simp [deserAccepts] at h <;> simp [deserPanics, accepted_no_panic c _ h]
  | .hashMap k v, t, h => by
    cases t <;> simp [deserAccepts] at h
    simp [deserPanics, accepted_no_panic k _ h.1, accepted_no_panic v _ h.2]
  | .btreeMap k v, t, h => by
    cases t <;> simp [deserAccepts] at h
    simp [deserPanics, accepted_no_panic k _ h.1, accepted_no_panic v _ h.2]
  | .mapIter k v, t, h => by
    cases t <;> simp [deserAccepts] at h
    simp [deserPanics, accepted_no_panic k _ h.1, accepted_no_panic v _ h.2]
  | .tuple cs, t, h => by
    cases t <;> simp [deserAccepts] at h
    simp [deserPanics, h.1, acceptedZip_no_panic cs _ h.2]
  | .udtIter, t, h => by cases t <;> simp [deserAccepts] at h <;> simp [deserPanics]
  | .dyn, t, _ => by simp [deserPanics]
  | .raw, t, _ => by simp [deserPanics]
theorem acceptedZip_no_panic : ∀ (cs : List Carrier) (ts : List CqlTy), deserAcceptsZip cs ts = true →
    deserPanicsZip cs ts = false
  | [], ts, _ => by simp [deserPanicsZip]
  | c :: cs, [], _ => by simp [deserPanicsZip]
  | c :: cs, t :: ts, h => by
    simp only [deserAcceptsZip, Bool.and_eq_true] at h
    simp [deserPanicsZip, accepted_no_panic c t h.1, acceptedZip_no_panic cs ts h.2]
end

end ScyllaVerif.Proofs.CarrierTc

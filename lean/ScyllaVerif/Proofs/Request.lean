import ScyllaVerif.Model.Request
/-! Helper lemmas for `Props/C09.lean`: each writer of `Model/WirePrim.lean` / `Model/Request.lean` followed by the
corresponding reader of the independent parser `Model/ReqParse.lean` gives the value back (with any suffix `rest`),
plus the bounds a successful write implies.  Core Lean only. -/
namespace ScyllaVerif.Proofs.Request
open ScyllaVerif.Wire ScyllaVerif.ReqParse ScyllaVerif.Request

theorem u8_toNat_ofNat (n : Nat) : (UInt8.ofNat n).toNat = n % 256 := by
  simp [UInt8.toNat_ofNat']
theorem rdU16_be16 (n : Nat) (rest : List UInt8) : rdU16 (be16 n ++ rest) = some (n % 2 ^ 16, rest) := by
  simp only [be16, rdU16, List.cons_append, List.nil_append, u8_toNat_ofNat]
  congr 2
  omega
theorem rdU32_be32 (n : Nat) (rest : List UInt8) : rdU32 (be32 n ++ rest) = some (n % 2 ^ 32, rest) := by
  simp only [be32, rdU32, List.cons_append, List.nil_append, u8_toNat_ofNat]
  congr 2
  omega
theorem rdU64_be64 (n : Nat) (rest : List UInt8) : rdU64 (be64 n ++ rest) = some (n % 2 ^ 64, rest) := by
  simp only [be64, rdU64, List.cons_append, List.nil_append, u8_toNat_ofNat]
  congr 2
  omega

theorem int32_bits (x : Int32) : (x.toUInt32.toNat : Int) = x.toInt % 2 ^ 32 ∧ -2 ^ 31 ≤ x.toInt ∧ x.toInt < 2 ^ 31 := by
  have h : x.toUInt32.toNat = x.toBitVec.toNat := rfl
  have h2 : x.toInt = x.toBitVec.toInt := rfl
  rw [h, h2, BitVec.toInt_eq_toNat_cond]
  have := x.toBitVec.isLt
  split <;> omega

theorem int64_bits (x : Int64) : (x.toUInt64.toNat : Int) = x.toInt % 2 ^ 64 ∧ -2 ^ 63 ≤ x.toInt ∧ x.toInt < 2 ^ 63 := by
  have h : x.toUInt64.toNat = x.toBitVec.toNat := rfl
  have h2 : x.toInt = x.toBitVec.toInt := rfl
  rw [h, h2, BitVec.toInt_eq_toNat_cond]
  have := x.toBitVec.isLt
  split <;> omega

theorem rdI32_i32be (x : Int32) (rest : List UInt8) : rdI32 (i32be x ++ rest) = some (x.toInt, rest) := by
  have hlt : x.toUInt32.toNat < 2 ^ 32 := x.toUInt32.toNat_lt
  simp only [rdI32, i32be, rdU32_be32, Nat.mod_eq_of_lt hlt]
  obtain ⟨h1, h2, h3⟩ := int32_bits x
  congr 2
  split <;> omega

theorem rdI64_i64be (x : Int64) (rest : List UInt8) : rdI64 (i64be x ++ rest) = some (x.toInt, rest) := by
  have hlt : x.toUInt64.toNat < 2 ^ 64 := x.toUInt64.toNat_lt
  simp only [rdI64, i64be, rdU64_be64, Nat.mod_eq_of_lt hlt]
  obtain ⟨h1, h2, h3⟩ := int64_bits x
  congr 2
  split <;> omega

theorem rdI32_be32 (n : Nat) (h : n < 2 ^ 31) (rest : List UInt8) : rdI32 (be32 n ++ rest) = some ((n : Int), rest) := by
  have : n % 2 ^ 32 = n := Nat.mod_eq_of_lt (by omega)
  simp only [rdI32, rdU32_be32, this, h, if_true]

theorem rdTake_append (xs rest : List UInt8) : rdTake xs.length (xs ++ rest) = some (xs, rest) := by
  simp [rdTake]

theorem rdString_writeString {s b : List UInt8} (h : writeString s = some b) (rest : List UInt8) :
    rdString (b ++ rest) = some (s, rest) := by
  unfold writeString writeShortLength at h
  split at h
  · rename_i l hl
    split at hl
    · cases hl; cases h
      rename_i hlt
      simp only [rdString, List.append_assoc, rdU16_be16, Nat.mod_eq_of_lt hlt, rdTake_append]
    · cases hl
  · cases h

theorem writeString_some_iff (s : List UInt8) : (∃ b, writeString s = some b) ↔ s.length < 2 ^ 16 := by
  unfold writeString writeShortLength
  by_cases h : s.length < 2 ^ 16 <;> simp [h]

theorem writeString_eq {s b : List UInt8} (h : writeString s = some b) : s.length < 2 ^ 16 ∧ b = be16 s.length ++ s := by
  unfold writeString writeShortLength at h
  by_cases hl : s.length < 2 ^ 16
  · simp [hl] at h; exact ⟨hl, h.symm⟩
  · simp [hl] at h

theorem writeLongString_eq {s b : List UInt8} (h : writeLongString s = some b) : s.length < 2 ^ 31 ∧ b = be32 s.length ++ s := by
  unfold writeLongString writeIntLength at h
  by_cases hl : s.length < 2 ^ 31
  · simp [hl] at h; exact ⟨hl, h.symm⟩
  · simp [hl] at h

theorem rdLongString_writeLongString {s b : List UInt8} (h : writeLongString s = some b) (rest : List UInt8) :
    rdLongString (b ++ rest) = some (s, rest) := by
  obtain ⟨hl, rfl⟩ := writeLongString_eq h
  simp only [rdLongString, List.append_assoc, rdI32_be32 _ hl]
  simp [rdTake_append]

theorem rdBytes_writeBytes {s b : List UInt8} (h : writeBytes s = some b) (rest : List UInt8) :
    rdBytes (b ++ rest) = some (some s, rest) := by
  obtain ⟨hl, rfl⟩ := writeLongString_eq h
  simp only [rdBytes, List.append_assoc, rdI32_be32 _ hl]
  simp [rdTake_append]

theorem rdI32_neg1 (rest : List UInt8) : rdI32 (intBe32 (-1) ++ rest) = some (-1, rest) := by
  have : intBe32 (-1) = be32 (2^32 - 1) := by decide
  rw [this]
  simp only [rdI32, rdU32_be32]
  congr 2
theorem rdI32_neg2 (rest : List UInt8) : rdI32 (intBe32 (-2) ++ rest) = some (-2, rest) := by
  have : intBe32 (-2) = be32 (2^32 - 2) := by decide
  rw [this]
  simp only [rdI32, rdU32_be32]
  congr 2

theorem rdBytes_writeBytesOpt {o : Option (List UInt8)} {b : List UInt8} (h : writeBytesOpt o = some b) (rest : List UInt8) :
    rdBytes (b ++ rest) = some (o, rest) := by
  cases o with
  | some s => exact rdBytes_writeBytes h rest
  | none =>
    simp only [writeBytesOpt, Option.some.injEq] at h
    subst h
    simp only [rdBytes, rdI32_neg1]
    simp

theorem rdValue_encodeCell {v : RawVal} {c : List UInt8} (h : encodeCell v = some c) (rest : List UInt8) :
    rdValue (c ++ rest) = some (v, rest) := by
  cases v with
  | null =>
    simp only [encodeCell, Option.some.injEq] at h; subst h
    have : Generated.valueLen_null = -1 := rfl
    simp only [this, rdValue, rdI32_neg1]; simp
  | unset =>
    simp only [encodeCell, Option.some.injEq] at h; subst h
    have : Generated.valueLen_unset = -2 := rfl
    simp only [this, rdValue, rdI32_neg2]; simp
  | val b =>
    simp only [encodeCell] at h
    split at h
    · rename_i hl
      cases h
      simp only [rdValue, List.append_assoc, rdI32_be32 _ hl]
      have h1 : ¬ ((b.length : Int) = -1) := by omega
      have h2 : ¬ ((b.length : Int) = -2) := by omega
      have h3 : ¬ ((b.length : Int) < 0) := by omega
      simp [h1, h2, h3, rdTake_append]
    · cases h


/-! ### repeated items -/

theorem rdMany_flatMap {α : Type} (rd : List UInt8 → Option (α × List UInt8)) (w : α → List UInt8) (xs : List α)
    (h : ∀ x ∈ xs, ∀ rest, rd (w x ++ rest) = some (x, rest)) (rest : List UInt8) :
    rdMany rd xs.length (xs.flatMap w ++ rest) = some (xs, rest) := by
  induction xs with
  | nil => simp [rdMany]
  | cons x xs ih =>
    have hx := h x (by simp)
    have ih' := ih (fun y hy => h y (by simp [hy]))
    simp only [List.length_cons, rdMany, List.flatMap_cons, List.append_assoc, hx, ih']

/-- `add_value` repeated: count, bound, and the bytes read back as the values, in order. -/
theorem addValues_ok {vs : List RawVal} : ∀ {cnt : Nat} {sv : SerVals}, cnt ≤ 65535 → addValues cnt vs = .ok sv →
    sv.count = cnt + vs.length ∧ sv.count ≤ 65535 ∧
    ∀ rest, rdMany rdValue vs.length (sv.bytes ++ rest) = some (vs, rest) := by
  induction vs with
  | nil =>
    intro cnt sv hc h
    simp only [addValues, Except.ok.injEq] at h
    subst h
    simp [rdMany, hc]
  | cons v vs ih =>
    intro cnt sv hc h
    simp only [addValues] at h
    split at h
    · cases h
    · rename_i hne
      split at h
      · cases h
      · rename_i c hcell
        split at h
        · cases h
        · rename_i sv' hrec
          cases h
          obtain ⟨h1, h2, h3⟩ := ih (by omega) hrec
          refine ⟨by simp only [List.length_cons]; omega, h2, ?_⟩
          intro rest
          simp only [List.length_cons, rdMany, List.append_assoc, rdValue_encodeCell hcell, h3]

theorem mkSerVals_ok {vs : List RawVal} {sv : SerVals} (h : mkSerVals vs = .ok sv) :
    sv.count = vs.length ∧ sv.count ≤ 65535 ∧
    ∀ rest, rdValueList (writeToRequest sv ++ rest) = some (vs, rest) := by
  obtain ⟨h1, hle, h3⟩ := addValues_ok (by omega) h
  refine ⟨by omega, hle, ?_⟩
  intro rest
  have hlt : sv.count % 2 ^ 16 = vs.length := by omega
  simp only [rdValueList, writeToRequest, List.append_assoc, rdU16_be16, hlt, h3]

/-! ### string lists / maps -/

theorem writeStrings_ok {xs : List (List UInt8)} : ∀ {b : List UInt8}, writeStrings xs = some b →
    (∀ x ∈ xs, x.length < 2 ^ 16) ∧ ∀ rest, rdMany rdString xs.length (b ++ rest) = some (xs, rest) := by
  induction xs with
  | nil => intro b h; simp only [writeStrings, Option.some.injEq] at h; subst h; simp [rdMany]
  | cons x xs ih =>
    intro b h
    simp only [writeStrings] at h
    split at h
    · cases h
    · rename_i a ha
      split at h
      · cases h
      · rename_i b' hb
        cases h
        obtain ⟨h1, h2⟩ := ih hb
        refine ⟨?_, ?_⟩
        · intro y hy
          simp only [List.mem_cons] at hy
          rcases hy with rfl | hy
          · exact (writeString_eq ha).1
          · exact h1 y hy
        · intro rest
          simp only [List.length_cons, rdMany, List.append_assoc, rdString_writeString ha, h2]

theorem writeStringList_ok {xs : List (List UInt8)} {b : List UInt8} (h : writeStringList xs = some b) :
    xs.length < 2 ^ 16 ∧ (∀ x ∈ xs, x.length < 2 ^ 16) ∧ ∀ rest, rdStringList (b ++ rest) = some (xs, rest) := by
  simp only [writeStringList, writeShortLength] at h
  split at h
  · cases h
  · rename_i l hl
    split at hl
    · rename_i hlt
      cases hl
      split at h
      · cases h
      · rename_i b' hb
        cases h
        obtain ⟨h1, h2⟩ := writeStrings_ok hb
        refine ⟨hlt, h1, ?_⟩
        intro rest
        simp only [rdStringList, List.append_assoc, rdU16_be16, Nat.mod_eq_of_lt hlt, h2]
    · cases hl

theorem writeStringPairs_ok {xs : List (List UInt8 × List UInt8)} : ∀ {b : List UInt8}, writeStringPairs xs = some b →
    (∀ x ∈ xs, x.1.length < 2 ^ 16 ∧ x.2.length < 2 ^ 16) ∧
    ∀ rest, rdMany rdStringPair xs.length (b ++ rest) = some (xs, rest) := by
  induction xs with
  | nil => intro b h; simp only [writeStringPairs, Option.some.injEq] at h; subst h; simp [rdMany]
  | cons x xs ih =>
    intro b h
    obtain ⟨k, v⟩ := x
    simp only [writeStringPairs] at h
    split at h
    · cases h
    · rename_i a ha
      split at h
      · cases h
      · rename_i a2 ha2
        split at h
        · cases h
        · rename_i b' hb
          cases h
          obtain ⟨h1, h2⟩ := ih hb
          refine ⟨?_, ?_⟩
          · intro y hy
            simp only [List.mem_cons] at hy
            rcases hy with rfl | hy
            · exact ⟨(writeString_eq ha).1, (writeString_eq ha2).1⟩
            · exact h1 y hy
          · intro rest
            simp only [List.length_cons, rdMany, rdStringPair, List.append_assoc, rdString_writeString ha,
              rdString_writeString ha2, h2]

theorem writeStringMap_ok {xs : List (List UInt8 × List UInt8)} {b : List UInt8} (h : writeStringMap xs = some b) :
    xs.length < 2 ^ 16 ∧ (∀ x ∈ xs, x.1.length < 2 ^ 16 ∧ x.2.length < 2 ^ 16) ∧
    ∀ rest, rdStringMap (b ++ rest) = some (xs, rest) := by
  simp only [writeStringMap, writeShortLength] at h
  split at h
  · cases h
  · rename_i l hl
    split at hl
    · rename_i hlt
      cases hl
      split at h
      · cases h
      · rename_i b' hb
        cases h
        obtain ⟨h1, h2⟩ := writeStringPairs_ok hb
        refine ⟨hlt, h1, ?_⟩
        intro rest
        simp only [rdStringMap, List.append_assoc, rdU16_be16, Nat.mod_eq_of_lt hlt, h2]
    · cases hl

theorem rdConsistency_code (c : Consistency) (rest : List UInt8) :
    rdConsistency (be16 (consistencyCode c) ++ rest) = some (c, rest) := by
  cases c <;> simp only [rdConsistency, rdU16_be16] <;> rfl

theorem rdSerialConsistency_code (c : SerialConsistency) (rest : List UInt8) :
    rdSerialConsistency (be16 (serialConsistencyCode c) ++ rest) = some (c, rest) := by
  cases c <;> simp only [rdSerialConsistency, rdConsistency, rdU16_be16] <;> rfl

theorem paramFlags_spec (b0 b1 b2 b3 b4 b5 : Bool) :
    paramFlags b0 b1 b2 b3 b4 b5 < 128 ∧
    hasBit (paramFlags b0 b1 b2 b3 b4 b5) 0x01 = b0 ∧ hasBit (paramFlags b0 b1 b2 b3 b4 b5) 0x02 = b1 ∧
    hasBit (paramFlags b0 b1 b2 b3 b4 b5) 0x04 = b2 ∧ hasBit (paramFlags b0 b1 b2 b3 b4 b5) 0x08 = b3 ∧
    hasBit (paramFlags b0 b1 b2 b3 b4 b5) 0x10 = b4 ∧ hasBit (paramFlags b0 b1 b2 b3 b4 b5) 0x20 = b5 ∧
    hasBit (paramFlags b0 b1 b2 b3 b4 b5) 0x40 = false ∧
    (paramFlags b0 b1 b2 b3 b4 b5 &&& 0x80 != 0) = false := by
  cases b0 <;> cases b1 <;> cases b2 <;> cases b3 <;> cases b4 <;> cases b5 <;> decide

theorem rdOpt_optBytes {α β : Type} (rd : List UInt8 → Option (β × List UInt8)) (w : α → List UInt8) (f : α → β)
    (h : ∀ x rest, rd (w x ++ rest) = some (f x, rest)) (o : Option α) (rest : List UInt8) :
    rdOpt o.isSome rd (optBytes w o ++ rest) = some (o.map f, rest) := by
  cases o with
  | none => simp [rdOpt, optBytes]
  | some x => simp [rdOpt, optBytes, h]

theorem rdOpt_values {vs : List RawVal} {sv : SerVals} (hsv : mkSerVals vs = .ok sv) (rest : List UInt8) :
    ∃ o, rdOpt (sv.count != 0) rdValueList ((if (sv.count != 0) = true then writeToRequest sv else []) ++ rest)
      = some (o, rest) ∧ o.getD [] = vs := by
  obtain ⟨h1, _, h3⟩ := mkSerVals_ok hsv
  by_cases hc : sv.count = 0
  · refine ⟨none, ?_, ?_⟩
    · simp [rdOpt, hc]
    · have : vs.length = 0 := by omega
      simp [List.length_eq_zero_iff.mp this]
  · refine ⟨some vs, ?_, rfl⟩
    have hb : (sv.count != 0) = true := by simp [hc]
    simp only [hb, if_true, rdOpt, h3]

theorem rdU8_cons (n : Nat) (h : n < 256) (rest : List UInt8) : rdU8 (UInt8.ofNat n :: rest) = some (n, rest) := by
  simp only [rdU8, u8_toNat_ofNat, Nat.mod_eq_of_lt h]

theorem rdParams_encodeParams {p : Params} {sv : SerVals} {b : List UInt8} (hsv : mkSerVals p.values = .ok sv)
    (h : encodeParams p sv = some b) (rest : List UInt8) :
    rdParams (b ++ rest) = some (viewParams p, rest) := by
  obtain ⟨hlt, f1, f2, f4, f8, f10, f20, f40, f80⟩ := paramFlags_spec (sv.count != 0) p.skipMetadata p.pageSize.isSome
    p.pagingState.isSome p.serialConsistency.isSome p.timestamp.isSome
  simp only [encodeParams] at h
  generalize paramFlags (sv.count != 0) p.skipMetadata p.pageSize.isSome
    p.pagingState.isSome p.serialConsistency.isSome p.timestamp.isSome = F at hlt f1 f2 f4 f8 f10 f20 f40 f80 h
  split at h
  · cases h
  · rename_i pg hpg
    cases h
    obtain ⟨o, ho, hget⟩ := rdOpt_values hsv
      (optBytes i32be p.pageSize ++ (pg ++ (optBytes (fun c => be16 (serialConsistencyCode c)) p.serialConsistency
        ++ (optBytes i64be p.timestamp ++ rest))))
    have hps := rdOpt_optBytes rdI32 i32be Int32.toInt rdI32_i32be p.pageSize
    have hsc := rdOpt_optBytes rdSerialConsistency (fun c => be16 (serialConsistencyCode c)) id
      rdSerialConsistency_code p.serialConsistency
    have hts := rdOpt_optBytes rdI64 i64be Int64.toInt rdI64_i64be p.timestamp
    have hpaging : ∀ rest', rdOpt p.pagingState.isSome rdBytes (pg ++ rest') = some (p.pagingState.map some, rest') := by
      intro rest'
      cases hp : p.pagingState with
      | none => rw [hp] at hpg; simp only [Option.some.injEq] at hpg; subst hpg; simp [rdOpt]
      | some ps => rw [hp] at hpg; simp [rdOpt, rdBytes_writeBytes hpg]
    have hu8 := rdU8_cons F (by omega)
    simp only [rdParams, List.append_assoc, List.cons_append, List.nil_append, rdConsistency_code,
      hu8, f1, f2, f4, f8, f10, f20, f40, f80, Bool.or_self, Bool.false_eq_true,
      if_false, ho, hps, hpaging]
    cases hp : p.pagingState <;> simp [viewParams, hget, hp, hsc, hts]
theorem mkSerValsList_nil {svs : List SerVals} (h : mkSerValsList [] = .ok svs) : svs = [] := by
  simp only [mkSerValsList, Except.ok.injEq] at h; exact h.symm

theorem mkSerValsList_cons {vs : List RawVal} {rest : List (List RawVal)} {svs : List SerVals}
    (h : mkSerValsList (vs :: rest) = .ok svs) :
    ∃ sv svs', mkSerVals vs = .ok sv ∧ mkSerValsList rest = .ok svs' ∧ svs = sv :: svs' := by
  simp only [mkSerValsList] at h
  split at h
  · cases h
  · rename_i sv hsv
    split at h
    · cases h
    · rename_i svs' hrest
      cases h
      exact ⟨sv, svs', hsv, hrest, rfl⟩

theorem mkSerValsList_length {vals : List (List RawVal)} : ∀ {svs : List SerVals},
    mkSerValsList vals = .ok svs → svs.length = vals.length := by
  induction vals with
  | nil => intro svs h; rw [mkSerValsList_nil h]; rfl
  | cons v vs ih =>
    intro svs h
    obtain ⟨sv, svs', _, hrest, rfl⟩ := mkSerValsList_cons h
    simp [ih hrest]

/-- What `serialize_batch_statement` refuses. -/
def stmtFits : BatchStmt → Prop
  | .query t => t.length < 2 ^ 31
  | .prepared i => i.length < 2 ^ 16

theorem rdBatchStmt_encode {s : BatchStmt} {sb : List UInt8} {vs : List RawVal} {sv : SerVals}
    (hs : encodeBatchStmt s = .ok sb) (hv : mkSerVals vs = .ok sv) (rest : List UInt8) :
    rdBatchStmt (sb ++ be16 sv.count ++ sv.bytes ++ rest) = some ((viewStmt s, vs), rest) := by
  obtain ⟨_, _, h3⟩ := mkSerVals_ok hv
  have h3' := h3 rest
  simp only [writeToRequest, List.append_assoc] at h3'
  cases s with
  | query t =>
    simp only [encodeBatchStmt] at hs
    split at hs
    · rename_i b hb
      cases hs
      have hk : Generated.batchStmtKind_Query = 0 := rfl
      simp only [hk, rdBatchStmt, List.cons_append, List.append_assoc, rdU8_cons 0 (by omega), if_true,
        rdLongString_writeLongString hb, h3', viewStmt]
    · cases hs
  | prepared i =>
    simp only [encodeBatchStmt] at hs
    split at hs
    · rename_i b hb
      cases hs
      have hk : Generated.batchStmtKind_Prepared = 1 := rfl
      simp only [hk, rdBatchStmt, List.cons_append, List.append_assoc, rdU8_cons 1 (by omega), rdShortBytes,
        rdString_writeString hb, viewStmt]
      simp [h3']
    · cases hs

theorem encodeBatchStmt_fits {s : BatchStmt} {sb : List UInt8} (hs : encodeBatchStmt s = .ok sb) : stmtFits s := by
  cases s with
  | query t =>
    simp only [encodeBatchStmt] at hs
    split at hs
    · rename_i b hb; exact (writeLongString_eq hb).1
    · cases hs
  | prepared i =>
    simp only [encodeBatchStmt] at hs
    split at hs
    · rename_i b hb; exact (writeString_eq hb).1
    · cases hs

theorem batchLoop_ok {n : Nat} {stmts : List BatchStmt} : ∀ {idx : Nat} {vals : List (List RawVal)}
    {svs : List SerVals} {b : List UInt8}, mkSerValsList vals = .ok svs → batchLoop n idx stmts svs = .ok b →
    stmts.length = vals.length ∧ (∀ s ∈ stmts, stmtFits s) ∧
    ∀ rest, rdMany rdBatchStmt stmts.length (b ++ rest) = some ((stmts.map viewStmt).zip vals, rest) := by
  induction stmts with
  | nil =>
    intro idx vals svs b hv h
    simp only [batchLoop] at h
    split at h
    · rename_i he
      cases h
      have hl := mkSerValsList_length hv
      have : svs = [] := by simpa using he
      subst this
      have : vals = [] := by
        cases vals with
        | nil => rfl
        | cons _ _ => simp at hl
      subst this
      simp [rdMany]
    · cases h
  | cons s ss ih =>
    intro idx vals svs b hv h
    simp only [batchLoop] at h
    split at h
    · cases h
    · rename_i sb hsb
      split at h
      · cases h
      · rename_i v vs'
        split at h
        · cases h
        · split at h
          · cases h
          · rename_i restb hrec
            cases h
            cases vals with
            | nil => have := mkSerValsList_nil hv; cases this
            | cons vl vls =>
              obtain ⟨sv, svs', hsv, hrest, heq⟩ := mkSerValsList_cons hv
              cases heq
              obtain ⟨h1, h2, h3⟩ := ih hrest hrec
              refine ⟨by simp [h1], ?_, ?_⟩
              · intro x hx
                simp only [List.mem_cons] at hx
                rcases hx with rfl | hx
                · exact encodeBatchStmt_fits hsb
                · exact h2 x hx
              · intro rest
                have := rdBatchStmt_encode hsb hsv (restb ++ rest)
                simp only [List.append_assoc] at this
                simp only [List.length_cons, rdMany, List.append_assoc, this, h3, List.map_cons, List.zip_cons_cons]

theorem eventName_spec (e : EventType) : eventName e = eventSpecName e := by
  cases e <;> decide +kernel

theorem batchFlags_spec (b1 b2 : Bool) :
    batchFlags b1 b2 < 256 ∧ hasBit (batchFlags b1 b2) 0x10 = b1 ∧ hasBit (batchFlags b1 b2) 0x20 = b2 ∧
    (batchFlags b1 b2 &&& (0xFF - 0x30) != 0) = false := by
  cases b1 <;> cases b2 <;> decide

theorem frameFlags_spec (b1 b2 : Bool) :
    frameFlags b1 b2 < 256 ∧ hasBit (frameFlags b1 b2) 0x01 = b1 ∧ hasBit (frameFlags b1 b2) 0x02 = b2 ∧
    (frameFlags b1 b2 &&& (0xFF - 0x03) != 0) = false := by
  cases b1 <;> cases b2 <;> decide

theorem rdBatchType (ty : BatchType) (rest : List UInt8) :
    rdU8 (UInt8.ofNat (batchTypeCode ty) :: rest) = some (batchTypeCode ty, rest) := by
  cases ty <;> rfl

theorem batchTypeOfCode_code (ty : BatchType) : batchTypeOfCode (batchTypeCode ty) = some ty := by
  cases ty <;> rfl

theorem rdBatch_encodeBatch {ty : BatchType} {stmts : List BatchStmt} {vals : List (List RawVal)} {svs : List SerVals}
    {c : Consistency} {sc : Option SerialConsistency} {ts : Option Int64} {b : List UInt8}
    (hv : mkSerValsList vals = .ok svs) (h : encodeBatch ty stmts svs c sc ts = .ok b) (rest : List UInt8) :
    stmts.length ≤ 65535 ∧ stmts.length = vals.length ∧ (∀ s ∈ stmts, stmtFits s) ∧
    rdBatch (b ++ rest) = some (.batch ty ((stmts.map viewStmt).zip vals) c sc (ts.map Int64.toInt), rest) := by
  simp only [encodeBatch] at h
  split at h
  · cases h
  · rename_i hn
    split at h
    · cases h
    · rename_i body hbody
      cases h
      obtain ⟨h1, h2, h3⟩ := batchLoop_ok hv hbody
      obtain ⟨hf, f10, f20, fx⟩ := batchFlags_spec sc.isSome ts.isSome
      have t1 := rdBatchType ty
      have t2 := batchTypeOfCode_code ty
      have hsc := rdOpt_optBytes rdSerialConsistency (fun c => be16 (serialConsistencyCode c)) id
        rdSerialConsistency_code sc
      have hts := rdOpt_optBytes rdI64 i64be Int64.toInt rdI64_i64be ts
      have hu8 := rdU8_cons (batchFlags sc.isSome ts.isSome) hf
      have hlen : stmts.length % 2 ^ 16 = stmts.length := Nat.mod_eq_of_lt (by omega)
      refine ⟨by omega, h1, h2, ?_⟩
      simp only [rdBatch, List.append_assoc, List.cons_append, List.nil_append, t1, t2, rdU16_be16, hlen, h3,
        rdConsistency_code, hu8, f10, f20, fx, Bool.false_eq_true, if_false, hsc, hts]
      simp

/-! ### what fits a CQL v4 frame -/

def cellFits : RawVal → Prop
  | .val b => b.length < 2 ^ 31
  | _ => True

def valuesFit (vs : List RawVal) : Prop := vs.length ≤ 65535 ∧ ∀ v ∈ vs, cellFits v

def paramsFit (p : Params) : Prop :=
  valuesFit p.values ∧ ∀ ps, p.pagingState = some ps → ps.length < 2 ^ 31

/-- A request that a CQL v4 frame can express: statements below 2^31 bytes, ids / `[string]`s below 2^16 bytes,
at most 65535 values / statements / list entries, values below 2^31 bytes, one value list per batch statement. -/
def Representable : Req → Prop
  | .startup opts => opts.length ≤ 65535 ∧ ∀ kv ∈ opts, kv.1.length < 2 ^ 16 ∧ kv.2.length < 2 ^ 16
  | .options => True
  | .query t p => t.length < 2 ^ 31 ∧ paramsFit p
  | .prepare t => t.length < 2 ^ 31
  | .execute i m p => i.length < 2 ^ 16 ∧ (∀ x, m = some x → x.length < 2 ^ 16) ∧ paramsFit p
  | .register evs => evs.length ≤ 65535
  | .batch _ stmts vals _ _ _ =>
    stmts.length ≤ 65535 ∧ stmts.length = vals.length ∧ (∀ s ∈ stmts, stmtFits s) ∧ ∀ vs ∈ vals, valuesFit vs
  | .authResponse r => ∀ b, r = some b → b.length < 2 ^ 31

theorem encodeCell_fits {v : RawVal} {c : List UInt8} (h : encodeCell v = some c) : cellFits v := by
  cases v with
  | null => trivial
  | unset => trivial
  | val b =>
    simp only [encodeCell] at h
    split at h
    · assumption
    · cases h

theorem addValues_fits {vs : List RawVal} : ∀ {cnt : Nat} {sv : SerVals}, addValues cnt vs = .ok sv →
    ∀ v ∈ vs, cellFits v := by
  induction vs with
  | nil => intro _ _ _ v hv; cases hv
  | cons x xs ih =>
    intro cnt sv h v hv
    simp only [addValues] at h
    split at h
    · cases h
    · split at h
      · cases h
      · rename_i c hc
        split at h
        · cases h
        · rename_i sv' hrec
          simp only [List.mem_cons] at hv
          rcases hv with rfl | hv
          · exact encodeCell_fits hc
          · exact ih hrec v hv

theorem mkSerVals_fits {vs : List RawVal} {sv : SerVals} (h : mkSerVals vs = .ok sv) : valuesFit vs := by
  obtain ⟨h1, h2, _⟩ := mkSerVals_ok h
  exact ⟨by omega, addValues_fits h⟩

theorem mkSerValsList_fits {vals : List (List RawVal)} : ∀ {svs : List SerVals}, mkSerValsList vals = .ok svs →
    ∀ vs ∈ vals, valuesFit vs := by
  induction vals with
  | nil => intro _ _ v hv; cases hv
  | cons x xs ih =>
    intro svs h vs hvs
    obtain ⟨sv, svs', hsv, hrest, _⟩ := mkSerValsList_cons h
    simp only [List.mem_cons] at hvs
    rcases hvs with rfl | hvs
    · exact mkSerVals_fits hsv
    · exact ih hrest vs hvs

theorem encodeParams_paging {p : Params} {sv : SerVals} {b : List UInt8} (h : encodeParams p sv = some b) :
    ∀ ps, p.pagingState = some ps → ps.length < 2 ^ 31 := by
  intro ps hps
  simp only [encodeParams, hps] at h
  split at h
  · cases h
  · rename_i pg hpg
    exact (writeLongString_eq hpg).1

/-- The spec opcode of each request kind (CQL v4 §2.4). -/
def specOpcode : Req → Nat
  | .startup _ => 0x01
  | .options => 0x05
  | .query _ _ => 0x07
  | .prepare _ => 0x09
  | .execute _ _ _ => 0x0A
  | .register _ => 0x0B
  | .batch _ _ _ _ _ _ => 0x0D
  | .authResponse _ => 0x0F

theorem opcode_spec (r : Req) : opcode r = specOpcode r := by
  cases r <;> rfl

theorem rdBody_encodeBody {r : Req} {b : List UInt8} (h : encodeBody r = .ok b) :
    Representable r ∧ ∀ rest, rdBody (hasMetadataId r) (specOpcode r) (b ++ rest) = some (view r, rest) := by
  cases r with
  | startup opts =>
    simp only [encodeBody] at h
    split at h
    · rename_i b' hb
      cases h
      obtain ⟨h1, h2, h3⟩ := writeStringMap_ok hb
      refine ⟨⟨by omega, h2⟩, ?_⟩
      intro rest
      simp [rdBody, specOpcode, h3, view]
    · cases h
  | options =>
    simp only [encodeBody, Except.ok.injEq] at h
    subst h
    exact ⟨trivial, by intro rest; simp [rdBody, specOpcode, view]⟩
  | query text p =>
    simp only [encodeBody] at h
    split at h
    · cases h
    · rename_i sv hsv
      split at h
      · cases h
      · rename_i t ht
        split at h
        · cases h
        · rename_i ps hps
          cases h
          refine ⟨⟨(writeLongString_eq ht).1, mkSerVals_fits hsv, encodeParams_paging hps⟩, ?_⟩
          intro rest
          simp [rdBody, specOpcode, view, List.append_assoc, rdLongString_writeLongString ht,
            rdParams_encodeParams hsv hps]
  | prepare text =>
    simp only [encodeBody] at h
    split at h
    · rename_i b' hb
      cases h
      refine ⟨(writeLongString_eq hb).1, ?_⟩
      intro rest
      simp [rdBody, specOpcode, view, rdLongString_writeLongString hb]
    · cases h
  | execute id mid p =>
    simp only [encodeBody] at h
    split at h
    · cases h
    · rename_i sv hsv
      split at h
      · cases h
      · rename_i i hi
        split at h
        · cases h
        · rename_i m hm
          split at h
          · cases h
          · rename_i ps hps
            cases h
            have hmid : (∀ x, mid = some x → x.length < 2 ^ 16) ∧
                ∀ rest, rdOpt mid.isSome rdShortBytes (m ++ rest) = some (mid, rest) := by
              cases mid with
              | none => simp only [Option.some.injEq] at hm; subst hm; simp [rdOpt]
              | some x =>
                simp only [] at hm
                refine ⟨?_, ?_⟩
                · intro y hy; cases hy; exact (writeString_eq hm).1
                · intro rest; simp [rdOpt, rdShortBytes, rdString_writeString hm]
            refine ⟨⟨(writeString_eq hi).1, hmid.1, mkSerVals_fits hsv, encodeParams_paging hps⟩, ?_⟩
            intro rest
            have hmd : hasMetadataId (.execute id mid p) = mid.isSome := by cases mid <;> rfl
            simp [rdBody, specOpcode, view, hmd, List.append_assoc, rdShortBytes, rdString_writeString hi, hmid.2,
              rdParams_encodeParams hsv hps]
  | register evs =>
    simp only [encodeBody] at h
    split at h
    · rename_i b' hb
      cases h
      obtain ⟨h1, _, h3⟩ := writeStringList_ok hb
      refine ⟨by simp only [Representable]; simp at h1; omega, ?_⟩
      intro rest
      have : evs.map eventName = evs.map eventSpecName := by
        apply List.map_congr_left; intro e _; exact eventName_spec e
      simp [rdBody, specOpcode, view, h3, this]
    · cases h
  | batch ty stmts vals c sc ts =>
    simp only [encodeBody] at h
    split at h
    · cases h
    · rename_i svs hsvs
      refine ⟨?_, ?_⟩
      · obtain ⟨h1, h2, h3, _⟩ := rdBatch_encodeBatch hsvs h []
        exact ⟨h1, h2, h3, mkSerValsList_fits hsvs⟩
      · intro rest
        obtain ⟨_, _, _, h4⟩ := rdBatch_encodeBatch hsvs h rest
        simp [rdBody, specOpcode, view, h4]
  | authResponse resp =>
    simp only [encodeBody] at h
    split at h
    · rename_i b' hb
      cases h
      refine ⟨?_, ?_⟩
      · intro x hx
        subst hx
        exact (writeLongString_eq hb).1
      · intro rest
        simp [rdBody, specOpcode, view, rdBytes_writeBytesOpt hb]
    · cases h

theorem specOpcode_lt (r : Req) : specOpcode r < 256 := by
  cases r <;> simp [specOpcode]

theorem parseHeader_header (b1 b2 : Bool) (r : Req) (pl : List UInt8) (hlen : pl.length < 2 ^ 32) :
    parseHeader (header (frameFlags b1 b2) (opcode r) pl.length ++ pl) =
      some ({ compressed := b1, tracing := b2, stream := 0, opcode := specOpcode r, length := pl.length }, pl) := by
  obtain ⟨hf, f1, f2, fx⟩ := frameFlags_spec b1 b2
  have hv : Generated.frame_REQUEST_VERSION = 4 := rfl
  have hu1 := rdU8_cons 4 (by omega)
  have hu2 := rdU8_cons (frameFlags b1 b2) hf
  have hu3 := rdU8_cons (specOpcode r) (specOpcode_lt r)
  have h0 : ∀ rest : List UInt8, rdU16 ((0 : UInt8) :: 0 :: rest) = some (0, rest) := by intro rest; rfl
  have hl : pl.length % 2 ^ 32 = pl.length := Nat.mod_eq_of_lt hlen
  simp only [header, opcode_spec, hv, parseHeader, List.cons_append, List.nil_append, hu1, hu2, hu3,
    h0, rdU32_be32, hl, fx, f1, f2]
  simp


/-- The header after `set_stream`. -/
def headerWithStream (flags op payloadLen stream : Nat) : List UInt8 :=
  [UInt8.ofNat Generated.frame_REQUEST_VERSION, UInt8.ofNat flags] ++ be16 stream ++ [UInt8.ofNat op] ++ be32 payloadLen

theorem parseHeader_header_stream (b1 b2 : Bool) (r : Req) (pl : List UInt8) (hlen : pl.length < 2 ^ 32)
    (st : Nat) (hst : st < 2 ^ 16) :
    parseHeader (headerWithStream (frameFlags b1 b2) (opcode r) pl.length st ++ pl) =
      some ({ compressed := b1, tracing := b2, stream := st, opcode := specOpcode r, length := pl.length }, pl) := by
  obtain ⟨hf, f1, f2, fx⟩ := frameFlags_spec b1 b2
  have hv : Generated.frame_REQUEST_VERSION = 4 := rfl
  have hu1 := rdU8_cons 4 (by omega)
  have hu2 := rdU8_cons (frameFlags b1 b2) hf
  have hu3 := rdU8_cons (specOpcode r) (specOpcode_lt r)
  have hl : pl.length % 2 ^ 32 = pl.length := Nat.mod_eq_of_lt hlen
  have hs : st % 2 ^ 16 = st := Nat.mod_eq_of_lt hst
  simp only [headerWithStream, opcode_spec, hv, parseHeader, List.cons_append, List.nil_append, List.append_assoc,
    hu1, hu2, hu3, rdU16_be16, hs, rdU32_be32, hl, fx, f1, f2]
  simp

/-! ### completeness: what fits is accepted -/

theorem encodeCell_complete {v : RawVal} (h : cellFits v) : ∃ c, encodeCell v = some c := by
  cases v with
  | null => exact ⟨_, rfl⟩
  | unset => exact ⟨_, rfl⟩
  | val b => simp only [cellFits] at h; simp [encodeCell, h]

theorem addValues_complete {vs : List RawVal} : ∀ {cnt : Nat}, cnt + vs.length ≤ 65535 → (∀ v ∈ vs, cellFits v) →
    ∃ sv, addValues cnt vs = .ok sv := by
  induction vs with
  | nil => intro cnt _ _; exact ⟨_, rfl⟩
  | cons v vs ih =>
    intro cnt hc hf
    simp only [List.length_cons] at hc
    obtain ⟨c, hcell⟩ := encodeCell_complete (hf v (by simp))
    obtain ⟨sv, hsv⟩ := ih (cnt := cnt + 1) (by omega) (fun x hx => hf x (by simp [hx]))
    have hne : ¬ cnt = 65535 := by omega
    simp [addValues, hne, hcell, hsv]

theorem mkSerVals_complete {vs : List RawVal} (h : valuesFit vs) : ∃ sv, mkSerVals vs = .ok sv :=
  addValues_complete (by have := h.1; omega) h.2

theorem mkSerValsList_complete {vals : List (List RawVal)} (h : ∀ vs ∈ vals, valuesFit vs) :
    ∃ svs, mkSerValsList vals = .ok svs := by
  induction vals with
  | nil => exact ⟨_, rfl⟩
  | cons v vs ih =>
    obtain ⟨sv, hsv⟩ := mkSerVals_complete (h v (by simp))
    obtain ⟨svs, hsvs⟩ := ih (fun x hx => h x (by simp [hx]))
    simp [mkSerValsList, hsv, hsvs]

theorem writeString_complete {s : List UInt8} (h : s.length < 2 ^ 16) : ∃ b, writeString s = some b :=
  (writeString_some_iff s).mpr h

theorem writeLongString_complete {s : List UInt8} (h : s.length < 2 ^ 31) : ∃ b, writeLongString s = some b := by
  simp [writeLongString, writeIntLength, h]

theorem writeStrings_complete {xs : List (List UInt8)} (h : ∀ x ∈ xs, x.length < 2 ^ 16) :
    ∃ b, writeStrings xs = some b := by
  induction xs with
  | nil => exact ⟨_, rfl⟩
  | cons x xs ih =>
    obtain ⟨a, ha⟩ := writeString_complete (h x (by simp))
    obtain ⟨b, hb⟩ := ih (fun y hy => h y (by simp [hy]))
    simp [writeStrings, ha, hb]

theorem writeStringPairs_complete {xs : List (List UInt8 × List UInt8)}
    (h : ∀ x ∈ xs, x.1.length < 2 ^ 16 ∧ x.2.length < 2 ^ 16) : ∃ b, writeStringPairs xs = some b := by
  induction xs with
  | nil => exact ⟨_, rfl⟩
  | cons x xs ih =>
    obtain ⟨k, v⟩ := x
    obtain ⟨a, ha⟩ := writeString_complete (h (k, v) (by simp)).1
    obtain ⟨a2, ha2⟩ := writeString_complete (h (k, v) (by simp)).2
    obtain ⟨b, hb⟩ := ih (fun y hy => h y (by simp [hy]))
    simp [writeStringPairs, ha, ha2, hb]

theorem encodeParams_complete {p : Params} (sv : SerVals) (h : ∀ ps, p.pagingState = some ps → ps.length < 2 ^ 31) :
    ∃ b, encodeParams p sv = some b := by
  cases hp : p.pagingState with
  | none => simp [encodeParams, hp]
  | some ps =>
    obtain ⟨b, hb⟩ := writeLongString_complete (h ps hp)
    simp [encodeParams, hp, writeBytes, hb]

theorem encodeBatchStmt_complete {s : BatchStmt} (h : stmtFits s) : ∃ b, encodeBatchStmt s = .ok b := by
  cases s with
  | query t =>
    obtain ⟨b, hb⟩ := writeLongString_complete (s := t) h
    simp [encodeBatchStmt, hb]
  | prepared i =>
    obtain ⟨b, hb⟩ := writeString_complete (s := i) h
    simp [encodeBatchStmt, writeShortBytes, hb]

theorem batchLoop_complete {n : Nat} {stmts : List BatchStmt} : ∀ {idx : Nat} {svs : List SerVals},
    stmts.length = svs.length → (∀ s ∈ stmts, stmtFits s) → (∀ v ∈ svs, v.count ≤ 65535) →
    ∃ b, batchLoop n idx stmts svs = .ok b := by
  induction stmts with
  | nil =>
    intro idx svs hl _ _
    have : svs = [] := by cases svs with
      | nil => rfl
      | cons _ _ => simp at hl
    subst this
    simp [batchLoop]
  | cons s ss ih =>
    intro idx svs hl hs hv
    cases svs with
    | nil => simp at hl
    | cons v vs =>
      obtain ⟨sb, hsb⟩ := encodeBatchStmt_complete (hs s (by simp))
      obtain ⟨rest, hrest⟩ := ih (idx := idx + 1) (svs := vs) (by simpa using hl)
        (fun x hx => hs x (by simp [hx])) (fun x hx => hv x (by simp [hx]))
      have hc : ¬ v.count > 65535 := by have := hv v (by simp); omega
      simp [batchLoop, hsb, hc, hrest]

theorem mkSerValsList_counts {vals : List (List RawVal)} : ∀ {svs : List SerVals}, mkSerValsList vals = .ok svs →
    ∀ v ∈ svs, v.count ≤ 65535 := by
  induction vals with
  | nil => intro svs h; rw [mkSerValsList_nil h]; intro v hv; cases hv
  | cons x xs ih =>
    intro svs h v hv
    obtain ⟨sv, svs', hsv, hrest, rfl⟩ := mkSerValsList_cons h
    simp only [List.mem_cons] at hv
    rcases hv with rfl | hv
    · exact (mkSerVals_ok hsv).2.1
    · exact ih hrest v hv

theorem encodeBody_complete {r : Req} (h : Representable r) : ∃ b, encodeBody r = .ok b := by
  cases r with
  | startup opts =>
    obtain ⟨h1, h2⟩ := h
    obtain ⟨b, hb⟩ := writeStringPairs_complete h2
    have hl : opts.length < 2 ^ 16 := by omega
    simp [encodeBody, writeStringMap, writeShortLength, hl, hb]
  | options => exact ⟨_, rfl⟩
  | query text p =>
    obtain ⟨h1, h2, h3⟩ := h
    obtain ⟨sv, hsv⟩ := mkSerVals_complete h2
    obtain ⟨t, ht⟩ := writeLongString_complete h1
    obtain ⟨ps, hps⟩ := encodeParams_complete sv h3
    simp [encodeBody, hsv, ht, hps]
  | prepare text =>
    obtain ⟨t, ht⟩ := writeLongString_complete (s := text) h
    simp [encodeBody, ht]
  | execute id mid p =>
    obtain ⟨h1, hm, h2, h3⟩ := h
    obtain ⟨sv, hsv⟩ := mkSerVals_complete h2
    obtain ⟨i, hi⟩ := writeString_complete h1
    obtain ⟨ps, hps⟩ := encodeParams_complete sv h3
    cases mid with
    | none => simp [encodeBody, hsv, writeShortBytes, hi, hps]
    | some m =>
      obtain ⟨mb, hmb⟩ := writeString_complete (hm m rfl)
      simp [encodeBody, hsv, writeShortBytes, hi, hmb, hps]
  | register evs =>
    have hl : (evs.map eventName).length < 2 ^ 16 := by simp only [Representable] at h; simp; omega
    have hnames : ∀ x ∈ evs.map eventName, x.length < 2 ^ 16 := by
      intro x hx
      simp only [List.mem_map] at hx
      obtain ⟨e, _, rfl⟩ := hx
      cases e <;> decide
    obtain ⟨b, hb⟩ := writeStrings_complete hnames
    simp only [encodeBody, writeStringList, writeShortLength, hl, if_true, hb]
    exact ⟨_, rfl⟩
  | batch ty stmts vals c sc ts =>
    obtain ⟨h1, h2, h3, h4⟩ := h
    obtain ⟨svs, hsvs⟩ := mkSerValsList_complete h4
    have hlen := mkSerValsList_length hsvs
    obtain ⟨b, hb⟩ := batchLoop_complete (n := stmts.length) (idx := 0) (stmts := stmts) (svs := svs) (by omega) h3
      (mkSerValsList_counts hsvs)
    have hn : ¬ stmts.length > 65535 := by omega
    simp [encodeBody, hsvs, encodeBatch, hn, hb]
  | authResponse resp =>
    cases resp with
    | none => exact ⟨_, rfl⟩
    | some x =>
      obtain ⟨b, hb⟩ := writeLongString_complete (h x rfl)
      simp [encodeBody, writeBytesOpt, writeBytes, hb]

/-! ### BATCH through `RawBatchValuesAdapter` refines the `Vec<SerializedValues>` BATCH -/

theorem rowCells_addValues {vs : List RawVal} : ∀ {cnt : Nat} {cells : List UInt8}, rowCells vs = some cells →
    cnt + vs.length ≤ 65535 → addValues cnt vs = .ok ⟨cells, cnt + vs.length⟩ := by
  induction vs with
  | nil => intro cnt cells h _; simp only [rowCells, Option.some.injEq] at h; subst h; simp [addValues]
  | cons v vs ih =>
    intro cnt cells h hc
    simp only [rowCells] at h
    simp only [List.length_cons] at hc
    split at h
    · cases h
    · rename_i c hcell
      split at h
      · cases h
      · rename_i r hr
        cases h
        have hne : ¬ cnt = 65535 := by omega
        have := ih (cnt := cnt + 1) hr (by omega)
        simp only [addValues, hne, if_false, hcell, this, List.length_cons]
        congr 2
        omega

theorem batchLoopA_refines {n : Nat} {stmts : List (BatchStmt × Nat)} : ∀ {idx : Nat} {vals : List (List RawVal)}
    {b : List UInt8}, batchLoopA n idx stmts vals = .ok b →
    ∃ svs, mkSerValsList vals = .ok svs ∧ batchLoop n idx (stmts.map Prod.fst) svs = .ok b ∧
      stmts.map Prod.snd = vals.map List.length := by
  induction stmts with
  | nil =>
    intro idx vals b h
    simp only [batchLoopA] at h
    split at h
    · rename_i he
      cases h
      have : vals = [] := by simpa using he
      subst this
      exact ⟨[], rfl, by simp [batchLoop], rfl⟩
    · cases h
  | cons sc ss ih =>
    intro idx vals b h
    obtain ⟨s, cols⟩ := sc
    simp only [batchLoopA] at h
    split at h
    · cases h
    · rename_i sb hsb
      split at h
      · cases h
      · rename_i v vs
        split at h
        · cases h
        · rename_i hcols
          split at h
          · cases h
          · rename_i cells hcells
            split at h
            · cases h
            · rename_i hlen
              split at h
              · cases h
              · rename_i rest hrest
                cases h
                obtain ⟨svs, h1, h2, h3⟩ := ih hrest
                have hsv : mkSerVals v = .ok ⟨cells, v.length⟩ := by
                  have := rowCells_addValues (cnt := 0) hcells (by omega)
                  simpa [mkSerVals] using this
                refine ⟨⟨cells, v.length⟩ :: svs, by simp [mkSerValsList, hsv, h1], ?_, ?_⟩
                · have hc : ¬ v.length > 65535 := hlen
                  simp [batchLoop, hsb, hc, h2]
                · have : cols = v.length := by simpa using hcols
                  simp [this, h3]

theorem encodeBatchA_refines {ty : BatchType} {stmts : List (BatchStmt × Nat)} {vals : List (List RawVal)}
    {c : Consistency} {sc : Option SerialConsistency} {ts : Option Int64} {b : List UInt8}
    (h : encodeBatchA ty stmts vals c sc ts = .ok b) :
    encodeBody (.batch ty (stmts.map Prod.fst) vals c sc ts) = .ok b ∧ stmts.map Prod.snd = vals.map List.length := by
  simp only [encodeBatchA] at h
  split at h
  · cases h
  · rename_i hn
    split at h
    · cases h
    · rename_i body hbody
      cases h
      obtain ⟨svs, h1, h2, h3⟩ := batchLoopA_refines hbody
      refine ⟨?_, h3⟩
      have hn' : ¬ (stmts.map Prod.fst).length > 65535 := by simpa using hn
      have h2' : batchLoop (stmts.map Prod.fst).length 0 (stmts.map Prod.fst) svs = .ok body := by simpa using h2
      simp only [encodeBody, h1, encodeBatch, hn', if_false, h2']
      simp

/-! ### `view` is injective (so equal frames mean equal requests) -/

theorem int32_toInt_inj {a b : Int32} (h : a.toInt = b.toInt) : a = b := Int32.toInt_inj.mp h
theorem int64_toInt_inj {a b : Int64} (h : a.toInt = b.toInt) : a = b := Int64.toInt_inj.mp h

theorem optMap_inj {α β : Type} {f : α → β} (hf : ∀ a b, f a = f b → a = b) {x y : Option α}
    (h : x.map f = y.map f) : x = y := by
  cases x <;> cases y <;> simp at h ⊢
  exact hf _ _ h

theorem viewParams_inj {p q : Params} (h : viewParams p = viewParams q) : p = q := by
  cases p; cases q
  simp only [viewParams, ParamsView.mk.injEq] at h
  obtain ⟨h1, h2, h3, h4, h5, h6, h7⟩ := h
  have h4' := optMap_inj (fun a b => int32_toInt_inj) h4
  have h7' := optMap_inj (fun a b => int64_toInt_inj) h7
  simp_all

theorem viewStmt_inj {a b : BatchStmt} (h : viewStmt a = viewStmt b) : a = b := by
  cases a <;> cases b <;> simp_all [viewStmt]

theorem eventSpecName_inj {a b : EventType} (h : eventSpecName a = eventSpecName b) : a = b := by
  cases a <;> cases b <;> first | rfl | (exfalso; revert h; decide +kernel)

theorem map_inj' {α β : Type} {f : α → β} (hf : ∀ a b, f a = f b → a = b) : ∀ {xs ys : List α},
    xs.map f = ys.map f → xs = ys
  | [], [], _ => rfl
  | [], _ :: _, h => by simp at h
  | _ :: _, [], h => by simp at h
  | x :: xs, y :: ys, h => by
    simp only [List.map_cons, List.cons.injEq] at h
    rw [hf _ _ h.1, map_inj' hf h.2]

theorem zip_inj {α β : Type} : ∀ {xs xs' : List α} {ys ys' : List β}, xs.length = ys.length → xs'.length = ys'.length →
    xs.zip ys = xs'.zip ys' → xs = xs' ∧ ys = ys'
  | [], xs', [], ys', _, h2, h => by
    cases xs' <;> cases ys' <;> simp_all
  | [], _, _ :: _, _, h1, _, _ => by simp at h1
  | _ :: _, _, [], _, h1, _, _ => by simp at h1
  | x :: xs, xs', y :: ys, ys', h1, h2, h => by
    cases xs' with
    | nil => simp at h
    | cons x' xs' =>
      cases ys' with
      | nil => simp at h2
      | cons y' ys' =>
        simp only [List.zip_cons_cons, List.cons.injEq, Prod.mk.injEq] at h
        have := zip_inj (by simpa using h1) (by simpa using h2) h.2
        simp [h.1.1, h.1.2, this.1, this.2]

/-- One value list per statement (what a successful BATCH encoding implies). -/
def batchShapeOk : Req → Prop
  | .batch _ ss vs _ _ _ => ss.length = vs.length
  | _ => True

theorem view_inj {r₁ r₂ : Req} (h₁ : batchShapeOk r₁) (h₂ : batchShapeOk r₂) (h : view r₁ = view r₂) : r₁ = r₂ := by
  cases r₁ <;> cases r₂ <;> simp only [view, ReqView.startup.injEq, ReqView.query.injEq, ReqView.prepare.injEq,
    ReqView.execute.injEq, ReqView.register.injEq, ReqView.batch.injEq, ReqView.authResponse.injEq, reduceCtorEq] at h
  · simp [h]
  · rfl
  · simp [h.1, viewParams_inj h.2]
  · simp [h]
  · simp [h.1, h.2.1, viewParams_inj h.2.2]
  · simp [map_inj' (fun a b => eventSpecName_inj) h]
  · rename_i ty ss vs c sc ts ty' ss' vs' c' sc' ts'
    obtain ⟨e1, e2, e3, e4, e5⟩ := h
    have hz := zip_inj (by simpa [batchShapeOk] using h₁) (by simpa [batchShapeOk] using h₂) e2
    have hs := map_inj' (fun a b => viewStmt_inj) hz.1
    have ht := optMap_inj (fun a b => int64_toInt_inj) e5
    simp [e1, hs, hz.2, e3, e4, ht]
  · simp [h]

theorem encodeBody_batchShape {r : Req} {b : List UInt8} (h : encodeBody r = .ok b) : batchShapeOk r := by
  have hr := (rdBody_encodeBody h).1
  cases r <;> simp only [batchShapeOk]
  exact hr.2.1

end ScyllaVerif.Proofs.Request

import ScyllaVerif.Proofs.DecodeAlloc
/-
C08 — `RawRowLendingIterator` (paged path): its offset arithmetic never panics, and the items it yields are exactly
those of `RawRowIterator` (`iterRows`) on the same bytes.
-/
namespace ScyllaVerif.C08

/-- What a cell read leaves is a suffix, and consumes what the lengths say. -/
theorem readBytesOpt_suffix (sl : Bytes) (c : Option Bytes) (s : St) (h : readBytesOpt { buf := sl } = (.ok c, s)) :
    ∃ pre, sl = pre ++ s.buf := by
  have := aw_readBytesOpt (A := 1) (B := 0) (Nat.le_refl _) { buf := sl }
  rw [h] at this
  obtain ⟨pre, hp⟩ := this.2.2.2
  exact ⟨pre, hp.symm⟩

theorem readBytesOpt_np' (sl : Bytes) (k : String) (s : St) : readBytesOpt { buf := sl } ≠ (.panic k, s) := by
  intro h
  have := aw_readBytesOpt (A := 1) (B := 0) (Nat.le_refl _) { buf := sl }
  rw [h] at this; exact this

/-- The skip loop with the offset tracks the skip loop with the slice: same failure, and the offset it ends with
points at the slice position `skipRow` ends with. -/
theorem lendSkip_eq (raw : Bytes) (hraw : raw.length ≤ USIZE_MAX) : ∀ (n idx : Nat) (sl : Bytes) (off : Nat),
    raw.drop off = sl → off ≤ raw.length →
    ∃ off', lendSkip n idx sl off = .ok ((skipRow n idx sl).1, off') ∧ raw.drop off' = (skipRow n idx sl).2 ∧
      off' ≤ raw.length
  | 0, idx, sl, off, h, hl => ⟨off, by simp [lendSkip, skipRow], by simpa [skipRow] using h, hl⟩
  | n + 1, idx, sl, off, h, hl => by
    unfold lendSkip skipRow
    cases hr : readBytesOpt { buf := sl } with
    | mk o s =>
      cases o with
      | panic k => exact absurd hr (readBytesOpt_np' sl k s)
      | err k => exact ⟨off, rfl, h, hl⟩
      | ok c =>
        simp only []
        obtain ⟨pre, hp⟩ := readBytesOpt_suffix sl c s hr
        have hlen : sl.length = pre.length + s.buf.length := by rw [hp]; simp
        have hsl : sl.length = raw.length - off := by rw [← h]; simp
        have h1 : ¬ (s.buf.length > sl.length) := by omega
        have h2 : ¬ (off + (sl.length - s.buf.length) > USIZE_MAX) := by omega
        simp only [h1, h2, if_false]
        have hd : sl.length - s.buf.length = pre.length := by omega
        have hdrop : raw.drop (off + (sl.length - s.buf.length)) = s.buf := by
          rw [hd, ← List.drop_drop, h, hp, List.drop_left]
        exact lendSkip_eq raw hraw n (idx + 1) s.buf _ hdrop (by omega)

/-- A failing skip (`skipRow` reports `some e`) is exactly a failing `readCells`, with the same failure. -/
theorem skipRow_some_iff : ∀ (n idx : Nat) (sl : Bytes),
    (match readCells n idx sl with
     | .ok (_, b) => skipRow n idx sl = (none, b)
     | .error e => (skipRow n idx sl).1 = some e)
  | 0, _, _ => by simp [readCells, skipRow]
  | n + 1, idx, sl => by
    unfold readCells skipRow
    cases hr : readBytesOpt { buf := sl } with
    | mk o s =>
      cases o with
      | panic k => exact absurd hr (readBytesOpt_np' sl k s)
      | err k => simp
      | ok c =>
        simp only []
        have ih := skipRow_some_iff n (idx + 1) s.buf
        cases hc : readCells n (idx + 1) s.buf with
        | error e => rw [hc] at ih; simpa using ih
        | ok p => obtain ⟨cells, b⟩ := p; rw [hc] at ih; simpa using ih

/-- THE LENDING ITERATOR IS THE PLAIN ONE: started at offset `off` inside the page, `RawRowLendingIterator` never
panics (the re-slicing `[self.at..]` stays in range, the offset arithmetic neither underflows nor overflows) and
yields, for all `n` announced rows, exactly the items of `RawRowIterator` on the rest of the page — Ok rows with the
same cells, and after a failing row the same error tail. -/
theorem lendRows_eq (ncols : Nat) (raw : Bytes) (hraw : raw.length ≤ USIZE_MAX) : ∀ (n off : Nat),
    off ≤ raw.length → lendRows ncols n off raw = .ok (iterRows ncols n (raw.drop off))
  | 0, off, _ => by simp [lendRows, iterRows]
  | n + 1, off, hl => by
    unfold lendRows iterRows
    have h1 : ¬ (off > raw.length) := by omega
    simp only [h1, if_false]
    obtain ⟨off', hs, hd, hl'⟩ := lendSkip_eq raw hraw ncols 0 (raw.drop off) off rfl hl
    rw [hs]
    simp only []
    have ih := lendRows_eq ncols raw hraw n off' hl'
    rw [ih, hd]
    have hk := skipRow_some_iff ncols 0 (raw.drop off)
    cases hc : readCells ncols 0 (raw.drop off) with
    | error e =>
      rw [hc] at hk
      simp only [hk]
    | ok p =>
      obtain ⟨cells, b⟩ := p
      rw [hc] at hk
      simp only [hk]

end ScyllaVerif.C08

import ScyllaVerif.Model.Conn
import ScyllaVerif.Proofs.StreamMap
/-! Helper lemmas and the inductive invariants of the connection model (C02, C10). -/
namespace ScyllaVerif.Conn
open ScyllaVerif.StreamMap

/-! ### caller table -/

theorem getCaller_setCaller (cs : List (Nat × CallerSt)) (r : Nat) (st : CallerSt) (r' : Nat) :
    getCaller (setCaller cs r st) r' = if r = r' then some st else getCaller cs r' := by
  induction cs with
  | nil => simp [setCaller, getCaller]
  | cons p rest ih =>
    obtain ⟨a, b⟩ := p
    unfold setCaller
    split
    · rename_i h; subst h
      simp only [getCaller]
      split <;> simp_all
    · rename_i h
      simp only [getCaller, ih]
      split <;> split <;> simp_all

theorem getCaller_deliver (cs : List (Nat × CallerSt)) (r : Nat) (o : Outcome) (r' : Nat) :
    getCaller (deliver cs r o) r' =
      if r = r' ∧ getCaller cs r = some .waiting then some (.delivered o) else getCaller cs r' := by
  unfold deliver
  split
  · rename_i h
    rw [getCaller_setCaller]
    split <;> simp_all
  · rename_i h
    split
    · rename_i h2; exact absurd h2.2 (by simpa using h)
    · rfl

theorem getCaller_failAll (rs : List Nat) (cs : List (Nat × CallerSt)) (e : ErrKind) (r' : Nat) :
    getCaller (failAll cs rs e) r' =
      if r' ∈ rs ∧ getCaller cs r' = some .waiting then some (.delivered (.err e)) else getCaller cs r' := by
  unfold failAll
  induction rs generalizing cs with
  | nil => simp
  | cons r rest ih =>
    simp only [List.foldl_cons, ih, getCaller_deliver, List.mem_cons]
    by_cases h1 : r = r'
    · subst h1
      by_cases h2 : getCaller cs r = some .waiting <;> simp [h2]
    · have h1' : ¬ r' = r := fun h => h1 h.symm
      simp [h1, h1']

/-! ### the handler map, operation by operation -/

theorem hallocate_some {m m' : HMap} {r id : Nat} (h : m.allocate r = some (id, m')) :
    ∃ ids', m.ids.allocate = some (id, ids') ∧
      m' = { m with ids := ids', req2stream := m.req2stream.insert r id, handlers := m.handlers.insert id r } := by
  unfold HMap.allocate at h
  split at h
  · cases h
  · rename_i id' ids' hids
    simp only [Option.some.injEq, Prod.mk.injEq] at h
    obtain ⟨h1, h2⟩ := h
    subst h1 h2
    exact ⟨ids', hids, rfl⟩

theorem hallocate_none {m : HMap} {r : Nat} : m.allocate r = none ↔ m.ids.allocate = none := by
  unfold HMap.allocate
  split <;> simp_all

theorem horphan_none {m : HMap} {r : Nat} (h : m.req2stream.get r = none) : m.orphan r = m := by
  unfold HMap.orphan; rw [h]

theorem horphan_some {m : HMap} {r s : Nat} (h : m.req2stream.get r = some s) :
    m.orphan r = { m with orphans := if m.orphans.contains s then m.orphans else s :: m.orphans,
                          handlers := m.handlers.erase s, req2stream := m.req2stream.erase r } := by
  unfold HMap.orphan; rw [h]

theorem hlookup_orphaned {m : HMap} {s : Nat} (h : s ∈ m.orphans) :
    m.lookup s = (.orphaned, { m with ids := m.ids.free s, orphans := m.orphans.filter (· != s) }) := by
  unfold HMap.lookup
  simp [h]

theorem hlookup_handler {m : HMap} {s r : Nat} (h : s ∉ m.orphans) (hh : m.handlers.get s = some r) :
    m.lookup s = (.handler r, { m with ids := m.ids.free s, handlers := m.handlers.erase s,
                                       req2stream := m.req2stream.erase r }) := by
  unfold HMap.lookup
  simp [h, hh]

theorem hlookup_missing {m : HMap} {s : Nat} (h : s ∉ m.orphans) (hh : m.handlers.get s = none) :
    m.lookup s = (.missing, { m with ids := m.ids.free s }) := by
  unfold HMap.lookup
  simp [h, hh]

/-! ### the invariant of the stream bookkeeping -/

/-- Streams / requests of the frames outstanding at the server. -/
def srvStreams (c : Conn) : List Nat := c.server.map Prod.fst
def srvReqs (c : Conn) : List Nat := c.server.map Prod.snd

structure MapInv (c : Conn) : Prop where
  len : c.map.ids.blocks.length = 512
  srvUsed : ∀ s r, (s, r) ∈ c.server → s < 32768 ∧ c.map.ids.isUsed s = true
  srvOnce : ∀ s, (srvStreams c).count s ≤ 1
  reqOnce : ∀ r, c.permits.count r + (c.sending.count r + c.queue.count r + (srvReqs c).count r) ≤ 1
  reqLt : ∀ r, r ∈ c.sending ∨ r ∈ c.queue ∨ r ∈ srvReqs c → r < c.nextReq
  permLt : ∀ r, r ∈ c.permits → r < c.nextReq
  hSrv : ∀ s r, c.map.handlers.get s = some r → (s, r) ∈ c.server
  orphSrv : ∀ s, s ∈ c.map.orphans → s ∈ srvStreams c ∧ c.map.handlers.get s = none
  owed : c.broken = false → ∀ s r, (s, r) ∈ c.server → s ∈ c.map.orphans ∨ c.map.handlers.get s = some r
  inv : ∀ r s, c.map.req2stream.get r = some s ↔ c.map.handlers.get s = some r
  brk : c.broken = true → c.queue = [] ∧ c.sending = [] ∧ c.notices = [] ∧ c.map.handlers = [] ∧
    ∃ k, c.cause = some k
  alive : c.broken = false → c.cause = none

theorem MapInv.init : MapInv Conn.init := by
  constructor <;> simp [Conn.init, HMap.new, new_length, srvStreams, srvReqs]

/-- In a list of pairs whose first components occur at most once, the first component determines the pair. -/
theorem pair_unique {l : List (Nat × Nat)} (h : ∀ s, (l.map Prod.fst).count s ≤ 1) {s r r' : Nat}
    (h1 : (s, r) ∈ l) (h2 : (s, r') ∈ l) : r = r' := by
  induction l with
  | nil => cases h1
  | cons p rest ih =>
    have hs := h s
    simp only [List.map_cons, List.count_cons] at hs
    have hrest : ∀ s, (rest.map Prod.fst).count s ≤ 1 := by
      intro s'
      have := h s'
      simp only [List.map_cons, List.count_cons] at this
      omega
    have memcount : ∀ x, (s, x) ∈ rest → 0 < (rest.map Prod.fst).count s := by
      intro x hx
      exact List.count_pos_iff.mpr (List.mem_map.mpr ⟨(s, x), hx, rfl⟩)
    rcases List.mem_cons.mp h1 with e1 | m1 <;> rcases List.mem_cons.mp h2 with e2 | m2
    · rw [← e1] at e2; cases e2; rfl
    · have := memcount _ m2; subst e1; simp at hs; omega
    · have := memcount _ m1; subst e2; simp at hs; omega
    · exact ih hrest m1 m2

theorem mem_of_mem_eraseIdx {α} {l : List α} {i : Nat} {x : α} (h : x ∈ l.eraseIdx i) : x ∈ l :=
  (List.eraseIdx_sublist l i).subset h

theorem mem_eraseIdx_of_ne {α} {l : List α} {i : Nat} {x y : α} (hx : x ∈ l) (hy : l[i]? = some y) (hne : x ≠ y) :
    x ∈ l.eraseIdx i := by
  induction l generalizing i with
  | nil => cases hx
  | cons a rest ih =>
    cases i with
    | zero =>
      simp only [List.getElem?_cons_zero, Option.some.injEq] at hy
      subst hy
      simp only [List.eraseIdx_cons_zero]
      rcases List.mem_cons.mp hx with e | m
      · exact absurd e hne
      · exact m
    | succ j =>
      simp only [List.getElem?_cons_succ] at hy
      simp only [List.eraseIdx_cons_succ, List.mem_cons]
      rcases List.mem_cons.mp hx with e | m
      · exact Or.inl e
      · exact Or.inr (ih m hy)

/-! ### preservation, event by event -/

theorem count_zero_of_lt {l : List Nat} {n : Nat} (h : ∀ r, r ∈ l → r < n) : l.count n = 0 := by
  apply List.count_eq_zero.mpr
  intro hm
  have := h n hm
  omega

theorem count_filter_ne (l : List Nat) (r x : Nat) :
    (l.filter (· != r)).count x = if x = r then 0 else l.count x := by
  induction l with
  | nil => simp
  | cons a rest ih =>
    rw [List.filter_cons]
    by_cases ha : a = r
    · subst ha
      simp only [bne_self_eq_false, Bool.false_eq_true, if_false, ih, List.count_cons]
      split
      · rfl
      · rename_i hx
        have : ¬ (a == x) = true := by simpa using fun e => hx e.symm
        simp [this]
    · have : (a != r) = true := by simpa using ha
      simp only [this, if_true, List.count_cons, ih]
      split <;> simp_all

theorem count_map_eraseIdx {α} (f : α → Nat) {l : List α} {i : Nat} {y : α} (hy : l[i]? = some y) (x : Nat) :
    (l.map f).count x = ((l.eraseIdx i).map f).count x + (if f y = x then 1 else 0) := by
  induction l generalizing i with
  | nil => simp at hy
  | cons a rest ih =>
    cases i with
    | zero =>
      simp only [List.getElem?_cons_zero, Option.some.injEq] at hy
      subst hy
      simp only [List.eraseIdx_cons_zero, List.map_cons, List.count_cons, beq_iff_eq]
    | succ j =>
      simp only [List.getElem?_cons_succ] at hy
      simp only [List.eraseIdx_cons_succ, List.map_cons, List.count_cons, ih hy]
      omega

theorem mem_streams {c : Conn} {s r : Nat} (h : (s, r) ∈ c.server) : s ∈ srvStreams c :=
  List.mem_map.mpr ⟨(s, r), h, rfl⟩

theorem mem_reqs {c : Conn} {s r : Nat} (h : (s, r) ∈ c.server) : r ∈ srvReqs c :=
  List.mem_map.mpr ⟨(s, r), h, rfl⟩

theorem MapInv.fresh {c : Conn} (h : MapInv c) :
    c.permits.count c.nextReq = 0 ∧ c.sending.count c.nextReq = 0 ∧ c.queue.count c.nextReq = 0 ∧
      (srvReqs c).count c.nextReq = 0 :=
  ⟨count_zero_of_lt (fun r hr => h.permLt r hr),
   count_zero_of_lt (fun r hr => h.reqLt r (Or.inl hr)),
   count_zero_of_lt (fun r hr => h.reqLt r (Or.inr (Or.inl hr))),
   count_zero_of_lt (fun r hr => h.reqLt r (Or.inr (Or.inr hr)))⟩

theorem MapInv.submit {c : Conn} (h : MapInv c) : MapInv (step c .submit) := by
  simp only [step]
  split
  · exact { h with reqLt := fun r hr => Nat.lt_succ_of_lt (h.reqLt r hr),
                   permLt := fun r hr => Nat.lt_succ_of_lt (h.permLt r hr) }
  · rename_i hb
    refine { h with reqOnce := ?_, reqLt := ?_, brk := ?_,
                    permLt := fun r hr => Nat.lt_succ_of_lt (h.permLt r hr) }
    · intro r
      have := h.reqOnce r
      simp only [List.count_append, List.count_cons, List.count_nil]
      split
      · rename_i e
        have e : c.nextReq = r := by simpa using e
        subst e
        obtain ⟨h0, h1, h2, h3⟩ := h.fresh
        simp only [srvReqs] at *
        omega
      · simp only [srvReqs] at *; omega
    · intro r hr
      simp only [List.mem_append, List.mem_singleton] at hr
      rcases hr with hr | (hr | hr) | hr
      · exact Nat.lt_succ_of_lt (h.reqLt r (Or.inl hr))
      · exact Nat.lt_succ_of_lt (h.reqLt r (Or.inr (Or.inl hr)))
      · subst hr; exact Nat.lt_succ_self _
      · exact Nat.lt_succ_of_lt (h.reqLt r (Or.inr (Or.inr hr)))
    · intro hb'; simp_all

theorem MapInv.submitFull {c : Conn} (h : MapInv c) : MapInv (step c .submitFull) := by
  simp only [step]
  split
  · exact { h with reqLt := fun r hr => Nat.lt_succ_of_lt (h.reqLt r hr),
                   permLt := fun r hr => Nat.lt_succ_of_lt (h.permLt r hr) }
  · rename_i hb
    refine { h with reqOnce := ?_, reqLt := ?_, brk := ?_,
                    permLt := fun r hr => Nat.lt_succ_of_lt (h.permLt r hr) }
    · intro r
      have := h.reqOnce r
      simp only [List.count_append, List.count_cons, List.count_nil]
      split
      · rename_i e
        have e : c.nextReq = r := by simpa using e
        subst e
        obtain ⟨h0, h1, h2, h3⟩ := h.fresh
        simp only [srvReqs] at *
        omega
      · simp only [srvReqs] at *; omega
    · intro r hr
      simp only [List.mem_append, List.mem_singleton] at hr
      rcases hr with (hr | hr) | hr | hr
      · exact Nat.lt_succ_of_lt (h.reqLt r (Or.inl hr))
      · subst hr; exact Nat.lt_succ_self _
      · exact Nat.lt_succ_of_lt (h.reqLt r (Or.inr (Or.inl hr)))
      · exact Nat.lt_succ_of_lt (h.reqLt r (Or.inr (Or.inr hr)))
    · intro hb'; simp_all

theorem MapInv.enqueue {c : Conn} (r : Nat) (h : MapInv c) : MapInv (step c (.enqueue r)) := by
  simp only [step]
  split
  · exact h
  · split
    · rename_i hb hmem
      have hmem : r ∈ c.sending := by simpa using hmem
      refine { h with reqOnce := ?_, reqLt := ?_, brk := ?_ }
      · intro x
        have := h.reqOnce x
        simp only [List.count_append, List.count_cons, List.count_nil, count_filter_ne]
        have hpos : 0 < c.sending.count r := List.count_pos_iff.mpr hmem
        by_cases hx : x = r
        · subst hx; simp only [srvReqs] at *; simp; omega
        · have : ¬ (r == x) = true := by simpa using fun e => hx e.symm
          simp only [srvReqs] at *
          simp [hx, this]; omega
      · intro x hx
        simp only [List.mem_append, List.mem_singleton, List.mem_filter] at hx
        rcases hx with hx | (hx | hx) | hx
        · exact h.reqLt x (Or.inl hx.1)
        · exact h.reqLt x (Or.inr (Or.inl hx))
        · subst hx; exact h.reqLt x (Or.inl hmem)
        · exact h.reqLt x (Or.inr (Or.inr hx))
      · intro hb'; simp_all
    · exact h

theorem MapInv.submitRace {c : Conn} (h : MapInv c) : MapInv (step c .submitRace) := by
  simp only [step]
  split
  · exact { h with reqLt := fun r hr => Nat.lt_succ_of_lt (h.reqLt r hr),
                   permLt := fun r hr => Nat.lt_succ_of_lt (h.permLt r hr) }
  · rename_i hb
    refine { h with reqOnce := ?_, reqLt := fun r hr => Nat.lt_succ_of_lt (h.reqLt r hr), brk := ?_, permLt := ?_ }
    · intro r
      have := h.reqOnce r
      simp only [List.count_append, List.count_cons, List.count_nil]
      split
      · rename_i e
        have e : c.nextReq = r := by simpa using e
        subst e
        obtain ⟨h0, h1, h2, h3⟩ := h.fresh
        simp only [srvReqs] at *
        omega
      · simp only [srvReqs] at *; omega
    · intro r hr
      simp only [List.mem_append, List.mem_singleton] at hr
      show r < c.nextReq + 1
      rcases hr with hr | hr
      · exact Nat.lt_succ_of_lt (h.permLt r hr)
      · subst hr; exact Nat.lt_succ_self _
    · intro hb'; simp_all

theorem MapInv.push {c : Conn} (r : Nat) (h : MapInv c) : MapInv (step c (.push r)) := by
  simp only [step]
  split
  · rename_i hmem
    have hmem : r ∈ c.permits := by simpa using hmem
    have hpos : 0 < c.permits.count r := List.count_pos_iff.mpr hmem
    split
    · refine { h with reqOnce := ?_, permLt := fun x hx => h.permLt x (List.mem_filter.mp hx).1 }
      intro x
      have := h.reqOnce x
      show (c.permits.filter (· != r)).count x +
        (c.sending.count x + c.queue.count x + (srvReqs c).count x) ≤ 1
      rw [count_filter_ne]
      split <;> omega
    · rename_i hb
      refine { h with reqOnce := ?_, reqLt := ?_, brk := ?_,
                      permLt := fun x hx => h.permLt x (List.mem_filter.mp hx).1 }
      · intro x
        have := h.reqOnce x
        simp only [List.count_append, List.count_cons, List.count_nil, count_filter_ne]
        by_cases hx : x = r
        · subst hx; simp only [srvReqs] at *; simp; omega
        · have : ¬ (r == x) = true := by simpa using fun e => hx e.symm
          simp only [srvReqs] at *
          simp [hx, this]; omega
      · intro x hx
        simp only [List.mem_append, List.mem_singleton] at hx
        rcases hx with hx | (hx | hx) | hx
        · exact h.reqLt x (Or.inl hx)
        · exact h.reqLt x (Or.inr (Or.inl hx))
        · subst hx; exact h.permLt x hmem
        · exact h.reqLt x (Or.inr (Or.inr hx))
      · intro hb'; simp_all
  · exact h

theorem MapInv.writerTake {c : Conn} (h : MapInv c) : MapInv (step c .writerTake) := by
  simp only [step]
  split
  · exact h
  · rename_i hb
    have hb : c.broken = false := by simpa using hb
    split
    · exact h
    · rename_i r q hq
      split
      · rename_i s map' halloc
        obtain ⟨ids', hids, hmap⟩ := hallocate_some halloc
        subst hmap
        obtain ⟨slt, sfree, _, sset, sother, slen⟩ := sallocate_some h.len hids
        have sNotSrv : ∀ r', (s, r') ∉ c.server := by
          intro r' hm
          have := (h.srvUsed s r' hm).2
          rw [sfree] at this; cases this
        have sNotStreams : s ∉ srvStreams c := by
          intro hm
          obtain ⟨⟨s', r'⟩, hm2, e⟩ := List.mem_map.mp hm
          simp only at e; subst e
          exact sNotSrv r' hm2
        have rq : 0 < c.queue.count r := by rw [hq]; simp
        have rNotReqs : r ∉ srvReqs c := by
          intro hm
          have := List.count_pos_iff.mpr hm
          have := h.reqOnce r
          omega
        have neOfSrv : ∀ s' r', (s', r') ∈ c.server → s ≠ s' := by
          intro s' r' hm e; subst e; exact sNotSrv r' hm
        constructor
        · exact slen
        · intro s' r' hm
          simp only [List.mem_append, List.mem_singleton, Prod.mk.injEq] at hm
          rcases hm with hm | ⟨e1, e2⟩
          · have := h.srvUsed s' r' hm
            refine ⟨this.1, ?_⟩
            show ids'.isUsed s' = true
            rw [sother s' (fun e => neOfSrv s' r' hm e.symm)]; exact this.2
          · subst e1 e2; exact ⟨slt, sset⟩
        · intro x
          have := h.srvOnce x
          simp only [srvStreams, List.map_append, List.count_append, List.map_cons, List.map_nil,
            List.count_cons, List.count_nil] at *
          split
          · rename_i e
            have e : s = x := by simpa using e
            subst e
            have : (c.server.map Prod.fst).count s = 0 := List.count_eq_zero.mpr sNotStreams
            omega
          · omega
        · intro x
          have := h.reqOnce x
          rw [hq] at this
          simp only [srvReqs, List.map_append, List.count_append, List.map_cons, List.map_nil,
            List.count_cons, List.count_nil] at *
          omega
        · intro x hx
          apply h.reqLt
          simp only [srvReqs, List.map_append, List.mem_append, List.map_cons, List.map_nil, List.mem_singleton] at hx
          rw [hq]
          rcases hx with hx | hx | hx | hx
          · exact Or.inl hx
          · exact Or.inr (Or.inl (List.mem_cons_of_mem _ hx))
          · exact Or.inr (Or.inr hx)
          · subst hx; exact Or.inr (Or.inl (List.mem_cons_self))
        · exact h.permLt
        · intro s' r' hh
          simp only [AMap.get_insert] at hh
          simp only [List.mem_append, List.mem_singleton, Prod.mk.injEq]
          split at hh
          · rename_i e; subst e
            simp only [Option.some.injEq] at hh; subst hh
            exact Or.inr ⟨rfl, rfl⟩
          · exact Or.inl (h.hSrv s' r' hh)
        · intro s' hs'
          have := h.orphSrv s' hs'
          refine ⟨?_, ?_⟩
          · simp only [srvStreams, List.map_append, List.mem_append]; exact Or.inl this.1
          · simp only [AMap.get_insert]
            split
            · rename_i e; subst e; exact absurd this.1 sNotStreams
            · exact this.2
        · intro _ s' r' hm
          simp only [List.mem_append, List.mem_singleton, Prod.mk.injEq] at hm
          simp only [AMap.get_insert]
          rcases hm with hm | ⟨e1, e2⟩
          · have hne := neOfSrv s' r' hm
            simp only [hne, if_false]
            exact h.owed hb s' r' hm
          · subst e1 e2; simp
        · intro r' s'
          simp only [AMap.get_insert]
          by_cases e1 : r = r' <;> by_cases e2 : s = s'
          · subst e1 e2; simp
          · subst e1
            simp only [if_true, e2, if_false, Option.some.injEq]
            constructor
            · intro e; cases e
            · intro hh; exact absurd (mem_reqs (h.hSrv s' r hh)) rNotReqs
          · subst e2
            simp only [e1, if_false, if_true, Option.some.injEq]
            constructor
            · intro hh; exact absurd (h.hSrv s r' ((h.inv r' s).mp hh)) (sNotSrv r')
            · intro e; cases e
          · simp only [e1, e2, if_false]; exact h.inv r' s'
        · intro hb'; simp_all
        · exact h.alive
      · rename_i hnone
        refine { h with reqOnce := ?_, reqLt := ?_, brk := ?_ }
        · intro x
          have := h.reqOnce x
          rw [hq] at this
          simp only [List.count_cons] at this
          show c.permits.count x + (c.sending.count x + q.count x + (srvReqs c).count x) ≤ 1
          omega
        · intro x hx
          apply h.reqLt
          rw [hq]
          rcases hx with hx | hx | hx
          · exact Or.inl hx
          · exact Or.inr (Or.inl (List.mem_cons_of_mem _ hx))
          · exact Or.inr (Or.inr hx)
        · intro hb'; simp_all

theorem MapInv.cancel {c : Conn} (r : Nat) (h : MapInv c) : MapInv (step c (.cancel r)) := by
  simp only [step]
  have key : MapInv ({ c with callers := setCaller c.callers r CallerSt.abandoned,
                               sending := c.sending.filter (fun x => x != r),
                               permits := c.permits.filter (fun x => x != r),
                               notices := if c.broken then c.notices else c.notices ++ [r] } : Conn) := by
    refine { h with reqOnce := ?_, reqLt := ?_, brk := ?_,
                    permLt := fun x hx => h.permLt x (List.mem_filter.mp hx).1 }
    · intro x
      have := h.reqOnce x
      show (c.permits.filter (· != r)).count x +
        ((c.sending.filter (· != r)).count x + c.queue.count x + (srvReqs c).count x) ≤ 1
      rw [count_filter_ne, count_filter_ne]
      split <;> omega
    · intro x hx
      apply h.reqLt
      rcases hx with hx | hx | hx
      · exact Or.inl (List.mem_filter.mp hx).1
      · exact Or.inr (Or.inl hx)
      · exact Or.inr (Or.inr hx)
    · intro hb
      have := h.brk hb
      refine ⟨this.1, ?_, ?_, this.2.2.2⟩
      · show c.sending.filter (· != r) = []
        rw [this.2.1]; rfl
      · show (if c.broken = true then c.notices else c.notices ++ [r]) = []
        rw [if_pos hb]; exact this.2.2.1
  split
  · exact key
  · exact key
  · exact h

theorem MapInv.orphanerStep {c : Conn} (h : MapInv c) : MapInv (step c .orphanerStep) := by
  simp only [step]
  split
  · exact h
  · rename_i hb
    have hb : c.broken = false := by simpa using hb
    split
    · exact h
    · rename_i r ns hn
      cases hq : c.map.req2stream.get r with
      | none =>
        rw [horphan_none hq]
        exact { h with brk := by intro hb'; simp_all }
      | some s =>
        rw [horphan_some hq]
        have hhs : c.map.handlers.get s = some r := (h.inv r s).mp hq
        have hsrv : (s, r) ∈ c.server := h.hSrv s r hhs
        have memOrph : ∀ x, x ∈ (if c.map.orphans.contains s then c.map.orphans else s :: c.map.orphans) ↔
            x = s ∨ x ∈ c.map.orphans := by
          intro x
          split
          · rename_i hc
            have hc : s ∈ c.map.orphans := by simpa using hc
            constructor
            · exact Or.inr
            · rintro (e | m)
              · subst e; exact hc
              · exact m
          · simp
        constructor
        · exact h.len
        · exact h.srvUsed
        · exact h.srvOnce
        · exact h.reqOnce
        · exact h.reqLt
        · exact h.permLt
        · intro s' r' hh
          simp only [AMap.get_erase] at hh
          split at hh
          · cases hh
          · exact h.hSrv s' r' hh
        · intro s' hs'
          simp only [AMap.get_erase]
          rcases (memOrph s').mp hs' with e | m
          · subst e; exact ⟨mem_streams hsrv, by simp⟩
          · have := h.orphSrv s' m
            refine ⟨this.1, ?_⟩
            split
            · rfl
            · exact this.2
        · intro _ s' r' hm
          simp only [AMap.get_erase]
          by_cases e : s = s'
          · subst e; exact Or.inl ((memOrph s).mpr (Or.inl rfl))
          · simp only [e, if_false]
            rcases h.owed hb s' r' hm with o | hh
            · exact Or.inl ((memOrph s').mpr (Or.inr o))
            · exact Or.inr hh
        · intro r' s'
          simp only [AMap.get_erase]
          by_cases e1 : r = r' <;> by_cases e2 : s = s'
          · subst e1 e2; simp
          · subst e1
            simp only [if_true, e2, if_false]
            constructor
            · intro e; cases e
            · intro hh
              have := (h.inv r s').mpr hh
              rw [hq] at this
              simp only [Option.some.injEq] at this
              exact absurd this e2
          · subst e2
            simp only [e1, if_false, if_true]
            constructor
            · intro hh
              have := (h.inv r' s).mp hh
              rw [hhs] at this
              simp only [Option.some.injEq] at this
              exact absurd this e1
            · intro e; cases e
          · simp only [e1, e2, if_false]; exact h.inv r' s'
        · intro hb'; simp_all
        · exact h.alive

theorem MapInv.doBreak {c : Conn} (k : BreakKind) (h : MapInv c) : MapInv (doBreak c k) := by
  unfold Conn.doBreak
  constructor
  · exact h.len
  · exact h.srvUsed
  · exact h.srvOnce
  · intro x
    have := h.reqOnce x
    show c.permits.count x + (([] : List Nat).count x + ([] : List Nat).count x + (srvReqs c).count x) ≤ 1
    simp only [List.count_nil]; omega
  · intro x hx
    apply h.reqLt
    rcases hx with hx | hx | hx
    · cases hx
    · cases hx
    · exact Or.inr (Or.inr hx)
  · exact h.permLt
  · intro s r hh; cases hh
  · intro s hs; cases hs
  · intro hb; cases hb
  · intro r s
    show AMap.get [] r = some s ↔ AMap.get [] s = some r
    simp
  · intro _; exact ⟨rfl, rfl, rfl, rfl, k, rfl⟩
  · intro hf; cases hf

/-- A frame on a stream the server does not owe: the lookup frees the id and finds nothing. -/
theorem MapInv.freeUnowed {c : Conn} {s : Nat} (h : MapInv c) (hs : s ∉ srvStreams c) :
    MapInv ({ c with map := { c.map with ids := c.map.ids.free s } } : Conn) := by
  refine { h with len := ?_, srvUsed := ?_ }
  · show (c.map.ids.free s).blocks.length = 512
    rw [free_length]; exact h.len
  · intro s' r' hm
    have := h.srvUsed s' r' hm
    refine ⟨this.1, ?_⟩
    show (c.map.ids.free s).isUsed s' = true
    rw [free_isUsed, this.2]
    have : s' ≠ s := fun e => hs (e ▸ mem_streams hm)
    simp [this]

theorem lookup_unowed {c : Conn} {s : Nat} (h : MapInv c) (hs : s ∉ srvStreams c) :
    c.map.lookup s = (.missing, { c.map with ids := c.map.ids.free s }) := by
  apply hlookup_missing
  · intro ho; exact hs (h.orphSrv s ho).1
  · cases hh : c.map.handlers.get s with
    | none => rfl
    | some r => exact absurd (mem_streams (h.hSrv s r hh)) hs

theorem not_mem_streams_of_any {c : Conn} {s : Nat} (h : ¬ (c.server.any (fun p => p.1 == s)) = true) :
    s ∉ srvStreams c := by
  intro hm
  apply h
  obtain ⟨⟨s', r'⟩, hm2, e⟩ := List.mem_map.mp hm
  simp only at e; subst e
  exact List.any_eq_true.mpr ⟨(s', r'), hm2, by simp⟩

theorem MapInv.unsolicited {c : Conn} (s : Nat) (h : MapInv c) : MapInv (step c (.unsolicited s)) := by
  simp only [step]
  split
  · exact h
  · split
    · exact h
    · split
      · exact h
      · rename_i hany
        have hs := not_mem_streams_of_any hany
        rw [lookup_unowed h hs]
        exact (h.freeUnowed hs).doBreak _

/-- What the reader's lookup finds for an answer the server owes. -/
theorem lookup_owed {c : Conn} {s r : Nat} (h : MapInv c) (hb : c.broken = false) (hm : (s, r) ∈ c.server) :
    (s ∈ c.map.orphans ∧ c.map.lookup s = (LookupRes.orphaned,
        ({ c.map with ids := c.map.ids.free s, orphans := c.map.orphans.filter (fun x => x != s) } : HMap))) ∨
    (s ∉ c.map.orphans ∧ c.map.handlers.get s = some r ∧
      c.map.lookup s = (LookupRes.handler r,
        ({ c.map with ids := c.map.ids.free s, handlers := c.map.handlers.erase s,
                      req2stream := c.map.req2stream.erase r } : HMap))) := by
  rcases h.owed hb s r hm with ho | hh
  · exact Or.inl ⟨ho, hlookup_orphaned ho⟩
  · have hno : s ∉ c.map.orphans := by
      intro ho
      have := (h.orphSrv s ho).2
      rw [hh] at this; cases this
    exact Or.inr ⟨hno, hh, hlookup_handler hno hh⟩

theorem MapInv.respond {c : Conn} (i : Nat) (h : MapInv c) : MapInv (step c (.respond i)) := by
  simp only [step]
  split
  · exact h
  · rename_i hb
    have hb : c.broken = false := by simpa using hb
    split
    · exact h
    · rename_i s r hi
      have hm : (s, r) ∈ c.server := List.mem_of_getElem? hi
      -- facts about the remaining server entries
      have cntS := count_map_eraseIdx Prod.fst hi
      have cntR := count_map_eraseIdx Prod.snd hi
      have restNe : ∀ s' r', (s', r') ∈ c.server.eraseIdx i → s' ≠ s := by
        intro s' r' hm' e
        subst e
        have h1 := cntS s'
        have h2 : 0 < ((c.server.eraseIdx i).map Prod.fst).count s' :=
          List.count_pos_iff.mpr (List.mem_map.mpr ⟨(s', r'), hm', rfl⟩)
        have h3 := h.srvOnce s'
        simp only [srvStreams] at h3
        simp at h1
        omega
      have keep : ∀ s' r', (s', r') ∈ c.server → s' ≠ s → (s', r') ∈ c.server.eraseIdx i := by
        intro s' r' hm' hne
        exact mem_eraseIdx_of_ne hm' hi (by intro e; cases e; exact hne rfl)
      have base : ∀ (m' : HMap) (cs : List (Nat × CallerSt)), m'.ids = c.map.ids.free s →
          (∀ s' r', m'.handlers.get s' = some r' → s' ≠ s ∧ c.map.handlers.get s' = some r') →
          (∀ s', s' ∈ m'.orphans → s' ≠ s ∧ s' ∈ c.map.orphans) →
          (∀ s', s' ≠ s → c.map.handlers.get s' = none → m'.handlers.get s' = none) →
          (∀ s' r', (s', r') ∈ c.server.eraseIdx i → s' ∈ c.map.orphans → s' ∈ m'.orphans) →
          (∀ s' r', s' ≠ s → c.map.handlers.get s' = some r' → m'.handlers.get s' = some r') →
          (∀ r' s', m'.req2stream.get r' = some s' ↔ m'.handlers.get s' = some r') →
          MapInv ({ c with server := c.server.eraseIdx i, map := m', callers := cs } : Conn) := by
        intro m' cs hids hh ho hnone horph hsome hinv
        constructor
        · show m'.ids.blocks.length = 512
          rw [hids, free_length]; exact h.len
        · intro s' r' hm'
          have := h.srvUsed s' r' (mem_of_mem_eraseIdx hm')
          refine ⟨this.1, ?_⟩
          show m'.ids.isUsed s' = true
          rw [hids, free_isUsed, this.2]
          simp [restNe s' r' hm']
        · intro x
          have h1 := cntS x
          have h3 := h.srvOnce x
          simp only [srvStreams] at *
          omega
        · intro x
          have h1 := cntR x
          have h3 := h.reqOnce x
          simp only [srvReqs] at *
          omega
        · intro x hx
          apply h.reqLt
          rcases hx with hx | hx | hx
          · exact Or.inl hx
          · exact Or.inr (Or.inl hx)
          · refine Or.inr (Or.inr ?_)
            obtain ⟨p, hp, e⟩ := List.mem_map.mp hx
            exact List.mem_map.mpr ⟨p, mem_of_mem_eraseIdx hp, e⟩
        · exact h.permLt
        · intro s' r' hh'
          have := hh s' r' hh'
          exact keep s' r' (h.hSrv s' r' this.2) this.1
        · intro s' hs'
          have := ho s' hs'
          have old := h.orphSrv s' this.2
          obtain ⟨⟨s'', r''⟩, hp, e⟩ := List.mem_map.mp old.1
          simp only at e; subst e
          exact ⟨List.mem_map.mpr ⟨(s'', r''), keep s'' r'' hp this.1, rfl⟩, hnone s'' this.1 old.2⟩
        · intro _ s' r' hm'
          have hne := restNe s' r' hm'
          rcases h.owed hb s' r' (mem_of_mem_eraseIdx hm') with o | hh'
          · exact Or.inl (horph s' r' hm' o)
          · exact Or.inr (hsome s' r' hne hh')
        · exact hinv
        · intro hb'
          have : c.broken = true := hb'
          rw [hb] at this; cases this
        · exact h.alive
      rcases lookup_owed h hb hm with ⟨ho, hl⟩ | ⟨hno, hh, hl⟩
      · rw [hl]
        apply base _ c.callers
        · rfl
        · intro s' r' hh'
          refine ⟨?_, hh'⟩
          intro e; subst e
          have := (h.orphSrv s' ho).2
          rw [this] at hh'; cases hh'
        · intro s' hs'
          have := List.mem_filter.mp hs'
          exact ⟨by simpa using this.2, this.1⟩
        · intro s' _ hn; exact hn
        · intro s' r' hm' o
          exact List.mem_filter.mpr ⟨o, by simpa using restNe s' r' hm'⟩
        · intro s' r' _ hh'; exact hh'
        · exact h.inv
      · rw [hl]
        apply base
        · rfl
        · intro s' r' hh'
          simp only [AMap.get_erase] at hh'
          split at hh'
          · cases hh'
          · rename_i hne; exact ⟨fun e => hne e.symm, hh'⟩
        · intro s' hs'
          refine ⟨?_, hs'⟩
          intro e; exact hno (e ▸ hs')
        · intro s' hne hn
          simp only [AMap.get_erase]
          split
          · rfl
          · exact hn
        · intro s' r' _ o; exact o
        · intro s' r' hne hh'
          simp only [AMap.get_erase]
          have : ¬ s = s' := fun e => hne e.symm
          simp only [this, if_false]; exact hh'
        · intro r' s'
          simp only [AMap.get_erase]
          by_cases e1 : r = r' <;> by_cases e2 : s = s'
          · subst e1 e2; simp
          · subst e1
            simp only [if_true, e2, if_false]
            constructor
            · intro e; cases e
            · intro hh'
              have h1 := (h.inv r s').mpr hh'
              have h2 := (h.inv r s).mpr hh
              rw [h1] at h2
              simp only [Option.some.injEq] at h2
              exact absurd h2.symm e2
          · subst e2
            simp only [e1, if_false, if_true]
            constructor
            · intro hh'
              have := (h.inv r' s).mp hh'
              rw [hh] at this
              simp only [Option.some.injEq] at this
              exact absurd this e1
            · intro e; cases e
          · simp only [e1, e2, if_false]; exact h.inv r' s'

theorem MapInv.recv {c : Conn} (r : Nat) (h : MapInv c) : MapInv (step c (.recv r)) := by
  simp only [step]
  split
  · exact { h with }
  · exact h

theorem MapInv.break_ {c : Conn} (k : BreakKind) (h : MapInv c) : MapInv (step c (.break_ k)) := by
  simp only [step]
  split
  · exact h
  · exact h.doBreak k

theorem MapInv.step {c : Conn} (h : MapInv c) (e : Ev) : MapInv (step c e) := by
  cases e with
  | submit => exact h.submit
  | submitFull => exact h.submitFull
  | enqueue r => exact h.enqueue r
  | submitRace => exact h.submitRace
  | push r => exact h.push r
  | writerTake => exact h.writerTake
  | cancel r => exact h.cancel r
  | orphanerStep => exact h.orphanerStep
  | respond i => exact h.respond i
  | unsolicited s => exact h.unsolicited s
  | recv r => exact h.recv r
  | break_ k => exact h.break_ k

theorem MapInv.run {c : Conn} (h : MapInv c) (evs : List Ev) : MapInv (run c evs) := by
  unfold Conn.run
  induction evs generalizing c with
  | nil => exact h
  | cons e rest ih => exact ih (h.step e)


/-! ### the invariant of the caller table -/

structure CallerInv (c : Conn) : Prop where
  tracked : ∀ r, getCaller c.callers r = some .waiting →
      r ∈ c.sending ∨ r ∈ c.queue ∨ (∃ s, c.map.handlers.get s = some r) ∨ r ∈ c.permits
  own : ∀ r f, (getCaller c.callers r = some (.delivered (.frame f)) ∨
      getCaller c.callers r = some (.done (.frame f))) → f = r
  noticeAb : ∀ r, r ∈ c.notices → getCaller c.callers r = some .abandoned
  callerLt : ∀ r st, getCaller c.callers r = some st → r < c.nextReq

theorem CallerInv.init : CallerInv Conn.init := by
  constructor <;> simp [Conn.init, getCaller]

/-- Installing a fresh caller entry for `nextReq`. -/
theorem CallerInv.fresh {c : Conn} (h : CallerInv c) (st : CallerSt) (sending queue permits : List Nat)
    (hst : st = .waiting → c.nextReq ∈ sending ∨ c.nextReq ∈ queue ∨ c.nextReq ∈ permits)
    (hframe : ∀ f, st ≠ .delivered (.frame f) ∧ st ≠ .done (.frame f))
    (hs : ∀ r, r ∈ c.sending → r ∈ sending) (hq : ∀ r, r ∈ c.queue → r ∈ queue)
    (hp : ∀ r, r ∈ c.permits → r ∈ permits) :
    CallerInv ({ c with nextReq := c.nextReq + 1, sending := sending, queue := queue, permits := permits,
                        callers := setCaller c.callers c.nextReq st } : Conn) := by
  constructor
  · intro r hw
    simp only [getCaller_setCaller] at hw
    split at hw
    · rename_i e; subst e
      simp only [Option.some.injEq] at hw
      rcases hst hw with m | m | m
      · exact Or.inl m
      · exact Or.inr (Or.inl m)
      · exact Or.inr (Or.inr (Or.inr m))
    · rcases h.tracked r hw with m | m | m | mp
      · exact Or.inl (hs r m)
      · exact Or.inr (Or.inl (hq r m))
      · exact Or.inr (Or.inr (Or.inl m))
      · exact Or.inr (Or.inr (Or.inr (hp r mp)))
  · intro r f hf
    simp only [getCaller_setCaller] at hf
    split at hf
    · rename_i e; subst e
      simp only [Option.some.injEq] at hf
      rcases hf with e | e
      · exact absurd e (hframe f).1
      · exact absurd e (hframe f).2
    · exact h.own r f hf
  · intro r hr
    have ab := h.noticeAb r hr
    have := h.callerLt r _ ab
    simp only [getCaller_setCaller]
    have : ¬ c.nextReq = r := by omega
    simp only [this, if_false]; exact ab
  · intro r st' hg
    simp only [getCaller_setCaller] at hg
    show r < c.nextReq + 1
    split at hg
    · rename_i e; subst e; exact Nat.lt_succ_self _
    · exact Nat.lt_succ_of_lt (h.callerLt r st' hg)

theorem CallerInv.submit {c : Conn} (h : CallerInv c) : CallerInv (step c .submit) := by
  simp only [step]
  split
  · exact h.fresh _ c.sending c.queue c.permits (by intro e; cases e)
      (by intro f; constructor <;> (intro e; cases e)) (fun _ m => m) (fun _ m => m) (fun _ m => m)
  · exact h.fresh _ c.sending (c.queue ++ [c.nextReq]) c.permits (by intro _; right; left; simp)
      (by intro f; constructor <;> (intro e; cases e)) (fun _ m => m)
      (fun _ m => List.mem_append_left _ m) (fun _ m => m)

theorem CallerInv.submitFull {c : Conn} (h : CallerInv c) : CallerInv (step c .submitFull) := by
  simp only [step]
  split
  · exact h.fresh _ c.sending c.queue c.permits (by intro e; cases e)
      (by intro f; constructor <;> (intro e; cases e)) (fun _ m => m) (fun _ m => m) (fun _ m => m)
  · exact h.fresh _ (c.sending ++ [c.nextReq]) c.queue c.permits (by intro _; left; simp)
      (by intro f; constructor <;> (intro e; cases e))
      (fun _ m => List.mem_append_left _ m) (fun _ m => m) (fun _ m => m)

theorem CallerInv.submitRace {c : Conn} (h : CallerInv c) : CallerInv (step c .submitRace) := by
  simp only [step]
  split
  · exact h.fresh _ c.sending c.queue c.permits (by intro e; cases e)
      (by intro f; constructor <;> (intro e; cases e)) (fun _ m => m) (fun _ m => m) (fun _ m => m)
  · exact h.fresh _ c.sending c.queue (c.permits ++ [c.nextReq]) (by intro _; right; right; simp)
      (by intro f; constructor <;> (intro e; cases e))
      (fun _ m => m) (fun _ m => m) (fun _ m => List.mem_append_left _ m)

theorem CallerInv.enqueue {c : Conn} (r : Nat) (h : CallerInv c) : CallerInv (step c (.enqueue r)) := by
  simp only [step]
  split
  · exact h
  · split
    · refine { h with tracked := ?_ }
      intro r' hw
      rcases h.tracked r' hw with m | m | m | mp
      · by_cases e : r' = r
        · subst e; exact Or.inr (Or.inl (by simp))
        · exact Or.inl (List.mem_filter.mpr ⟨m, by simpa using e⟩)
      · exact Or.inr (Or.inl (List.mem_append_left _ m))
      · exact Or.inr (Or.inr (Or.inl m))
      · exact Or.inr (Or.inr (Or.inr mp))
    · exact h

/-- Completing caller `r`'s oneshot with `o` (a frame only if it is `r`'s own). -/
theorem CallerInv.deliver {c : Conn} (h : CallerInv c) (r : Nat) (o : Outcome) (m' : HMap)
    (sending queue permits : List Nat) (server : List (Nat × Nat))
    (ho : ∀ f, o = .frame f → f = r)
    (htr : ∀ r', r' ≠ r → getCaller c.callers r' = some .waiting →
      r' ∈ sending ∨ r' ∈ queue ∨ (∃ s, m'.handlers.get s = some r') ∨ r' ∈ permits) :
    CallerInv ({ c with map := m', sending := sending, queue := queue, permits := permits, server := server,
                        callers := Conn.deliver c.callers r o } : Conn) := by
  constructor
  · intro r' hw
    simp only [getCaller_deliver] at hw
    split at hw
    · cases hw
    · rename_i hc
      have hne : r' ≠ r := by
        intro e; subst e; exact hc ⟨rfl, hw⟩
      exact htr r' hne hw
  · intro r' f hf
    simp only [getCaller_deliver] at hf
    split at hf
    · rename_i hc
      rcases hf with e | e
      · simp only [Option.some.injEq, CallerSt.delivered.injEq] at e
        rw [← hc.1]; exact ho f e
      · cases e
    · exact h.own r' f hf
  · intro r' hr
    have ab := h.noticeAb r' hr
    simp only [getCaller_deliver]
    split
    · rename_i hc
      rw [← hc.1, hc.2] at ab; cases ab
    · exact ab
  · intro r' st hg
    simp only [getCaller_deliver] at hg
    split at hg
    · rename_i hc; rw [← hc.1]; exact h.callerLt r _ hc.2
    · exact h.callerLt r' st hg


theorem CallerInv.push {c : Conn} (r : Nat) (h : CallerInv c) : CallerInv (step c (.push r)) := by
  simp only [step]
  split
  · split
    · apply h.deliver r _ c.map c.sending c.queue (c.permits.filter (· != r)) c.server
      · intro f e; cases e
      · intro r' hne hw
        rcases h.tracked r' hw with m | m | m | mp
        · exact Or.inl m
        · exact Or.inr (Or.inl m)
        · exact Or.inr (Or.inr (Or.inl m))
        · exact Or.inr (Or.inr (Or.inr (List.mem_filter.mpr ⟨mp, by simpa using hne⟩)))
    · refine { h with tracked := ?_ }
      intro r' hw
      rcases h.tracked r' hw with m | m | m | mp
      · exact Or.inl m
      · exact Or.inr (Or.inl (List.mem_append_left _ m))
      · exact Or.inr (Or.inr (Or.inl m))
      · by_cases e : r' = r
        · subst e; exact Or.inr (Or.inl (by simp))
        · exact Or.inr (Or.inr (Or.inr (List.mem_filter.mpr ⟨mp, by simpa using e⟩)))
  · exact h

theorem CallerInv.writerTake {c : Conn} (hm : MapInv c) (h : CallerInv c) : CallerInv (step c .writerTake) := by
  simp only [step]
  split
  · exact h
  · split
    · exact h
    · rename_i r q hq
      split
      · rename_i s map' halloc
        obtain ⟨ids', hids, hmap⟩ := hallocate_some halloc
        subst hmap
        obtain ⟨_, sfree, _, _, _, _⟩ := sallocate_some hm.len hids
        refine { h with tracked := ?_ }
        intro r' hw
        show r' ∈ c.sending ∨ r' ∈ q ∨ (∃ s', (c.map.handlers.insert s r).get s' = some r') ∨ r' ∈ c.permits
        rcases h.tracked r' hw with m | m | ⟨s', hs'⟩ | mp
        · exact Or.inl m
        · rw [hq] at m
          rcases List.mem_cons.mp m with e | m
          · subst e; exact Or.inr (Or.inr (Or.inl ⟨s, by simp [AMap.get_insert]⟩))
          · exact Or.inr (Or.inl m)
        · refine Or.inr (Or.inr (Or.inl ⟨s', ?_⟩))
          have hne : s ≠ s' := by
            intro e; subst e
            have := (hm.srvUsed s r' (hm.hSrv s r' hs')).2
            rw [sfree] at this; cases this
          simp only [AMap.get_insert, hne, if_false]; exact hs'
        · exact Or.inr (Or.inr (Or.inr mp))
      · apply h.deliver r _ c.map c.sending q c.permits c.server
        · intro f e; cases e
        · intro r' hne hw
          rcases h.tracked r' hw with m | m | m | mp
          · exact Or.inl m
          · rw [hq] at m
            rcases List.mem_cons.mp m with e | m
            · exact absurd e hne
            · exact Or.inr (Or.inl m)
          · exact Or.inr (Or.inr (Or.inl m))
          · exact Or.inr (Or.inr (Or.inr mp))

theorem CallerInv.cancel {c : Conn} (r : Nat) (h : CallerInv c) : CallerInv (step c (.cancel r)) := by
  simp only [step]
  have key : (∃ st, getCaller c.callers r = some st) →
      CallerInv ({ c with callers := setCaller c.callers r CallerSt.abandoned,
                          sending := c.sending.filter (fun x => x != r),
                          permits := c.permits.filter (fun x => x != r),
                          notices := if c.broken then c.notices else c.notices ++ [r] } : Conn) := by
    intro ⟨st, hst⟩
    constructor
    · intro r' hw
      simp only [getCaller_setCaller] at hw
      split at hw
      · cases hw
      · rename_i hne
        rcases h.tracked r' hw with m | m | m | mp
        · exact Or.inl (List.mem_filter.mpr ⟨m, by simpa using fun e => hne e.symm⟩)
        · exact Or.inr (Or.inl m)
        · exact Or.inr (Or.inr (Or.inl m))
        · exact Or.inr (Or.inr (Or.inr (List.mem_filter.mpr ⟨mp, by simpa using fun e => hne e.symm⟩)))
    · intro r' f hf
      simp only [getCaller_setCaller] at hf
      split at hf
      · rcases hf with e | e <;> cases e
      · exact h.own r' f hf
    · intro r' hr
      simp only [getCaller_setCaller]
      split
      · rfl
      · rename_i hne
        apply h.noticeAb
        have hr : r' ∈ (if c.broken = true then c.notices else c.notices ++ [r]) := hr
        split at hr
        · exact hr
        · rcases List.mem_append.mp hr with m | m
          · exact m
          · simp only [List.mem_singleton] at m; exact absurd m.symm hne
    · intro r' st' hg
      simp only [getCaller_setCaller] at hg
      split at hg
      · rename_i e; subst e; exact h.callerLt r st hst
      · exact h.callerLt r' st' hg
  split
  · rename_i hg; exact key ⟨_, hg⟩
  · rename_i hg; exact key ⟨_, hg⟩
  · exact h

theorem CallerInv.orphanerStep {c : Conn} (hm : MapInv c) (h : CallerInv c) : CallerInv (step c .orphanerStep) := by
  simp only [step]
  split
  · exact h
  · split
    · exact h
    · rename_i r ns hn
      have hab : getCaller c.callers r = some .abandoned := h.noticeAb r (by rw [hn]; simp)
      have hns : ∀ x, x ∈ ns → x ∈ c.notices := by intro x hx; rw [hn]; exact List.mem_cons_of_mem _ hx
      cases hq : c.map.req2stream.get r with
      | none =>
        rw [horphan_none hq]
        exact { h with noticeAb := fun x hx => h.noticeAb x (hns x hx) }
      | some s =>
        rw [horphan_some hq]
        have hhs : c.map.handlers.get s = some r := (hm.inv r s).mp hq
        refine { h with noticeAb := fun x hx => h.noticeAb x (hns x hx), tracked := ?_ }
        intro r' hw
        show r' ∈ c.sending ∨ r' ∈ c.queue ∨ (∃ s', (c.map.handlers.erase s).get s' = some r') ∨ r' ∈ c.permits
        rcases h.tracked r' hw with m | m | ⟨s', hs'⟩ | mp
        · exact Or.inl m
        · exact Or.inr (Or.inl m)
        · refine Or.inr (Or.inr (Or.inl ⟨s', ?_⟩))
          have hne : s ≠ s' := by
            intro e; subst e
            rw [hhs] at hs'
            simp only [Option.some.injEq] at hs'
            subst hs'
            rw [hab] at hw; cases hw
          simp only [AMap.get_erase, hne, if_false]; exact hs'
        · exact Or.inr (Or.inr (Or.inr mp))

/-- The callers after the router has ended: a registered or queued waiter holds the connection's error, a parked
one `ChannelError`; a waiter that holds channel capacity and has not pushed yet is still waiting (its own push
completes it); nothing else changes. -/
theorem doBreak_callers (c : Conn) (k : BreakKind) (r : Nat) :
    getCaller (doBreak c k).callers r =
      if getCaller c.callers r = some .waiting then
        (if r ∈ c.map.handlers.map (·.2) ∨ r ∈ c.queue then some (.delivered (.err (.broken k)))
         else if r ∈ c.sending then some (.delivered (.err .channelError))
         else some .waiting)
      else getCaller c.callers r := by
  show getCaller (failAll (failAll (failAll c.callers _ _) _ _) _ _) r = _
  simp only [getCaller_failAll]
  by_cases hw : getCaller c.callers r = some .waiting
  · by_cases h1 : r ∈ c.map.handlers.map (·.2)
    · simp [hw, h1]
    · by_cases h2 : r ∈ c.queue
      · simp [hw, h1, h2]
      · by_cases h3 : r ∈ c.sending <;> simp [hw, h1, h2, h3]
  · simp [hw]

theorem CallerInv.doBreak {c : Conn} (k : BreakKind) (h : CallerInv c) : CallerInv (doBreak c k) := by
  constructor
  · intro r hw
    rw [doBreak_callers] at hw
    split at hw
    · rename_i hwait
      rcases h.tracked r hwait with m | m | ⟨s, hs⟩ | mp
      · split at hw
        · cases hw
        · first | cases hw | (rw [if_pos m] at hw; cases hw)
      · rw [if_pos (Or.inr m)] at hw; cases hw
      · rw [if_pos (Or.inl (AMap.get_some_mem _ _ _ hs))] at hw; cases hw
      · exact Or.inr (Or.inr (Or.inr mp))
    · rename_i hnw; exact absurd hw hnw
  · intro r f hf
    rw [doBreak_callers] at hf
    split at hf
    · rename_i hwait
      split at hf
      · rcases hf with e | e <;> cases e
      · split at hf
        · rcases hf with e | e <;> cases e
        · rcases hf with e | e <;> cases e
    · exact h.own r f hf
  · intro r hr; cases hr
  · intro r st hg
    rw [doBreak_callers] at hg
    split at hg
    · rename_i hwait; exact h.callerLt r _ hwait
    · exact h.callerLt r st hg

theorem CallerInv.unsolicited {c : Conn} (hm : MapInv c) (s : Nat) (h : CallerInv c) :
    CallerInv (step c (.unsolicited s)) := by
  simp only [step]
  split
  · exact h
  · split
    · exact h
    · split
      · exact h
      · rename_i hany
        have hs := not_mem_streams_of_any hany
        rw [lookup_unowed hm hs]
        apply CallerInv.doBreak
        exact { h with }

theorem CallerInv.respond {c : Conn} (hm : MapInv c) (i : Nat) (h : CallerInv c) :
    CallerInv (step c (.respond i)) := by
  simp only [step]
  split
  · exact h
  · rename_i hb
    have hb : c.broken = false := by simpa using hb
    split
    · exact h
    · rename_i s r hi
      have hmem : (s, r) ∈ c.server := List.mem_of_getElem? hi
      rcases lookup_owed hm hb hmem with ⟨ho, hl⟩ | ⟨hno, hh, hl⟩
      · rw [hl]
        exact { h with }
      · rw [hl]
        apply h.deliver r _ _ c.sending c.queue c.permits
        · intro f e; cases e; rfl
        · intro r' hne hw
          rcases h.tracked r' hw with m | m | ⟨s', hs'⟩ | mp
          · exact Or.inl m
          · exact Or.inr (Or.inl m)
          · refine Or.inr (Or.inr (Or.inl ⟨s', ?_⟩))
            have hne' : s ≠ s' := by
              intro e; subst e
              rw [hh] at hs'
              simp only [Option.some.injEq] at hs'
              exact hne hs'.symm
            show (c.map.handlers.erase s).get s' = some r'
            simp only [AMap.get_erase, hne', if_false]; exact hs'
          · exact Or.inr (Or.inr (Or.inr mp))

theorem CallerInv.recv {c : Conn} (r : Nat) (h : CallerInv c) : CallerInv (step c (.recv r)) := by
  simp only [step]
  split
  · rename_i o hg
    constructor
    · intro r' hw
      simp only [getCaller_setCaller] at hw
      split at hw
      · cases hw
      · exact h.tracked r' hw
    · intro r' f hf
      simp only [getCaller_setCaller] at hf
      split at hf
      · rename_i e; subst e
        rcases hf with e | e
        · cases e
        · simp only [Option.some.injEq, CallerSt.done.injEq] at e
          subst e
          exact h.own r f (Or.inl hg)
      · exact h.own r' f hf
    · intro r' hr
      have ab := h.noticeAb r' hr
      simp only [getCaller_setCaller]
      split
      · rename_i e; subst e; rw [hg] at ab; cases ab
      · exact ab
    · intro r' st hg'
      simp only [getCaller_setCaller] at hg'
      split at hg'
      · rename_i e; subst e; exact h.callerLt r _ hg
      · exact h.callerLt r' st hg'
  · exact h

theorem CallerInv.break_ {c : Conn} (k : BreakKind) (h : CallerInv c) : CallerInv (step c (.break_ k)) := by
  simp only [step]
  split
  · exact h
  · exact h.doBreak k

/-- Both invariants together. -/
structure Inv (c : Conn) : Prop where
  map : MapInv c
  callers : CallerInv c

theorem Inv.init : Inv Conn.init := ⟨MapInv.init, CallerInv.init⟩

theorem Inv.step {c : Conn} (h : Inv c) (e : Ev) : Inv (Conn.step c e) := by
  refine ⟨h.map.step e, ?_⟩
  cases e with
  | submit => exact h.callers.submit
  | submitFull => exact h.callers.submitFull
  | enqueue r => exact h.callers.enqueue r
  | submitRace => exact h.callers.submitRace
  | push r => exact h.callers.push r
  | writerTake => exact h.callers.writerTake h.map
  | cancel r => exact h.callers.cancel r
  | orphanerStep => exact h.callers.orphanerStep h.map
  | respond i => exact h.callers.respond h.map i
  | unsolicited s => exact h.callers.unsolicited h.map s
  | recv r => exact h.callers.recv r
  | break_ k => exact h.callers.break_ k

theorem Inv.run {c : Conn} (h : Inv c) (evs : List Ev) : Inv (Conn.run c evs) := by
  unfold Conn.run
  induction evs generalizing c with
  | nil => exact h
  | cons e rest ih => exact ih (h.step e)

theorem Inv.reachable (evs : List Ev) : Inv (Conn.run Conn.init evs) := Inv.init.run evs


theorem two_entries_count {l : List (Nat × Nat)} {s s' r : Nat} (hne : s' ≠ s) (h1 : (s', r) ∈ l) (h2 : (s, r) ∈ l) :
    2 ≤ (l.map Prod.snd).count r := by
  induction l with
  | nil => cases h1
  | cons p rest ih =>
    simp only [List.map_cons, List.count_cons]
    rcases List.mem_cons.mp h1 with e1 | m1 <;> rcases List.mem_cons.mp h2 with e2 | m2
    · rw [← e1] at e2; cases e2; exact absurd rfl hne
    · have : 0 < (rest.map Prod.snd).count r :=
        List.count_pos_iff.mpr (List.mem_map.mpr ⟨(s, r), m2, rfl⟩)
      subst e1
      simp only [beq_self_eq_true, if_true]
      omega
    · have : 0 < (rest.map Prod.snd).count r :=
        List.count_pos_iff.mpr (List.mem_map.mpr ⟨(s', r), m1, rfl⟩)
      subst e2
      simp only [beq_self_eq_true, if_true]
      omega
    · have := ih m1 m2; omega


/-- A caller that is still waiting when its answer arrives receives it. -/
theorem respond_reaches_waiting {c : Conn} (h : Inv c) (hb : c.broken = false) {i s r : Nat}
    (hi : c.server[i]? = some (s, r)) (hw : getCaller c.callers r = some .waiting) :
    getCaller (Conn.step c (.respond i)).callers r = some (.delivered (.frame r)) := by
  have hmem : (s, r) ∈ c.server := List.mem_of_getElem? hi
  have hq : r ∉ c.sending ∧ r ∉ c.queue ∧ r ∉ c.permits := by
    have h1 := h.map.reqOnce r
    have h2 : 0 < (srvReqs c).count r := List.count_pos_iff.mpr (mem_reqs hmem)
    refine ⟨?_, ?_, ?_⟩ <;> (intro hm; have := List.count_pos_iff.mpr hm; omega)
  obtain ⟨s', hs'⟩ : ∃ s', c.map.handlers.get s' = some r := by
    rcases h.callers.tracked r hw with m | m | m | m
    · exact absurd m hq.1
    · exact absurd m hq.2.1
    · exact m
    · exact absurd m hq.2.2
  have : s' = s := by
    have hsrv' := h.map.hSrv s' r hs'
    -- request ids outstanding at the server are distinct, so the entry of `r` is unique
    have once := h.map.reqOnce r
    by_cases e : s' = s
    · exact e
    · exfalso
      have two : 2 ≤ (srvReqs c).count r := two_entries_count e hsrv' hmem
      omega
  subst this
  have hno : s' ∉ c.map.orphans := by
    intro ho
    have := (h.map.orphSrv s' ho).2
    rw [hs'] at this; cases this
  simp only [Conn.step, hb, Bool.false_eq_true, if_false, hi, hlookup_handler hno hs', getCaller_deliver, hw]
  simp


/-- The reader routes an answer the server owes: the router lives on, exactly that entry leaves the server's
list, and no caller but the addressee is touched. -/
theorem respond_owed {c : Conn} (h : Inv c) (hb : c.broken = false) {i s r : Nat}
    (hi : c.server[i]? = some (s, r)) :
    (Conn.step c (.respond i)).broken = false ∧ (Conn.step c (.respond i)).server = c.server.eraseIdx i ∧
    (∀ r', r' ≠ r → getCaller (Conn.step c (.respond i)).callers r' = getCaller c.callers r') := by
  have hmem : (s, r) ∈ c.server := List.mem_of_getElem? hi
  rcases lookup_owed h.map hb hmem with ⟨_, hl⟩ | ⟨_, _, hl⟩
  · simp only [Conn.step, hb, Bool.false_eq_true, if_false, hi, hl]
    exact ⟨trivial, trivial, fun _ _ => trivial⟩
  · simp only [Conn.step, hb, Bool.false_eq_true, if_false, hi, hl]
    refine ⟨trivial, trivial, ?_⟩
    intro r' hne
    rw [getCaller_deliver]
    have : ¬ (r = r' ∧ getCaller c.callers r = some CallerSt.waiting) := fun hc => hne hc.1.symm
    simp only [this, if_false]

end ScyllaVerif.Conn

import ScyllaVerif.Model.Conn
import ScyllaVerif.Proofs.StreamMap
/-! Helper lemmas and the inductive invariants of the connection model (C02, C10). -/
namespace ScyllaVerif.Conn
open ScyllaVerif.StreamMap

/-! ### caller table -/

theorem getCaller_setCaller (cs : List (Nat × CallerSt)) (r : Nat) (st : CallerSt) (r' : Nat) :
    getCaller (setCaller cs r st) r' = if r = r' then some st else getCaller cs r' := by
  induction cs with
  | nil => simp [setCaller, getCaller]
  | cons p rest ih =>
    obtain ⟨a, b⟩ := p
    unfold setCaller
    split
    · rename_i h; subst h
      simp only [getCaller]
      split <;> simp_all
    · rename_i h
      simp only [getCaller, ih]
      split <;> split <;> simp_all

theorem getCaller_deliver (cs : List (Nat × CallerSt)) (r : Nat) (o : Outcome) (r' : Nat) :
    getCaller (deliver cs r o) r' =
      if r = r' ∧ getCaller cs r = some .waiting then some (.delivered o) else getCaller cs r' := by
  unfold deliver
  split
  · rename_i h
    rw [getCaller_setCaller]
    split <;> simp_all
  · rename_i h
    split
    · rename_i h2; exact absurd h2.2 (by simpa using h)
    · rfl

theorem getCaller_failAll (rs : List Nat) (cs : List (Nat × CallerSt)) (e : ErrKind) (r' : Nat) :
    getCaller (failAll cs rs e) r' =
      if r' ∈ rs ∧ getCaller cs r' = some .waiting then some (.delivered (.err e)) else getCaller cs r' := by
  unfold failAll
  induction rs generalizing cs with
  | nil => simp
  | cons r rest ih =>
    simp only [List.foldl_cons, ih, getCaller_deliver, List.mem_cons]
    by_cases h1 : r = r'
    · subst h1
      by_cases h2 : getCaller cs r = some .waiting <;> simp [h2]
    · have h1' : ¬ r' = r := fun h => h1 h.symm
      simp [h1, h1']

/-! ### the handler map, operation by operation -/

theorem hallocate_some {m m' : HMap} {r id : Nat} (h : m.allocate r = some (id, m')) :
    ∃ ids', m.ids.allocate = some (id, ids') ∧
      m' = { m with ids := ids', req2stream := m.req2stream.insert r id, handlers := m.handlers.insert id r } := by
  unfold HMap.allocate at h
  split at h
  · cases h
  · rename_i id' ids' hids
    simp only [Option.some.injEq, Prod.mk.injEq] at h
    obtain ⟨h1, h2⟩ := h
    subst h1 h2
    exact ⟨ids', hids, rfl⟩

theorem hallocate_none {m : HMap} {r : Nat} : m.allocate r = none ↔ m.ids.allocate = none := by
  unfold HMap.allocate
  split <;> simp_all

theorem horphan_none {m : HMap} {r : Nat} (h : m.req2stream.get r = none) : m.orphan r = m := by
  unfold HMap.orphan; rw [h]

theorem horphan_some {m : HMap} {r s : Nat} (h : m.req2stream.get r = some s) :
    m.orphan r = { m with orphans := if m.orphans.contains s then m.orphans else s :: m.orphans,
                          handlers := m.handlers.erase s, req2stream := m.req2stream.erase r } := by
  unfold HMap.orphan; rw [h]

theorem hlookup_orphaned {m : HMap} {s : Nat} (h : s ∈ m.orphans) :
    m.lookup s = (.orphaned, { m with ids := m.ids.free s, orphans := m.orphans.filter (· != s) }) := by
  unfold HMap.lookup
  simp [h]

theorem hlookup_handler {m : HMap} {s r : Nat} (h : s ∉ m.orphans) (hh : m.handlers.get s = some r) :
    m.lookup s = (.handler r, { m with ids := m.ids.free s, handlers := m.handlers.erase s,
                                       req2stream := m.req2stream.erase r }) := by
  unfold HMap.lookup
  simp [h, hh]

theorem hlookup_missing {m : HMap} {s : Nat} (h : s ∉ m.orphans) (hh : m.handlers.get s = none) :
    m.lookup s = (.missing, { m with ids := m.ids.free s }) := by
  unfold HMap.lookup
  simp [h, hh]

/-! ### the invariant of the stream bookkeeping -/

/-- Streams / requests of the frames outstanding at the server. -/
def srvStreams (c : Conn) : List Nat := c.server.map Prod.fst
def srvReqs (c : Conn) : List Nat := c.server.map Prod.snd

structure MapInv (c : Conn) : Prop where
  len : c.map.ids.blocks.length = 512
  srvUsed : ∀ s r, (s, r) ∈ c.server → s < 32768 ∧ c.map.ids.isUsed s = true
  srvOnce : ∀ s, (srvStreams c).count s ≤ 1
  reqOnce : ∀ r, c.sending.count r + c.queue.count r + (srvReqs c).count r ≤ 1
  reqLt : ∀ r, r ∈ c.sending ∨ r ∈ c.queue ∨ r ∈ srvReqs c → r < c.nextReq
  hSrv : ∀ s r, c.map.handlers.get s = some r → (s, r) ∈ c.server
  orphSrv : ∀ s, s ∈ c.map.orphans → s ∈ srvStreams c ∧ c.map.handlers.get s = none
  owed : c.broken = false → ∀ s r, (s, r) ∈ c.server → s ∈ c.map.orphans ∨ c.map.handlers.get s = some r
  inv : ∀ r s, c.map.req2stream.get r = some s ↔ c.map.handlers.get s = some r
  brk : c.broken = true → c.queue = [] ∧ c.sending = [] ∧ c.notices = [] ∧ c.map.handlers = []

theorem MapInv.init : MapInv Conn.init := by
  constructor <;> simp [Conn.init, HMap.new, new_length, srvStreams, srvReqs]

/-- In a list of pairs whose first components occur at most once, the first component determines the pair. -/
theorem pair_unique {l : List (Nat × Nat)} (h : ∀ s, (l.map Prod.fst).count s ≤ 1) {s r r' : Nat}
    (h1 : (s, r) ∈ l) (h2 : (s, r') ∈ l) : r = r' := by
  induction l with
  | nil => cases h1
  | cons p rest ih =>
    have hs := h s
    simp only [List.map_cons, List.count_cons] at hs
    have hrest : ∀ s, (rest.map Prod.fst).count s ≤ 1 := by
      intro s'
      have := h s'
      simp only [List.map_cons, List.count_cons] at this
      omega
    have memcount : ∀ x, (s, x) ∈ rest → 0 < (rest.map Prod.fst).count s := by
      intro x hx
      exact List.count_pos_iff.mpr (List.mem_map.mpr ⟨(s, x), hx, rfl⟩)
    rcases List.mem_cons.mp h1 with e1 | m1 <;> rcases List.mem_cons.mp h2 with e2 | m2
    · rw [← e1] at e2; cases e2; rfl
    · have := memcount _ m2; subst e1; simp at hs; omega
    · have := memcount _ m1; subst e2; simp at hs; omega
    · exact ih hrest m1 m2

theorem mem_of_mem_eraseIdx {α} {l : List α} {i : Nat} {x : α} (h : x ∈ l.eraseIdx i) : x ∈ l :=
  (List.eraseIdx_sublist l i).subset h

theorem mem_eraseIdx_of_ne {α} {l : List α} {i : Nat} {x y : α} (hx : x ∈ l) (hy : l[i]? = some y) (hne : x ≠ y) :
    x ∈ l.eraseIdx i := by
  induction l generalizing i with
  | nil => cases hx
  | cons a rest ih =>
    cases i with
    | zero =>
      simp only [List.getElem?_cons_zero, Option.some.injEq] at hy
      subst hy
      simp only [List.eraseIdx_cons_zero]
      rcases List.mem_cons.mp hx with e | m
      · exact absurd e hne
      · exact m
    | succ j =>
      simp only [List.getElem?_cons_succ] at hy
      simp only [List.eraseIdx_cons_succ, List.mem_cons]
      rcases List.mem_cons.mp hx with e | m
      · exact Or.inl e
      · exact Or.inr (ih m hy)

end ScyllaVerif.Conn

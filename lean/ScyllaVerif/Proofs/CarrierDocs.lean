import ScyllaVerif.Model.Carrier
import ScyllaVerif.Generated.DocMatrix
/-
Helper lemmas for C17: on every documented carrier type, at any nesting depth, the model's relations are the
documentation's — given only that the LEAF tables agree (19 × 20 entries, checked by `decide` in Props/C17.lean).
-/
namespace ScyllaVerif.Proofs.CarrierDocs
open ScyllaVerif.Cql ScyllaVerif.Carrier ScyllaVerif.DocMatrix

/-- The leaf tables agree (hypothesis of the induction; discharged by `decide` over all leaves). -/
def LeafDe : Prop := ∀ s, Scalar.deNatives s = docNatives s
def LeafSer : Prop := ∀ s, Scalar.serNatives s = docNatives s

mutual
theorem deser_eq_docs (hl : LeafDe) : ∀ (c : Carrier) (t : CqlTy), documentedDe c = true →
    deserAccepts c t = docAccepts c t
  | .scalar s, t, _ => by cases t <;> simp [deserAccepts, docAccepts, hl s]
  | .opt c, t, h => by rw [deserAccepts, docAccepts]; exact deser_eq_docs hl c t (by simpa [documentedDe] using h)
  | .maybeEmpty c, t, h => by rw [deserAccepts, docAccepts]; exact deser_eq_docs hl c t (by simpa [documentedDe] using h)
  | .vec c, t, h => by
    have hc : documentedDe c = true := by simpa [documentedDe] using h
    cases t <;> simp [deserAccepts, docAccepts, deser_eq_docs hl c _ hc]
  | .hashSet c, t, h => by
    have hc : documentedDe c = true := by simpa [documentedDe] using h
    cases t <;> simp [deserAccepts, docAccepts, deser_eq_docs hl c _ hc]
  | .btreeSet c, t, h => by
    have hc : documentedDe c = true := by simpa [documentedDe] using h
    cases t <;> simp [deserAccepts, docAccepts, deser_eq_docs hl c _ hc]
  | .hashMap k v, t, h => by
    have hc : documentedDe k = true ∧ documentedDe v = true := by simpa [documentedDe] using h
    cases t <;> simp [deserAccepts, docAccepts, deser_eq_docs hl k _ hc.1, deser_eq_docs hl v _ hc.2]
  | .btreeMap k v, t, h => by
    have hc : documentedDe k = true ∧ documentedDe v = true := by simpa [documentedDe] using h
    cases t <;> simp [deserAccepts, docAccepts, deser_eq_docs hl k _ hc.1, deser_eq_docs hl v _ hc.2]
  | .tuple cs, t, h => by
    have hc : documentedDeList cs = true := by simpa [documentedDe] using h
    cases t <;> simp [deserAccepts, docAccepts, deserZip_eq_docs hl cs _ hc]
  | .dyn, t, _ => by simp [deserAccepts, docAccepts]
  | .unset, _, h => by simp [documentedDe] at h
  | .maybeUnset _, _, h => by simp [documentedDe] at h
  | .listIter _, _, h => by simp [documentedDe] at h
  | .vecIter _, _, h => by simp [documentedDe] at h
  | .mapIter _ _, _, h => by simp [documentedDe] at h
  | .udtIter, _, h => by simp [documentedDe] at h
  | .raw, _, h => by simp [documentedDe] at h
theorem deserZip_eq_docs (hl : LeafDe) : ∀ (cs : List Carrier) (ts : List CqlTy), documentedDeList cs = true →
    deserAcceptsZip cs ts = docAcceptsZip cs ts
  | [], ts, _ => by simp [deserAcceptsZip, docAcceptsZip]
  | c :: cs, [], _ => by simp [deserAcceptsZip, docAcceptsZip]
  | c :: cs, t :: ts, h => by
    have hc : documentedDe c = true ∧ documentedDeList cs = true := by simpa [documentedDeList] using h
    simp [deserAcceptsZip, docAcceptsZip, deser_eq_docs hl c t hc.1, deserZip_eq_docs hl cs ts hc.2]
end

mutual
theorem ser_eq_docs (hl : LeafSer) : ∀ (c : Carrier) (t : CqlTy), documentedSer c = true →
    accepts c t = docLooseSer c t
  | .scalar s, t, _ => by cases t <;> simp [accepts, docLooseSer, hl s]
  | .unset, t, _ => by simp [accepts, docLooseSer]
  | .opt c, t, h => by rw [accepts, docLooseSer]; exact ser_eq_docs hl c t (by simpa [documentedSer] using h)
  | .maybeUnset c, t, h => by rw [accepts, docLooseSer]; exact ser_eq_docs hl c t (by simpa [documentedSer] using h)
  | .maybeEmpty c, t, h => by
    rw [accepts, docLooseSer, ser_eq_docs hl c t (by simpa [documentedSer] using h)]
  | .vec c, t, h => by
    have hc : documentedSer c = true := by simpa [documentedSer] using h
    cases t <;> simp [accepts, docLooseSer, ser_eq_docs hl c _ hc]
  | .hashSet c, t, h => by
    have hc : documentedSer c = true := by simpa [documentedSer] using h
    cases t <;> simp [accepts, docLooseSer, ser_eq_docs hl c _ hc]
  | .btreeSet c, t, h => by
    have hc : documentedSer c = true := by simpa [documentedSer] using h
    cases t <;> simp [accepts, docLooseSer, ser_eq_docs hl c _ hc]
  | .hashMap k v, t, h => by
    have hc : documentedSer k = true ∧ documentedSer v = true := by simpa [documentedSer] using h
    cases t <;> simp [accepts, docLooseSer, ser_eq_docs hl k _ hc.1, ser_eq_docs hl v _ hc.2]
  | .btreeMap k v, t, h => by
    have hc : documentedSer k = true ∧ documentedSer v = true := by simpa [documentedSer] using h
    cases t <;> simp [accepts, docLooseSer, ser_eq_docs hl k _ hc.1, ser_eq_docs hl v _ hc.2]
  | .tuple cs, t, h => by
    have hc : documentedSerList cs = true := by simpa [documentedSer] using h
    cases t <;> simp [accepts, docLooseSer, serZip_eq_docs hl cs _ hc]
  | .dyn, t, _ => by simp [accepts, docLooseSer]
  | .listIter _, _, h => by simp [documentedSer] at h
  | .vecIter _, _, h => by simp [documentedSer] at h
  | .mapIter _ _, _, h => by simp [documentedSer] at h
  | .udtIter, _, h => by simp [documentedSer] at h
  | .raw, _, h => by simp [documentedSer] at h
theorem serZip_eq_docs (hl : LeafSer) : ∀ (cs : List Carrier) (ts : List CqlTy), documentedSerList cs = true →
    acceptsZip cs ts = docLooseZip cs ts
  | [], ts, _ => by simp [acceptsZip, docLooseZip]
  | c :: cs, [], _ => by simp [acceptsZip, docLooseZip]
  | c :: cs, t :: ts, h => by
    have hc : documentedSer c = true ∧ documentedSerList cs = true := by simpa [documentedSerList] using h
    simp [acceptsZip, docLooseZip, ser_eq_docs hl c t hc.1, serZip_eq_docs hl cs ts hc.2]
end

mutual
/-- **Every documented pair is accepted on write** (independent content: `docAccepts` is the strict
documentation relation — sets only into sets, tuples of equal arity — not a copy of `accepts`), for every carrier
type without a `MaybeEmpty` layer. -/
theorem doc_imp_acc (hl : LeafSer) : ∀ (c : Carrier) (t : CqlTy), noME c = true → docAccepts c t = true →
    accepts c t = true
  | .scalar s, t, _, h => by cases t <;> simp_all [accepts, docAccepts, hl s]
  | .unset, t, _, _ => by simp [accepts]
  | .opt c, t, hn, h => by
    rw [accepts]; rw [docAccepts] at h; exact doc_imp_acc hl c t (by simpa [noME] using hn) h
  | .maybeUnset c, t, hn, h => by
    rw [accepts]; rw [docAccepts] at h; exact doc_imp_acc hl c t (by simpa [noME] using hn) h
  | .maybeEmpty c, t, hn, _ => by simp [noME] at hn
  | .vec c, t, hn, h => by
    have hn' : noME c = true := by simpa [noME] using hn
    cases t <;> simp [docAccepts] at h <;> simp [accepts] <;> exact doc_imp_acc hl c _ hn' h
  | .hashSet c, t, hn, h => by
    have hn' : noME c = true := by simpa [noME] using hn
    cases t <;> simp [docAccepts] at h <;> simp [accepts] <;> exact doc_imp_acc hl c _ hn' h
  | .btreeSet c, t, hn, h => by
    have hn' : noME c = true := by simpa [noME] using hn
    cases t <;> simp [docAccepts] at h <;> simp [accepts] <;> exact doc_imp_acc hl c _ hn' h
  | .hashMap k v, t, hn, h => by
    have hn' : noME k = true ∧ noME v = true := by simpa [noME] using hn
    cases t <;> simp [docAccepts] at h <;> simp [accepts]
    exact ⟨doc_imp_acc hl k _ hn'.1 h.1, doc_imp_acc hl v _ hn'.2 h.2⟩
  | .btreeMap k v, t, hn, h => by
    have hn' : noME k = true ∧ noME v = true := by simpa [noME] using hn
    cases t <;> simp [docAccepts] at h <;> simp [accepts]
    exact ⟨doc_imp_acc hl k _ hn'.1 h.1, doc_imp_acc hl v _ hn'.2 h.2⟩
  | .tuple cs, t, hn, h => by
    have hn' : noMEs cs = true := by simpa [noME] using hn
    cases t <;> simp [docAccepts] at h <;> simp [accepts]
    exact ⟨by omega, docZ_imp_acc hl cs _ hn' h.2⟩
  | .dyn, t, _, _ => by simp [accepts]
  | .listIter _, _, _, h => by simp [docAccepts] at h
  | .vecIter _, _, _, h => by simp [docAccepts] at h
  | .mapIter _ _, _, _, h => by simp [docAccepts] at h
  | .udtIter, _, _, h => by simp [docAccepts] at h
  | .raw, _, _, h => by simp [docAccepts] at h
theorem docZ_imp_acc (hl : LeafSer) : ∀ (cs : List Carrier) (ts : List CqlTy), noMEs cs = true →
    docAcceptsZip cs ts = true → acceptsZip cs ts = true
  | [], ts, _, _ => by simp [acceptsZip]
  | c :: cs, [], _, _ => by simp [acceptsZip]
  | c :: cs, t :: ts, hn, h => by
    have hn' : noME c = true ∧ noMEs cs = true := by simpa [noMEs] using hn
    simp [docAcceptsZip] at h
    simp [acceptsZip]; exact ⟨doc_imp_acc hl c t hn'.1 h.1, docZ_imp_acc hl cs ts hn'.2 h.2⟩
end

end ScyllaVerif.Proofs.CarrierDocs

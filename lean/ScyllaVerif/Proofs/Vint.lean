import ScyllaVerif.Model.Vint

namespace ScyllaVerif.Proofs.Vint
open ScyllaVerif.Vint

/-! ## Big-endian fixed-width helpers -/

theorem beBytes_length (n v : Nat) : (beBytes n v).length = n := by
  induction n with
  | zero => simp [beBytes]
  | succ n ih => simp [beBytes, ih]

theorem foldl_be (bs : Bytes) (a : Nat) :
    bs.foldl (fun a b => a * 256 + b.toNat) a = a * 256 ^ bs.length + beNat bs := by
  induction bs generalizing a with
  | nil => simp [beNat]
  | cons b bs ih =>
    simp only [List.foldl_cons, List.length_cons, beNat]
    rw [ih, ih (0 * 256 + b.toNat)]
    simp only [Nat.zero_mul, Nat.zero_add, Nat.pow_succ]
    rw [Nat.add_mul, Nat.add_assoc, Nat.mul_assoc, Nat.mul_comm 256]

theorem beNat_nil : beNat [] = 0 := rfl

theorem beNat_cons (b : UInt8) (bs : Bytes) :
    beNat (b :: bs) = b.toNat * 256 ^ bs.length + beNat bs := by
  have := foldl_be bs (0 * 256 + b.toNat)
  simpa [beNat] using this

theorem beNat_lt (bs : Bytes) : beNat bs < 256 ^ bs.length := by
  induction bs with
  | nil => simp [beNat]
  | cons b bs ih =>
    rw [beNat_cons, List.length_cons, Nat.pow_succ]
    have hb : b.toNat < 256 := b.toNat_lt
    have : b.toNat * 256 ^ bs.length + 256 ^ bs.length ≤ 256 ^ bs.length * 256 := by
      rw [Nat.mul_comm (256 ^ bs.length) 256, ← Nat.succ_mul]
      exact Nat.mul_le_mul_right _ hb
    omega

theorem beNat_beBytes (n v : Nat) : beNat (beBytes n v) = v % 256 ^ n := by
  induction n with
  | zero => simp [beBytes, beNat, Nat.mod_one]
  | succ n ih =>
    rw [beBytes, beNat_cons, ih, beBytes_length]
    have h : (UInt8.ofNat (v / 256 ^ n % 256)).toNat = v / 256 ^ n % 256 := by
      simp [UInt8.toNat_ofNat']
    rw [h, Nat.pow_succ, Nat.mod_mul, Nat.add_comm, Nat.mul_comm]

theorem byte_mod (v n m : Nat) (h : n < m) : v % 256 ^ m / 256 ^ n % 256 = v / 256 ^ n % 256 := by
  obtain ⟨k, rfl⟩ : ∃ k, m = n + (1 + k) := ⟨m - n - 1, by omega⟩
  rw [Nat.pow_add, Nat.pow_add, Nat.pow_one, Nat.mod_mul_right_div_self, Nat.mod_mul_right_mod]

theorem beBytes_mod (n m v : Nat) (h : n ≤ m) : beBytes n (v % 256 ^ m) = beBytes n v := by
  induction n with
  | zero => simp [beBytes]
  | succ n ih => rw [beBytes, beBytes, ih (by omega), byte_mod v n m (by omega)]

theorem beBytes_beNat (bs : Bytes) : beBytes bs.length (beNat bs) = bs := by
  induction bs with
  | nil => simp [beBytes]
  | cons b bs ih =>
    rw [List.length_cons, beBytes]
    have hlt := beNat_lt bs
    have hpos : 0 < 256 ^ bs.length := Nat.pow_pos (by decide)
    have hdiv : beNat (b :: bs) / 256 ^ bs.length = b.toNat := by
      rw [beNat_cons, Nat.mul_comm, Nat.mul_add_div hpos, Nat.div_eq_of_lt hlt, Nat.add_zero]
    have hb : b.toNat < 256 := b.toNat_lt
    have htail : beBytes bs.length (beNat (b :: bs)) = beBytes bs.length (beNat bs) := by
      rw [← beBytes_mod bs.length bs.length (beNat (b :: bs)) (Nat.le_refl _), beNat_cons,
        Nat.mul_add_mod_self_right, Nat.mod_eq_of_lt hlt]
    rw [hdiv, Nat.mod_eq_of_lt hb, htail, ih]
    simp

/-! ## Unsigned vint -/

theorem forall_uint8 {P : UInt8 → Prop} (h : ∀ n : Fin 256, P (UInt8.ofNat n.val)) : ∀ b, P b := by
  intro b
  have := h ⟨b.toNat, b.toNat_lt⟩
  simpa using this

/-- The byte count computed by the `(639 - 9·lz) >> 6` trick, for `v` in the `e`-extra-bytes class. -/
theorem nbytes_class (v : BitVec 64) (e : Nat) (he : e ≤ 8)
    (hlo : 2 ^ (7 * e) ≤ v.toNat) (hhi : v.toNat < 2 ^ (7 * e + 7)) :
    (639 - 9 * leadingZeros64 v) >>> 6 = e + 1 := by
  have hpos : 0 < 2 ^ (7 * e) := Nat.pow_pos (by decide)
  have hne : v.toNat ≠ 0 := by omega
  have h1 : v.toNat.log2 < 7 * e + 7 := (Nat.log2_lt hne).2 hhi
  have h2 : ¬ v.toNat.log2 < 7 * e := fun h => by
    have := (Nat.log2_lt hne).1 h
    omega
  unfold leadingZeros64
  rw [if_neg hne, Nat.shiftRight_eq_div_pow]
  omega

/-- The length-bits constant of the encoder. -/
theorem lengthBits_toNat : ∀ e : Fin 8,
    ((~~~((0xff : BitVec 64) >>> e.val)) <<< (8 * e.val)).toNat
      = (2 ^ (56 - 7 * e.val) - 1) <<< (7 * e.val + 8) := by decide

set_option maxRecDepth 100000 in
/-- First-byte facts, checked exhaustively over all 256 bytes and the 8 classes. -/
theorem first_byte_facts : ∀ b : UInt8, ∀ e : Fin 8,
    (256 - 2 ^ (8 - e.val) ≤ b.toNat ∧ b.toNat < 256 - 2 ^ (8 - e.val) + 2 ^ (7 - e.val)) →
    leadingOnes8 b = e.val ∧
      (b &&& ((0xff : UInt8) >>> UInt8.ofNat e.val)).toNat = b.toNat - (256 - 2 ^ (8 - e.val)) := by
  apply forall_uint8; decide

theorem uvintEnc_class (v : BitVec 64) (e : Nat) (he1 : 1 ≤ e) (he7 : e ≤ 7)
    (hlo : 2 ^ (7 * e) ≤ v.toNat) (hhi : v.toNat < 2 ^ (7 * e + 7)) :
    uvintEnc v = UInt8.ofNat (256 - 2 ^ (8 - e) + v.toNat / 2 ^ (8 * e)) :: beBytes e v.toNat := by
  have hn := nbytes_class v e (by omega) hlo hhi
  have hC := lengthBits_toNat ⟨e, by omega⟩
  have hlt : v.toNat < 2 ^ (7 * e + 8) := by
    rw [Nat.pow_succ]; omega
  have hor := Nat.shiftLeft_add_eq_or_of_lt hlt (2 ^ (56 - 7 * e) - 1)
  unfold uvintEnc
  simp only [hn]
  rw [if_neg (by omega), if_pos (by omega), Nat.add_sub_cancel, BitVec.toNat_or]
  simp only at hC
  rw [hC, Nat.or_comm, ← hor, beBytes, Nat.shiftLeft_eq]
  obtain rfl | rfl | rfl | rfl | rfl | rfl | rfl :
    e = 1 ∨ e = 2 ∨ e = 3 ∨ e = 4 ∨ e = 5 ∨ e = 6 ∨ e = 7 := by omega
  all_goals
    congr 1
    · congr 1
      simp only [Nat.reducePow, Nat.reduceMul, Nat.reduceSub, Nat.reduceAdd] at hhi ⊢
      omega
    · rw [← beBytes_mod _ _ _ (Nat.le_refl _)]
      conv => rhs; rw [← beBytes_mod _ _ _ (Nat.le_refl _)]
      congr 1
      simp only [Nat.reducePow, Nat.reduceMul, Nat.reduceSub, Nat.reduceAdd] at hhi ⊢
      omega

theorem nbytes_nine (v : BitVec 64) (hlo : 2 ^ 56 ≤ v.toNat) :
    (639 - 9 * leadingZeros64 v) >>> 6 = 9 := by
  have hne : v.toNat ≠ 0 := by omega
  have h1 : v.toNat.log2 < 64 := (Nat.log2_lt hne).2 v.isLt
  have h2 : ¬ v.toNat.log2 < 56 := fun h => by
    have := (Nat.log2_lt hne).1 h
    omega
  unfold leadingZeros64
  rw [if_neg hne, Nat.shiftRight_eq_div_pow]
  omega

theorem uvintDec_class (b : UInt8) (e q : Nat) (he1 : 1 ≤ e) (he7 : e ≤ 7) (hq : q < 2 ^ (7 - e))
    (hb : b.toNat = 256 - 2 ^ (8 - e) + q) (bs r : Bytes) (hlen : bs.length = e) :
    uvintDec (b :: (bs ++ r)) = .ok (BitVec.ofNat 64 (q <<< (8 * e) + beNat bs), r) := by
  obtain ⟨h1, h2⟩ := first_byte_facts b ⟨e, by omega⟩ (by simp only; omega)
  simp only at h1 h2
  have e8 : e ≠ 8 := by omega
  have e0 : e ≠ 0 := by omega
  have hl : ¬ (bs ++ r).length < e := by simp [hlen]
  have ht : (bs ++ r).take e = bs := by rw [← hlen, List.take_left]
  have hd : (bs ++ r).drop e = r := by rw [← hlen, List.drop_left]
  simp only [uvintDec, h1, h2, e8, e0, hl, ht, hd, ne_eq, not_false_eq_true, if_true, if_false]
  rw [hb, Nat.add_sub_cancel_left]

theorem uvintDec_zero (b : UInt8) (hb : b.toNat < 128) (r : Bytes) :
    uvintDec (b :: r) = .ok (BitVec.ofNat 64 b.toNat, r) := by
  obtain ⟨h1, h2⟩ := first_byte_facts b ⟨0, by omega⟩ (by simp only; omega)
  simp only at h1 h2
  simp only [uvintDec, h1, h2]
  simp

theorem uvintDec_ff (bs r : Bytes) (hlen : bs.length = 8) :
    uvintDec (0xff :: (bs ++ r)) = .ok (BitVec.ofNat 64 (beNat bs), r) := by
  have h1 : leadingOnes8 0xff = 8 := by decide
  have hl : ¬ (bs ++ r).length < 8 := by simp [hlen]
  have ht : (bs ++ r).take 8 = bs := by rw [← hlen, List.take_left]
  have hd : (bs ++ r).drop 8 = r := by rw [← hlen, List.drop_left]
  simp only [uvintDec, h1, hl, ht, hd]
  simp

/-- Closed form of the encoder on each of the nine length classes. -/
theorem uvintEnc_cases (v : BitVec 64) :
    (v.toNat < 2 ^ 7 ∧ uvintEnc v = [UInt8.ofNat v.toNat]) ∨
    (2 ^ 56 ≤ v.toNat ∧ uvintEnc v = 0xff :: beBytes 8 v.toNat) ∨
    (∃ e, 1 ≤ e ∧ e ≤ 7 ∧ 2 ^ (7 * e) ≤ v.toNat ∧ v.toNat < 2 ^ (7 * e + 7) ∧
      uvintEnc v = UInt8.ofNat (256 - 2 ^ (8 - e) + v.toNat / 2 ^ (8 * e)) :: beBytes e v.toNat) := by
  have hv : v.toNat < 2 ^ 64 := v.isLt
  by_cases h0 : v.toNat < 2 ^ 7
  · -- one byte
    have hn : (639 - 9 * leadingZeros64 v) >>> 6 ≤ 1 := by
      by_cases hz : v.toNat = 0
      · unfold leadingZeros64; rw [if_pos hz]; decide
      · rw [nbytes_class v 0 (by omega) (by simp; omega) (by simpa using h0)]; omega
    refine .inl ⟨h0, ?_⟩
    unfold uvintEnc; simp only [hn, if_true]
  · by_cases h8 : 2 ^ 56 ≤ v.toNat
    · -- nine bytes
      have hn := nbytes_nine v h8
      refine .inr (.inl ⟨h8, ?_⟩)
      unfold uvintEnc; simp only [hn]; rw [if_neg (by omega), if_neg (by omega)]
    · -- 2..8 bytes
      have hcls : ∃ e, 1 ≤ e ∧ e ≤ 7 ∧ 2 ^ (7 * e) ≤ v.toNat ∧ v.toNat < 2 ^ (7 * e + 7) := by
        by_cases c2 : v.toNat < 2 ^ 14
        · exact ⟨1, by omega, by omega, by omega, by omega⟩
        by_cases c3 : v.toNat < 2 ^ 21
        · exact ⟨2, by omega, by omega, by omega, by omega⟩
        by_cases c4 : v.toNat < 2 ^ 28
        · exact ⟨3, by omega, by omega, by omega, by omega⟩
        by_cases c5 : v.toNat < 2 ^ 35
        · exact ⟨4, by omega, by omega, by omega, by omega⟩
        by_cases c6 : v.toNat < 2 ^ 42
        · exact ⟨5, by omega, by omega, by omega, by omega⟩
        by_cases c7 : v.toNat < 2 ^ 49
        · exact ⟨6, by omega, by omega, by omega, by omega⟩
        · exact ⟨7, by omega, by omega, by omega, by omega⟩
      obtain ⟨e, he1, he7, hlo, hhi⟩ := hcls
      exact .inr (.inr ⟨e, he1, he7, hlo, hhi, uvintEnc_class v e he1 he7 hlo hhi⟩)

theorem uvintEnc_length (v : BitVec 64) : 1 ≤ (uvintEnc v).length ∧ (uvintEnc v).length ≤ 9 := by
  rcases uvintEnc_cases v with ⟨_, h⟩ | ⟨_, h⟩ | ⟨e, he1, he7, _, _, h⟩
  · rw [h]; simp
  · rw [h, List.length_cons, beBytes_length]; omega
  · rw [h, List.length_cons, beBytes_length]; omega

theorem uvint_roundtrip (v : BitVec 64) (r : Bytes) : uvintDec (uvintEnc v ++ r) = .ok (v, r) := by
  have hv : v.toNat < 2 ^ 64 := v.isLt
  rcases uvintEnc_cases v with ⟨h0, henc⟩ | ⟨h8, henc⟩ | ⟨e, he1, he7, hlo, hhi, henc⟩
  · have hb : (UInt8.ofNat v.toNat).toNat = v.toNat := by
      rw [UInt8.toNat_ofNat']; omega
    rw [henc, List.singleton_append, uvintDec_zero _ (by omega), hb, BitVec.ofNat_toNat,
      BitVec.setWidth_eq]
  · rw [henc, List.cons_append, uvintDec_ff _ _ (beBytes_length _ _), beNat_beBytes,
      Nat.mod_eq_of_lt (by omega), BitVec.ofNat_toNat, BitVec.setWidth_eq]
  · have hq : v.toNat / 2 ^ (8 * e) < 2 ^ (7 - e) := by
      rw [Nat.div_lt_iff_lt_mul (Nat.pow_pos (by decide)), ← Nat.pow_add]
      rwa [show 7 - e + 8 * e = 7 * e + 7 by omega]
    have hpos : 0 < 2 ^ (7 - e) := Nat.pow_pos (by decide)
    have h28 : 2 ^ (8 - e) = 2 * 2 ^ (7 - e) := by
      rw [show 8 - e = (7 - e) + 1 by omega, Nat.pow_succ, Nat.mul_comm]
    have h256 : 2 ^ (8 - e) ≤ 256 := by
      have : 2 ^ (8 - e) ≤ 2 ^ 8 := Nat.pow_le_pow_right (by decide) (by omega)
      simpa using this
    have hb : (UInt8.ofNat (256 - 2 ^ (8 - e) + v.toNat / 2 ^ (8 * e))).toNat
        = 256 - 2 ^ (8 - e) + v.toNat / 2 ^ (8 * e) := by
      rw [UInt8.toNat_ofNat']; apply Nat.mod_eq_of_lt; omega
    rw [henc, List.cons_append,
      uvintDec_class _ e _ he1 he7 hq hb _ _ (beBytes_length _ _), beNat_beBytes,
      Nat.shiftLeft_eq, show (256 : Nat) = 2 ^ 8 by rfl, ← Nat.pow_mul, Nat.mul_comm,
      Nat.div_add_mod, BitVec.ofNat_toNat, BitVec.setWidth_eq]

/-! ## Zig-zag -/

theorem and_one (u : BitVec 64) : u &&& 1 = if u.getLsbD 0 then 1#64 else 0#64 := by
  apply BitVec.eq_of_getLsbD_eq
  intro i hi
  by_cases h0 : i = 0
  · subst h0; cases h : u.getLsbD 0 <;> simp_all
  · cases h : u.getLsbD 0 <;> simp [BitVec.getLsbD_one, h0]

theorem neg_and_one (u : BitVec 64) : -(u &&& 1) = if u.getLsbD 0 then BitVec.allOnes 64 else 0#64 := by
  rw [and_one]; cases u.getLsbD 0 <;> decide

theorem sshiftRight_63 (v : BitVec 64) : v.sshiftRight 63 = if v.msb then BitVec.allOnes 64 else 0#64 := by
  apply BitVec.eq_of_getLsbD_eq
  intro i hi
  rw [BitVec.getLsbD_sshiftRight]
  have hm' := BitVec.msb_eq_getLsbD_last v
  cases hm : v.msb
  · rw [hm] at hm'
    by_cases h : i = 0
    · subst h; simp; simpa using hm'.symm
    · have : ¬ (63 + i < 64) := by omega
      simp [this]
  · rw [hm] at hm'
    rw [if_pos rfl, BitVec.getLsbD_allOnes]
    by_cases h : i = 0
    · subst h; simp; simpa using hm'.symm
    · have : ¬ (63 + i < 64) := by omega
      simp [this, hi]

theorem zigzag_roundtrip (v : BitVec 64) : zigzagDec (zigzagEnc v) = v := by
  unfold zigzagDec
  rw [neg_and_one]
  unfold zigzagEnc
  rw [sshiftRight_63]
  have hm' := BitVec.msb_eq_getLsbD_last v
  cases hm : v.msb
  · rw [if_neg (by simp), BitVec.zero_xor]
    have h0 : (v <<< 1).getLsbD 0 = false := by simp
    rw [h0, if_neg (by simp), BitVec.xor_zero]
    apply BitVec.eq_of_getLsbD_eq
    intro i hi
    rw [hm] at hm'
    by_cases h : i = 63
    · subst h; simp; simpa using hm'
    · have : 1 + i < 64 := by omega
      simp [this, BitVec.getLsbD_eq_getElem hi]
  · rw [if_pos rfl, BitVec.allOnes_xor]
    have h0 : (~~~(v <<< 1)).getLsbD 0 = true := by simp
    rw [h0, if_pos rfl, BitVec.xor_allOnes]
    apply BitVec.eq_of_getLsbD_eq
    intro i hi
    rw [hm] at hm'
    by_cases h : i = 63
    · subst h; simp; simpa using hm'.symm
    · have : 1 + i < 64 := by omega
      simp [this, hi]

theorem zigzag_roundtrip_enc_dec (u : BitVec 64) : zigzagEnc (zigzagDec u) = u := by
  cases h0 : u.getLsbD 0
  · have hdec : zigzagDec u = u >>> 1 := by
      unfold zigzagDec; rw [neg_and_one, h0, if_neg (by simp), BitVec.xor_zero]
    have hm : (u >>> 1).msb = false := by simp [BitVec.msb_eq_getLsbD_last]
    rw [hdec]; unfold zigzagEnc
    rw [sshiftRight_63, hm, if_neg (by simp), BitVec.zero_xor]
    apply BitVec.eq_of_getLsbD_eq
    intro i hi
    by_cases h : i = 0
    · subst h; simp; simpa using h0.symm
    · have : 1 + (i - 1) = i := by omega
      simp [hi, h, this]
  · have hdec : zigzagDec u = ~~~(u >>> 1) := by
      unfold zigzagDec; rw [neg_and_one, h0, if_pos rfl, BitVec.xor_allOnes]
    have hm : (~~~(u >>> 1)).msb = true := by simp [BitVec.msb_eq_getLsbD_last]
    rw [hdec]; unfold zigzagEnc
    rw [sshiftRight_63, hm, if_pos rfl, BitVec.allOnes_xor]
    apply BitVec.eq_of_getLsbD_eq
    intro i hi
    by_cases h : i = 0
    · subst h; simp; simpa using h0.symm
    · have : 1 + (i - 1) = i := by omega
      simp [hi, h, this]

/-! ## Signed vint -/

theorem vint_roundtrip (v : BitVec 64) (r : Bytes) : vintDec (vintEnc v ++ r) = .ok (v, r) := by
  unfold vintDec vintEnc
  rw [uvint_roundtrip]
  simp only [zigzag_roundtrip]

/-! ## `u8::leading_ones` -/

/-- Bitwise leading-ones count: scans bits `k-1, k-2, …, 0` and stops at the first zero bit. -/
def leadingOnesBits (b : UInt8) : Nat → Nat
  | 0 => 0
  | k + 1 => if b.toNat.testBit k then 1 + leadingOnesBits b k else 0

set_option maxRecDepth 100000 in
theorem leadingOnes8_spec : ∀ b : UInt8, leadingOnes8 b = leadingOnesBits b 8 := by
  apply forall_uint8; decide

end ScyllaVerif.Proofs.Vint

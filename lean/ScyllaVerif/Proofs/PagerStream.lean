import ScyllaVerif.Model.Carrier
/-
Helper lemmas for C17: the per-page type check of the pager's typed stream.
-/
namespace ScyllaVerif.Proofs.PagerStream
open ScyllaVerif.Cql ScyllaVerif.Carrier

/-- `o` is a legitimate output about page `i` whose columns pass / fail the check: a row only if they pass,
a type-check error only if they fail. -/
def OutOk (ok : Bool) (i : Nat) (o : StreamOut) : Prop :=
  (o = .row i ∧ ok = true) ∨ (o = .typeErr i ∧ ok = false)

/-- The rows of one page: provided the page is fresh, or the flag is unset, or the page is known to pass —
also for the rows polled AFTER a refused row (the flag stays unset, so they are checked, and refused, again). -/
theorem pageRows_ok (ok : Bool) (i : Nat) : ∀ (n : Nat) (fresh flag : Bool),
    (fresh = true ∨ flag = false ∨ ok = true) → ∀ o, o ∈ (pageRows ok i n fresh flag).1 → OutOk ok i o := by
  intro n
  induction n with
  | zero => intro fresh flag _ o ho; simp [pageRows] at ho
  | succ n ih =>
    intro fresh flag h o ho
    rw [pageRows] at ho
    cases hs : streamRow ok fresh flag with
    | mk flag' err =>
      rw [hs] at ho
      cases err with
      | true =>
        have hbad : ok = false ∧ flag' = false := by
          cases ok <;> cases fresh <;> cases flag <;> simp [streamRow] at hs ⊢ <;> simp_all
        simp only at ho
        rcases List.mem_cons.mp ho with rfl | hmem
        · exact .inr ⟨rfl, hbad.1⟩
        · exact ih false flag' (.inr (.inl hbad.2)) o hmem
      | false =>
        have hok : ok = true := by
          rcases h with h | h | h
          · subst h; cases ok <;> cases flag <;> simp [streamRow] at hs ⊢
          · subst h; cases ok <;> cases fresh <;> simp [streamRow] at hs ⊢
          · exact h
        simp only at ho
        rcases List.mem_cons.mp ho with rfl | hmem
        · exact .inl ⟨rfl, hok⟩
        · exact ih false flag' (.inr (.inr hok)) o hmem

/-- Every output of the later pages is about one of them, and legitimate for it. -/
theorem streamPages_ok (check : List (String × CqlTy) → Bool) : ∀ (ps : List PageM) (i : Nat) (flag : Bool) (o : StreamOut),
    o ∈ streamPages check i ps flag → ∃ k p, ps[k]? = some p ∧ OutOk (check p.specs) (i + k) o := by
  intro ps
  induction ps with
  | nil => intro i flag o ho; simp [streamPages] at ho
  | cons p ps ih =>
    intro i flag o ho
    rw [streamPages] at ho
    split at ho
    · obtain ⟨k, q, hq, hok⟩ := ih (i + 1) flag o ho
      exact ⟨k + 1, q, by simpa using hq, by rw [show i + (k + 1) = i + 1 + k by omega]; exact hok⟩
    · have hrows := pageRows_ok (check p.specs) i p.rows true flag (.inl rfl)
      cases hp : pageRows (check p.specs) i p.rows true flag with
      | mk os flag' =>
        rw [hp] at ho hrows
        simp only at ho
        rcases List.mem_append.mp ho with h | h
        · exact ⟨0, p, rfl, hrows o h⟩
        · obtain ⟨k, q, hq, hok⟩ := ih (i + 1) flag' o h
          exact ⟨k + 1, q, by simpa using hq, by rw [show i + (k + 1) = i + 1 + k by omega]; exact hok⟩

theorem typedStream_ok (check : List (String × CqlTy) → Bool) (pages : List PageM) (outs : List StreamOut)
    (h : typedStream check pages = some outs) (o : StreamOut) (ho : o ∈ outs) :
    ∃ k p, pages[k]? = some p ∧ OutOk (check p.specs) k o := by
  cases pages with
  | nil => simp [typedStream] at h; subst h; simp at ho
  | cons p ps =>
    rw [typedStream] at h
    split at h
    · cases h
    · rename_i hc
      have hpass : check p.specs = true := by simpa using hc
      have hrows := pageRows_ok (check p.specs) 0 p.rows false true (.inr (.inr hpass))
      cases hp : pageRows (check p.specs) 0 p.rows false true with
      | mk os flag =>
        rw [hp] at h hrows
        simp only [Option.some.injEq] at h; subst h
        rcases List.mem_append.mp ho with h1 | h1
        · exact ⟨0, p, rfl, hrows o h1⟩
        · obtain ⟨k, q, hq, hok⟩ := streamPages_ok check ps 1 flag o h1
          exact ⟨k + 1, q, by simpa using hq, by rw [show k + 1 = 1 + k by omega]; exact hok⟩

/-- A stop-at-first-error consumer sees a prefix of the polled-to-the-end items. -/
theorem untilFirstError_mem : ∀ (l : List StreamOut) (o : StreamOut), o ∈ untilFirstError l → o ∈ l
  | [], o, h => by simp [untilFirstError] at h
  | .row i :: r, o, h => by
    simp only [untilFirstError] at h
    rcases List.mem_cons.mp h with rfl | h
    · simp
    · exact List.mem_cons_of_mem _ (untilFirstError_mem r o h)
  | .typeErr i :: r, o, h => by
    simp only [untilFirstError, List.mem_singleton] at h
    subst h; simp

end ScyllaVerif.Proofs.PagerStream

import ScyllaVerif.Model.Carrier
/-
Helper lemmas for C17: the per-page type check of the pager's typed stream equals its specification
(`streamSpec`: one item per announced row, the row itself iff readable and its page's own columns pass).
-/
namespace ScyllaVerif.Proofs.PagerStream
open ScyllaVerif.Cql ScyllaVerif.Carrier

theorem cons_fst (c : StreamOut) (x : List StreamOut × Bool) :
    (match x with | (os, r) => (c :: os, r)).1 = c :: x.1 := by cases x; rfl

theorem sticky_tail : ∀ (b : Bool) (rs : List Bool), stickyRaws (b :: rs) = true → stickyRaws rs = true
  | true, rs, h => h
  | false, rs, h => by
    simp only [stickyRaws] at h
    induction rs with
    | nil => rfl
    | cons r rs ih =>
      simp only [List.all_cons, Bool.and_eq_true, beq_iff_eq] at h
      obtain ⟨hr, hrs⟩ := h
      subst hr
      simpa [stickyRaws] using hrs

/-- After an unreadable row only unreadable rows follow: nothing is decoded, whatever the flag says. -/
theorem pageRows_all_bad (ok : Bool) (i : Nat) : ∀ (rs : List Bool) (fresh flag : Bool), rs.all (· == false) = true →
    (pageRows ok i rs fresh flag).1 = rs.map (itemOf ok i)
  | [], _, _, _ => rfl
  | r :: rs, fresh, flag, h => by
    simp only [List.all_cons, Bool.and_eq_true, beq_iff_eq] at h
    obtain ⟨hr, hrs⟩ := h
    subst hr
    rw [pageRows, cons_fst, pageRows_all_bad ok i rs false flag hrs]
    simp [itemOf]

/-- The rows of one page equal the specification — provided the page is fresh, or the flag is unset, or the page
is known to pass, and the raw iterator is sticky. -/
theorem pageRows_spec (ok : Bool) (i : Nat) : ∀ (rs : List Bool) (fresh flag : Bool), stickyRaws rs = true →
    (fresh = true ∨ flag = false ∨ ok = true) → (pageRows ok i rs fresh flag).1 = rs.map (itemOf ok i)
  | [], _, _, _, _ => rfl
  | false :: rs, fresh, flag, hs, _ => by
    have hall : rs.all (· == false) = true := by simpa [stickyRaws] using hs
    exact pageRows_all_bad ok i (false :: rs) fresh flag (by simp only [List.all_cons, hall]; rfl)
  | true :: rs, fresh, flag, hs, h => by
    have hs' : stickyRaws rs = true := by simpa [stickyRaws] using hs
    rw [pageRows]
    cases hsr : streamRow ok fresh flag with
    | mk flag' err =>
      cases err with
      | true =>
        have hbad : ok = false ∧ flag' = false := by
          cases ok <;> cases fresh <;> cases flag <;> simp [streamRow] at hsr ⊢ <;> simp_all
        have ih := pageRows_spec ok i rs false flag' hs' (.inr (.inl hbad.2))
        simp only [cons_fst, ih]
        simp [itemOf, hbad.1]
      | false =>
        have hok : ok = true := by
          rcases h with h | h | h
          · subst h; cases ok <;> cases flag <;> simp [streamRow] at hsr ⊢
          · subst h; cases ok <;> cases fresh <;> simp [streamRow] at hsr ⊢
          · exact h
        have ih := pageRows_spec ok i rs false flag' hs' (.inr (.inr hok))
        simp only [cons_fst, ih]
        simp [itemOf, hok]

theorem streamPages_spec (check : List (String × CqlTy) → Bool) : ∀ (ps : List PageM) (i : Nat) (flag : Bool),
    (∀ p, p ∈ ps → stickyRaws p.raws = true) → streamPages check i ps flag = streamSpec check i ps
  | [], _, _, _ => rfl
  | p :: ps, i, flag, hs => by
    rw [streamPages, streamSpec]
    have hps : ∀ q, q ∈ ps → stickyRaws q.raws = true := fun q hq => hs q (by simp [hq])
    split
    · rename_i he
      have : p.raws = [] := by simpa using he
      simp [this, streamPages_spec check ps (i + 1) flag hps]
    · have hrows := pageRows_spec (check p.specs) i p.raws true flag (hs p (by simp)) (.inl rfl)
      cases hp : pageRows (check p.specs) i p.raws true flag with
      | mk os flag' =>
        rw [hp] at hrows
        simp only at hrows ⊢
        rw [hrows, streamPages_spec check ps (i + 1) flag' hps]

/-- **The typed stream IS its specification.** -/
theorem typedStream_spec (check : List (String × CqlTy) → Bool) (pages : List PageM) (outs : List StreamOut)
    (hs : ∀ p, p ∈ pages → stickyRaws p.raws = true) (h : typedStream check pages = some outs) :
    outs = streamSpec check 0 pages := by
  cases pages with
  | nil => simp [typedStream] at h; subst h; rfl
  | cons p ps =>
    rw [typedStream] at h
    split at h
    · cases h
    · rename_i hc
      have hpass : check p.specs = true := by simpa using hc
      have hrows := pageRows_spec (check p.specs) 0 p.raws false true (hs p (by simp)) (.inr (.inr hpass))
      cases hp : pageRows (check p.specs) 0 p.raws false true with
      | mk os flag =>
        rw [hp] at h hrows
        simp only [Option.some.injEq] at h
        subst h
        simp only at hrows
        rw [streamSpec, hrows, streamPages_spec check ps 1 flag (fun q hq => hs q (by simp [hq]))]

theorem streamSpec_length (check : List (String × CqlTy) → Bool) : ∀ (ps : List PageM) (i : Nat),
    (streamSpec check i ps).length = (ps.map PageM.rows).sum
  | [], _ => rfl
  | p :: ps, i => by simp [streamSpec, streamSpec_length check ps (i + 1), PageM.rows]

/-- Membership in the specification: an item about page `k` stems from page `k`'s rows. -/
theorem streamSpec_mem (check : List (String × CqlTy) → Bool) : ∀ (ps : List PageM) (i : Nat) (o : StreamOut),
    o ∈ streamSpec check i ps → ∃ k p b, ps[k]? = some p ∧ b ∈ p.raws ∧ o = itemOf (check p.specs) (i + k) b
  | [], _, o, h => by simp [streamSpec] at h
  | p :: ps, i, o, h => by
    rw [streamSpec] at h
    rcases List.mem_append.mp h with h | h
    · obtain ⟨b, hb, rfl⟩ := List.mem_map.mp h
      exact ⟨0, p, b, rfl, hb, rfl⟩
    · obtain ⟨k, q, b, hq, hb, ho⟩ := streamSpec_mem check ps (i + 1) o h
      exact ⟨k + 1, q, b, by simpa using hq, hb, by rw [ho, show i + (k + 1) = i + 1 + k by omega]⟩

/-- A stop-at-first-error consumer sees a prefix of the polled-to-the-end items. -/
theorem untilFirstError_mem : ∀ (l : List StreamOut) (o : StreamOut), o ∈ untilFirstError l → o ∈ l
  | [], o, h => by simp [untilFirstError] at h
  | .row i :: r, o, h => by
    simp only [untilFirstError] at h
    rcases List.mem_cons.mp h with rfl | h
    · simp
    · exact List.mem_cons_of_mem _ (untilFirstError_mem r o h)
  | .typeErr i :: r, o, h => by
    simp only [untilFirstError, List.mem_singleton] at h
    subst h; simp
  | .rawErr i :: r, o, h => by
    simp only [untilFirstError, List.mem_singleton] at h
    subst h; simp

end ScyllaVerif.Proofs.PagerStream

/-
Invariants of the wake-aware pager model (`Model/PagerWake.lean`): no lost wake-up, a sleeping unregistered
consumer sleeps forever, wake-aware termination. Used by `Props/C07.lean`.
-/
import ScyllaVerif.Model.PagerWake
import ScyllaVerif.Proofs.Pager
set_option linter.unusedSimpArgs false
set_option linter.unusedVariables false
namespace ScyllaVerif.PagerWake
open ScyllaVerif.Pager

/-! ### the `St` component runs by the step functions of `Model/Pager.lean` -/

theorem stepW_s (sw : Bool) (x : W) (op : Op) : (stepW sw x op).s = step x.s op ∨ (stepW sw x op).s = x.s := by
  cases op
  · left; simp only [stepW, stepProdW, step]; split <;> rfl
  · simp only [stepW, stepPollW, step]
    split
    · right; rfl
    · left; repeat' split
      all_goals rfl
  · simp only [stepW, stepDropW, step]
    split
    · left; rfl
    · right; rfl

/-- Every wake-aware execution is an execution of `Model/Pager.lean` (for a sub-schedule). -/
theorem runW_is_run (sw : Bool) : ∀ (ops : List Op) (x : W), ∃ ops', (runW sw x ops).s = run x.s ops' := by
  intro ops
  induction ops with
  | nil => intro x; exact ⟨[], rfl⟩
  | cons op ops ih =>
    intro x
    obtain ⟨ops', h⟩ := ih (stepW sw x op)
    rcases stepW_s sw x op with h1 | h1
    · exact ⟨op :: ops', by simp only [runW, List.foldl_cons] at h ⊢; rw [h, h1]; rfl⟩
    · exact ⟨ops', by simp only [runW, List.foldl_cons] at h ⊢; rw [h, h1]⟩

/-! ### no lost wake-up -/

/-- A consumer task that is not runnable waits REGISTERED in the channel, with nothing to consume and a
producer that has not finished: the producer's next send - or its return - wakes it. -/
structure WInv (x : W) : Prop where
  asleep : x.s.rx = .alive → x.s.ended = false → x.woken = false →
    x.registered = true ∧ x.s.cur = [] ∧ x.s.chan = none ∧ x.s.pc ≠ .done
  unbuilt : x.s.rx = .unbuilt → x.woken = true

theorem winv_init (pages : List Page) (faults : List Attempt) : WInv (initW pages faults) :=
  ⟨by simp [initW], by simp [initW]⟩

private theorem prod_keeps (s : St) (hpc : s.pc ≠ .first) :
    (stepProd s).cur = s.cur ∧ (stepProd s).ended = s.ended ∧ (stepProd s).rx = s.rx := by
  unfold stepProd
  split
  next h => exact absurd h hpc
  all_goals (repeat' split) <;> exact ⟨rfl, rfl, rfl⟩

private theorem prod_rx_first (s : St) : (stepProd s).ended = s.ended := by
  unfold stepProd
  repeat' split
  all_goals rfl

theorem winv_prod {pages : List Page} {x : W} (hc : CInv pages x.s) (h : WInv x) : WInv (stepProdW x) := by
  obtain ⟨h1, h2⟩ := h
  by_cases hw : x.woken = true
  · -- a runnable task stays runnable
    have : (stepProdW x).woken = true := by
      simp only [stepProdW]; split <;> simp [hw]
    exact ⟨fun _ _ hf => by simp [this] at hf, fun _ => this⟩
  · have hwf : x.woken = false := by simpa using hw
    have hnu : x.s.rx ≠ .unbuilt := fun hu => by simp [h2 hu] at hwf
    have hnf : x.s.pc ≠ .first := fun hp => hnu (hc.first_unbuilt hp)
    obtain ⟨k1, k2, k3⟩ := prod_keeps x.s hnf
    simp only [stepProdW]
    split
    next => exact ⟨fun _ _ hf => by simp at hf, fun _ => rfl⟩
    next hn =>
      refine ⟨?_, fun hu => by rw [k3] at hu; exact absurd hu hnu⟩
      intro ha he _
      simp only at ha he
      rw [k3] at ha
      rw [k2] at he
      obtain ⟨r1, r2, r3, r4⟩ := h1 ha he hwf
      simp only [r1, Bool.and_true, Bool.or_eq_true, Bool.and_eq_true, not_or, not_and] at hn
      refine ⟨r1, by simp only; rw [k1]; exact r2, ?_, ?_⟩
      · have := hn.1
        simp only [r3, Option.isNone_none, true_implies] at this
        simpa using this
      · have := hn.2
        intro hd
        apply this
        · simpa using r4
        · have hd' : (stepProd x.s).pc = .done := hd
          simp [hd']

private theorem poll_pending_shape (s : St) (hrx : s.rx = .alive) (he : s.ended = false)
    (hd : (stepPoll s).delivered.length = s.delivered.length) (her : (stepPoll s).errs.length = s.errs.length)
    (hen : (stepPoll s).ended = false) (ht : (stepPoll s).taken = s.taken) :
    s.cur = [] ∧ s.chan = none ∧ s.pc ≠ .done ∧ stepPoll s = s := by
  unfold stepPoll at hd her hen ht ⊢
  simp only [hrx] at hd her hen ht ⊢
  cases hcur : s.cur with
  | cons r rest => simp [hcur] at hd
  | nil =>
    simp only [hcur] at hd her hen ht ⊢
    cases hch : s.chan with
    | some it =>
      cases it with
      | page rows => cases rows <;> simp [hch] at ht
      | err e => simp [hch] at her
    | none =>
      simp only [hch] at hd her hen ht ⊢
      cases hpc : s.pc <;> simp_all

theorem winv_poll {x : W} (h : WInv x) : WInv (stepPollW true x) := by
  obtain ⟨h1, h2⟩ := h
  simp only [stepPollW]
  split
  · exact ⟨h1, h2⟩
  next hg =>
    have hrx : x.s.rx = .alive := by
      cases hr : x.s.rx <;> simp_all
    have hrx' : (stepPoll x.s).rx = .alive := by rw [poll_rx]; exact hrx
    split
    next he => exact ⟨fun _ hf _ => by simp_all, fun hu => by simp [hrx'] at hu⟩
    next he =>
      split
      · exact ⟨fun _ _ hf => by simp at hf, fun _ => rfl⟩
      next hd =>
        split
        · exact ⟨fun _ _ hf => by simp at hf, fun _ => rfl⟩
        next ht =>
          split
          next hen => exact ⟨fun _ hf _ => by
            have : (stepPoll x.s).ended = true := by
              unfold stepPoll; repeat' split
              all_goals simp_all
            simp [this] at hf, fun hu => by simp [hrx'] at hu⟩
          next hen =>
            refine ⟨fun _ hf _ => ?_, fun hu => by simp [hrx'] at hu⟩
            simp only at hf
            have hen' : x.s.ended = false := by simpa using hen
            simp only [Bool.or_eq_true, bne_iff_ne, ne_eq, not_or, Decidable.not_not] at hd
            have := poll_pending_shape x.s hrx hen' hd.1 hd.2 hf (by simpa using ht)
            refine ⟨rfl, ?_, ?_, ?_⟩
            · simp only; rw [this.2.2.2]; exact this.1
            · simp only; rw [this.2.2.2]; exact this.2.1
            · simp only; rw [this.2.2.2]; exact this.2.2.1

theorem winv_drop {x : W} (h : WInv x) : WInv (stepDropW x) := by
  obtain ⟨h1, h2⟩ := h
  simp only [stepDropW]
  split
  next hrx => exact ⟨fun ha => by simp [stepDrop, hrx] at ha, fun hu => by simp [stepDrop, hrx] at hu⟩
  next => exact ⟨h1, h2⟩

/-! ### every reachable wake-aware state -/

theorem inv_stepW {pages : List Page} {faults0 : List Attempt} (sw : Bool) {x : W}
    (h : Inv pages faults0 x.s) (op : Op) : Inv pages faults0 (stepW sw x op).s := by
  rcases stepW_s sw x op with h1 | h1
  · rw [h1]; exact inv_step h op
  · rw [h1]; exact h

theorem winv_stepW {pages : List Page} {faults0 : List Attempt} {x : W}
    (hi : Inv pages faults0 x.s) (h : WInv x) (op : Op) : WInv (stepW true x op) := by
  cases op
  · exact winv_prod hi.c h
  · exact winv_poll h
  · exact winv_drop h

theorem reachableW (pages : List Page) (faults : List Attempt) (ops : List Op) :
    Inv pages faults (runW true (initW pages faults) ops).s ∧ WInv (runW true (initW pages faults) ops) := by
  have : ∀ (ops : List Op) (x : W), Inv pages faults x.s → WInv x →
      Inv pages faults (runW true x ops).s ∧ WInv (runW true x ops) := by
    intro ops
    induction ops with
    | nil => intro x h1 h2; exact ⟨h1, h2⟩
    | cons op ops ih => intro x h1 h2; exact ih _ (inv_stepW true h1 op) (winv_stepW h1 h2 op)
  exact this ops _ (inv_init pages faults) (winv_init pages faults)

/-! ### without the self-wake: a sleeping, unregistered consumer sleeps forever -/

/-- A consumer task that is neither runnable nor registered is never polled again, whatever the producer
does: nothing more is ever delivered and the stream never ends. -/
theorem stuck_forever (sw : Bool) : ∀ (ops : List Op) (x : W), x.woken = false → x.registered = false →
    (runW sw x ops).woken = false ∧ (runW sw x ops).registered = false ∧
    (runW sw x ops).s.delivered = x.s.delivered ∧ (runW sw x ops).s.ended = x.s.ended ∧
    (runW sw x ops).s.errs = x.s.errs := by
  intro ops
  induction ops with
  | nil => intro x h1 h2; exact ⟨h1, h2, rfl, rfl, rfl⟩
  | cons op ops ih =>
    intro x h1 h2
    have hstep : (stepW sw x op).woken = false ∧ (stepW sw x op).registered = false ∧
        (stepW sw x op).s.delivered = x.s.delivered ∧ (stepW sw x op).s.ended = x.s.ended ∧
        (stepW sw x op).s.errs = x.s.errs := by
      cases op
      · simp only [stepW, stepProdW, h2, Bool.and_false, Bool.false_eq_true, if_false]
        have hp : (stepProd x.s).delivered = x.s.delivered ∧ (stepProd x.s).errs = x.s.errs := by
          unfold stepProd; repeat' split
          all_goals exact ⟨rfl, rfl⟩
        refine ⟨by simpa using h1, by simpa using h2, hp.1, prod_rx_first x.s, hp.2⟩
      · simp only [stepW, stepPollW, h1]
        simp [h1, h2]
      · simp only [stepW, stepDropW]
        split
        · refine ⟨rfl, rfl, ?_, ?_, ?_⟩ <;> (unfold stepDrop; split <;> rfl)
        · exact ⟨h1, h2, rfl, rfl, rfl⟩
    obtain ⟨a, b, c, d, e⟩ := hstep
    have := ih (stepW sw x op) a b
    simp only [runW, List.foldl_cons] at this ⊢
    exact ⟨this.1, this.2.1, by rw [this.2.2.1, c], by rw [this.2.2.2.1, d], by rw [this.2.2.2.2, e]⟩

/-! ### wake-aware termination -/

theorem wake_round_decreases {pages : List Page} {faults0 : List Attempt} {x : W}
    (hi : Inv pages faults0 x.s) (hu : UInv x.s) (hw : WInv x) (hrx : x.s.rx ≠ .dropped)
    (hend : x.s.ended = false) (hctor : x.s.ctorErr.isSome = false) :
    Pager.measure (stepPollW true (stepProdW x)).s < Pager.measure x.s := by
  have hps : (stepProdW x).s = stepProd x.s := by simp only [stepProdW]; split <;> rfl
  have hwp := winv_prod hi.c hw
  by_cases hpoll : (stepProdW x).woken = true ∧ (stepProdW x).s.rx = .alive
  · -- the consumer is polled: the plain round argument applies
    have : (stepPollW true (stepProdW x)).s = stepPoll (stepProd x.s) := by
      simp only [stepPollW, hpoll.1, hpoll.2]
      simp only [Bool.not_true, bne_self_eq_false, Bool.or_self, Bool.false_eq_true, if_false]
      rw [hps]
      repeat' split
      all_goals rfl
    rw [this]
    exact round_decreases hi.c hu hrx hend hctor
  · -- the consumer sleeps (or does not exist yet): the producer must have moved
    have hgate : (stepPollW true (stepProdW x)).s = stepProd x.s := by
      simp only [stepPollW]
      split
      · exact hps
      next hg =>
        exfalso; apply hpoll
        simp only [Bool.or_eq_true, Bool.not_eq_true', bne_iff_ne, ne_eq, not_or, Bool.not_eq_false,
          Decidable.not_not] at hg
        exact hg
    rw [hgate]
    rcases prod_decreases x.s with hd | hs
    · exact hd
    · -- the producer did not move: it is finished or blocked on a full channel
      exfalso
      rcases no_deadlock hi.c hu.unbuilt hrx hend hctor with hnd | hnd
      · exact hnd hs
      · -- then the consumer can make progress, so it must not be asleep
        have hps' : (stepProdW x).s = x.s := by rw [hps, hs]
        have hrxa : x.s.rx = .alive := by
          cases hr : x.s.rx with
          | alive => rfl
          | dropped => exact absurd hr hrx
          | unbuilt =>
            exfalso
            have : stepPoll x.s = x.s := by unfold stepPoll; simp [hr]
            exact hnd this
        have hwok : (stepProdW x).woken = false := by
          cases hwk : (stepProdW x).woken with
          | false => rfl
          | true => exact absurd ⟨hwk, by rw [hps']; exact hrxa⟩ hpoll
        have hz := hwp.asleep (by rw [hps']; exact hrxa) (by rw [hps']; exact hend) hwok
        rw [hps'] at hz
        -- asleep means: nothing to consume and the producer not done - so the poll would be a no-op
        have : stepPoll x.s = x.s := by
          unfold stepPoll
          simp only [hrxa, hz.2.1, hz.2.2.1]
          cases hpc : x.s.pc <;> simp_all
        exact hnd this

theorem runEagerW_ends {pages : List Page} {faults0 : List Attempt} :
    ∀ (n : Nat) (x : W), Inv pages faults0 x.s → UInv x.s → WInv x → x.s.rx ≠ .dropped → Pager.measure x.s ≤ n →
      (runEagerW true n x).s.ended = true ∨ (runEagerW true n x).s.ctorErr.isSome = true := by
  intro n
  induction n with
  | zero =>
    intro x _ _ _ _ hm
    simp only [runEagerW]
    cases he : x.s.ended with
    | true => simp
    | false => simp [Pager.measure, he] at hm
  | succ n ih =>
    intro x hi hu hw hrx hm
    simp only [runEagerW]
    cases he : x.s.ended with
    | true => simp [he]
    | false =>
      cases hc : x.s.ctorErr.isSome with
      | true => simp [hc]
      | false =>
        simp only [he, hc, Bool.or_self, Bool.false_eq_true, if_false]
        have hdec := wake_round_decreases hi hu hw hrx he hc
        have hi' : Inv pages faults0 (stepPollW true (stepProdW x)).s :=
          inv_stepW true (x := stepProdW x) (inv_stepW true hi .prod) .poll
        have hs1 : (stepProdW x).s = stepProd x.s := by simp only [stepProdW]; split <;> rfl
        have hu1 : UInv (stepProdW x).s := by rw [hs1]; exact uinv_step hu .prod
        have hu' : UInv (stepPollW true (stepProdW x)).s := by
          rcases stepW_s true (stepProdW x) .poll with h | h
          · have : (stepPollW true (stepProdW x)).s = step (stepProdW x).s .poll := h
            rw [this]; exact uinv_step hu1 .poll
          · have : (stepPollW true (stepProdW x)).s = (stepProdW x).s := h
            rw [this]; exact hu1
        have hw' : WInv (stepPollW true (stepProdW x)) := winv_poll (winv_prod hi.c hw)
        have hrx1 : (stepProdW x).s.rx ≠ .dropped := by rw [hs1]; exact prod_rx x.s hrx
        have hrx' : (stepPollW true (stepProdW x)).s.rx ≠ .dropped := by
          rcases stepW_s true (stepProdW x) .poll with h | h
          · have : (stepPollW true (stepProdW x)).s = stepPoll (stepProdW x).s := h
            rw [this, poll_rx]; exact hrx1
          · have : (stepPollW true (stepProdW x)).s = (stepProdW x).s := h
            rw [this]; exact hrx1
        exact ih _ hi' hu' hw' hrx' (by omega)

/-- The wake-aware round robin is a wake-aware run (without drops). -/
theorem runEagerW_is_run (sw : Bool) : ∀ (n : Nat) (x : W), ∃ ops, (runEagerW sw n x).s = run x.s ops ∧ Op.drop ∉ ops := by
  intro n
  induction n with
  | zero => intro x; exact ⟨[], rfl, by simp⟩
  | succ n ih =>
    intro x
    simp only [runEagerW]
    split
    · exact ⟨[], rfl, by simp⟩
    · obtain ⟨ops, h, hd⟩ := ih (stepPollW sw (stepProdW x))
      have hs1 : (stepProdW x).s = stepProd x.s := by simp only [stepProdW]; split <;> rfl
      rcases stepW_s sw (stepProdW x) .poll with h2 | h2
      · have h2' : (stepPollW sw (stepProdW x)).s = stepPoll (stepProd x.s) := by
          have : (stepPollW sw (stepProdW x)).s = step (stepProdW x).s .poll := h2
          rw [this, hs1]; rfl
        exact ⟨.prod :: .poll :: ops, by rw [h, h2']; rfl, by simp [hd]⟩
      · have h2' : (stepPollW sw (stepProdW x)).s = stepProd x.s := by
          have : (stepPollW sw (stepProdW x)).s = (stepProdW x).s := h2
          rw [this, hs1]
        exact ⟨.prod :: ops, by rw [h, h2']; rfl, by simp [hd]⟩

end ScyllaVerif.PagerWake

import ScyllaVerif.Model.TypeParser
/-
C08 — the custom type string parser never reaches its panic site (`from_utf8(chunk).unwrap()` in `from_hex`):
the ASCII-hex-digit scan precedes the chunk loop.  Also: the loop-fuel / "impossible" arms are unreachable.
-/
namespace ScyllaVerif.C08

/-- The result is not a panic. -/
def NP (r : CtRes α) : Prop := ∀ site, r ≠ .error (.panic site)

theorem np_ok (a : α) : NP (.ok a : CtRes α) := fun _ h => by cases h
theorem np_kind (k : String) : NP (.error (.kind k) : CtRes α) := fun _ h => by cases h
theorem np_fuel (k : String) : NP (.error (.fuel k) : CtRes α) := fun _ h => by cases h

theorem np_fwd {r : CtRes α} {e : CtErr} (h : NP r) (he : r = .error e) : NP (.error e : CtRes β) := by
  intro site hh; injection hh with hh; exact h site (by rw [he, hh])

theorem hex_lt (a : UInt8) (h : isHexDigit a = true) : a < 0x80 := by
  simp only [isHexDigit, isDigit, Bool.or_eq_true, Bool.and_eq_true, decide_eq_true_eq] at h
  rcases h with h | h | h
  · exact UInt8.lt_of_le_of_lt h.2 (by decide)
  · exact UInt8.lt_of_le_of_lt h.2 (by decide)
  · exact UInt8.lt_of_le_of_lt h.2 (by decide)

/-- Behind the scan, every 2-byte chunk is ASCII, so `from_utf8(chunk).unwrap()` cannot fail. -/
theorem hexChunks_np : ∀ (s : Bytes), s.all isHexDigit = true → NP (hexChunks s)
  | [], _ => by unfold hexChunks; exact np_ok _
  | [_], _ => by unfold hexChunks; exact np_ok _
  | a :: b :: rest, h => by
    simp only [List.all_cons, Bool.and_eq_true] at h
    have ha := hex_lt a h.1
    have hb := hex_lt b h.2.1
    have hu : utf8ok2 a b = true := by simp [utf8ok2, ha, hb]
    have ih := hexChunks_np rest h.2.2
    unfold hexChunks
    simp only [hu, Bool.not_true, Bool.false_eq_true, if_false, h.1, h.2.1, Bool.and_self]
    cases hr : hexChunks rest with
    | ok r => exact np_ok _
    | error e => rw [hr] at ih; intro site hh; injection hh with hh; exact ih site (by rw [hh])

theorem fromHexUtf8_np (s : Bytes) : NP (fromHexUtf8 s) := by
  unfold fromHexUtf8
  by_cases h : s.all isHexDigit = true
  · simp only [h, Bool.not_true, Bool.false_eq_true, if_false]
    split
    · first | exact np_kind _ | exact np_fuel _
    · have := hexChunks_np s h
      cases hr : hexChunks s with
      | error e => rw [hr] at this; intro site hh; injection hh with hh; exact this site (by rw [hh])
      | ok bs => simp only []; split <;> first | exact np_ok _ | first | exact np_kind _ | exact np_fuel _
  · simp only [h, Bool.not_false, if_true]; first | exact np_kind _ | exact np_fuel _

theorem simpleType_np (n : Bytes) : NP (simpleType n) := by
  unfold simpleType
  simp only []
  split <;> first | exact np_ok _ | first | exact np_kind _ | exact np_fuel _

/-- `parse` never panics. -/
def PNP (parse : CtParse) : Prop := ∀ fr s, NP (parse fr s)

theorem paramsLoop_np (parse : CtParse) (hp : PNP parse) (fr : Bool) :
    ∀ (n : Nat) (s : Str), ∀ r ∈ (paramsLoop parse fr n s).1, NP r
  | 0, s => by
    intro r hr
    simp only [paramsLoop, List.mem_singleton] at hr
    subst hr; first | exact np_kind _ | exact np_fuel _
  | n + 1, s => by
    intro r hr
    unfold paramsLoop at hr
    simp only [] at hr
    split at hr
    · simp only [List.mem_singleton] at hr; subst hr; first | exact np_kind _ | exact np_fuel _
    · split at hr
      · simp at hr
      · split at hr
        · rename_i e he
          simp only [List.mem_singleton] at hr; subst hr
          have := hp fr (skipBlankComma s)
          exact np_fwd this he
        · rename_i t s' he
          simp only [List.mem_cons] at hr
          rcases hr with rfl | hr
          · exact np_ok _
          · exact paramsLoop_np parse hp fr n s' r hr

theorem typeParameters_np (parse : CtParse) (hp : PNP parse) (fr : Bool) (s : Str) :
    NP (typeParameters parse fr s) ∧ ∀ items s', typeParameters parse fr s = .ok (items, s') → ∀ r ∈ items, NP r := by
  unfold typeParameters
  split
  · exact ⟨np_ok _, by intro items s' h; injection h with h; injection h with h1 _; subst h1; simp⟩
  · split
    · exact ⟨np_kind _, by intro items s' h; cases h⟩
    · rename_i s1 _
      refine ⟨np_ok _, ?_⟩
      intro items s' h
      injection h with h
      have := paramsLoop_np parse hp fr (s1.length + 1) s1
      rw [h] at this; exact this

theorem nTypeParameters_np (parse : CtParse) (hp : PNP parse) (fr : Bool) (n : Nat) (s : Str) :
    NP (nTypeParameters parse fr n s) ∧
    ∀ items s', nTypeParameters parse fr n s = .ok (items, s') → ∀ r ∈ items, NP r := by
  have ⟨h1, h2⟩ := typeParameters_np parse hp fr s
  unfold nTypeParameters
  cases ht : typeParameters parse fr s with
  | error e =>
    rw [ht] at h1
    exact ⟨fun site hh => by injection hh with hh; exact h1 site (by rw [hh]), by intro items s' h; cases h⟩
  | ok p =>
    obtain ⟨items, s'⟩ := p
    simp only []
    split
    · refine ⟨np_ok _, ?_⟩
      intro i2 s2 h; injection h with h; injection h with e1 _; subst e1
      exact h2 items s' ht
    · exact ⟨np_kind _, by intro items s' h; cases h⟩

theorem collectOk_np : ∀ (items : List (CtRes Ty)), (∀ r ∈ items, NP r) → NP (collectOk items)
  | [], _ => by unfold collectOk; exact np_ok _
  | .error e :: rest, h => by
    unfold collectOk
    have := h (.error e) List.mem_cons_self
    intro site hh; injection hh with hh; exact this site (by rw [hh])
  | .ok t :: rest, h => by
    unfold collectOk
    have ih := collectOk_np rest (fun r hr => h r (List.mem_cons_of_mem _ hr))
    cases hc : collectOk rest with
    | ok r => exact np_ok _
    | error e => rw [hc] at ih; intro site hh; injection hh with hh; exact ih site (by rw [hh])

theorem udtFields_np (parse : CtParse) (hp : PNP parse) (fr : Bool) : ∀ (n : Nat) (s : Str), NP (udtFields parse fr n s)
  | 0, s => by unfold udtFields; first | exact np_kind _ | exact np_fuel _
  | n + 1, s => by
    unfold udtFields
    simp only []
    split
    · first | exact np_kind _ | exact np_fuel _
    · split
      · exact np_ok _
      · split
        · rename_i e he; exact np_fwd (fromHexUtf8_np _) he
        · split
          · first | exact np_kind _ | exact np_fuel _
          · split
            · rename_i e he; exact np_fwd (hp _ _) he
            · rename_i t s3 _
              have ih := udtFields_np parse hp fr n s3
              split
              · rename_i e he; exact np_fwd ih he
              · exact np_ok _

theorem oneParam_np (parse : CtParse) (hp : PNP parse) (fr : Bool) (s : Str) : NP (oneParam parse fr s) := by
  have ⟨h1, h2⟩ := nTypeParameters_np parse hp fr 1 s
  unfold oneParam
  split
  · exact np_ok _
  · rename_i e s' he
    exact np_fwd (h2 _ _ he (.error e) (by simp)) rfl
  · first | exact np_kind _ | exact np_fuel _
  · rename_i e he; exact np_fwd h1 he

theorem complexType_np (parse : CtParse) (hp : PNP parse) (fr : Bool) (name : Bytes) (s : Str) :
    NP (complexType parse fr name s) := by
  unfold complexType
  simp only []
  split
  · have := oneParam_np parse hp fr s
    split
    · exact np_ok _
    · rename_i e he; exact np_fwd this he
  · split
    · have := oneParam_np parse hp fr s
      split
      · exact np_ok _
      · rename_i e he; exact np_fwd this he
    · split
      · have ⟨h1, h2⟩ := nTypeParameters_np parse hp fr 2 s
        split
        · exact np_ok _
        · rename_i e x s' he; exact np_fwd (h2 _ _ he (.error e) (by simp)) rfl
        · rename_i t e s' he; exact np_fwd (h2 _ _ he (.error e) (by simp)) rfl
        · first | exact np_kind _ | exact np_fuel _
        · rename_i e he; exact np_fwd h1 he
      · split
        · have ⟨h1, h2⟩ := typeParameters_np parse hp fr s
          split
          · rename_i e he; exact np_fwd h1 he
          · rename_i items s' he
            have hc := collectOk_np items (h2 items s' he)
            split
            · rename_i e he2; exact np_fwd hc he2
            · first | exact np_kind _ | exact np_fuel _
            · exact np_ok _
        · split
          · split
            · first | exact np_kind _ | exact np_fuel _
            · split
              · first | exact np_kind _ | exact np_fuel _
              · split
                · rename_i e he; exact np_fwd (hp _ _) he
                · split
                  · first | exact np_kind _ | exact np_fuel _
                  · split
                    · first | exact np_kind _ | exact np_fuel _
                    · split
                      · first | exact np_kind _ | exact np_fuel _
                      · exact np_ok _
          · split
            · split
              · first | exact np_kind _ | exact np_fuel _
              · split
                · rename_i e he; exact np_fwd (fromHexUtf8_np _) he
                · split
                  · rename_i e he; exact np_fwd (udtFields_np parse hp fr _ _) he
                  · exact np_ok _
            · split
              · exact oneParam_np parse hp true s
              · first | exact np_kind _ | exact np_fuel _

theorem doParse_np : ∀ fuel, PNP (doParse fuel)
  | 0 => by intro fr s; unfold doParse; first | exact np_kind _ | exact np_fuel _
  | fuel + 1 => by
    intro fr s
    have ih := doParse_np fuel
    unfold doParse
    simp only []
    split
    · split
      · first | exact np_kind _ | exact np_fuel _
      · exact np_ok _
    · split
      · rename_i e he
        -- the optional hex prefix: only `badhex`
        split at he
        · split at he
          · cases he
          · injection he with he; subst he; first | exact np_kind _ | exact np_fuel _
        · cases he
      · split
        · exact complexType_np _ ih fr _ _
        · split
          · exact np_ok _
          · rename_i e he; exact np_fwd (simpleType_np _) he

/-- `CustomTypeParser::parse` never panics, for every string and every class table. -/
theorem customParse_np (uni : List (Bytes × UCls)) (s : Bytes) : NP (customParse uni s) := by
  unfold customParse
  have := doParse_np MAX_TYPE_NESTING_DEPTH false (toStr uni s)
  split
  · exact np_ok _
  · rename_i e he; exact np_fwd this he

end ScyllaVerif.C08

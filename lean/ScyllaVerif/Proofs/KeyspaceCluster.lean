import ScyllaVerif.Proofs.Keyspace
/-! C20, cluster level: non-overlapping `Session::use_keyspace` fan-outs give non-overlapping requests in every
pool, and the newest task of every known pool belongs to the newest fan-out (or the pool was created after it
with its keyspace) - the link that lifts `published_has_keyspace` to the whole cluster. -/
set_option linter.unusedSectionVars false
set_option linter.unusedSimpArgs false
namespace ScyllaVerif.Keyspace
variable {K : Type} [DecidableEq K]

/-- What an event other than a use-keyspace request does to a pool's tasks, ghost flag and current keyspace:
the task list is mapped by a function that keeps ids, never touches an answered task and never revives one. -/
theorem step_nonUse {p : Pool K} (h : Inv p) (e : Ev K) (hne : e.isUseKs = false) :
    ∃ g : Task K → Task K, (step p e).tasks = p.tasks.map g ∧ (step p e).overlap = p.overlap ∧
      (step p e).currentKs = p.currentKs ∧
      ∀ t ∈ p.tasks, (g t).id = t.id ∧ (t.resp ≠ none → g t = t) ∧ ((g t).resp = none → t.resp = none) ∧ (g t).ks = t.ks := by
  have hsame : ∀ q : Pool K, q.tasks = p.tasks → q.overlap = p.overlap → q.currentKs = p.currentKs →
      ∃ g : Task K → Task K, q.tasks = p.tasks.map g ∧ q.overlap = p.overlap ∧ q.currentKs = p.currentKs ∧
        ∀ t ∈ p.tasks, (g t).id = t.id ∧ (t.resp ≠ none → g t = t) ∧ ((g t).resp = none → t.resp = none) ∧ (g t).ks = t.ks :=
    fun q hq ho hk => ⟨id, by simp [hq], ho, hk, fun t _ => ⟨rfl, fun _ => rfl, fun x => x, rfl⟩⟩
  have hmod : ∀ (q : Pool K) (t0 : Task K) (f : Task K → Task K), t0 ∈ p.tasks → t0.resp = none →
      q.tasks = modifyTask p.tasks t0.id f → q.overlap = p.overlap → q.currentKs = p.currentKs →
      (∀ x, (f x).id = x.id ∧ (f x).ks = x.ks) →
      ∃ g : Task K → Task K, q.tasks = p.tasks.map g ∧ q.overlap = p.overlap ∧ q.currentKs = p.currentKs ∧
        ∀ t ∈ p.tasks, (g t).id = t.id ∧ (t.resp ≠ none → g t = t) ∧ ((g t).resp = none → t.resp = none) ∧ (g t).ks = t.ks := by
    intro q t0 f ht0 hal hq ho hk hf
    refine ⟨fun t => if t.id = t0.id then f t else t, by rw [hq]; rfl, ho, hk, ?_⟩
    intro t ht
    by_cases hid : t.id = t0.id
    · have := unique_id h.ids ht ht0 hid
      subst this
      simp only [↓reduceIte]
      exact ⟨(hf t).1, fun hne => absurd hal hne, fun _ => hal, (hf t).2⟩
    · simp [hid]
  cases e with
  | useKs k => simp [Ev.isUseKs] at hne
  | taskSubmit tid i =>
    simp only [step]
    split
    · exact hsame _ rfl rfl rfl
    · rename_i t0 hft
      obtain ⟨htm, htid⟩ := findTask_some hft
      subst htid
      split
      · exact hsame _ rfl rfl rfl
      · rename_i hcond
        simp only [Bool.or_eq_true, Bool.not_eq_true', not_or, Bool.not_eq_true, Option.isSome_eq_false_iff,
          Option.isNone_iff_eq_none] at hcond
        split
        · exact hmod _ t0 _ htm hcond.1.1 rfl rfl rfl (fun x => ⟨rfl, rfl⟩)
        · exact hmod _ t0 _ htm hcond.1.1 rfl rfl rfl (fun x => ⟨rfl, rfl⟩)
  | serve i r =>
    simp only [step]
    split
    · exact hsame _ rfl rfl rfl
    · rename_i w k rest hqu
      cases w with
      | user => exact hsame _ rfl rfl rfl
      | task tid =>
        simp only
        split
        · exact hsame _ rfl rfl rfl
        · rename_i t0 hft
          obtain ⟨htm, htid⟩ := findTask_some hft
          subst htid
          split
          · exact hsame _ rfl rfl rfl
          · rename_i hcond
            simp only [Bool.or_eq_true, not_or, Bool.not_eq_true, Option.isSome_eq_false_iff,
              Option.isNone_iff_eq_none] at hcond
            exact hmod _ t0 _ htm hcond.1 rfl rfl rfl (fun x => ⟨rfl, rfl⟩)
  | userUse i x =>
    simp only [step]
    split <;> exact hsame _ rfl rfl rfl
  | serveOoo i j r =>
    simp only [step]
    split
    · exact hsame _ rfl rfl rfl
    · rename_i w k hget
      cases w with
      | user => exact hsame _ rfl rfl rfl
      | task tid =>
        simp only
        split
        · exact hsame _ rfl rfl rfl
        · rename_i t0 hft
          obtain ⟨htm, htid⟩ := findTask_some hft
          subst htid
          split
          · exact hsame _ rfl rfl rfl
          · rename_i hcond
            simp only [Bool.or_eq_true, not_or, Bool.not_eq_true, Option.isSome_eq_false_iff,
              Option.isNone_iff_eq_none] at hcond
            exact hmod _ t0 _ htm hcond.1 rfl rfl rfl (fun x => ⟨rfl, rfl⟩)
  | taskFinish tid =>
    simp only [step]
    split
    · exact hsame _ rfl rfl rfl
    · rename_i t0 hft
      obtain ⟨htm, htid⟩ := findTask_some hft
      subst htid
      split
      · exact hsame _ rfl rfl rfl
      · rename_i hcond
        simp only [Bool.or_eq_true, Bool.not_eq_true', not_or, Bool.not_eq_false, Bool.not_eq_true,
          Option.isSome_eq_false_iff, Option.isNone_iff_eq_none] at hcond
        exact hmod _ t0 _ htm hcond.1 rfl rfl rfl (fun x => ⟨rfl, rfl⟩)
  | taskTimeout tid =>
    simp only [step]
    split
    · exact hsame _ rfl rfl rfl
    · rename_i t0 hft
      obtain ⟨htm, htid⟩ := findTask_some hft
      subst htid
      split
      · exact hsame _ rfl rfl rfl
      · rename_i hcond
        simp only [Bool.not_eq_true, Option.isSome_eq_false_iff, Option.isNone_iff_eq_none] at hcond
        exact hmod _ t0 _ htm hcond rfl rfl rfl (fun x => ⟨rfl, rfl⟩)
  | refill => simp only [step]; split <;> exact hsame _ rfl rfl rfl
  | opened shard sharder requested =>
    simp only [step]
    split
    · exact hsame _ rfl rfl rfl
    · have haf := afterReady_frame (Pool.handleReady { p with opening := p.opening - 1, nextId := p.nextId + 1, net := setConn p.net p.nextId { shard := shard, sharder := sharder } } p.nextId none requested)
      simp only at haf
      have hc := handleReady_cases { p with opening := p.opening - 1, nextId := p.nextId + 1, net := setConn p.net p.nextId { shard := shard, sharder := sharder } } p.nextId none requested
      apply hsame
      · rw [haf.2.2.2.2.2.1]
        rcases hc with ⟨heq, _⟩ | ⟨k, _, heq⟩
        · rw [heq]; exact (accept_frame _ _ _).2.2.2.2.2.1
        · rw [heq]
      · rw [haf.2.2.2.2.2.2]
        rcases hc with ⟨heq, _⟩ | ⟨k, _, heq⟩
        · rw [heq]; exact (accept_frame _ _ _).2.2.2.2.2.2
        · rw [heq]
      · rw [haf.2.2.2.2.1]
        rcases hc with ⟨heq, _⟩ | ⟨k, _, heq⟩
        · rw [heq]; exact (accept_frame _ _ _).2.2.2.2.1
        · rw [heq]
  | openFailed requested =>
    simp only [step]
    split
    · exact hsame _ rfl rfl rfl
    · split <;> exact hsame _ rfl rfl rfl
  | ksSet i r =>
    simp only [step]
    split
    · exact hsame _ rfl rfl rfl
    · split
      · exact hsame _ rfl rfl rfl
      · split
        · rename_i k requested _ _ _ _
          have haf := afterReady_frame (Pool.handleReady { p with setting := p.setting.filter (·.1 ≠ i), net := setConn p.net i (serveUse (p.net i) k r).fst } i (some k) requested)
          simp only at haf
          have hc := handleReady_cases { p with setting := p.setting.filter (·.1 ≠ i), net := setConn p.net i (serveUse (p.net i) k r).fst } i (some k) requested
          apply hsame
          · rw [haf.2.2.2.2.2.1]
            rcases hc with ⟨heq, _⟩ | ⟨k', _, heq⟩
            · rw [heq]; exact (accept_frame _ _ _).2.2.2.2.2.1
            · rw [heq]
          · rw [haf.2.2.2.2.2.2]
            rcases hc with ⟨heq, _⟩ | ⟨k', _, heq⟩
            · rw [heq]; exact (accept_frame _ _ _).2.2.2.2.2.2
            · rw [heq]
          · rw [haf.2.2.2.2.1]
            rcases hc with ⟨heq, _⟩ | ⟨k', _, heq⟩
            · rw [heq]; exact (accept_frame _ _ _).2.2.2.2.1
            · rw [heq]
        · exact hsame _ rfl rfl rfl
  | breakConn i => exact hsame _ rfl rfl rfl
  | connError i =>
    simp only [step]
    split
    · exact hsame _ rfl rfl rfl
    · split <;> exact hsame _ rfl rfl rfl

/-- Where a task of the stepped pool comes from. -/
theorem step_tasks_back {p : Pool K} (h : Inv p) (e : Ev K) (t' : Task K) (ht' : t' ∈ (step p e).tasks) :
    (e.isUseKs = true ∧ t'.id = p.tasks.length) ∨
    (∃ t ∈ p.tasks, t'.id = t.id ∧ (t.resp ≠ none → t' = t) ∧ (t'.resp = none → t.resp = none)) := by
  cases hu : e.isUseKs with
  | true =>
    cases e <;> simp [Ev.isUseKs] at hu
    simp only [step, List.mem_cons] at ht'
    rcases ht' with rfl | ht'
    · exact Or.inl ⟨rfl, rfl⟩
    · exact Or.inr ⟨t', ht', rfl, fun _ => rfl, fun x => x⟩
  | false =>
    obtain ⟨g, hg, _, _, hprop⟩ := step_nonUse h e hu
    rw [hg, List.mem_map] at ht'
    obtain ⟨t, ht, rfl⟩ := ht'
    exact Or.inr ⟨t, ht, (hprop t ht).1, (hprop t ht).2.1, (hprop t ht).2.2.1⟩

theorem nodeAnswer_some {c : Cluster K} {f : Fanout K} {n : Nat} {r : UseRes} (h : c.nodeAnswer f n = some r) :
    ∃ t ∈ (c.pools n).tasks, f.sent.lookup n = some t.id ∧
      ((r = .ok () ∧ t.resp = some .ok) ∨ (∃ e, r = .error e ∧ t.resp = some (.err e))) := by
  unfold Cluster.nodeAnswer at h
  split at h
  · cases h
  · rename_i tid hlk
    split at h
    · cases h
    · rename_i t hft
      obtain ⟨htm, htid⟩ := findTask_some hft
      refine ⟨t, htm, by rw [hlk, htid], ?_⟩
      split at h
      · cases h
      · rename_i hresp; simp only [Option.some.injEq] at h; exact Or.inl ⟨h.symm, hresp⟩
      · rename_i e' hresp; simp only [Option.some.injEq] at h; exact Or.inr ⟨e', h.symm, hresp⟩
      · cases h

structure CInv2 (c : Cluster K) : Prop where
  fin_sent : ∀ f ∈ c.fanouts, f.resp ≠ none → ∀ n ∈ f.nodes, (f.sent.lookup n).isSome = true
  fin_dead : ∀ f ∈ c.fanouts, f.resp ≠ none → ∀ n tid, f.sent.lookup n = some tid →
    ∀ t ∈ (c.pools n).tasks, t.id = tid → t.resp ≠ none
  fan_id : ∀ f ∈ c.fanouts, f.resp = some .ok → ∀ n ∈ f.nodes,
    ∃ t ∈ (c.pools n).tasks, f.sent.lookup n = some t.id ∧ (t.resp = some .ok ∨ t.resp = some (.err .broken))

theorem cinv2_init (perShard : Bool) (target : Nat) : CInv2 (Cluster.init perShard target : Cluster K) := by
  constructor <;> simp [Cluster.init]

theorem sent_lt {c : Cluster K} (h : CInv c) (f : Fanout K) (hf : f ∈ c.fanouts) (n tid : Nat)
    (hl : f.sent.lookup n = some tid) : tid < (c.pools n).tasks.length := by
  obtain ⟨t, ht, hid, _⟩ := h.sent f hf n tid hl
  have := (h.pools n).ids_lt t ht
  omega

/-- One pool step at node `m` keeps the pool-related clauses of `CInv2`. -/
theorem cinv2_pool_step {c : Cluster K} (h : CInv c) (h2 : CInv2 c) (m : Nat) (e : Ev K) :
    CInv2 { c with pools := setPool c.pools m (step (c.pools m) e) } := by
  constructor
  · exact h2.fin_sent
  · intro f hf hr n tid hl t' ht' hid
    simp only [setPool] at ht'
    split at ht'
    · rename_i hn; subst hn
      rcases step_tasks_back (h.pools n) e t' ht' with ⟨_, hlen⟩ | ⟨t, ht, hid', hdead, _⟩
      · have := sent_lt h f hf n tid hl; omega
      · have hd := h2.fin_dead f hf hr n tid hl t ht (by rw [← hid', hid])
        rw [hdead hd]; exact hd
    · exact h2.fin_dead f hf hr n tid hl t' ht' hid
  · intro f hf hr n hn
    obtain ⟨t, ht, hl, hresp⟩ := h2.fan_id f hf hr n hn
    simp only [setPool]
    split
    · rename_i hnm; subst hnm
      obtain ⟨t', h1, _, _, _, h5⟩ := task_persists (h.pools n) e t ht
      have : t' = t := h5 (by rcases hresp with h6 | h6 <;> simp [h6])
      subst this
      exact ⟨t', h1, hl, hresp⟩
    · exact ⟨t, ht, hl, hresp⟩

theorem cinv2_step {c : Cluster K} (h : CInv c) (h2 : CInv2 c) (e : CEv K) : CInv2 (cstep c e) := by
  cases e with
  | useKs k =>
    simp only [cstep]
    constructor
    · intro f hf hr n hn
      simp only [List.mem_cons] at hf
      rcases hf with rfl | hf
      · simp at hr
      · exact h2.fin_sent f hf hr n hn
    · intro f hf hr
      simp only [List.mem_cons] at hf
      rcases hf with rfl | hf
      · simp at hr
      · exact h2.fin_dead f hf hr
    · intro f hf hr
      simp only [List.mem_cons] at hf
      rcases hf with rfl | hf
      · simp at hr
      · exact h2.fan_id f hf hr
  | deliver fid n =>
    simp only [cstep]
    split
    · exact h2
    · rename_i f hfind
      have hfm := List.mem_of_find?_eq_some hfind
      have hfid : f.id = fid := by simpa using List.find?_some hfind
      subst hfid
      split
      · exact h2
      · rename_i hcond
        simp only [Bool.or_eq_true, Bool.not_eq_true', not_or, Bool.not_eq_true, Option.isSome_eq_false_iff,
          Option.isNone_iff_eq_none, Bool.not_eq_false, List.contains_eq_mem, decide_eq_true_eq] at hcond
        obtain ⟨⟨hal, hin⟩, hlk⟩ := hcond
        have h1 := cinv2_pool_step h h2 n (.useKs f.ks)
        have huniq : ∀ f' ∈ c.fanouts, f'.id = f.id → f' = f := fun f' hf' hid => unique_fid h.fids hf' hfm hid
        constructor
        · intro f'' hf'' hr m hm
          obtain ⟨f', hf', rfl⟩ := mem_modifyFanout.mp hf''
          split at hr
          next hid => have := huniq f' hf' hid; subst this; simp only at hr; exact absurd hal hr
          next hid => simp only [hid, ↓reduceIte] at hm ⊢; exact h2.fin_sent f' hf' hr m hm
        · intro f'' hf'' hr m tid hl
          obtain ⟨f', hf', rfl⟩ := mem_modifyFanout.mp hf''
          split at hr
          next hid => have := huniq f' hf' hid; subst this; simp only at hr; exact absurd hal hr
          next hid => simp only [hid, ↓reduceIte] at hl; exact h1.fin_dead f' hf' hr m tid hl
        · intro f'' hf'' hr m hm
          obtain ⟨f', hf', rfl⟩ := mem_modifyFanout.mp hf''
          split at hr
          next hid => have := huniq f' hf' hid; subst this; simp only at hr; rw [hal] at hr; cases hr
          next hid => simp only [hid, ↓reduceIte] at hm ⊢; exact h1.fan_id f' hf' hr m hm
  | pool n e =>
    simp only [cstep]
    split
    · exact h2
    · exact cinv2_pool_step h h2 n e
  | addNode perShard target filt =>
    simp only [cstep]
    have hne : ∀ f ∈ c.fanouts, ∀ n ∈ f.nodes, setPool c.pools c.nNodes (Pool.init perShard target c.usedKs) n = c.pools n := by
      intro f hf n hn
      have := h.nodes_lt f hf n hn
      simp only [setPool]
      rw [if_neg (by omega)]
    constructor
    · exact h2.fin_sent
    · intro f hf hr n tid hl
      simp only
      rw [hne f hf n (h.sent_in f hf n tid hl)]
      exact h2.fin_dead f hf hr n tid hl
    · intro f hf hr n hn
      simp only
      rw [hne f hf n hn]
      exact h2.fan_id f hf hr n hn
  | removeNode n =>
    simp only [cstep]
    exact ⟨h2.fin_sent, h2.fin_dead, h2.fan_id⟩
  | fanoutFinish fid =>
    simp only [cstep]
    split
    · exact h2
    · rename_i f hfind
      have hfm := List.mem_of_find?_eq_some hfind
      have hfid : f.id = fid := by simpa using List.find?_some hfind
      subst hfid
      split
      · exact h2
      · rename_i hcond
        simp only [Bool.or_eq_true, Bool.not_eq_true', not_or, Bool.not_eq_true, Option.isSome_eq_false_iff,
          Option.isNone_iff_eq_none, Bool.not_eq_false] at hcond
        obtain ⟨hal, hall⟩ := hcond
        have huniq : ∀ f' ∈ c.fanouts, f'.id = f.id → f' = f := fun f' hf' hid => unique_fid h.fids hf' hfm hid
        have hans : ∀ m ∈ f.nodes, ∃ r, c.nodeAnswer f m = some r := fun m hm =>
          Option.isSome_iff_exists.mp (List.all_eq_true.mp hall m hm)
        constructor
        · intro f'' hf'' hr m hm
          obtain ⟨f', hf', rfl⟩ := mem_modifyFanout.mp hf''
          split at hr
          next hid =>
            have := huniq f' hf' hid; subst this
            simp only [hid, ↓reduceIte] at hm ⊢
            obtain ⟨r, hr'⟩ := hans m hm
            obtain ⟨t, _, hl, _⟩ := nodeAnswer_some hr'
            simp [hl]
          next hid => simp only [hid, ↓reduceIte] at hm ⊢; exact h2.fin_sent f' hf' hr m hm
        · intro f'' hf'' hr m tid hl t ht htid
          obtain ⟨f', hf', rfl⟩ := mem_modifyFanout.mp hf''
          split at hr
          next hid =>
            have := huniq f' hf' hid; subst this
            simp only [hid, ↓reduceIte] at hl
            obtain ⟨r, hr'⟩ := hans m (h.sent_in f' hf' m tid hl)
            obtain ⟨t0, ht0, hl0, hres⟩ := nodeAnswer_some hr'
            rw [hl] at hl0
            simp only [Option.some.injEq] at hl0
            have : t = t0 := unique_id (h.pools m).ids ht ht0 (by rw [htid, hl0])
            subst this
            rcases hres with ⟨_, h6⟩ | ⟨_, _, h6⟩ <;> simp [h6]
          next hid => simp only [hid, ↓reduceIte] at hl; exact h2.fin_dead f' hf' hr m tid hl t ht htid
        · intro f'' hf'' hr m hm
          obtain ⟨f', hf', rfl⟩ := mem_modifyFanout.mp hf''
          split at hr
          next hid =>
            have := huniq f' hf' hid; subst this
            simp only [hid, ↓reduceIte] at hm ⊢
            simp only [Option.some.injEq] at hr
            have hok := (useKeyspaceResult_ok_iff _).mp hr
            obtain ⟨r, hr'⟩ := hans m hm
            have hmem : r ∈ f'.nodes.filterMap (c.nodeAnswer f') := List.mem_filterMap.mpr ⟨m, hm, hr'⟩
            obtain ⟨t0, ht0, hl0, hres⟩ := nodeAnswer_some hr'
            refine ⟨t0, ht0, hl0, ?_⟩
            rcases hres with ⟨_, h6⟩ | ⟨e', he', h6⟩
            · exact Or.inl h6
            · subst he'
              rcases hok.1 _ hmem with h7 | h7
              · cases h7
              · simp only [Except.error.injEq] at h7; subst h7; exact Or.inr h6
          next hid => simp only [hid, ↓reduceIte] at hm ⊢; exact h2.fan_id f' hf' hr m hm

/-! ### every pool task was delivered by a fan-out -/

/-- Every task of a node's pool was created by the delivery of some fan-out, and an unanswered task belongs to
an unanswered fan-out. -/
def TaskSent (c : Cluster K) : Prop :=
  ∀ n, ∀ t ∈ (c.pools n).tasks, ∃ f ∈ c.fanouts, f.sent.lookup n = some t.id ∧ (t.resp = none → f.resp = none)

theorem taskSent_init (perShard : Bool) (target : Nat) : TaskSent (Cluster.init perShard target : Cluster K) := by
  intro n t ht; simp [Cluster.init, Pool.init] at ht

theorem taskSent_step {c : Cluster K} (h : CInv c) (h3 : TaskSent c) (e : CEv K) : TaskSent (cstep c e) := by
  cases e with
  | useKs k =>
    simp only [cstep]
    intro n t ht
    obtain ⟨f, hf, hl, hr⟩ := h3 n t ht
    exact ⟨f, List.mem_cons_of_mem _ hf, hl, hr⟩
  | deliver fid n =>
    simp only [cstep]
    split
    · exact h3
    · rename_i f hfind
      have hfm := List.mem_of_find?_eq_some hfind
      have hfid : f.id = fid := by simpa using List.find?_some hfind
      subst hfid
      split
      · exact h3
      · rename_i hcond
        simp only [Bool.or_eq_true, Bool.not_eq_true', not_or, Bool.not_eq_true, Option.isSome_eq_false_iff,
          Option.isNone_iff_eq_none, Bool.not_eq_false, List.contains_eq_mem, decide_eq_true_eq] at hcond
        obtain ⟨⟨hal, hin⟩, hlk⟩ := hcond
        have huniq : ∀ f' ∈ c.fanouts, f'.id = f.id → f' = f := fun f' hf' hid => unique_fid h.fids hf' hfm hid
        -- an old witness survives the modification of `f`
        have hold : ∀ m tid (f0 : Fanout K), f0 ∈ c.fanouts → f0.sent.lookup m = some tid → (m ≠ n ∨ f0 ≠ f) →
            ∃ f' ∈ modifyFanout c.fanouts f.id (fun f' => { f' with sent := (n, (c.pools n).tasks.length) :: f'.sent }),
              f'.sent.lookup m = some tid ∧ f'.resp = f0.resp := by
          intro m tid f0 hf0 hl hne
          refine ⟨_, mem_modifyFanout.mpr ⟨f0, hf0, rfl⟩, ?_⟩
          split
          · rename_i hid
            have := huniq f0 hf0 hid; subst this
            rcases hne with h1 | h1
            · simp only [List.lookup_cons]
              have : (m == n) = false := by simp [h1]
              rw [this]; exact ⟨hl, trivial⟩
            · exact absurd rfl h1
          · exact ⟨hl, rfl⟩
        intro m t' ht'
        simp only [setPool] at ht'
        split at ht'
        · rename_i hm; subst hm
          rcases step_tasks_back (h.pools m) (.useKs f.ks) t' ht' with ⟨_, hlen⟩ | ⟨t, ht, hid', _, halive⟩
          · refine ⟨_, mem_modifyFanout.mpr ⟨f, hfm, rfl⟩, ?_⟩
            simp only [↓reduceIte, List.lookup_cons, beq_self_eq_true, hlen]
            exact ⟨trivial, fun _ => hal⟩
          · obtain ⟨f0, hf0, hl, hr⟩ := h3 m t ht
            have hne : m ≠ m ∨ f0 ≠ f := by
              right; intro heq; subst heq; rw [hlk] at hl; cases hl
            obtain ⟨f', hf', hl', hr'⟩ := hold m t.id f0 hf0 hl hne
            exact ⟨f', hf', by rw [hid']; exact hl', fun ha => by rw [hr']; exact hr (halive ha)⟩
        · rename_i hm
          obtain ⟨f0, hf0, hl, hr⟩ := h3 m t' ht'
          obtain ⟨f', hf', hl', hr'⟩ := hold m t'.id f0 hf0 hl (Or.inl hm)
          exact ⟨f', hf', hl', fun ha => by rw [hr']; exact hr ha⟩
  | pool n e =>
    simp only [cstep]
    split
    · exact h3
    · rename_i hcond
      simp only [Bool.or_eq_true, decide_eq_true_eq, not_or, Bool.not_eq_true] at hcond
      intro m t' ht'
      simp only [setPool] at ht'
      split at ht'
      · rename_i hm; subst hm
        rcases step_tasks_back (h.pools m) e t' ht' with ⟨hu, _⟩ | ⟨t, ht, hid', _, halive⟩
        · rw [hcond.1.1] at hu; cases hu
        · obtain ⟨f0, hf0, hl, hr⟩ := h3 m t ht
          exact ⟨f0, hf0, by rw [hid']; exact hl, fun ha => hr (halive ha)⟩
      · exact h3 m t' ht'
  | addNode perShard target filt =>
    simp only [cstep]
    intro m t ht
    simp only [setPool] at ht
    split at ht
    · simp [Pool.init] at ht
    · exact h3 m t ht
  | removeNode n => simp only [cstep]; exact h3
  | fanoutFinish fid =>
    simp only [cstep]
    split
    · exact h3
    · rename_i f hfind
      have hfm := List.mem_of_find?_eq_some hfind
      have hfid : f.id = fid := by simpa using List.find?_some hfind
      subst hfid
      split
      · exact h3
      · rename_i hcond
        simp only [Bool.or_eq_true, Bool.not_eq_true', not_or, Bool.not_eq_true, Option.isSome_eq_false_iff,
          Option.isNone_iff_eq_none, Bool.not_eq_false] at hcond
        obtain ⟨hal, hall⟩ := hcond
        have huniq : ∀ f' ∈ c.fanouts, f'.id = f.id → f' = f := fun f' hf' hid => unique_fid h.fids hf' hfm hid
        intro m t ht
        obtain ⟨f0, hf0, hl, hr⟩ := h3 m t ht
        refine ⟨_, mem_modifyFanout.mpr ⟨f0, hf0, rfl⟩, ?_⟩
        split
        · rename_i hid
          have := huniq f0 hf0 hid; subst this
          refine ⟨hl, fun ha => ?_⟩
          -- the fan-out finishes only when the node's task has answered
          exfalso
          have hm : m ∈ f0.nodes := h.sent_in f0 hf0 m t.id hl
          obtain ⟨r, hr'⟩ := Option.isSome_iff_exists.mp (List.all_eq_true.mp hall m hm)
          obtain ⟨t1, ht1, hl1, hres⟩ := nodeAnswer_some hr'
          rw [hl] at hl1
          simp only [Option.some.injEq] at hl1
          have : t = t1 := unique_id (h.pools m).ids ht ht1 hl1
          subst this
          rcases hres with ⟨_, h6⟩ | ⟨_, _, h6⟩ <;> rw [ha] at h6 <;> cases h6
        · exact ⟨hl, hr⟩

/-! ### non-overlapping fan-outs -/

/-- The cluster-level strong statement (meaningful when the newest fan-out `F` did not overlap an older one):
all older fan-outs are answered; a pool that has received `F`'s request received it while none of its tasks was
unanswered, and `F`'s task is its newest; every known node was either known to `F` or created afterwards, with
`F`'s keyspace and no request yet. -/
def CStrong (c : Cluster K) : Prop :=
  match c.fanouts with
  | [] => True
  | F :: rest =>
    (∀ f ∈ rest, f.resp ≠ none) ∧
    (∀ n tid, F.sent.lookup n = some tid →
      (c.pools n).overlap = false ∧ ∃ L, (c.pools n).tasks.head? = some L ∧ L.id = tid) ∧
    (∀ n ∈ c.known, n ∈ F.nodes ∨
      ((c.pools n).tasks = [] ∧ (c.pools n).currentKs = some F.ks ∧ (c.pools n).overlap = false))

theorem modifyFanout_of_ne {fs : List (Fanout K)} {fid : Nat} {g : Fanout K → Fanout K}
    (h : ∀ f ∈ fs, f.id ≠ fid) : modifyFanout fs fid g = fs := by
  unfold modifyFanout
  induction fs with
  | nil => rfl
  | cons a l ih =>
    simp only [List.map_cons, List.mem_cons, forall_eq_or_imp] at h ⊢
    rw [if_neg h.1, ih h.2]

theorem cstrong_step {c : Cluster K} (h : CInv c) (h3 : TaskSent c) (hs : c.overlap = false → CStrong c)
    (e : CEv K) : (cstep c e).overlap = false → CStrong (cstep c e) := by
  cases e with
  | useKs k =>
    simp only [cstep]
    intro hdead
    have hall : ∀ f ∈ c.fanouts, f.resp ≠ none := by
      intro f hf hn
      have := List.any_eq_false.mp hdead f hf
      simp [hn] at this
    unfold CStrong
    refine ⟨hall, ?_, ?_⟩
    · intro n tid hl; simp at hl
    · intro n hn; exact Or.inl hn
  | deliver fid n =>
    simp only [cstep]
    split
    · exact hs
    · rename_i f hfind
      have hfm := List.mem_of_find?_eq_some hfind
      have hfid : f.id = fid := by simpa using List.find?_some hfind
      subst hfid
      split
      · exact hs
      · rename_i hcond
        simp only [Bool.or_eq_true, Bool.not_eq_true', not_or, Bool.not_eq_true, Option.isSome_eq_false_iff,
          Option.isNone_iff_eq_none, Bool.not_eq_false, List.contains_eq_mem, decide_eq_true_eq] at hcond
        obtain ⟨⟨hal, hin⟩, hlk⟩ := hcond
        intro hov
        have hcs := hs hov
        unfold CStrong at hcs ⊢
        simp only
        cases hfs : c.fanouts with
        | nil => rw [hfs] at hfm; cases hfm
        | cons F rest =>
          rw [hfs] at hcs hfm
          have hF : f = F := by
            simp only [List.mem_cons] at hfm
            rcases hfm with rfl | hr
            · rfl
            · exact absurd hal (hcs.1 f hr)
          subst hF
          have hrest : ∀ f' ∈ rest, f'.id ≠ f.id := by
            have := h.fids
            rw [hfs, List.pairwise_cons] at this
            intro f' hf' heq
            exact this.1 f' hf' heq.symm
          have hmod : modifyFanout (f :: rest) f.id (fun f' => { f' with sent := (n, (c.pools n).tasks.length) :: f'.sent })
              = { f with sent := (n, (c.pools n).tasks.length) :: f.sent } :: rest := by
            show (if f.id = f.id then _ else f) :: modifyFanout rest f.id _ = _
            rw [if_pos rfl, modifyFanout_of_ne hrest]
          rw [hmod]
          -- no task of pool `n` is unanswered: such a task would have been delivered by `f`, which has not delivered to `n`
          have hnoalive : ∀ t ∈ (c.pools n).tasks, t.resp ≠ none := by
            intro t ht hn
            obtain ⟨f0, hf0, hl, hr⟩ := h3 n t ht
            have hf0a := hr hn
            rw [hfs] at hf0
            simp only [List.mem_cons] at hf0
            rcases hf0 with rfl | hf0
            · rw [hlk] at hl; cases hl
            · exact hcs.1 f0 hf0 hf0a
          refine ⟨hcs.1, ?_, ?_⟩
          · intro m tid hl
            simp only [setPool]
            split
            · rename_i hm; subst hm
              simp only [List.lookup_cons, beq_self_eq_true, Option.some.injEq] at hl
              subst hl
              simp only [step, List.head?_cons]
              refine ⟨?_, _, rfl, rfl⟩
              rw [List.any_eq_false]
              intro t ht
              have := hnoalive t ht
              cases hr : t.resp <;> simp_all
            · rename_i hm
              simp only [List.lookup_cons] at hl
              have : (m == n) = false := by simp [hm]
              rw [this] at hl
              exact hcs.2.1 m tid hl
          · intro m hm
            rcases hcs.2.2 m hm with h1 | h1
            · exact Or.inl h1
            · by_cases hmn : m = n
              · subst hmn; exact Or.inl hin
              · right; simp only [setPool, hmn, ↓reduceIte]; exact h1
  | pool n e =>
    simp only [cstep]
    split
    · exact hs
    · rename_i hcond
      simp only [Bool.or_eq_true, decide_eq_true_eq, not_or, Bool.not_eq_true] at hcond
      intro hov
      have hcs := hs hov
      obtain ⟨g, hg, hgo, hgk, hgp⟩ := step_nonUse (h.pools n) e hcond.1.1
      unfold CStrong at hcs ⊢
      simp only
      cases hfs : c.fanouts with
      | nil => trivial
      | cons F rest =>
        rw [hfs] at hcs
        refine ⟨hcs.1, ?_, ?_⟩
        · intro m tid hl
          obtain ⟨hov', L, hL, hid⟩ := hcs.2.1 m tid hl
          simp only [setPool]
          split
          · rename_i hm; subst hm
            refine ⟨by rw [hgo]; exact hov', g L, ?_, ?_⟩
            · rw [hg, List.head?_map, hL]; rfl
            · have hLm : L ∈ (c.pools m).tasks := List.mem_of_mem_head? hL
              rw [(hgp L hLm).1]; exact hid
          · exact ⟨hov', L, hL, hid⟩
        · intro m hm
          rcases hcs.2.2 m hm with h1 | h1
          · exact Or.inl h1
          · right
            simp only [setPool]
            split
            · rename_i hmn; subst hmn; rw [hg, hgk, hgo, h1.1]; exact ⟨rfl, h1.2⟩
            · exact h1
  | addNode perShard target filt =>
    simp only [cstep]
    intro hov
    have hcs := hs hov
    unfold CStrong at hcs ⊢
    simp only
    cases hfs : c.fanouts with
    | nil => trivial
    | cons F rest =>
      rw [hfs] at hcs
      have hF : F ∈ c.fanouts := by rw [hfs]; exact List.mem_cons_self
      have hused : c.usedKs = some F.ks := by rw [h.used, hfs]; rfl
      refine ⟨hcs.1, ?_, ?_⟩
      · intro m tid hl
        have hlt := h.nodes_lt F hF m (h.sent_in F hF m tid hl)
        simp only [setPool]
        rw [if_neg (by omega)]
        exact hcs.2.1 m tid hl
      · intro m hm
        simp only [List.mem_append, List.mem_singleton] at hm
        rcases hm with hm | hm
        · have hlt := h.known_lt m hm
          rcases hcs.2.2 m hm with h1 | h1
          · exact Or.inl h1
          · right; simp only [setPool]; rw [if_neg (by omega)]; exact h1
        · subst hm
          right
          simp only [setPool, ↓reduceIte, Pool.init]
          exact ⟨trivial, hused, trivial⟩
  | removeNode n =>
    simp only [cstep]
    intro hov
    have hcs := hs hov
    unfold CStrong at hcs ⊢
    simp only
    cases hfs : c.fanouts with
    | nil => trivial
    | cons F rest =>
      rw [hfs] at hcs
      exact ⟨hcs.1, hcs.2.1, fun m hm => hcs.2.2 m (List.mem_filter.mp hm).1⟩
  | fanoutFinish fid =>
    simp only [cstep]
    split
    · exact hs
    · rename_i f hfind
      have hfm := List.mem_of_find?_eq_some hfind
      have hfid : f.id = fid := by simpa using List.find?_some hfind
      subst hfid
      split
      · exact hs
      · rename_i hcond
        simp only [Bool.or_eq_true, Bool.not_eq_true', not_or, Bool.not_eq_true, Option.isSome_eq_false_iff,
          Option.isNone_iff_eq_none, Bool.not_eq_false] at hcond
        intro hov
        have hcs := hs hov
        unfold CStrong at hcs ⊢
        simp only
        cases hfs : c.fanouts with
        | nil => rw [hfs] at hfm; cases hfm
        | cons F rest =>
          rw [hfs] at hcs hfm
          have hF : f = F := by
            simp only [List.mem_cons] at hfm
            rcases hfm with rfl | hr
            · rfl
            · exact absurd hcond.1 (hcs.1 f hr)
          subst hF
          have hrest : ∀ f' ∈ rest, f'.id ≠ f.id := by
            have := h.fids
            rw [hfs, List.pairwise_cons] at this
            intro f' hf' heq
            exact this.1 f' hf' heq.symm
          have hmod : ∀ g : Fanout K → Fanout K, modifyFanout (f :: rest) f.id g = g f :: rest := by
            intro g
            show (if f.id = f.id then _ else f) :: modifyFanout rest f.id _ = _
            rw [if_pos rfl, modifyFanout_of_ne hrest]
          rw [hmod]
          exact ⟨hcs.1, hcs.2.1, hcs.2.2⟩

/-- The invariants along any run. -/
theorem cluster_run_invs (perShard : Bool) (target : Nat) (evs : List (CEv K)) :
    let c := crun (Cluster.init perShard target : Cluster K) evs
    CInv c ∧ CInv2 c ∧ TaskSent c ∧ (c.overlap = false → CStrong c) := by
  unfold crun
  have base : CInv (Cluster.init perShard target : Cluster K) ∧ CInv2 (Cluster.init perShard target : Cluster K) ∧
      TaskSent (Cluster.init perShard target : Cluster K) ∧
      ((Cluster.init perShard target : Cluster K).overlap = false → CStrong (Cluster.init perShard target : Cluster K)) :=
    ⟨cinv_init _ _, cinv2_init _ _, taskSent_init _ _, fun _ => by simp [CStrong, Cluster.init]⟩
  generalize (Cluster.init perShard target : Cluster K) = c0 at base
  induction evs generalizing c0 with
  | nil => exact base
  | cons e es ih =>
    exact ih (cstep c0 e) ⟨cinv_step base.1 e, cinv2_step base.1 base.2.1 e, taskSent_step base.1 base.2.2.1 e,
      cstrong_step base.1 base.2.2.1 base.2.2.2 e⟩

/-! ### from the pool invariant to the published connections -/

theorem results_ok_of_resp {p : Pool K} (h : Inv p) (t : Task K) (ht : t ∈ p.tasks)
    (hr : t.resp = some .ok ∨ t.resp = some (.err .broken)) (i : Nat) (hi : i ∈ t.snapshot)
    (hb : (p.net i).broken = false) : t.results.lookup i = some (.ok ()) := by
  have hresp : ∃ o, t.resp = some o ∧ (o = .ok ∨ o = .err .broken) := by
    rcases hr with h1 | h1
    · exact ⟨_, h1, Or.inl rfl⟩
    · exact ⟨_, h1, Or.inr rfl⟩
  obtain ⟨o, ho, hoo⟩ := hresp
  rcases h.resp t ht o ho with ⟨hnil, _⟩ | h2 | ⟨hdone, hres⟩
  · rw [hnil] at hi; cases hi
  · subst h2; rcases hoo with h3 | h3 <;> cases h3
  · unfold Task.allDone at hdone
    have hsome := List.all_eq_true.mp hdone i hi
    obtain ⟨r, hr'⟩ := Option.isSome_iff_exists.mp hsome
    have hmem : r ∈ t.resultList := by
      unfold Task.resultList
      exact List.mem_filterMap.mpr ⟨i, hi, hr'⟩
    have hcase : r = .ok () ∨ r = .error .broken := by
      rcases hoo with h3 | h3
      · subst h3; exact ((useKeyspaceResult_ok_iff _).mp hres.symm).1 r hmem
      · subst h3; exact Or.inr (((useKeyspaceResult_broken_iff _).mp hres.symm).1 r hmem)
    rcases hcase with h4 | h4
    · rw [hr', h4]
    · rw [h4] at hr'
      have := h.res_broken t ht i hr'
      rw [hb] at this; cases this

/-- The per-pool statement in terms of the invariant: the newest task `L` did not overlap an older one and was
answered Ok (or with a broken-connection error) ⇒ every published connection that is not broken, and on which
no user-issued `USE` was written after `L`'s own, has `L.ks` set at the server and no `USE` in flight. -/
theorem published_of_inv {p : Pool K} (h : Inv p) (hov : p.overlap = false) (L : Task K)
    (hL : p.tasks.head? = some L) (hresp : L.resp = some .ok ∨ L.resp = some (.err .broken)) :
    p.currentKs = some L.ks ∧ ∀ i ∈ p.conns, (p.net i).broken = false → (p.net i).unclaimed = false →
      (p.net i).serverKs = some L.ks ∧ (p.net i).queue = [] := by
  have hs := h.strong hov
  unfold Strong at hs
  cases htasks : p.tasks with
  | nil => rw [htasks] at hL; cases hL
  | cons L' rest =>
    rw [htasks] at hL hs
    simp only [List.head?_cons, Option.some.injEq] at hL
    subst hL
    refine ⟨hs.1, fun i hi hb hm => ?_⟩
    have := hs.2.2 i hi hb hm
    unfold ConnOk at this
    by_cases hsn : i ∈ L'.snapshot
    · exact (this.2 hsn).1 (results_ok_of_resp h L' (by rw [htasks]; exact List.mem_cons_self) hresp i hsn hb)
    · exact this.1 hsn

/-- **The cluster-level statement**: the newest fan-out `F` did not overlap an older one and was answered Ok ⇒
every published non-broken connection of every known node (on which no user-issued `USE` was written after
the fan-out's own) has `F.ks` set at the server, and nothing in flight. -/
theorem cluster_published {c : Cluster K} (h : CInv c) (h2 : CInv2 c) (hs : CStrong c)
    (F : Fanout K) (hF : c.fanouts.head? = some F) (hr : F.resp = some .ok) :
    ∀ n ∈ c.known, ∀ i ∈ (c.pools n).conns, ((c.pools n).net i).broken = false →
      ((c.pools n).net i).unclaimed = false →
      ((c.pools n).net i).serverKs = some F.ks ∧ ((c.pools n).net i).queue = [] := by
  intro n hn i hi hb hm
  unfold CStrong at hs
  cases hfs : c.fanouts with
  | nil => rw [hfs] at hF; cases hF
  | cons F' rest =>
    rw [hfs] at hF hs
    simp only [List.head?_cons, Option.some.injEq] at hF
    subst hF
    have hFm : F' ∈ c.fanouts := by rw [hfs]; exact List.mem_cons_self
    rcases hs.2.2 n hn with hin | ⟨hnil, hcur, hpov⟩
    · obtain ⟨t, ht, hl, hresp⟩ := h2.fan_id F' hFm hr n hin
      obtain ⟨hpov, L, hL, hid⟩ := hs.2.1 n t.id hl
      have hLm : L ∈ (c.pools n).tasks := List.mem_of_mem_head? hL
      have hLt : L = t := unique_id (h.pools n).ids hLm ht hid
      subst hLt
      obtain ⟨t2, ht2, hid2, hks2⟩ := h.sent F' hFm n L.id hl
      have : t2 = L := unique_id (h.pools n).ids ht2 hLm hid2
      subst this
      rw [← hks2]
      exact (published_of_inv (h.pools n) hpov t2 hL hresp).2 i hi hb hm
    · have hst := (h.pools n).strong hpov
      unfold Strong at hst
      rw [hnil] at hst
      rw [← hcur]
      exact hst i hi hb hm

/-! ### every fan-out has its own pool tasks; the session layer -/

/-- Two fan-outs never share a pool task: each delivery creates a fresh one. -/
def SentInj (c : Cluster K) : Prop :=
  ∀ f ∈ c.fanouts, ∀ f' ∈ c.fanouts, ∀ n tid, f.sent.lookup n = some tid → f'.sent.lookup n = some tid → f.id = f'.id

theorem sentInj_step {c : Cluster K} (h : CInv c) (hi : SentInj c) (e : CEv K) : SentInj (cstep c e) := by
  cases e with
  | useKs k =>
    simp only [cstep]
    intro f hf f' hf' n tid hl hl'
    simp only [List.mem_cons] at hf hf'
    rcases hf with rfl | hf
    · simp at hl
    · rcases hf' with rfl | hf'
      · simp at hl'
      · exact hi f hf f' hf' n tid hl hl'
  | deliver fid n =>
    simp only [cstep]
    split
    · exact hi
    · rename_i f0 hfind
      have hfm := List.mem_of_find?_eq_some hfind
      have hfid : f0.id = fid := by simpa using List.find?_some hfind
      subst hfid
      split
      · exact hi
      · -- a sent entry of the modified list: an old one, or the fresh task of pool `n`
        have hback : ∀ g ∈ modifyFanout c.fanouts f0.id (fun f' => { f' with sent := (n, (c.pools n).tasks.length) :: f'.sent }),
            ∀ m tid, g.sent.lookup m = some tid →
              (∃ g0 ∈ c.fanouts, g0.id = g.id ∧ g0.sent.lookup m = some tid) ∨
              (g.id = f0.id ∧ m = n ∧ tid = (c.pools n).tasks.length) := by
          intro g hg m tid hl
          obtain ⟨g0, hg0, rfl⟩ := mem_modifyFanout.mp hg
          split at hl
          · rename_i hid
            simp only [List.lookup_cons] at hl
            split at hl
            · rename_i heq
              simp only [beq_iff_eq] at heq
              simp only [Option.some.injEq] at hl
              right; simp only [hid, ↓reduceIte]; exact ⟨trivial, heq, hl.symm⟩
            · left; exact ⟨g0, hg0, by simp [hid], hl⟩
          · rename_i hid
            left; exact ⟨g0, hg0, by simp [hid], hl⟩
        intro f hf f' hf' m tid hl hl'
        rcases hback f hf m tid hl with ⟨g0, hg0, hid0, hl0⟩ | ⟨hid0, hm, ht⟩
        · rcases hback f' hf' m tid hl' with ⟨g1, hg1, hid1, hl1⟩ | ⟨hid1, hm1, ht1⟩
          · rw [← hid0, ← hid1]; exact hi g0 hg0 g1 hg1 m tid hl0 hl1
          · subst hm1 ht1
            have := sent_lt h g0 hg0 m _ hl0
            omega
        · rcases hback f' hf' m tid hl' with ⟨g1, hg1, hid1, hl1⟩ | ⟨hid1, hm1, ht1⟩
          · subst hm ht
            have := sent_lt h g1 hg1 m _ hl1
            omega
          · rw [hid0, hid1]
  | pool n e => simp only [cstep]; split <;> exact hi
  | addNode perShard target filt => simp only [cstep]; exact hi
  | removeNode n => simp only [cstep]; exact hi
  | fanoutFinish fid =>
    simp only [cstep]
    split
    · exact hi
    · split
      · exact hi
      · intro f hf f' hf' m tid hl hl'
        obtain ⟨g0, hg0, rfl⟩ := mem_modifyFanout.mp hf
        obtain ⟨g1, hg1, rfl⟩ := mem_modifyFanout.mp hf'
        have hl0 : g0.sent.lookup m = some tid := by split at hl <;> exact hl
        have hl1 : g1.sent.lookup m = some tid := by split at hl' <;> exact hl'
        have := hi g0 hg0 g1 hg1 m tid hl0 hl1
        split <;> split <;> exact this

theorem sentInj_run (perShard : Bool) (target : Nat) (evs : List (CEv K)) :
    SentInj (crun (Cluster.init perShard target : Cluster K) evs) := by
  unfold crun
  have base : CInv (Cluster.init perShard target : Cluster K) ∧ SentInj (Cluster.init perShard target : Cluster K) :=
    ⟨cinv_init _ _, by intro f hf; simp [Cluster.init] at hf⟩
  generalize (Cluster.init perShard target : Cluster K) = c0 at base
  induction evs generalizing c0 with
  | nil => exact base.2
  | cons e es ih => exact ih (cstep c0 e) ⟨cinv_step base.1 e, sentInj_step base.1 base.2 e⟩

/-- A fan-out keeps its id and keyspace. -/
theorem fanout_persists (c : Cluster K) (e : CEv K) (f : Fanout K) (hf : f ∈ c.fanouts) :
    ∃ f' ∈ (cstep c e).fanouts, f'.id = f.id ∧ f'.ks = f.ks := by
  have hmod : ∀ (fid : Nat) (g : Fanout K → Fanout K), (∀ x, (g x).id = x.id ∧ (g x).ks = x.ks) →
      ∃ f' ∈ modifyFanout c.fanouts fid g, f'.id = f.id ∧ f'.ks = f.ks := by
    intro fid g hg
    refine ⟨_, mem_modifyFanout.mpr ⟨f, hf, rfl⟩, ?_⟩
    split
    · exact hg f
    · exact ⟨rfl, rfl⟩
  cases e with
  | useKs k => exact ⟨f, by simp only [cstep]; exact List.mem_cons_of_mem _ hf, rfl, rfl⟩
  | deliver fid n =>
    simp only [cstep]
    split
    · exact ⟨f, hf, rfl, rfl⟩
    · split
      · exact ⟨f, hf, rfl, rfl⟩
      · exact hmod _ _ (fun x => ⟨rfl, rfl⟩)
  | pool n e => simp only [cstep]; split <;> exact ⟨f, hf, rfl, rfl⟩
  | addNode perShard target filt => exact ⟨f, hf, rfl, rfl⟩
  | removeNode n => exact ⟨f, hf, rfl, rfl⟩
  | fanoutFinish fid =>
    simp only [cstep]
    split
    · exact ⟨f, hf, rfl, rfl⟩
    · split
      · exact ⟨f, hf, rfl, rfl⟩
      · exact hmod _ _ (fun x => ⟨rfl, rfl⟩)

theorem verifiedName_new_ok {s : String} {cs : Bool} {v : VerifiedName} (h : VerifiedName.new s cs = .ok v) :
    v = ⟨s, cs⟩ := by
  unfold VerifiedName.new at h
  split at h
  · cases h; rfl
  · cases h

/-- The cluster of a session run is the cluster of a worker run: the calls with valid names are its requests. -/
theorem srun_cluster (perShard : Bool) (target : Nat) (evs : List SEv) :
    ∃ cevs, (srun (Session.init perShard target) evs).cluster = crun (Cluster.init perShard target) cevs := by
  suffices h : ∀ (s : Session), (∃ cevs, s.cluster = crun (Cluster.init perShard target) cevs) →
      ∃ cevs, (srun s evs).cluster = crun (Cluster.init perShard target) cevs from
    h _ ⟨[], rfl⟩
  induction evs with
  | nil => intro s hs; exact hs
  | cons e es ih =>
    intro s ⟨cevs, hc⟩
    apply ih
    cases e with
    | call name cs =>
      simp only [sstep]
      split
      · exact ⟨cevs, hc⟩
      · rename_i v _
        refine ⟨cevs ++ [.useKs v], ?_⟩
        simp only [crun, List.foldl_append, List.foldl_cons, List.foldl_nil]
        rw [hc]; rfl
    | cluster ce =>
      simp only [sstep]
      split
      · exact ⟨cevs, hc⟩
      · refine ⟨cevs ++ [ce], ?_⟩
        simp only [crun, List.foldl_append, List.foldl_cons, List.foldl_nil]
        rw [hc]; rfl

/-- Calls and fan-outs correspond: a call with a valid name owns the fan-out it created (same name, same flag);
a rejected call had an invalid name; there are exactly as many fan-outs as calls with a valid name. -/
structure SInv (s : Session) : Prop where
  owns : ∀ c ∈ s.calls, ∀ fid, c.outcome = .fanout fid →
    fid < s.cluster.fanouts.length ∧ ∃ f ∈ s.cluster.fanouts, f.id = fid ∧ f.ks = ⟨c.name, c.caseSensitive⟩
  rejected : ∀ c ∈ s.calls, ∀ e, c.outcome = .rejected e → VerifiedName.new c.name c.caseSensitive = .error e
  distinct : s.calls.Pairwise fun a b => ∀ fid, a.outcome = .fanout fid → b.outcome ≠ .fanout fid

theorem fanouts_length_mono (c : Cluster VerifiedName) (e : CEv VerifiedName) :
    c.fanouts.length ≤ (cstep c e).fanouts.length := by
  cases e <;> simp only [cstep]
  · simp
  · split
    · exact Nat.le_refl _
    · split
      · exact Nat.le_refl _
      · simp [modifyFanout]
  · split <;> exact Nat.le_refl _
  · exact Nat.le_refl _
  · exact Nat.le_refl _
  · split
    · exact Nat.le_refl _
    · split
      · exact Nat.le_refl _
      · simp [modifyFanout]

theorem sinv_step {s : Session} (h : SInv s) (e : SEv) : SInv (sstep s e) := by
  have hcl : ∀ ce : CEv VerifiedName, ∀ c ∈ s.calls, ∀ fid, c.outcome = .fanout fid →
      fid < (cstep s.cluster ce).fanouts.length ∧
      ∃ f ∈ (cstep s.cluster ce).fanouts, f.id = fid ∧ f.ks = ⟨c.name, c.caseSensitive⟩ := by
    intro ce c hc fid ho
    obtain ⟨hlt, f, hf, hid, hks⟩ := h.owns c hc fid ho
    obtain ⟨f', hf', hid', hks'⟩ := fanout_persists s.cluster ce f hf
    exact ⟨Nat.lt_of_lt_of_le hlt (fanouts_length_mono _ _), f', hf', by rw [hid', hid], by rw [hks', hks]⟩
  cases e with
  | call name cs =>
    simp only [sstep]
    split
    · rename_i e' hnew
      constructor
      · intro c hc fid ho
        simp only [List.mem_cons] at hc
        rcases hc with rfl | hc
        · cases ho
        · exact h.owns c hc fid ho
      · intro c hc e'' ho
        simp only [List.mem_cons] at hc
        rcases hc with rfl | hc
        · simp only [CallOutcome.rejected.injEq] at ho; subst ho; exact hnew
        · exact h.rejected c hc e'' ho
      · simp only [List.pairwise_cons]
        exact ⟨fun b _ fid ho => (by cases ho), h.distinct⟩
    · rename_i v hnew
      have hv := verifiedName_new_ok hnew
      constructor
      · intro c hc fid ho
        simp only [List.mem_cons] at hc
        rcases hc with rfl | hc
        · simp only [CallOutcome.fanout.injEq] at ho
          subst ho
          simp only [cstep, List.length_cons]
          refine ⟨Nat.lt_succ_self _, _, List.mem_cons_self, rfl, ?_⟩
          simp only; exact hv
        · exact hcl (.useKs v) c hc fid ho
      · intro c hc e'' ho
        simp only [List.mem_cons] at hc
        rcases hc with rfl | hc
        · cases ho
        · exact h.rejected c hc e'' ho
      · simp only [List.pairwise_cons]
        refine ⟨fun b hb fid ho hb' => ?_, h.distinct⟩
        simp only [CallOutcome.fanout.injEq] at ho
        subst ho
        have := (h.owns b hb _ hb').1
        omega
  | cluster ce =>
    simp only [sstep]
    split
    · exact h
    · exact ⟨fun c hc fid ho => hcl ce c hc fid ho, h.rejected, h.distinct⟩

theorem sinv_run (perShard : Bool) (target : Nat) (evs : List SEv) :
    SInv (srun (Session.init perShard target) evs) := by
  unfold srun
  have base : SInv (Session.init perShard target) := by
    constructor <;> simp [Session.init]
  generalize Session.init perShard target = s0 at base
  induction evs generalizing s0 with
  | nil => exact base
  | cons e es ih => exact ih (sstep s0 e) (sinv_step base e)

end ScyllaVerif.Keyspace

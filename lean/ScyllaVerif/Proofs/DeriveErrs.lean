/-
C16 — which error kinds each interpreter of `Model/Derive.lean` can return (for ALL inputs).  `Props/C16.lean` ties
these lists to the error variants the macro sources emit (`Generated/DeriveC16.lean`).
-/
import ScyllaVerif.Model.Derive

namespace ScyllaVerif.Derive

/-- the variant name of the driver's error enum an `Err` stands for (`PANIC` = a planted `panic!` / `unreachable!` /
`assert!` / `.expect`) -/
def errVariant : Err → String
  | .svNoSuchField => "NoSuchFieldInUdt"
  | .svValueMissing => "ValueMissingForUdtField"
  | .svFieldNameMismatch => "FieldNameMismatch"
  | .svFieldSerFailed => "FieldSerializationFailed"
  | .srValueMissingForColumn => "ValueMissingForColumn"
  | .srNoColumnWithName => "NoColumnWithName"
  | .srColumnNameMismatch => "ColumnNameMismatch"
  | .srColumnSerFailed => "ColumnSerializationFailed"
  | .dvTooFewFields => "TooFewFields"
  | .dvFieldNameMismatch => "FieldNameMismatch"
  | .dvFieldTypeCheckFailed => "FieldTypeCheckFailed"
  | .dvExcessField => "ExcessFieldInUdt"
  | .dvDuplicatedField => "DuplicatedField"
  | .dvValuesMissing => "ValuesMissingForUdtFields"
  | .dvFieldDeserFailed => "FieldDeserializationFailed"
  | .dvNullUdt => "ExpectedNonNull"
  | .svNotUdt => "NotUdt"
  | .dvNotUdt => "NotUdt"
  | .drWrongColumnCount => "WrongColumnCount"
  | .drColumnNameMismatch => "ColumnNameMismatch"
  | .drColumnTypeCheckFailed => "ColumnTypeCheckFailed"
  | .drDuplicatedColumn => "DuplicatedColumn"
  | .drUnknownName => "ColumnWithUnknownName"
  | .drValuesMissing => "ValuesMissingForColumns"
  | .drColumnDeserFailed => "ColumnDeserializationFailed"
  | .drRawColumnFailed => "RawColumnDeserializationFailed"
  | .panic => "PANIC"

theorem svLoop_errs (forbid : Bool) (db : List Col) : ∀ es rem pend x,
    svLoop forbid db es rem pend = .error x → x ∈ [Err.svFieldSerFailed, Err.svNoSuchField] := by
  induction db with
  | nil => intro es rem pend x h; cases h
  | cons c cs ih =>
    intro es rem pend x h
    unfold svLoop at h
    split at h
    · split at h
      · cases h; simp
      · split at h
        · rename_i heq; cases h; exact ih _ _ _ _ heq
        · cases h
    · split at h
      · cases h; simp
      · exact ih _ _ _ _ h

theorem serValueByName_errs (d : Desc) (fvs : List (Field × Val)) (db : List Col) (x : Err)
    (h : serValueByName d fvs db = .error x) :
    x ∈ [Err.svFieldSerFailed, Err.svNoSuchField, Err.svValueMissing] := by
  unfold serValueByName at h
  simp only [] at h
  split at h
  · rename_i heq; cases h
    have := svLoop_errs _ _ _ _ _ _ heq
    simp at this ⊢; rcases this with h | h <;> simp [h]
  · split at h
    · cases h; simp
    · cases h

theorem svOrdered_errs (sn forbid : Bool) (fs : List (Field × Val)) : ∀ db x,
    svOrdered sn forbid fs db = .error x →
    x ∈ [Err.svNoSuchField, Err.svValueMissing, Err.svFieldSerFailed, Err.svFieldNameMismatch] := by
  induction fs with
  | nil =>
    intro db x h
    unfold svOrdered at h
    split at h
    · split at h
      · cases h
      · cases h; simp
    · cases h
  | cons p fs ih =>
    intro db x h
    obtain ⟨f, v⟩ := p
    cases db with
    | nil =>
      unfold svOrdered at h
      split at h
      · exact ih _ _ h
      · cases h; simp
    | cons c cs =>
      unfold svOrdered at h
      split at h
      · split at h
        · cases h; simp
        · split at h
          · rename_i heq; cases h; exact ih _ _ heq
          · cases h
      · split at h
        · exact ih _ _ h
        · cases h; simp

theorem srLoop_errs (db : List Col) : ∀ es rem x,
    srLoop db es rem = .error x → x ∈ [Err.srColumnSerFailed, Err.srValueMissingForColumn] := by
  induction db with
  | nil => intro es rem x h; cases h
  | cons c cs ih =>
    intro es rem x h
    unfold srLoop at h
    split at h
    · split at h
      · cases h; simp
      · split at h
        · rename_i heq; cases h; exact ih _ _ _ heq
        · cases h
    · cases h; simp

theorem serRowByName_errs (fvs : List (Field × Val)) (db : List Col) (x : Err)
    (h : serRowByName fvs db = .error x) :
    x ∈ [Err.srColumnSerFailed, Err.srValueMissingForColumn, Err.srNoColumnWithName] := by
  unfold serRowByName at h
  simp only [] at h
  split at h
  · rename_i heq; cases h
    have := srLoop_errs _ _ _ _ heq
    simp at this ⊢; rcases this with h | h <;> simp [h]
  · split at h
    · rename_i heq
      cases h
      unfold srCheckMissing at heq
      split at heq
      · cases heq
      · split at heq
        · cases heq; simp
        · cases heq
    · cases h

theorem srOrdered_errs (sn : Bool) (fs : List (Field × Val)) : ∀ db x,
    srOrdered sn fs db = .error x →
    x ∈ [Err.srValueMissingForColumn, Err.srNoColumnWithName, Err.srColumnNameMismatch, Err.srColumnSerFailed] := by
  induction fs with
  | nil =>
    intro db x h
    cases db with
    | nil => cases h
    | cons c cs => simp [srOrdered] at h; simp [← h]
  | cons p fs ih =>
    intro db x h
    obtain ⟨f, v⟩ := p
    cases db with
    | nil => simp [srOrdered] at h; simp [← h]
    | cons c cs =>
      unfold srOrdered at h
      split at h
      · cases h; simp
      · split at h
        · cases h; simp
        · split at h
          · rename_i heq; cases h; exact ih _ _ heq
          · cases h

theorem dvTcLoop_errs (forbid : Bool) (db : List Col) : ∀ es rem x,
    dvTcLoop forbid db es rem = .error x →
    x ∈ [Err.dvDuplicatedField, Err.dvFieldTypeCheckFailed, Err.dvExcessField] := by
  induction db with
  | nil => intro es rem x h; cases h
  | cons c cs ih =>
    intro es rem x h
    unfold dvTcLoop at h
    split at h
    · split at h
      · cases h; simp
      · split at h
        · cases h; simp
        · exact ih _ _ _ h
    · split at h
      · cases h; simp
      · exact ih _ _ _ h

theorem tcValueByName_errs (d : Desc) (db : List Col) (x : Err) (h : tcValueByName d db = .error x) :
    x ∈ [Err.dvDuplicatedField, Err.dvFieldTypeCheckFailed, Err.dvExcessField, Err.dvValuesMissing] := by
  unfold tcValueByName at h
  split at h
  · rename_i heq; cases h
    have := dvTcLoop_errs _ _ _ _ _ heq
    simp at this ⊢; rcases this with h | h | h <;> simp [h]
  · split at h
    · cases h; simp
    · cases h

theorem dvDeLoop_errs (items : List (Col × Cell)) : ∀ es x,
    dvDeLoop items es = .error x → x ∈ [Err.panic, Err.dvFieldDeserFailed] := by
  induction items with
  | nil => intro es x h; cases h
  | cons a rest ih =>
    intro es x h
    obtain ⟨c, value⟩ := a
    unfold dvDeLoop at h
    split at h
    · split at h
      · cases h; simp
      · split at h
        · cases h; simp
        · exact ih _ _ h
    · exact ih _ _ h

theorem dvFinalize_errs (es : List Entry) (fields : List Field) : ∀ x,
    dvFinalize es fields = .error x → x = Err.panic := by
  induction fields with
  | nil => intro x h; cases h
  | cons f fs ih =>
    intro x h
    unfold dvFinalize at h
    simp only [] at h
    split at h
    · rename_i x' hhead
      cases h
      split at hhead
      · cases hhead
      · split at hhead
        · split at hhead
          · cases hhead
          · split at hhead
            · cases hhead
            · cases hhead; rfl
        · cases hhead; rfl
    · split at h
      · rename_i x' hr
        cases h
        exact ih _ hr
      · cases h

theorem deValueByName_errs (d : Desc) (db : List Col) (cells : List Cell) (x : Err)
    (h : deValueByName d db cells = .error x) : x ∈ [Err.panic, Err.dvFieldDeserFailed] := by
  unfold deValueByName at h
  split at h
  · rename_i heq; cases h; exact dvDeLoop_errs _ _ _ heq
  · have := dvFinalize_errs _ _ _ h
    simp [this]

theorem dvTcOrd_errs (sn forbid : Bool) (fs : List Field) : ∀ db x,
    dvTcOrd sn forbid fs db = .error x →
    x ∈ [Err.dvTooFewFields, Err.dvFieldNameMismatch, Err.dvFieldTypeCheckFailed, Err.dvExcessField] := by
  induction fs with
  | nil =>
    intro db x h
    unfold dvTcOrd at h
    split at h
    · split at h
      · cases h
      · cases h; simp
    · cases h
  | cons f fs ih =>
    intro db x h
    cases db with
    | nil =>
      unfold dvTcOrd at h
      split at h
      · exact ih _ _ h
      · cases h; simp
    | cons c cs =>
      unfold dvTcOrd at h
      split at h
      · split at h
        · exact ih _ _ h
        · cases h; simp
      · split at h
        · cases h; simp
        · exact ih _ _ h

theorem tcValueOrdered_errs (d : Desc) (db : List Col) (x : Err) (h : tcValueOrdered d db = .error x) :
    x ∈ [Err.dvTooFewFields, Err.dvFieldNameMismatch, Err.dvFieldTypeCheckFailed, Err.dvExcessField] := by
  unfold tcValueOrdered at h
  split at h
  · cases h; simp
  · exact dvTcOrd_errs _ _ _ _ _ h

theorem dvDeOrd_errs (sn : Bool) (fs : List Field) : ∀ items x,
    dvDeOrd sn fs items = .error x → x ∈ [Err.panic, Err.dvFieldDeserFailed] := by
  induction fs with
  | nil => intro items x h; cases h
  | cons f fs ih =>
    intro items x h
    unfold dvDeOrd at h
    split at h
    · split at h
      · rename_i heq; cases h; exact ih _ _ heq
      · cases h
    · split at h
      · split at h
        · split at h
          · rename_i heq; cases h; exact ih _ _ heq
          · cases h
        · cases h; simp
      · split at h
        · split at h
          · cases h; simp
          · split at h
            · rename_i heq; cases h; exact ih _ _ heq
            · cases h
        · split at h
          · split at h
            · rename_i heq; cases h; exact ih _ _ heq
            · cases h
          · cases h; simp

theorem drTcLoop_errs (db : List Col) : ∀ es rem x,
    drTcLoop db es rem = .error x →
    x ∈ [Err.drDuplicatedColumn, Err.drColumnTypeCheckFailed, Err.drUnknownName] := by
  induction db with
  | nil => intro es rem x h; cases h
  | cons c cs ih =>
    intro es rem x h
    unfold drTcLoop at h
    split at h
    · split at h
      · cases h; simp
      · split at h
        · cases h; simp
        · exact ih _ _ _ h
    · cases h; simp

theorem tcRowByName_errs (d : Desc) (db : List Col) (x : Err) (h : tcRowByName d db = .error x) :
    x ∈ [Err.drDuplicatedColumn, Err.drColumnTypeCheckFailed, Err.drUnknownName, Err.drValuesMissing] := by
  unfold tcRowByName at h
  split at h
  · rename_i heq; cases h
    have := drTcLoop_errs _ _ _ _ heq
    simp at this ⊢; rcases this with h | h | h <;> simp [h]
  · split at h
    · cases h; simp
    · cases h

theorem drDeLoop_errs (items : List (Col × Option Cell)) : ∀ es x,
    drDeLoop items es = .error x → x ∈ [Err.panic, Err.drColumnDeserFailed, Err.drRawColumnFailed] := by
  induction items with
  | nil => intro es x h; cases h
  | cons a rest ih =>
    intro es x h
    obtain ⟨c, value⟩ := a
    cases value with
    | none => unfold drDeLoop at h; cases h; simp
    | some value =>
      unfold drDeLoop at h
      split at h
      · split at h
        · cases h; simp
        · split at h
          · cases h; simp
          · exact ih _ _ h
      · cases h; simp

theorem drFinalize_errs (es : List Entry) (fields : List Field) : ∀ x,
    drFinalize es fields = .error x → x = Err.panic := by
  induction fields with
  | nil => intro x h; cases h
  | cons f fs ih =>
    intro x h
    unfold drFinalize at h
    simp only [] at h
    split at h
    · rename_i x' hhead
      cases h
      split at hhead
      · cases hhead
      · split at hhead
        · split at hhead
          · cases hhead
          · cases hhead; rfl
        · cases hhead; rfl
    · split at h
      · rename_i x' hr
        cases h
        exact ih _ hr
      · cases h

theorem deRowByName_errs (d : Desc) (db : List Col) (cells : List Cell) (x : Err)
    (h : deRowByName d db cells = .error x) :
    x ∈ [Err.panic, Err.drColumnDeserFailed, Err.drRawColumnFailed] := by
  unfold deRowByName at h
  split at h
  · rename_i heq; cases h; exact drDeLoop_errs _ _ _ heq
  · have := drFinalize_errs _ _ _ h
    simp [this]

theorem drTcOrd_errs (sn : Bool) (fs : List Field) : ∀ db x,
    drTcOrd sn fs db = .error x → x ∈ [Err.drColumnNameMismatch, Err.drColumnTypeCheckFailed] := by
  induction fs with
  | nil => intro db x h; simp [drTcOrd] at h
  | cons f fs ih =>
    intro db x h
    cases db with
    | nil => simp [drTcOrd] at h
    | cons c cs =>
      unfold drTcOrd at h
      split at h
      · cases h; simp
      · split at h
        · cases h; simp
        · exact ih _ _ h

theorem tcRowOrdered_errs (d : Desc) (db : List Col) (x : Err) (h : tcRowOrdered d db = .error x) :
    x ∈ [Err.drWrongColumnCount, Err.drColumnNameMismatch, Err.drColumnTypeCheckFailed] := by
  unfold tcRowOrdered at h
  split at h
  · cases h; simp
  · have := drTcOrd_errs _ _ _ _ h
    simp at this ⊢; rcases this with h | h <;> simp [h]

theorem drDeOrd_errs (sn : Bool) (fs : List Field) : ∀ items x,
    drDeOrd sn fs items = .error x → x ∈ [Err.panic, Err.drColumnDeserFailed, Err.drRawColumnFailed] := by
  induction fs with
  | nil => intro items x h; cases h
  | cons f fs ih =>
    intro items x h
    unfold drDeOrd at h
    split at h
    · split at h
      · rename_i heq; cases h; exact ih _ _ heq
      · cases h
    · split at h
      · cases h; simp
      · cases h; simp
      · split at h
        · cases h; simp
        · split at h
          · cases h; simp
          · split at h
            · rename_i heq; cases h; exact ih _ _ heq
            · cases h

/-! ### which attribute flag an error depends on (for ALL inputs) -/

theorem svLoop_noSuchField (forbid : Bool) (db : List Col) : ∀ es rem pend,
    svLoop forbid db es rem pend = .error .svNoSuchField → forbid = true := by
  induction db with
  | nil => intro es rem pend h; cases h
  | cons c cs ih =>
    intro es rem pend h
    unfold svLoop at h
    split at h
    · split at h
      · cases h
      · split at h
        · rename_i heq; cases h; exact ih _ _ _ heq
        · cases h
    · split at h
      · assumption
      · exact ih _ _ _ h

theorem serValueByName_noSuchField (d : Desc) (fvs : List (Field × Val)) (db : List Col)
    (h : serValueByName d fvs db = .error .svNoSuchField) : d.forbidExcess = true := by
  unfold serValueByName at h
  simp only [] at h
  split at h
  · rename_i heq; cases h; exact svLoop_noSuchField _ _ _ _ _ heq
  · split at h <;> cases h

theorem svOrdered_flags (sn forbid : Bool) (fs : List (Field × Val)) : ∀ db,
    (svOrdered sn forbid fs db = .error .svNoSuchField → forbid = true) ∧
    (svOrdered sn forbid fs db = .error .svFieldNameMismatch → sn = false) := by
  induction fs with
  | nil =>
    intro db
    unfold svOrdered
    constructor
    · intro h
      split at h
      · assumption
      · cases h
    · intro h
      split at h
      · split at h <;> cases h
      · cases h
  | cons p fs ih =>
    intro db
    obtain ⟨f, v⟩ := p
    cases db with
    | nil =>
      unfold svOrdered
      constructor <;> intro h <;> split at h
      · exact (ih []).1 h
      · cases h
      · exact (ih []).2 h
      · cases h
    | cons c cs =>
      unfold svOrdered
      constructor
      · intro h
        split at h
        · split at h
          · cases h
          · split at h
            · rename_i heq; cases h; exact (ih cs).1 heq
            · cases h
        · split at h
          · exact (ih (c :: cs)).1 h
          · cases h
      · intro h
        split at h
        · split at h
          · cases h
          · split at h
            · rename_i heq; cases h; exact (ih cs).2 heq
            · cases h
        · rename_i hn
          split at h
          · exact (ih (c :: cs)).2 h
          · cases sn with
            | false => rfl
            | true => simp at hn

theorem dvTcLoop_excess (forbid : Bool) (db : List Col) : ∀ es rem,
    dvTcLoop forbid db es rem = .error .dvExcessField → forbid = true := by
  induction db with
  | nil => intro es rem h; cases h
  | cons c cs ih =>
    intro es rem h
    unfold dvTcLoop at h
    split at h
    · split at h
      · cases h
      · split at h
        · cases h
        · exact ih _ _ h
    · split at h
      · assumption
      · exact ih _ _ h

theorem tcValueByName_excess (d : Desc) (db : List Col) (h : tcValueByName d db = .error .dvExcessField) :
    d.forbidExcess = true := by
  unfold tcValueByName at h
  split at h
  · rename_i heq; cases h; exact dvTcLoop_excess _ _ _ _ heq
  · split at h <;> cases h

theorem dvTcOrd_flags (sn forbid : Bool) (fs : List Field) : ∀ db,
    (dvTcOrd sn forbid fs db = .error .dvExcessField → forbid = true) ∧
    (dvTcOrd sn forbid fs db = .error .dvFieldNameMismatch → sn = false) := by
  induction fs with
  | nil =>
    intro db
    unfold dvTcOrd
    constructor
    · intro h
      split at h
      · assumption
      · cases h
    · intro h
      split at h
      · split at h <;> cases h
      · cases h
  | cons f fs ih =>
    intro db
    cases db with
    | nil =>
      unfold dvTcOrd
      constructor <;> intro h <;> split at h
      · exact (ih []).1 h
      · cases h
      · exact (ih []).2 h
      · cases h
    | cons c cs =>
      unfold dvTcOrd
      constructor
      · intro h
        split at h
        · split at h
          · exact (ih (c :: cs)).1 h
          · cases h
        · split at h
          · cases h
          · exact (ih cs).1 h
      · intro h
        split at h
        · rename_i hn
          split at h
          · exact (ih (c :: cs)).2 h
          · cases sn with
            | false => rfl
            | true => simp at hn
        · split at h
          · cases h
          · exact (ih cs).2 h

theorem srOrdered_nameMismatch (sn : Bool) (fs : List (Field × Val)) : ∀ db,
    srOrdered sn fs db = .error .srColumnNameMismatch → sn = false := by
  induction fs with
  | nil => intro db h; cases db <;> simp [srOrdered] at h
  | cons p fs ih =>
    intro db h
    obtain ⟨f, v⟩ := p
    cases db with
    | nil => simp [srOrdered] at h
    | cons c cs =>
      unfold srOrdered at h
      split at h
      · rename_i hn
        cases sn with
        | false => rfl
        | true => simp at hn
      · split at h
        · cases h
        · split at h
          · rename_i heq; cases h; exact ih _ heq
          · cases h

theorem drTcOrd_nameMismatch (sn : Bool) (fs : List Field) : ∀ db,
    drTcOrd sn fs db = .error .drColumnNameMismatch → sn = false := by
  induction fs with
  | nil => intro db h; simp [drTcOrd] at h
  | cons f fs ih =>
    intro db h
    cases db with
    | nil => simp [drTcOrd] at h
    | cons c cs =>
      unfold drTcOrd at h
      split at h
      · rename_i hn
        cases sn with
        | false => rfl
        | true => simp at hn
      · split at h
        · cases h
        · exact ih _ h

end ScyllaVerif.Derive

/-
C16 — `#[derive(SerializeRow)]`, by name, with `#[scylla(flatten)]`: the nested partial-struct machinery
(`serFieldN`, `tryFlat`, `checkMissingN`) simulates the flat interpreter on the flattened leaf list.
-/
import ScyllaVerif.Proofs.Derive

namespace ScyllaVerif.Derive

mutual
/-- the leaf entries of a partial field / field list, in declaration order (depth first) -/
def leavesP : PField → List Entry
  | .leaf f v vis => [⟨f, v, vis⟩]
  | .flat inner _ _ => leavesL inner
def leavesL : List PField → List Entry
  | [] => []
  | p :: ps => leavesP p ++ leavesL ps
end

def flagged : PField → Bool
  | .leaf _ _ vis => vis
  | .flat _ _ vis => vis

/-- number of fields of one partial whose flag is not set (= its `remaining_count`, see `invL`) -/
def unflagged (fs : List PField) : Nat := (fs.filter (fun p => !flagged p)).length

mutual
/-- invariant of the partial structs: every `remaining_count` is the number of unset flags, and a flattened
field's flag is set only when its partial is complete -/
def invP : PField → Prop
  | .leaf _ _ _ => True
  | .flat inner irem vis => invL inner ∧ irem = unflagged inner ∧ (vis = true → irem = 0)
def invL : List PField → Prop
  | [] => True
  | p :: ps => invP p ∧ invL ps
end

theorem leavesL_cons_leaf (f : Field) (v : Val) (vis : Bool) (rest : List PField) :
    leavesL (.leaf f v vis :: rest) = ⟨f, v, vis⟩ :: leavesL rest := by
  simp [leavesL, leavesP]

theorem leavesL_cons_flat (inner : List PField) (r : Nat) (vis : Bool) (rest : List PField) :
    leavesL (.flat inner r vis :: rest) = leavesL inner ++ leavesL rest := by
  simp [leavesL, leavesP]

theorem unflagged_cons (p : PField) (rest : List PField) :
    unflagged (p :: rest) = (if flagged p then 0 else 1) + unflagged rest := by
  unfold unflagged
  rw [List.filter_cons]
  cases flagged p <;> simp [Nat.add_comm]

theorem invL_cons (p : PField) (rest : List PField) : invL (p :: rest) ↔ invP p ∧ invL rest := by
  simp [invL]

/-! ### lookups in appended entry lists -/

theorem lookupE_append (n : String) (xs ys : List Entry) :
    lookupE n (xs ++ ys) = match lookupE n xs with
      | some e => some e
      | none => lookupE n ys := by
  unfold lookupE
  rw [List.find?_append]
  cases List.find? (fun e => e.f.col == n) xs <;> rfl

theorem markE_append_left (n : String) (xs ys : List Entry) (e : Entry) (h : lookupE n xs = some e) :
    markE n (xs ++ ys) = markE n xs ++ ys := by
  induction xs with
  | nil => simp [lookupE_nil] at h
  | cons a xs ih =>
    rw [lookupE_cons] at h
    unfold markE at ih ⊢
    simp only [List.cons_append, updE_cons]
    split
    · rfl
    · rename_i hne
      simp only [hne, Bool.false_eq_true, if_false] at h
      rw [ih h]
      rfl

theorem markE_append_right (n : String) (xs ys : List Entry) (h : lookupE n xs = none) :
    markE n (xs ++ ys) = xs ++ markE n ys := by
  induction xs with
  | nil => rfl
  | cons a xs ih =>
    rw [lookupE_cons] at h
    unfold markE at ih ⊢
    simp only [List.cons_append, updE_cons]
    split at h
    · cases h
    · rename_i hne
      simp only [hne, Bool.false_eq_true, if_false]
      rw [ih h]

theorem lookupE_none_of_nodup_append {n : String} {xs ys : List Entry} {e : Entry}
    (hnd : ((xs ++ ys).map (fun e => e.f.col)).Nodup) (h : lookupE n ys = some e) : lookupE n xs = none := by
  cases hx : lookupE n xs with
  | none => rfl
  | some e' =>
    exfalso
    rw [List.map_append, List.nodup_append] at hnd
    obtain ⟨h1, h1'⟩ := lookupE_some hx
    obtain ⟨h2, h2'⟩ := lookupE_some h
    exact hnd.2.2 _ (List.mem_map_of_mem h1') _ (List.mem_map_of_mem h2') (by simp [h1, h2])

/-- names of all leaves are pairwise distinct -/
def NodupLeaves (fs : List PField) : Prop := ((leavesL fs).map (fun e => e.f.col)).Nodup

theorem nodupLeaves_cons_leaf {f : Field} {v : Val} {vis : Bool} {rest : List PField}
    (h : NodupLeaves (.leaf f v vis :: rest)) : NodupLeaves rest := by
  unfold NodupLeaves at h ⊢
  rw [leavesL_cons_leaf, List.map_cons, List.nodup_cons] at h
  exact h.2

theorem nodupLeaves_cons_flat {inner : List PField} {r : Nat} {vis : Bool} {rest : List PField}
    (h : NodupLeaves (.flat inner r vis :: rest)) : NodupLeaves inner ∧ NodupLeaves rest := by
  unfold NodupLeaves at h ⊢
  rw [leavesL_cons_flat, List.map_append, List.nodup_append] at h
  exact ⟨h.1, h.2.1⟩

/-- the top-level (non-flattened) column found by the generated `match` is THE leaf of that name, and
marking it is marking that leaf -/
theorem findLeaf_some (n : String) : ∀ (fields : List PField) (f : Field) (v : Val) (vis : Bool),
    NodupLeaves fields → findLeaf n fields = some (f, v, vis) →
    lookupE n (leavesL fields) = some ⟨f, v, vis⟩ ∧
    leavesL (markLeaf n fields) = markE n (leavesL fields) ∧
    (invL fields → invL (markLeaf n fields)) ∧
    unflagged (markLeaf n fields) = decr vis (unflagged fields) ∧
    (vis = false → 1 ≤ unflagged fields)
  | [], f, v, vis, _, h => by simp [findLeaf] at h
  | .leaf f' v' vis' :: rest, f, v, vis, hnd, h => by
    unfold findLeaf at h
    rw [leavesL_cons_leaf]
    by_cases hc : f'.col = n
    · simp only [hc, beq_self_eq_true, if_true, Option.some.injEq, Prod.mk.injEq] at h
      obtain ⟨rfl, rfl, rfl⟩ := h
      refine ⟨by rw [lookupE_cons]; simp [hc], ?_, ?_, ?_, ?_⟩
      · unfold markLeaf markE
        simp [hc, updE_cons, leavesL_cons_leaf]
      · unfold markLeaf; simp only [hc, beq_self_eq_true, if_true]
        intro hi; rw [invL_cons] at hi ⊢; exact ⟨trivial, hi.2⟩
      · unfold markLeaf; simp only [hc, beq_self_eq_true, if_true]
        rw [unflagged_cons, unflagged_cons]
        cases f' with | _ => cases vis' <;> simp [flagged, decr]
      · intro hv; rw [unflagged_cons]; simp [flagged, hv]
    · have hb : (f'.col == n) = false := by simpa using hc
      simp only [hb, Bool.false_eq_true, if_false] at h
      obtain ⟨h1, h2, h3, h4, h5⟩ := findLeaf_some n rest f v vis (nodupLeaves_cons_leaf hnd) h
      refine ⟨by rw [lookupE_cons]; simp [hb, h1], ?_, ?_, ?_, ?_⟩
      · unfold markLeaf markE
        simp only [hb, Bool.false_eq_true, if_false, leavesL_cons_leaf, updE_cons]
        congr 1
      · unfold markLeaf; simp only [hb, Bool.false_eq_true, if_false]
        intro hi; rw [invL_cons] at hi ⊢; exact ⟨hi.1, h3 hi.2⟩
      · unfold markLeaf; simp only [hb, Bool.false_eq_true, if_false]
        rw [unflagged_cons, unflagged_cons, h4]
        unfold decr
        cases hvis : vis with
        | true => simp
        | false => have := h5 hvis; simp; omega
      · intro hv; rw [unflagged_cons]; have := h5 hv; omega
  | .flat inner r vis' :: rest, f, v, vis, hnd, h => by
    unfold findLeaf at h
    obtain ⟨h1, h2, h3, h4, h5⟩ := findLeaf_some n rest f v vis (nodupLeaves_cons_flat hnd).2 h
    rw [leavesL_cons_flat]
    have hnone : lookupE n (leavesL inner) = none := by
      unfold NodupLeaves at hnd
      rw [leavesL_cons_flat] at hnd
      exact lookupE_none_of_nodup_append hnd h1
    refine ⟨by rw [lookupE_append, hnone]; exact h1, ?_, ?_, ?_, ?_⟩
    · unfold markLeaf
      rw [leavesL_cons_flat, h2, markE_append_right _ _ _ hnone]
    · unfold markLeaf
      intro hi; rw [invL_cons] at hi ⊢; exact ⟨hi.1, h3 hi.2⟩
    · unfold markLeaf
      rw [unflagged_cons, unflagged_cons, h4]
      unfold decr
      cases hvis : vis with
      | true => simp
      | false => have := h5 hvis; simp; omega
    · intro hv; rw [unflagged_cons]; have := h5 hv; omega

theorem findLeaf_none_cons_leaf {n : String} {f : Field} {v : Val} {vis : Bool} {rest : List PField}
    (h : findLeaf n (.leaf f v vis :: rest) = none) : (f.col == n) = false ∧ findLeaf n rest = none := by
  unfold findLeaf at h
  by_cases hc : (f.col == n) = true
  · simp [hc] at h
  · simp only [Bool.not_eq_true] at hc
    simp only [hc, Bool.false_eq_true, if_false] at h
    exact ⟨hc, h⟩

theorem findLeaf_none_cons_flat {n : String} {inner : List PField} {r : Nat} {vis : Bool} {rest : List PField}
    (h : findLeaf n (.flat inner r vis :: rest) = none) : findLeaf n rest = none := by
  unfold findLeaf at h; exact h

/-! ### one `serialize_field` call simulates one step of the flat loop -/

/-- specification of a `serialize_field` call on a partial with the invariant -/
def StepOk (c : Col) (fields : List PField) (rem : Nat)
    (res : Except Err (Status × List Cell × List PField × Nat)) : Prop :=
  match lookupE c.name (leavesL fields) with
  | none => res = .ok (.notUsed, [], fields, rem)
  | some e =>
    match serVal e.f e.v c.ty with
    | none => res = .error .srColumnSerFailed
    | some cell => ∃ st fields' rem', res = .ok (st, [cell], fields', rem') ∧ st ≠ .notUsed ∧
        leavesL fields' = markE c.name (leavesL fields) ∧ invL fields' ∧ rem' = unflagged fields' ∧
        (st = .done ↔ rem' = 0) ∧ rem' ≤ rem

/-- specification of the `'flatten_try` block (no non-flattened column of that name) -/
def FlatOk (c : Col) (fields : List PField) (res : FlatRes) : Prop :=
  match lookupE c.name (leavesL fields) with
  | none => res = .ok (.notUsed, [], fields, false)
  | some e =>
    match serVal e.f e.v c.ty with
    | none => res = .error .srColumnSerFailed
    | some cell => ∃ st fields' dec, res = .ok (st, [cell], fields', dec) ∧ st ≠ .notUsed ∧
        leavesL fields' = markE c.name (leavesL fields) ∧ invL fields' ∧
        unflagged fields' + (if st = .done ∧ dec = true then 1 else 0) = unflagged fields ∧
        (st = .notDone → unflagged fields' ≠ 0)

theorem stepOk_of_flatOk (c : Col) (fields : List PField) (rem : Nat)
    (hnd : NodupLeaves fields) (hinv : invL fields) (hrem : rem = unflagged fields)
    (hA : findLeaf c.name fields = none → FlatOk c fields (tryFlat c fields)) :
    StepOk c fields rem (serFieldN c fields rem) := by
  unfold serFieldN serFieldWith
  cases fields with
  | nil => simp [StepOk, leavesL, lookupE_nil]
  | cons p ps =>
    simp only [List.isEmpty_cons, Bool.false_eq_true, if_false]
    cases hfl : findLeaf c.name (p :: ps) with
    | some t =>
      obtain ⟨f, v, vis⟩ := t
      obtain ⟨h1, h2, h3, h4, h5⟩ := findLeaf_some c.name (p :: ps) f v vis hnd hfl
      unfold StepOk
      rw [h1]
      simp only []
      cases hs : serVal f v c.ty with
      | none => rfl
      | some cell =>
        simp only []
        refine ⟨_, _, _, rfl, ?_, h2, h3 hinv, ?_, ?_, ?_⟩
        · split <;> simp
        · rw [h4, hrem]
        · constructor
          · intro h; split at h
            · rename_i hz; simpa using hz
            · cases h
          · intro h; simp [h]
        · unfold decr; split <;> omega
    | none =>
      have hF := hA hfl
      unfold FlatOk at hF
      unfold StepOk
      simp only []
      cases hl : lookupE c.name (leavesL (p :: ps)) with
      | none =>
        rw [hl] at hF
        simp only [] at hF ⊢
        rw [hF]
      | some e =>
        rw [hl] at hF
        simp only [] at hF ⊢
        cases hs : serVal e.f e.v c.ty with
        | none => rw [hs] at hF; simp only [] at hF ⊢; rw [hF]
        | some cell =>
          rw [hs] at hF
          simp only [] at hF ⊢
          obtain ⟨st, fields', dec, hres, hne, hleaves, hinv', hcount, hnd0⟩ := hF
          rw [hres]
          cases st with
          | notUsed => exact absurd rfl hne
          | done =>
            simp only []
            have hcount' : unflagged fields' + (if dec = true then 1 else 0) = unflagged (p :: ps) := by
              cases dec <;> simpa using hcount
            generalize hr' : (if dec = true then rem - 1 else rem) = rem'
            have hrem' : rem' = unflagged fields' := by
              subst hr'; cases dec <;> simp at hcount' ⊢ <;> omega
            have hle : rem' ≤ rem := by subst hr'; split <;> omega
            by_cases hz : rem' = 0
            · have hb : (rem' == 0) = true := by simp [hz]
              simp only [hb, if_true]
              exact ⟨_, _, _, rfl, by simp, hleaves, hinv', hrem', by simp [hz], hle⟩
            · have hb : (rem' == 0) = false := by simp [hz]
              simp only [hb, Bool.false_eq_true, if_false]
              exact ⟨_, _, _, rfl, by simp, hleaves, hinv', hrem', by simp [hz], hle⟩
          | notDone =>
            simp only []
            have hz := hnd0 rfl
            simp only [reduceCtorEq, false_and, if_false, Nat.add_zero] at hcount
            refine ⟨_, _, _, rfl, by simp, hleaves, hinv', by omega, ?_, Nat.le_refl _⟩
            constructor
            · intro h; cases h
            · intro h; omega

theorem lookupE_markE_self {n : String} {es : List Entry} {e : Entry} (h : lookupE n es = some e) :
    ∃ e', lookupE n (markE n es) = some e' := by
  rw [lookupE_markE, if_pos rfl, h]; exact ⟨_, rfl⟩

theorem flatOk_tryFlat (c : Col) : ∀ (fields : List PField),
    NodupLeaves fields → invL fields → findLeaf c.name fields = none → FlatOk c fields (tryFlat c fields)
  | [], _, _, _ => by simp [FlatOk, tryFlat, leavesL, lookupE_nil]
  | .leaf f v vis :: rest, hnd, hinv, hfl => by
    obtain ⟨hb, hfl'⟩ := findLeaf_none_cons_leaf hfl
    have hR := flatOk_tryFlat c rest (nodupLeaves_cons_leaf hnd) ((invL_cons _ _).mp hinv).2 hfl'
    unfold FlatOk at hR ⊢
    rw [leavesL_cons_leaf, lookupE_cons]
    simp only [hb, Bool.false_eq_true, if_false]
    unfold tryFlat tryField
    simp only []
    cases hl : lookupE c.name (leavesL rest) with
    | none =>
      rw [hl] at hR; simp only [] at hR ⊢
      rw [hR]
    | some e =>
      rw [hl] at hR; simp only [] at hR ⊢
      cases hs : serVal e.f e.v c.ty with
      | none => rw [hs] at hR; simp only [] at hR ⊢; rw [hR]
      | some cell =>
        rw [hs] at hR; simp only [] at hR ⊢
        obtain ⟨st, fields', dec, hres, hne, hleaves, hinv', hcount, hnz⟩ := hR
        rw [hres]
        refine ⟨st, .leaf f v vis :: fields', dec, rfl, hne, ?_, ?_, ?_, ?_⟩
        · rw [leavesL_cons_leaf, hleaves]
          unfold markE
          rw [updE_cons]
          simp [hb]
        · rw [invL_cons]; exact ⟨trivial, hinv'⟩
        · rw [unflagged_cons, unflagged_cons]; omega
        · intro h; rw [unflagged_cons]; have := hnz h; omega
  | .flat inner irem vis :: rest, hnd, hinv, hfl => by
    have hfl' := findLeaf_none_cons_flat hfl
    obtain ⟨hndI, hndR⟩ := nodupLeaves_cons_flat hnd
    obtain ⟨hinvP, hinvR⟩ := (invL_cons _ _).mp hinv
    unfold invP at hinvP
    obtain ⟨hinvI, hirem, hvis⟩ := hinvP
    have hR := flatOk_tryFlat c rest hndR hinvR hfl'
    have hB := stepOk_of_flatOk c inner irem hndI hinvI hirem
      (fun h => flatOk_tryFlat c inner hndI hinvI h)
    unfold FlatOk at hR ⊢
    unfold StepOk at hB
    rw [leavesL_cons_flat, lookupE_append]
    unfold tryFlat tryField
    rw [show serFieldWith c inner irem (tryFlat c inner) = serFieldN c inner irem from rfl]
    cases hli : lookupE c.name (leavesL inner) with
    | none =>
      rw [hli] at hB
      simp only [] at hB ⊢
      rw [hB]
      simp only []
      cases hl : lookupE c.name (leavesL rest) with
      | none =>
        rw [hl] at hR; simp only [] at hR ⊢
        rw [hR]
      | some e =>
        rw [hl] at hR; simp only [] at hR ⊢
        cases hs : serVal e.f e.v c.ty with
        | none => rw [hs] at hR; simp only [] at hR ⊢; rw [hR]
        | some cell =>
          rw [hs] at hR; simp only [] at hR ⊢
          obtain ⟨st, fields', dec, hres, hne, hleaves, hinv', hcount, hnz⟩ := hR
          rw [hres]
          refine ⟨st, .flat inner irem vis :: fields', dec, rfl, hne, ?_, ?_, ?_, ?_⟩
          · rw [leavesL_cons_flat, hleaves, markE_append_right _ _ _ hli]
          · rw [invL_cons]; exact ⟨by unfold invP; exact ⟨hinvI, hirem, hvis⟩, hinv'⟩
          · rw [unflagged_cons, unflagged_cons]; omega
          · intro h; rw [unflagged_cons]; have := hnz h; omega
    | some e =>
      rw [hli] at hB
      simp only [] at hB ⊢
      cases hs : serVal e.f e.v c.ty with
      | none => rw [hs] at hB; simp only [] at hB ⊢; rw [hB]
      | some cell =>
        rw [hs] at hB; simp only [] at hB ⊢
        obtain ⟨st, inner', irem', hres, hne, hleaves, hinv', hrem', hdone, hle⟩ := hB
        rw [hres]
        have hleavesAll : ∀ vis', leavesL (.flat inner' irem' vis' :: rest) =
            markE c.name (leavesL inner ++ leavesL rest) := by
          intro vis'
          rw [leavesL_cons_flat, hleaves, markE_append_left _ _ _ e hli]
        cases st with
        | notUsed => exact absurd rfl hne
        | done =>
          simp only []
          have hz : irem' = 0 := hdone.mp rfl
          refine ⟨.done, _, !vis, rfl, by simp, hleavesAll true, ?_, ?_, by simp⟩
          · rw [invL_cons]
            exact ⟨by unfold invP; exact ⟨hinv', hrem', fun _ => hz⟩, hinvR⟩
          · rw [unflagged_cons, unflagged_cons]
            cases vis <;> simp [flagged] <;> omega
        | notDone =>
          simp only []
          have hnz : irem' ≠ 0 := fun h => by have := hdone.mpr h; cases this
          have hvf : vis = false := by
            cases hv : vis with
            | false => rfl
            | true => have := hvis hv; omega
          refine ⟨.notDone, _, false, rfl, by simp, hleavesAll vis, ?_, ?_, ?_⟩
          · rw [invL_cons]
            exact ⟨by unfold invP; exact ⟨hinv', hrem', fun h => by rw [hvf] at h; cases h⟩, hinvR⟩
          · rw [unflagged_cons, unflagged_cons]; simp only [flagged, reduceCtorEq, false_and, if_false, Nat.add_zero]; rfl
          · intro _; rw [unflagged_cons]; simp [flagged, hvf]

theorem stepOk (c : Col) (fields : List PField) (rem : Nat)
    (hnd : NodupLeaves fields) (hinv : invL fields) (hrem : rem = unflagged fields) :
    StepOk c fields rem (serFieldN c fields rem) :=
  stepOk_of_flatOk c fields rem hnd hinv hrem (fun h => flatOk_tryFlat c fields hnd hinv h)

/-! ### the `ByName::serialize` loop -/

theorem loopN_sim (db : List Col) : ∀ (fields : List PField) (rem r0 : Nat),
    NodupLeaves fields → invL fields → rem = unflagged fields → r0 = unv allTrue (leavesL fields) →
    match srLoop db (leavesL fields) r0 with
    | .error x => serRowByNameLoopN db fields rem = .error x
    | .ok (cells, es', r') => ∃ fields' rem', serRowByNameLoopN db fields rem = .ok (cells, fields', rem') ∧
        leavesL fields' = es' ∧ invL fields' ∧ rem' = unflagged fields' ∧ r' = unv allTrue es' := by
  induction db with
  | nil =>
    intro fields rem r0 _ hinv hrem hr0
    simp only [srLoop, serRowByNameLoopN]
    exact ⟨fields, rem, rfl, rfl, hinv, hrem, hr0⟩
  | cons c cs ih =>
    intro fields rem r0 hnd hinv hrem hr0
    have hS := stepOk c fields rem hnd hinv hrem
    unfold StepOk at hS
    unfold srLoop serRowByNameLoopN
    cases hl : lookupE c.name (leavesL fields) with
    | none =>
      rw [hl] at hS; simp only [] at hS ⊢
      rw [hS]
    | some e =>
      rw [hl] at hS; simp only [] at hS ⊢
      cases hs : serVal e.f e.v c.ty with
      | none => rw [hs] at hS; simp only [] at hS ⊢; rw [hS]
      | some cell =>
        rw [hs] at hS; simp only [] at hS ⊢
        obtain ⟨st, fields', rem', hres, hne, hleaves, hinv', hrem', _, _⟩ := hS
        rw [hres]
        have hnd' : NodupLeaves fields' := by
          unfold NodupLeaves at hnd ⊢
          rw [hleaves, markE_cols]; exact hnd
        have hr0' : decr e.visited r0 = unv allTrue (leavesL fields') := by
          rw [hleaves, unv_markE, hl, hr0]
          simp only [decr, allTrue, Bool.and_true]
          cases e.visited <;> simp
        have hI := ih fields' rem' (decr e.visited r0) hnd' hinv' hrem' hr0'
        rw [hleaves] at hI
        cases hrec : srLoop cs (markE c.name (leavesL fields)) (decr e.visited r0) with
        | error x =>
          rw [hrec] at hI; simp only [] at hI ⊢
          cases st with
          | notUsed => exact absurd rfl hne
          | done => simp only [hI]
          | notDone => simp only [hI]
        | ok r =>
          obtain ⟨cells, es', r'⟩ := r
          rw [hrec] at hI; simp only [] at hI ⊢
          obtain ⟨fields'', rem'', hloop, h1, h2, h3, h4⟩ := hI
          cases st with
          | notUsed => exact absurd rfl hne
          | done => simp only [hloop]; exact ⟨fields'', rem'', rfl, h1, h2, h3, h4⟩
          | notDone => simp only [hloop]; exact ⟨fields'', rem'', rfl, h1, h2, h3, h4⟩

/-! ### `check_missing` -/

theorem any_unvisited_of_unflagged_zero : ∀ (fields : List PField), invL fields → unflagged fields = 0 →
    (leavesL fields).any (fun e => !e.visited) = false
  | [], _, _ => rfl
  | .leaf f v vis :: rest, hinv, hz => by
    rw [unflagged_cons] at hz
    have hv : vis = true := by cases vis <;> simp [flagged] at hz ⊢
    have hz' : unflagged rest = 0 := by omega
    rw [leavesL_cons_leaf, List.any_cons,
      any_unvisited_of_unflagged_zero rest ((invL_cons _ _).mp hinv).2 hz']
    simp [hv]
  | .flat inner irem vis :: rest, hinv, hz => by
    rw [unflagged_cons] at hz
    have hv : vis = true := by cases vis <;> simp [flagged] at hz ⊢
    have hz' : unflagged rest = 0 := by omega
    obtain ⟨hp, hr⟩ := (invL_cons _ _).mp hinv
    unfold invP at hp
    obtain ⟨hi, hirem, hvis⟩ := hp
    have hzi : unflagged inner = 0 := by rw [← hirem]; exact hvis hv
    rw [leavesL_cons_flat, List.any_append, any_unvisited_of_unflagged_zero inner hi hzi,
      any_unvisited_of_unflagged_zero rest hr hz']
    rfl

theorem any_of_anyLeafUnvisited : ∀ (fields : List PField), anyLeafUnvisited fields = true →
    (leavesL fields).any (fun e => !e.visited) = true
  | [], h => by simp [anyLeafUnvisited] at h
  | .leaf f v vis :: rest, h => by
    unfold anyLeafUnvisited at h
    rw [leavesL_cons_leaf, List.any_cons]
    simp only [Bool.or_eq_true] at h ⊢
    rcases h with h | h
    · exact Or.inl h
    · exact Or.inr (any_of_anyLeafUnvisited rest h)
  | .flat inner irem vis :: rest, h => by
    unfold anyLeafUnvisited at h
    rw [leavesL_cons_flat, List.any_append, any_of_anyLeafUnvisited rest h]
    simp

theorem checkFlat_spec : ∀ (fields : List PField), invL fields → anyLeafUnvisited fields = false →
    checkFlat fields =
      if (leavesL fields).any (fun e => !e.visited) then .error .srNoColumnWithName else .ok ()
  | [], _, _ => rfl
  | .leaf f v vis :: rest, hinv, h => by
    unfold anyLeafUnvisited at h
    simp only [Bool.or_eq_false_iff, Bool.not_eq_false'] at h
    unfold checkFlat checkField
    simp only []
    rw [checkFlat_spec rest ((invL_cons _ _).mp hinv).2 h.2, leavesL_cons_leaf, List.any_cons]
    simp [h.1]
  | .flat inner irem vis :: rest, hinv, h => by
    unfold anyLeafUnvisited at h
    obtain ⟨hp, hr⟩ := (invL_cons _ _).mp hinv
    unfold invP at hp
    obtain ⟨hi, hirem, hvis⟩ := hp
    have hrest := checkFlat_spec rest hr h
    unfold checkFlat checkField
    rw [leavesL_cons_flat, List.any_append]
    by_cases hv : vis = true
    · have hzi : unflagged inner = 0 := by rw [← hirem]; exact hvis hv
      simp only [hv, if_true, hrest, any_unvisited_of_unflagged_zero inner hi hzi, Bool.false_or]
    · simp only [hv, Bool.false_eq_true, if_false]
      by_cases hz : irem = 0
      · have hzi : unflagged inner = 0 := by rw [← hirem]; exact hz
        simp only [hz, beq_self_eq_true, if_true, hrest, any_unvisited_of_unflagged_zero inner hi hzi,
          Bool.false_or]
      · have hb : (irem == 0) = false := by simpa using hz
        simp only [hb, Bool.false_eq_true, if_false]
        by_cases ha : anyLeafUnvisited inner = true
        · simp only [ha, if_true, any_of_anyLeafUnvisited inner ha, Bool.true_or]
        · simp only [Bool.not_eq_true] at ha
          simp only [ha, Bool.false_eq_true, if_false, checkFlat_spec inner hi ha]
          cases (leavesL inner).any (fun e => !e.visited) with
          | true => simp
          | false => simp [hrest]

theorem checkMissingN_spec (fields : List PField) (rem : Nat) (hinv : invL fields) (hrem : rem = unflagged fields) :
    checkMissingN fields rem = srCheckMissing (leavesL fields) (unv allTrue (leavesL fields)) := by
  have hflat : srCheckMissing (leavesL fields) (unv allTrue (leavesL fields)) =
      if (leavesL fields).any (fun e => !e.visited) then .error .srNoColumnWithName else .ok () := by
    unfold srCheckMissing
    cases hany : (leavesL fields).any (fun e => !e.visited) with
    | true =>
      have : 0 < unv allTrue (leavesL fields) := (unv_pos_iff allTrue _).mpr (by simpa [allTrue] using hany)
      have hb : (unv allTrue (leavesL fields) == 0) = false := by simp; omega
      simp [hb]
    | false =>
      have : ¬ 0 < unv allTrue (leavesL fields) := by
        rw [unv_pos_iff]; simpa [allTrue] using hany
      have hb : (unv allTrue (leavesL fields) == 0) = true := by simp; omega
      simp [hb]
  rw [hflat]
  unfold checkMissingN
  by_cases hz : rem = 0
  · simp only [hz, beq_self_eq_true, if_true]
    rw [any_unvisited_of_unflagged_zero fields hinv (by omega)]
    rfl
  · have hb : (rem == 0) = false := by simpa using hz
    simp only [hb, Bool.false_eq_true, if_false]
    by_cases ha : anyLeafUnvisited fields = true
    · simp [ha, any_of_anyLeafUnvisited fields ha]
    · simp only [Bool.not_eq_true] at ha
      simp only [ha, Bool.false_eq_true, if_false]
      exact checkFlat_spec fields hinv ha

end ScyllaVerif.Derive

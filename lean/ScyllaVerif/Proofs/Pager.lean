/-
Invariants of the pager transition system (`Model/Pager.lean`) and their preservation by every step.
Used by `Props/C07.lean`.
-/
import ScyllaVerif.Model.Pager

set_option linter.unusedSimpArgs false

namespace ScyllaVerif.Pager

/-! ### list facts about the page script -/

theorem headD_drop (pages : List Page) (k : Nat) :
    (pages.drop k).headD ([], none) = pageAt pages k := by
  induction pages generalizing k with
  | nil => simp [pageAt]
  | cons p t ih => cases k <;> simp [pageAt]

theorem stateBefore_succ (pages : List Page) (k : Nat) :
    stateBefore pages (k+1) = (pageAt pages k).2 := rfl
theorem stateBefore_zero (pages : List Page) : stateBefore pages 0 = none := rfl

def LogOk (pages : List Page) (log : List (Nat × Option PState)) (k : Nat) : Prop :=
  ∀ e ∈ log, e.2 = stateBefore pages e.1 ∧ e.1 ≤ k

theorem logOk_append {pages log k st k'} (h : LogOk pages log k) (hst : st = stateBefore pages k)
    (hk : k ≤ k') : LogOk pages (log ++ [(k, st)]) k' := by
  intro e he
  simp only [List.mem_append, List.mem_singleton] at he
  rcases he with he | he
  · have := h e he; exact ⟨this.1, by omega⟩
  · subst he; exact ⟨hst, hk⟩

structure PInvA (pages : List Page) (s : St) : Prop where
  todo_eq : s.todo = pages.drop s.served
  log_ok : LogOk pages s.log s.served
  pc_first : s.pc = .first → s.served = 0
  pc_fetch : ∀ st, s.pc = .fetch st → st = stateBefore pages s.served
  pc_send : ∀ it st, s.pc = .send it (some st) → some st = stateBefore pages s.served
  pc_err : ∀ e nx, s.pc = .send (.err e) nx → nx = none

theorem pinvA_prod {pages : List Page} {s : St} (h : PInvA pages s) : PInvA pages (stepProd s) := by
  obtain ⟨h1, h4, h5, h6, h7, h8⟩ := h
  have hhd : s.todo.headD ([], none) = pageAt pages s.served := by rw [h1, headD_drop]
  have htl : s.todo.tail = pages.drop (s.served + 1) := by rw [h1]; simp
  have hsb := stateBefore_succ pages s.served
  unfold stepProd
  split
  next hpc =>
    have hs0 := h5 hpc
    have hlog : ∀ k', s.served ≤ k' → LogOk pages (s.log ++ [(s.served, none)]) k' :=
      fun k' hk => logOk_append h4 (by rw [hs0]; rfl) hk
    split
    · exact ⟨h1, hlog _ (Nat.le_refl _), h5, h6, h7, h8⟩
    · exact ⟨h1, hlog _ (Nat.le_refl _), by simp, by simp, by simp, by simp⟩
    · exact ⟨h1, hlog _ (Nat.le_refl _), by simp, by simp, by simp, by simp⟩
    · refine ⟨htl, hlog _ (Nat.le_succ _), ?_, ?_, ?_, ?_⟩
      all_goals (simp only [hhd]; cases hp : (pageAt pages s.served).2 <;> simp [pcAfter, hsb, hp])
  next st hpc =>
    have hst := h6 st hpc
    have hlog : ∀ k', s.served ≤ k' → LogOk pages (s.log ++ [(s.served, st)]) k' :=
      fun k' hk => logOk_append h4 hst hk
    split
    · exact ⟨h1, hlog _ (Nat.le_refl _), h5, h6, h7, h8⟩
    · exact ⟨h1, hlog _ (Nat.le_refl _), by simp, by simp, by simp, by simp⟩
    · exact ⟨h1, hlog _ (Nat.le_refl _), by simp, by simp, by simp, by simp⟩
    · refine ⟨htl, hlog _ (Nat.le_succ _), by simp, by simp, ?_, by simp⟩
      intro it st' heq
      simp only [PC.send.injEq] at heq
      rw [hsb, ← hhd, heq.2]
  next it nx hpc =>
    split
    · exact ⟨h1, h4, by simp, by simp, by simp, by simp⟩
    · split
      · exact ⟨h1, h4, h5, h6, h7, h8⟩
      · refine ⟨h1, h4, ?_, ?_, ?_, ?_⟩
        all_goals (cases nx <;> simp [pcAfter])
        exact (h7 it _ hpc)
  next => exact ⟨h1, h4, h5, h6, h7, h8⟩

theorem pinvA_poll {pages : List Page} {s : St} (h : PInvA pages s) : PInvA pages (stepPoll s) := by
  obtain ⟨h1, h4, h5, h6, h7, h8⟩ := h
  unfold stepPoll
  repeat' split
  all_goals exact ⟨h1, h4, h5, h6, h7, h8⟩

theorem pinvA_drop {pages : List Page} {s : St} (h : PInvA pages s) : PInvA pages (stepDrop s) := by
  obtain ⟨h1, h4, h5, h6, h7, h8⟩ := h
  unfold stepDrop
  split
  all_goals exact ⟨h1, h4, h5, h6, h7, h8⟩

theorem pinvA_init (pages : List Page) (faults : List Attempt) : PInvA pages (init pages faults) := by
  constructor <;> simp [init, LogOk]

/-! ### row accounting of the producer -/

theorem rowsBefore_succ (pages : List Page) (k : Nat) :
    rowsBefore pages (k + 1) = rowsBefore pages k ++ (pageAt pages k).1 := by
  unfold rowsBefore pageAt
  rw [List.take_add_one]
  cases h : pages[k]? <;> simp

theorem rowsBefore_zero (pages : List Page) : rowsBefore pages 0 = [] := by simp [rowsBefore]

theorem servedRows_eq (todo : List Page) :
    servedRows todo = (todo.headD ([], none)).1 ++
      (match (todo.headD ([], none)).2 with | some _ => servedRows todo.tail | none => []) := by
  match todo with
  | [] => simp [servedRows]
  | (r, none) :: t => simp [servedRows]
  | (r, some st) :: t => simp [servedRows]

/-- The producer will send further page requests. -/
def continuing : PC → Bool
  | .first => true
  | .fetch _ => true
  | .send _ (some _) => true
  | _ => false

def future (s : St) : List Row := if continuing s.pc then servedRows s.todo else []

structure PInvB (pages : List Page) (s : St) : Prop where
  total : rowsBefore pages s.served ++ future s ++ s.lost = servedRows pages
  lost_nil : continuing s.pc = true → s.lost = []

theorem pinvB_init (pages : List Page) (faults : List Attempt) : PInvB pages (init pages faults) := by
  constructor <;> simp [init, future, continuing, rowsBefore_zero]

theorem pinvB_prod {pages : List Page} {s : St} (hA : PInvA pages s) (h : PInvB pages s) :
    PInvB pages (stepProd s) := by
  obtain ⟨h2, h3⟩ := h
  have h1 := hA.todo_eq
  have hhd : s.todo.headD ([], none) = pageAt pages s.served := by rw [h1, headD_drop]
  have hfut := servedRows_eq s.todo
  rw [hhd] at hfut
  have hrs := rowsBefore_succ pages s.served
  unfold stepProd
  split
  next hpc =>
    have hl := h3 (by simp [hpc, continuing])
    simp only [future, hpc, continuing, if_true, hl, List.append_nil] at h2
    split
    · exact ⟨by simpa [future, hpc, continuing, hl] using h2, fun _ => hl⟩
    · exact ⟨by simpa [future, continuing] using h2, by simp [continuing]⟩
    · exact ⟨by simpa [future, continuing] using h2, by simp [continuing]⟩
    · constructor
      · simp only [future, hhd, hrs, hl, List.append_nil]
        rw [← h2, hfut]
        cases hp : (pageAt pages s.served).2 <;> simp [pcAfter, continuing]
      · intro _; exact hl
  next st hpc =>
    have hl := h3 (by simp [hpc, continuing])
    simp only [future, hpc, continuing, if_true, hl, List.append_nil] at h2
    split
    · exact ⟨by simpa [future, hpc, continuing, hl] using h2, fun _ => hl⟩
    · exact ⟨by simpa [future, continuing] using h2, by simp [continuing]⟩
    · exact ⟨by simpa [future, continuing] using h2, by simp [continuing]⟩
    · constructor
      · simp only [future, hhd, hrs, hl, List.append_nil]
        rw [← h2, hfut]
        cases hp : (pageAt pages s.served).2 <;> simp [continuing]
      · intro _; exact hl
  next it nx hpc =>
    split
    · cases nx with
      | none => exact ⟨by simpa [future, hpc, continuing] using h2, by simp [continuing]⟩
      | some st =>
        have hl := h3 (by simp [hpc, continuing])
        exact ⟨by simpa [future, hpc, continuing, hl] using h2, by simp [continuing]⟩
    · split
      · exact ⟨h2, h3⟩
      · cases nx with
        | none => exact ⟨by simpa [future, hpc, continuing, pcAfter] using h2, by simp [pcAfter, continuing]⟩
        | some st =>
          exact ⟨by simpa [future, hpc, continuing, pcAfter] using h2,
                 fun _ => h3 (by simp [hpc, continuing])⟩
  next => exact ⟨h2, h3⟩

theorem pinvB_poll {pages : List Page} {s : St} (h : PInvB pages s) : PInvB pages (stepPoll s) := by
  obtain ⟨h2, h3⟩ := h
  unfold stepPoll
  repeat' split
  all_goals exact ⟨h2, h3⟩

theorem pinvB_drop {pages : List Page} {s : St} (h : PInvB pages s) : PInvB pages (stepDrop s) := by
  obtain ⟨h2, h3⟩ := h
  unfold stepDrop
  split
  all_goals exact ⟨h2, h3⟩

/-! ### what the producer and the channel hold; consumer invariant -/

def chanRows (x : Option Item) : List Row :=
  match x with
  | some (.page r) => r
  | _ => []

def pcRows (x : PC) : List Row :=
  match x with
  | .send (.page r) _ => r
  | _ => []

def chanErr (x : Option Item) : Bool :=
  match x with
  | some (.err _) => true
  | _ => false

def pcErr (x : PC) : Bool :=
  match x with
  | .send (.err _) _ => true
  | _ => false

def chanPages (x : Option Item) : Nat :=
  match x with
  | some (.page _) => 1
  | _ => 0

def pcPages (x : PC) : Nat :=
  match x with
  | .send (.page _) _ => 1
  | _ => 0

structure CInv (pages : List Page) (s : St) : Prop where
  rows : s.rx ≠ .dropped → s.delivered ++ s.cur ++ chanRows s.chan ++ pcRows s.pc = rowsBefore pages s.served
  pre : s.delivered <+: servedRows pages
  unbuilt : s.rx = .unbuilt → (s.pc = .first ∨ s.pc = .done) ∧ s.delivered = [] ∧ s.cur = [] ∧ s.chan = none
    ∧ s.errs = [] ∧ s.ended = false ∧ s.taken = 0 ∧ s.served = 0
  first_unbuilt : s.pc = .first → s.rx = .unbuilt
  ctor : s.ctorErr.isSome = true → s.rx = .unbuilt ∧ s.pc = .done
  ended_q : s.ended = true → s.pc = .done ∧ s.chan = none ∧ s.cur = []
  errs_q : s.errs ≠ [] → s.pc = .done ∧ s.chan = none ∧ s.cur = []
  chan_err : chanErr s.chan = true → s.pc = .done
  taken_eq : s.rx ≠ .dropped → s.served = s.taken + chanPages s.chan + pcPages s.pc
  lost_why : s.lost ≠ [] → s.ignored = true ∨ s.ctorErr.isSome = true ∨ s.errs ≠ [] ∨ chanErr s.chan = true
    ∨ pcErr s.pc = true ∨ s.rx = .dropped
  dropped_q : s.rx = .dropped → s.chan = none

theorem cinv_init (pages : List Page) (faults : List Attempt) : CInv pages (init pages faults) := by
  constructor <;> simp [init, chanRows, pcRows, chanErr, pcErr, chanPages, pcPages, rowsBefore_zero]

theorem prefix_of_total {R rb fut lost d x : List Row} (htot : rb ++ fut ++ lost = R) (h : d ++ x = rb) :
    d <+: R := by
  refine ⟨x ++ fut ++ lost, ?_⟩
  rw [← htot, ← h]
  simp [List.append_assoc]

theorem cinv_poll {pages : List Page} {s : St} (hB : PInvB pages s) (h : CInv pages s) :
    CInv pages (stepPoll s) := by
  obtain ⟨c1, c2, c3, c4, c5, c6, c7, c8, c9, c10, c11⟩ := h
  unfold stepPoll
  split
  next hrx =>
    have c1 := c1 (by simp [hrx])
    have c9 := c9 (by simp [hrx])
    have hnd : s.rx ≠ .dropped := by simp [hrx]
    split
    next r rest hcur =>
      have hnew : (s.delivered ++ [r]) ++ (rest ++ chanRows s.chan ++ pcRows s.pc) = rowsBefore pages s.served := by
        rw [← c1, hcur]; simp
      refine ⟨fun _ => by simpa [List.append_assoc] using hnew, prefix_of_total hB.total hnew, by simp [hrx],
        c4, c5, ?_, ?_, c8, fun _ => c9, c10, c11⟩
      · intro he; have := c6 he; simp_all
      · intro he; have := c7 he; simp_all
    next hcur =>
      split
      next hch =>
        simp only [hcur, chanRows, hch, chanPages, List.append_nil] at c1 c9
        refine ⟨fun _ => by simpa [chanRows, hcur] using c1, c2, by simp [hrx], c4, c5, ?_, ?_, by simp [chanErr],
          fun _ => by simp [chanPages]; omega, ?_, by simp⟩
        · intro he; have := c6 he; simp_all
        · intro he; have := c7 he; simp_all
        · intro hl; have := c10 hl; simp_all [chanErr]
      next r rest hch =>
        simp only [hcur, chanRows, hch, chanPages, List.append_nil] at c1 c9
        have hnew : (s.delivered ++ [r]) ++ (rest ++ pcRows s.pc) = rowsBefore pages s.served := by
          rw [← c1]; simp
        refine ⟨fun _ => by simpa [chanRows, List.append_assoc] using hnew, prefix_of_total hB.total hnew,
          by simp [hrx], c4, c5, ?_, ?_, by simp [chanErr], fun _ => by simp [chanPages]; omega, ?_, by simp⟩
        · intro he; have := c6 he; simp_all
        · intro he; have := c7 he; simp_all
        · intro hl; have := c10 hl; simp_all [chanErr]
      next e hch =>
        have hpc := c8 (by simp [chanErr, hch])
        simp only [hcur, chanRows, hch, chanPages, List.append_nil] at c1 c9
        refine ⟨fun _ => by simpa [chanRows, hcur] using c1, c2, by simp [hrx], c4, c5, ?_, ?_, by simp [chanErr],
          fun _ => by simpa [chanPages] using c9, ?_, by simp⟩
        · intro he; have := c6 he; simp_all
        · intro _; exact ⟨hpc, rfl, hcur⟩
        · intro hl; simp
      next hch =>
        split
        next hpc =>
          refine ⟨fun _ => c1, c2, by simp [hrx], c4, c5, fun _ => ⟨hpc, hch, hcur⟩, c7, c8, fun _ => c9, c10, c11⟩
        next => exact ⟨fun _ => c1, c2, c3, c4, c5, c6, c7, c8, fun _ => c9, c10, c11⟩
  next => exact ⟨c1, c2, c3, c4, c5, c6, c7, c8, c9, c10, c11⟩

theorem cinv_drop {pages : List Page} {s : St} (h : CInv pages s) : CInv pages (stepDrop s) := by
  obtain ⟨c1, c2, c3, c4, c5, c6, c7, c8, c9, c10, c11⟩ := h
  unfold stepDrop
  split
  next hrx =>
    refine ⟨by simp, c2, by simp, ?_, ?_, ?_, ?_, by simp [chanErr], by simp, by simp, by simp⟩
    · intro h; have := c4 h; simp_all
    · intro h; have := c5 h; simp_all
    · intro h; have := c6 h; simp_all
    · intro h; have := c7 h; simp_all
  next => exact ⟨c1, c2, c3, c4, c5, c6, c7, c8, c9, c10, c11⟩

@[simp] theorem pcRows_pcAfter (nx : Option PState) : pcRows (pcAfter nx) = [] := by
  cases nx <;> rfl
@[simp] theorem pcPages_pcAfter (nx : Option PState) : pcPages (pcAfter nx) = 0 := by
  cases nx <;> rfl
@[simp] theorem pcErr_pcAfter (nx : Option PState) : pcErr (pcAfter nx) = false := by
  cases nx <;> rfl
@[simp] theorem pcAfter_ne_first (nx : Option PState) : pcAfter nx ≠ .first := by
  cases nx <;> simp [pcAfter]

theorem cinv_prod {pages : List Page} {s : St} (hA : PInvA pages s) (hB : PInvB pages s) (h : CInv pages s) :
    CInv pages (stepProd s) := by
  obtain ⟨c1, c2, c3, c4, c5, c6, c7, c8, c9, c10, c11⟩ := h
  have hhd : s.todo.headD ([], none) = pageAt pages s.served := by rw [hA.todo_eq, headD_drop]
  have hrs := rowsBefore_succ pages s.served
  have hhd' : s.todo.head?.getD ([], none) = pageAt pages s.served := by simpa using hhd
  unfold stepProd
  split
  next hpc =>
    have hrx := c4 hpc
    obtain ⟨-, u1, u2, u3, u4, u5, u6, u7⟩ := c3 hrx
    have hl := hB.lost_nil (by simp [hpc, continuing])
    have hc : s.ctorErr = none := by
      cases hce : s.ctorErr with
      | none => rfl
      | some e => have := (c5 (by simp [hce])).2; simp [hpc] at this
    split
    · exact ⟨c1, c2, c3, c4, c5, c6, c7, c8, c9, c10, c11⟩
    · refine ⟨?_, c2, ?_, ?_, ?_, ?_, ?_, ?_, ?_, ?_, ?_⟩ <;>
        simp [hrx, u1, u2, u3, u4, u5, u6, u7, chanRows, pcRows, chanErr, chanPages, pcPages, rowsBefore_zero]
    · refine ⟨?_, c2, ?_, ?_, ?_, ?_, ?_, ?_, ?_, ?_, ?_⟩ <;>
        simp [hc, u1, u2, u3, u4, u5, u6, u7, chanRows, pcRows, chanErr, chanPages, pcPages, rowsBefore_zero]
    · have hhd0 : s.todo.head?.getD ([], none) = pageAt pages 0 := by simpa [u7] using hhd
      have hrs0 : rowsBefore pages 1 = (pageAt pages 0).1 := by simpa [u7, rowsBefore_zero] using hrs
      refine ⟨?_, c2, ?_, ?_, ?_, ?_, ?_, ?_, ?_, ?_, ?_⟩ <;>
        simp [hc, hl, hhd0, hrs0, u1, u2, u3, u4, u5, u6, u7, chanRows, chanErr, chanPages, rowsBefore_zero]
  next st hpc =>
    have hnu : s.rx ≠ .unbuilt := by
      intro h; have := (c3 h).1; simp [hpc] at this
    have hne : s.ended = false := by
      cases he : s.ended with
      | false => rfl
      | true => have := (c6 he).1; simp [hpc] at this
    have her : s.errs = [] := by
      cases he : s.errs with
      | nil => rfl
      | cons a b => have := (c7 (by simp [he])).1; simp [hpc] at this
    have hce : chanErr s.chan = false := by
      cases he : chanErr s.chan with
      | false => rfl
      | true => have := c8 he; simp [hpc] at this
    have hc : s.ctorErr = none := by
      cases hce : s.ctorErr with
      | none => rfl
      | some e => have := (c5 (by simp [hce])).2; simp [hpc] at this
    simp only [hpc, pcRows, pcPages, List.append_nil, Nat.add_zero] at c1 c9
    split
    · exact ⟨by simpa [hpc, pcRows] using c1, c2, c3, c4, c5, c6, c7, c8, by simpa [hpc, pcPages] using c9, c10, c11⟩
    · refine ⟨?_, c2, ?_, ?_, ?_, ?_, ?_, ?_, ?_, ?_, c11⟩ <;>
        simp [hnu, hne, her, hce, hc, pcRows, pcPages, pcErr]
      · simpa [List.append_assoc] using c1
      · exact c9
    · refine ⟨?_, c2, ?_, ?_, ?_, ?_, ?_, ?_, ?_, ?_, c11⟩ <;>
        simp [hnu, hne, her, hce, hc, pcRows, pcPages, pcErr]
      · simpa [List.append_assoc] using c1
      · exact c9
    · refine ⟨?_, c2, ?_, ?_, ?_, ?_, ?_, ?_, ?_, ?_, c11⟩ <;>
        simp [hnu, hne, her, hce, hc, pcRows, pcPages, pcErr, hhd', hrs]
      · intro h; rw [← c1 h]; simp
      · intro h; rw [c9 h]
      · intro hl; have := hB.lost_nil (by simp [hpc, continuing]); exact absurd this hl
  next it nx hpc =>
    have hnu : s.rx ≠ .unbuilt := by
      intro h; have := (c3 h).1; simp [hpc] at this
    have hne : s.ended = false := by
      cases he : s.ended with
      | false => rfl
      | true => have := (c6 he).1; simp [hpc] at this
    have her : s.errs = [] := by
      cases he : s.errs with
      | nil => rfl
      | cons a b => have := (c7 (by simp [he])).1; simp [hpc] at this
    have hce : chanErr s.chan = false := by
      cases he : chanErr s.chan with
      | false => rfl
      | true => have := c8 he; simp [hpc] at this
    have hc : s.ctorErr = none := by
      cases hce : s.ctorErr with
      | none => rfl
      | some e => have := (c5 (by simp [hce])).2; simp [hpc] at this
    split
    next hrx =>
      refine ⟨?_, c2, ?_, ?_, ?_, ?_, ?_, ?_, ?_, ?_, c11⟩ <;>
        simp [hrx, hne, her, hce, hc, pcRows, pcPages, pcErr]
    next hrx =>
      split
      · exact ⟨c1, c2, c3, c4, c5, c6, c7, c8, c9, c10, c11⟩
      next hch =>
        have hnd : s.rx ≠ .dropped := by
          intro h; exact hrx h
        have c1 := c1 hnd
        have c9 := c9 hnd
        simp only [hpc, hch, chanRows, chanPages, List.append_nil, Nat.add_zero] at c1 c9
        cases it with
        | page r =>
          refine ⟨?_, c2, ?_, ?_, ?_, ?_, ?_, ?_, ?_, ?_, ?_⟩ <;>
            simp [hnu, hnd, hne, her, hce, hc, chanRows, chanPages, chanErr]
          · simpa [pcRows, List.append_assoc] using c1
          · simpa [pcPages] using c9
          · intro hl; have := c10 hl; simp_all [pcErr]
        | err e =>
          have hnx := hA.pc_err e nx hpc
          refine ⟨?_, c2, ?_, ?_, ?_, ?_, ?_, ?_, ?_, ?_, ?_⟩ <;>
            simp [hnu, hnd, hne, her, hce, hc, hnx, pcAfter, chanRows, chanPages, chanErr, pcRows, pcPages, pcErr]
          · simpa [pcRows, List.append_assoc] using c1
          · simpa [pcPages] using c9
  next => exact ⟨c1, c2, c3, c4, c5, c6, c7, c8, c9, c10, c11⟩

/-! ### consumed attempt outcomes; order of the request log -/

structure FInv (faults0 : List Attempt) (s : St) : Prop where
  consumed : ∃ pre, faults0 = pre ++ s.faults ∧ (s.ignored = true → Attempt.ignore ∈ pre)
  log_sorted : s.log.Pairwise (fun (a b : Nat × Option PState) => a.1 ≤ b.1)

theorem finv_init (pages : List Page) (faults : List Attempt) : FInv faults (init pages faults) :=
  ⟨⟨[], by simp [init]⟩, by simp [init]⟩

private theorem consumed_tail {faults0 pre : List Attempt} {fs : List Attempt}
    (h : faults0 = pre ++ fs) : faults0 = (pre ++ fs.head?.toList) ++ fs.tail := by
  cases fs <;> simp [h]

private theorem sorted_append {log : List (Nat × Option PState)} {k : Nat} {st : Option PState} {pages}
    (hs : log.Pairwise (fun a b => a.1 ≤ b.1)) (hl : LogOk pages log k) :
    (log ++ [(k, st)]).Pairwise (fun a b => a.1 ≤ b.1) := by
  rw [List.pairwise_append]
  refine ⟨hs, by simp, ?_⟩
  intro a ha b hb
  simp only [List.mem_singleton] at hb
  subst hb
  exact (hl a ha).2

theorem finv_prod {pages : List Page} {faults0 : List Attempt} {s : St} (hA : PInvA pages s)
    (h : FInv faults0 s) : FInv faults0 (stepProd s) := by
  obtain ⟨⟨pre, hpre, hign⟩, hs⟩ := h
  have hcons := consumed_tail hpre
  have hsort : ∀ st : Option PState,
      (s.log ++ [(s.served, st)]).Pairwise (fun (a b : Nat × Option PState) => a.1 ≤ b.1) :=
    fun st => sorted_append hs hA.log_ok
  have hhead : s.faults.headD .ok = .ignore → Attempt.ignore ∈ pre ++ s.faults.head?.toList := by
    intro h
    cases hf : s.faults with
    | nil => simp [hf] at h
    | cons a t => simp [hf] at h; simp [h]
  have hkeep : s.ignored = true → Attempt.ignore ∈ pre ++ s.faults.head?.toList :=
    fun h => List.mem_append_left _ (hign h)
  unfold stepProd
  split
  · split
    · exact ⟨⟨_, hcons, hkeep⟩, hsort _⟩
    · exact ⟨⟨_, hcons, hkeep⟩, hsort _⟩
    next hh => exact ⟨⟨_, hcons, fun _ => hhead hh⟩, hsort _⟩
    · exact ⟨⟨_, hcons, hkeep⟩, hsort _⟩
  · split
    · exact ⟨⟨_, hcons, hkeep⟩, hsort _⟩
    · exact ⟨⟨_, hcons, hkeep⟩, hsort _⟩
    next hh => exact ⟨⟨_, hcons, fun _ => hhead hh⟩, hsort _⟩
    · exact ⟨⟨_, hcons, hkeep⟩, hsort _⟩
  · split
    · exact ⟨⟨pre, hpre, hign⟩, hs⟩
    · split
      · exact ⟨⟨pre, hpre, hign⟩, hs⟩
      · exact ⟨⟨pre, hpre, hign⟩, hs⟩
  · exact ⟨⟨pre, hpre, hign⟩, hs⟩

theorem finv_poll {faults0 : List Attempt} {s : St} (h : FInv faults0 s) : FInv faults0 (stepPoll s) := by
  obtain ⟨h1, h2⟩ := h
  unfold stepPoll
  repeat' split
  all_goals exact ⟨h1, h2⟩

theorem finv_drop {faults0 : List Attempt} {s : St} (h : FInv faults0 s) : FInv faults0 (stepDrop s) := by
  obtain ⟨h1, h2⟩ := h
  unfold stepDrop
  split
  all_goals exact ⟨h1, h2⟩



/-! ### a final failure reaches the consumer -/

/-- The failure `e` is on its way to the consumer, or has arrived, or the consumer is gone. -/
def Surfaced (s : St) (e : String) : Prop :=
  s.errs = [e] ∨ s.ctorErr = some e ∨ s.chan = some (.err e) ∨ s.pc = .send (.err e) none ∨ s.rx = .dropped

structure SInv (faults0 : List Attempt) (s : St) : Prop where
  failed : ∃ pre, faults0 = pre ++ s.faults ∧ ∀ e, Attempt.fail e ∈ pre → Surfaced s e

theorem sinv_init (pages : List Page) (faults : List Attempt) : SInv faults (init pages faults) :=
  ⟨⟨[], by simp [init]⟩⟩

private theorem consumed_tail' {faults0 pre : List Attempt} {fs : List Attempt}
    (h : faults0 = pre ++ fs) : faults0 = (pre ++ fs.head?.toList) ++ fs.tail := by
  cases fs <;> simp [h]

/-- While the producer is still fetching, no final failure has been consumed (unless the pager was dropped). -/
private theorem no_fail_while_fetching {pages : List Page} {s : St} (hc : CInv pages s) {e : String}
    (hs : Surfaced s e) (hpc : s.pc = .first ∨ ∃ st, s.pc = .fetch st) : s.rx = .dropped := by
  rcases hs with h | h | h | h | h
  · have := (hc.errs_q (by simp [h])).1
    rcases hpc with hp | ⟨st, hp⟩ <;> simp [hp] at this
  · have := (hc.ctor (by simp [h])).2
    rcases hpc with hp | ⟨st, hp⟩ <;> simp [hp] at this
  · have := hc.chan_err (by simp [chanErr, h])
    rcases hpc with hp | ⟨st, hp⟩ <;> simp [hp] at this
  · rcases hpc with hp | ⟨st, hp⟩ <;> simp [hp] at h
  · exact h

theorem sinv_prod {pages : List Page} {faults0 : List Attempt} {s : St} (hc : CInv pages s)
    (h : SInv faults0 s) : SInv faults0 (stepProd s) := by
  obtain ⟨pre, hpre, hf⟩ := h.failed
  have hcons := consumed_tail' hpre
  have hhead : ∀ a, s.faults.headD .ok = a → ∀ e, Attempt.fail e ∈ s.faults.head?.toList → a = .fail e := by
    intro a h e he
    cases hfs : s.faults with
    | nil => simp [hfs] at he
    | cons x t => simp [hfs] at h he; rw [← h, he]
  unfold stepProd
  split
  next hpc =>
    have hrx : s.rx = .unbuilt := hc.first_unbuilt hpc
    have hold : ∀ e, Attempt.fail e ∈ pre → False := by
      intro e he
      have := no_fail_while_fetching hc (hf e he) (Or.inl hpc)
      simp [hrx] at this
    split
    next hh =>
      refine ⟨⟨_, hcons, ?_⟩⟩
      intro e he
      rcases List.mem_append.mp he with h1 | h1
      · exact absurd h1 (hold e)
      · have := hhead _ hh e h1; simp at this
    next e0 hh =>
      refine ⟨⟨_, hcons, ?_⟩⟩
      intro e he
      rcases List.mem_append.mp he with h1 | h1
      · exact absurd h1 (hold e)
      · have := hhead _ hh e h1
        simp only [Attempt.fail.injEq] at this
        right; left; simp [this]
    next hh =>
      refine ⟨⟨_, hcons, ?_⟩⟩
      intro e he
      rcases List.mem_append.mp he with h1 | h1
      · exact absurd h1 (hold e)
      · have := hhead _ hh e h1; simp at this
    next hh =>
      refine ⟨⟨_, hcons, ?_⟩⟩
      intro e he
      rcases List.mem_append.mp he with h1 | h1
      · exact absurd h1 (hold e)
      · have := hhead _ hh e h1; simp at this
  next st hpc =>
    have hold : ∀ e, Attempt.fail e ∈ pre → s.rx = .dropped := fun e he =>
      no_fail_while_fetching hc (hf e he) (Or.inr ⟨st, hpc⟩)
    split
    next hh =>
      refine ⟨⟨_, hcons, ?_⟩⟩
      intro e he
      rcases List.mem_append.mp he with h1 | h1
      · exact Or.inr (Or.inr (Or.inr (Or.inr (hold e h1))))
      · have := hhead _ hh e h1; simp at this
    next e0 hh =>
      refine ⟨⟨_, hcons, ?_⟩⟩
      intro e he
      rcases List.mem_append.mp he with h1 | h1
      · exact Or.inr (Or.inr (Or.inr (Or.inr (hold e h1))))
      · have := hhead _ hh e h1
        simp only [Attempt.fail.injEq] at this
        right; right; right; left; simp [this]
    next hh =>
      refine ⟨⟨_, hcons, ?_⟩⟩
      intro e he
      rcases List.mem_append.mp he with h1 | h1
      · exact Or.inr (Or.inr (Or.inr (Or.inr (hold e h1))))
      · have := hhead _ hh e h1; simp at this
    next hh =>
      refine ⟨⟨_, hcons, ?_⟩⟩
      intro e he
      rcases List.mem_append.mp he with h1 | h1
      · exact Or.inr (Or.inr (Or.inr (Or.inr (hold e h1))))
      · have := hhead _ hh e h1; simp at this
  next it nx hpc =>
    split
    next hrx =>
      exact ⟨⟨pre, hpre, fun e he => Or.inr (Or.inr (Or.inr (Or.inr hrx)))⟩⟩
    next hrx =>
      split
      · exact ⟨⟨pre, hpre, hf⟩⟩
      next hch =>
        refine ⟨⟨pre, hpre, ?_⟩⟩
        intro e he
        rcases hf e he with h | h | h | h | h
        · have := (hc.errs_q (by simp [h])).1; simp [hpc] at this
        · have := (hc.ctor (by simp [h])).2; simp [hpc] at this
        · simp [hch] at h
        · rw [hpc] at h
          simp only [PC.send.injEq] at h
          right; right; left; simp [h.1]
        · exact absurd h (by simpa using hrx)
  next => exact ⟨⟨pre, hpre, hf⟩⟩

theorem sinv_poll {pages : List Page} {faults0 : List Attempt} {s : St} (hc : CInv pages s)
    (h : SInv faults0 s) : SInv faults0 (stepPoll s) := by
  obtain ⟨pre, hpre, hf⟩ := h.failed
  unfold stepPoll
  split
  next hrx =>
    split
    next r rest hcur => exact ⟨⟨pre, hpre, hf⟩⟩
    next hcur =>
      split
      next hch =>
        refine ⟨⟨pre, hpre, ?_⟩⟩
        intro e he
        rcases hf e he with h | h | h | h | h
        · exact Or.inl h
        · exact Or.inr (Or.inl h)
        · simp [hch] at h
        · exact Or.inr (Or.inr (Or.inr (Or.inl h)))
        · exact Or.inr (Or.inr (Or.inr (Or.inr h)))
      next r rest hch =>
        refine ⟨⟨pre, hpre, ?_⟩⟩
        intro e he
        rcases hf e he with h | h | h | h | h
        · exact Or.inl h
        · exact Or.inr (Or.inl h)
        · simp [hch] at h
        · exact Or.inr (Or.inr (Or.inr (Or.inl h)))
        · exact Or.inr (Or.inr (Or.inr (Or.inr h)))
      next e0 hch =>
        refine ⟨⟨pre, hpre, ?_⟩⟩
        intro e he
        have hpc := hc.chan_err (by simp [chanErr, hch])
        have herrs : s.errs = [] := by
          cases hs : s.errs with
          | nil => rfl
          | cons a b => have := (hc.errs_q (by simp [hs])).2.1; simp [hch] at this
        rcases hf e he with h | h | h | h | h
        · simp [herrs] at h
        · have := (hc.ctor (by simp [h])).1; simp [hrx] at this
        · simp only [hch, Option.some.injEq, Item.err.injEq] at h
          left; simp [herrs, h]
        · simp [hpc] at h
        · simp [hrx] at h
      next hch =>
        split
        · exact ⟨⟨pre, hpre, hf⟩⟩
        · exact ⟨⟨pre, hpre, hf⟩⟩
  next => exact ⟨⟨pre, hpre, hf⟩⟩

theorem sinv_drop {faults0 : List Attempt} {s : St} (h : SInv faults0 s) : SInv faults0 (stepDrop s) := by
  obtain ⟨pre, hpre, hf⟩ := h.failed
  unfold stepDrop
  split
  · exact ⟨⟨pre, hpre, fun e he => Or.inr (Or.inr (Or.inr (Or.inr rfl)))⟩⟩
  · exact ⟨⟨pre, hpre, hf⟩⟩



/-! ### only pages the server announced are ever asked for -/

/-- Every page before `k` came with a paging state (so page `k` exists from the server's point of view). -/
def Reach (pages : List Page) (k : Nat) : Prop := ∀ j, j < k → (pageAt pages j).2 ≠ none

theorem reach_zero (pages : List Page) : Reach pages 0 := fun j h => absurd h (Nat.not_lt_zero j)

theorem reach_succ {pages : List Page} {k : Nat} (h : Reach pages k) (hk : (pageAt pages k).2 ≠ none) :
    Reach pages (k + 1) := by
  intro j hj
  rcases Nat.lt_succ_iff_lt_or_eq.mp hj with h1 | h1
  · exact h j h1
  · rw [h1]; exact hk

structure RInv (pages : List Page) (s : St) : Prop where
  log_reach : ∀ e ∈ s.log, Reach pages e.1
  pc_reach : continuing s.pc = true → Reach pages s.served

theorem rinv_init (pages : List Page) (faults : List Attempt) : RInv pages (init pages faults) :=
  ⟨by simp [init], fun _ => by simpa [init] using reach_zero pages⟩

theorem rinv_prod {pages : List Page} {s : St} (hA : PInvA pages s) (h : RInv pages s) :
    RInv pages (stepProd s) := by
  obtain ⟨h1, h2⟩ := h
  have hhd : s.todo.headD ([], none) = pageAt pages s.served := by rw [hA.todo_eq, headD_drop]
  have hlog : ∀ st : Option PState, continuing s.pc = true →
      ∀ e ∈ s.log ++ [(s.served, st)], Reach pages e.1 := by
    intro st hc e he
    simp only [List.mem_append, List.mem_singleton] at he
    rcases he with he | he
    · exact h1 e he
    · rw [he]; exact h2 hc
  unfold stepProd
  split
  next hpc =>
    have hc : continuing s.pc = true := by simp [hpc, continuing]
    split
    · exact ⟨hlog _ hc, fun _ => h2 hc⟩
    · exact ⟨hlog _ hc, by simp [continuing]⟩
    · exact ⟨hlog _ hc, by simp [continuing]⟩
    · refine ⟨hlog _ hc, ?_⟩
      simp only [hhd]
      cases hp : (pageAt pages s.served).2 with
      | none => simp [pcAfter, continuing]
      | some st => intro _; exact reach_succ (h2 hc) (by simp [hp])
  next st hpc =>
    have hc : continuing s.pc = true := by simp [hpc, continuing]
    split
    · exact ⟨hlog _ hc, fun _ => h2 hc⟩
    · exact ⟨hlog _ hc, by simp [continuing]⟩
    · exact ⟨hlog _ hc, by simp [continuing]⟩
    · refine ⟨hlog _ hc, ?_⟩
      simp only [hhd]
      cases hp : (pageAt pages s.served).2 with
      | none => simp [continuing]
      | some st => intro _; exact reach_succ (h2 hc) (by simp [hp])
  next it nx hpc =>
    split
    · exact ⟨h1, by simp [continuing]⟩
    · split
      · exact ⟨h1, h2⟩
      · refine ⟨h1, ?_⟩
        cases nx with
        | none => simp [pcAfter, continuing]
        | some st => intro _; exact h2 (by simp [hpc, continuing])
  next => exact ⟨h1, h2⟩

theorem rinv_poll {pages : List Page} {s : St} (h : RInv pages s) : RInv pages (stepPoll s) := by
  obtain ⟨h1, h2⟩ := h
  unfold stepPoll
  repeat' split
  all_goals exact ⟨h1, h2⟩

theorem rinv_drop {pages : List Page} {s : St} (h : RInv pages s) : RInv pages (stepDrop s) := by
  obtain ⟨h1, h2⟩ := h
  unfold stepDrop
  split
  all_goals exact ⟨h1, h2⟩



/-! ### no error without a final failure (converse of `SInv`) -/

def NoErr (s : St) : Prop :=
  s.errs = [] ∧ s.ctorErr = none ∧ (∀ e, s.chan ≠ some (.err e)) ∧ (∀ e nx, s.pc ≠ .send (.err e) nx) ∧
  (∀ e, Attempt.fail e ∉ s.faults)

theorem tail_nofail {fs : List Attempt} (h : ∀ e, Attempt.fail e ∉ fs) : ∀ e, Attempt.fail e ∉ fs.tail :=
  fun e hm => h e (List.mem_of_mem_tail hm)

theorem headD_nofail {fs : List Attempt} (h : ∀ e, Attempt.fail e ∉ fs) (e : String) : fs.headD .ok ≠ .fail e := by
  cases fs with
  | nil => simp
  | cons a t => intro hh; simp at hh; exact h e (by simp [hh])

theorem noerr_step {s : St} (h : NoErr s) (op : Op) : NoErr (step s op) := by
  obtain ⟨h1, h2, h3, h4, h5⟩ := h
  have ht := tail_nofail h5
  have hh := headD_nofail h5
  cases op
  · simp only [step]; unfold stepProd
    split
    · split
      · exact ⟨h1, h2, h3, by simp_all, ht⟩
      · next e he => exact absurd he (hh e)
      · exact ⟨h1, h2, h3, by simp, ht⟩
      · refine ⟨h1, h2, h3, ?_, ht⟩
        intro e nx; simp only; unfold pcAfter; split <;> simp
    · split
      · exact ⟨h1, h2, h3, by simp_all, ht⟩
      · next e he => exact absurd he (hh e)
      · exact ⟨h1, h2, h3, by simp, ht⟩
      · exact ⟨h1, h2, h3, by simp, ht⟩
    · next it nx hpc =>
      split
      · exact ⟨h1, h2, h3, by simp, h5⟩
      · split
        · exact ⟨h1, h2, h3, h4, h5⟩
        · refine ⟨h1, h2, ?_, ?_, h5⟩
          · intro e; simp only; intro hc
            have : it = .err e := by simpa using hc
            exact h4 e nx (by rw [hpc, this])
          · intro e nx'; simp only; unfold pcAfter; split <;> simp
    · exact ⟨h1, h2, h3, h4, h5⟩
  · simp only [step]; unfold stepPoll
    repeat' split
    all_goals first
      | exact ⟨h1, h2, h3, h4, h5⟩
      | (refine ⟨h1, h2, ?_, h4, h5⟩; intro e; simp)
      | (next e hch => exact absurd hch (h3 e))
  · simp only [step]; unfold stepDrop
    split
    · exact ⟨h1, h2, by simp, h4, h5⟩
    · exact ⟨h1, h2, h3, h4, h5⟩

theorem noerr_run {s : St} (h : NoErr s) (ops : List Op) : NoErr (run s ops) := by
  induction ops generalizing s with
  | nil => exact h
  | cons op ops ih => exact ih (noerr_step h op)

/-! ### the failed request is the one for page `served` -/

/-- A final failure has been consumed (and is on its way or has arrived). -/
def Failing (s : St) : Prop :=
  pcErr s.pc = true ∨ chanErr s.chan = true ∨ s.errs ≠ [] ∨ s.ctorErr.isSome = true

structure EInv (s : St) : Prop where
  last : Failing s → ∃ st, s.log.getLast? = some (s.served, st)

theorem einv_init (pages : List Page) (faults : List Attempt) : EInv (init pages faults) :=
  ⟨by simp [init, Failing, pcErr, chanErr]⟩

/-- Once a failure is under way the producer no longer fetches. -/
theorem failing_pc {pages : List Page} {s : St} (hc : CInv pages s) (h : Failing s) :
    (∃ e nx, s.pc = .send (.err e) nx) ∨ s.pc = .done := by
  rcases h with h | h | h | h
  · left
    unfold pcErr at h
    split at h
    · exact ⟨_, _, by assumption⟩
    · simp at h
  · exact Or.inr (hc.chan_err h)
  · exact Or.inr (hc.errs_q h).1
  · exact Or.inr (hc.ctor h).2

theorem einv_prod {pages : List Page} {s : St} (hc : CInv pages s) (h : EInv s) : EInv (stepProd s) := by
  obtain ⟨h⟩ := h
  unfold stepProd
  split
  next hpc =>
    have hnf : ¬ Failing s := by
      intro hf; rcases failing_pc hc hf with ⟨e, nx, hp⟩ | hp <;> simp [hpc] at hp
    split
    · refine ⟨fun hf => ?_⟩
      exfalso; apply hnf
      simpa [Failing, hpc] using hf
    · exact ⟨fun _ => ⟨none, by simp⟩⟩
    · refine ⟨fun hf => ?_⟩
      exfalso; apply hnf
      rcases hf with hf | hf | hf | hf
      · simp [pcErr] at hf
      · exact Or.inr (Or.inl hf)
      · exact Or.inr (Or.inr (Or.inl hf))
      · exact Or.inr (Or.inr (Or.inr hf))
    · refine ⟨fun hf => ?_⟩
      exfalso; apply hnf
      rcases hf with hf | hf | hf | hf
      · simp at hf
      · exact Or.inr (Or.inl hf)
      · exact Or.inr (Or.inr (Or.inl hf))
      · exact Or.inr (Or.inr (Or.inr hf))
  next st hpc =>
    have hnf : ¬ Failing s := by
      intro hf; rcases failing_pc hc hf with ⟨e, nx, hp⟩ | hp <;> simp [hpc] at hp
    split
    · refine ⟨fun hf => ?_⟩
      exfalso; apply hnf
      simpa [Failing, hpc] using hf
    · exact ⟨fun _ => ⟨st, by simp⟩⟩
    · refine ⟨fun hf => ?_⟩
      exfalso; apply hnf
      rcases hf with hf | hf | hf | hf
      · simp [pcErr] at hf
      · exact Or.inr (Or.inl hf)
      · exact Or.inr (Or.inr (Or.inl hf))
      · exact Or.inr (Or.inr (Or.inr hf))
    · refine ⟨fun hf => ?_⟩
      exfalso; apply hnf
      rcases hf with hf | hf | hf | hf
      · simp [pcErr] at hf
      · exact Or.inr (Or.inl hf)
      · exact Or.inr (Or.inr (Or.inl hf))
      · exact Or.inr (Or.inr (Or.inr hf))
  next it nx hpc =>
    split
    · refine ⟨fun hf => h ?_⟩
      rcases hf with hf | hf | hf | hf
      · simp [pcErr] at hf
      · exact Or.inr (Or.inl hf)
      · exact Or.inr (Or.inr (Or.inl hf))
      · exact Or.inr (Or.inr (Or.inr hf))
    · split
      · exact ⟨h⟩
      · refine ⟨fun hf => h ?_⟩
        rcases hf with hf | hf | hf | hf
        · simp at hf
        · left
          cases it with
          | page r => simp [chanErr] at hf
          | err e => simp [hpc, pcErr]
        · exact Or.inr (Or.inr (Or.inl hf))
        · exact Or.inr (Or.inr (Or.inr hf))
  next => exact ⟨h⟩

theorem einv_poll {s : St} (h : EInv s) : EInv (stepPoll s) := by
  obtain ⟨h⟩ := h
  unfold stepPoll
  split
  next hrx =>
    split
    · exact ⟨h⟩
    · split
      next hch =>
        refine ⟨fun hf => h ?_⟩
        rcases hf with hf | hf | hf | hf
        · exact Or.inl hf
        · simp [chanErr] at hf
        · exact Or.inr (Or.inr (Or.inl hf))
        · exact Or.inr (Or.inr (Or.inr hf))
      next r rest hch =>
        refine ⟨fun hf => h ?_⟩
        rcases hf with hf | hf | hf | hf
        · exact Or.inl hf
        · simp [chanErr] at hf
        · exact Or.inr (Or.inr (Or.inl hf))
        · exact Or.inr (Or.inr (Or.inr hf))
      next e hch =>
        exact ⟨fun _ => h (Or.inr (Or.inl (by simp [chanErr, hch])))⟩
      next hch =>
        split
        · exact ⟨h⟩
        · exact ⟨h⟩
  next => exact ⟨h⟩

theorem einv_drop {s : St} (h : EInv s) : EInv (stepDrop s) := by
  obtain ⟨h⟩ := h
  unfold stepDrop
  split
  · refine ⟨fun hf => h ?_⟩
    rcases hf with hf | hf | hf | hf
    · exact Or.inl hf
    · simp [chanErr] at hf
    · exact Or.inr (Or.inr (Or.inl hf))
    · exact Or.inr (Or.inr (Or.inr hf))
  · exact ⟨h⟩

/-! ### the whole invariant, for every schedule -/

structure Inv (pages : List Page) (faults0 : List Attempt) (s : St) : Prop where
  a : PInvA pages s
  b : PInvB pages s
  c : CInv pages s
  f : FInv faults0 s
  sv : SInv faults0 s
  rc : RInv pages s
  ei : EInv s

theorem inv_init (pages : List Page) (faults : List Attempt) : Inv pages faults (init pages faults) :=
  ⟨pinvA_init _ _, pinvB_init _ _, cinv_init _ _, finv_init _ _, sinv_init _ _, rinv_init _ _, einv_init _ _⟩

theorem inv_step {pages : List Page} {faults0 : List Attempt} {s : St} (h : Inv pages faults0 s) (op : Op) :
    Inv pages faults0 (step s op) := by
  cases op
  · exact ⟨pinvA_prod h.a, pinvB_prod h.a h.b, cinv_prod h.a h.b h.c, finv_prod h.a h.f,
      sinv_prod h.c h.sv, rinv_prod h.a h.rc, einv_prod h.c h.ei⟩
  · exact ⟨pinvA_poll h.a, pinvB_poll h.b, cinv_poll h.b h.c, finv_poll h.f, sinv_poll h.c h.sv, rinv_poll h.rc, einv_poll h.ei⟩
  · exact ⟨pinvA_drop h.a, pinvB_drop h.b, cinv_drop h.c, finv_drop h.f, sinv_drop h.sv, rinv_drop h.rc, einv_drop h.ei⟩

theorem inv_run {pages : List Page} {faults0 : List Attempt} {s : St} (h : Inv pages faults0 s) (ops : List Op) :
    Inv pages faults0 (run s ops) := by
  induction ops generalizing s with
  | nil => exact h
  | cons op ops ih => exact ih (inv_step h op)

theorem inv_reachable (pages : List Page) (faults : List Attempt) (ops : List Op) :
    Inv pages faults (run (init pages faults) ops) := inv_run (inv_init pages faults) ops

/-! ### termination measure -/

theorem todo_measure (todo : List Page) :
    5 * todo.tail.length + todoRows todo.tail + (todo.headD ([], none)).1.length + (if todo = [] then 0 else 5)
      = 5 * todo.length + todoRows todo := by
  cases todo with
  | nil => simp [todoRows]
  | cons p t => simp [todoRows]; omega

theorem pcRank_pcAfter_le (nx : Option PState) : pcRank (pcAfter nx) ≤ 4 := by
  cases nx <;> simp [pcAfter, pcRank]

theorem pcItemRows_pcAfter (nx : Option PState) : pcItemRows (pcAfter nx) = 0 := by
  cases nx <;> simp [pcAfter, pcItemRows]

theorem retry_nonempty {fs : List Attempt} {a : Attempt} (h : fs.headD .ok = a) (ha : a ≠ .ok) :
    fs.tail.length + 1 = fs.length := by
  cases fs with
  | nil => simp at h; exact absurd h.symm ha
  | cons x t => simp

theorem prod_decreases (s : St) : measure (stepProd s) < measure s ∨ stepProd s = s := by
  have htl : s.faults.tail.length ≤ s.faults.length := by simp
  unfold stepProd
  split
  next hpc =>
    left
    split
    next h => have := retry_nonempty h (by simp); simp [measure, hpc]; omega
    next h => have := retry_nonempty h (by simp); simp [measure, hpc, pcRank, pcItemRows]; omega
    next h => have := retry_nonempty h (by simp); simp [measure, hpc, pcRank, pcItemRows]; split <;> omega
    next h =>
      cases hto : s.todo with
      | nil => simp [measure, hpc, hto, pcAfter, pcRank, pcItemRows, todoRows]; split <;> omega
      | cons p t =>
        cases hp : p.2 <;>
          (simp [measure, hpc, hto, hp, pcAfter, pcRank, pcItemRows, todoRows]; split <;> omega)
  next st hpc =>
    left
    split
    next h => have := retry_nonempty h (by simp); simp [measure, hpc]; omega
    next h => have := retry_nonempty h (by simp); simp [measure, hpc, pcRank, pcItemRows, itemRows]; omega
    next h => have := retry_nonempty h (by simp); simp [measure, hpc, pcRank, pcItemRows]; omega
    next h =>
      cases hto : s.todo with
      | nil => simp [measure, hpc, hto, pcRank, pcItemRows, itemRows, todoRows]; omega
      | cons p t =>
        cases hp : p.2 <;>
          (simp [measure, hpc, hto, hp, pcRank, pcItemRows, itemRows, todoRows]; omega)
  next it nx hpc =>
    split
    · left
      simp [measure, hpc, pcRank, pcItemRows, *]
      cases nx <;> simp [pcRank] <;> omega
    · split
      · right; rfl
      next hch =>
        left
        have h2 := pcItemRows_pcAfter nx
        simp only [measure, hpc, pcItemRows, h2, hch]
        cases nx <;> simp [pcAfter, pcRank] <;> omega
  next => right; rfl

theorem poll_decreases (s : St) : measure (stepPoll s) < measure s ∨ stepPoll s = s := by
  unfold stepPoll
  split
  next hrx =>
    split
    next r rest hcur => left; simp [measure, hcur]
    next hcur =>
      split
      next hch => left; simp [measure, hch, itemRows]
      next r rest hch => left; simp [measure, hch, hcur, itemRows]; omega
      next e hch => left; simp [measure, hch, itemRows]
      next hch =>
        split
        next hpc =>
          cases he : s.ended with
          | true => right; cases s; simp_all
          | false => left; simp [measure, he]
        next => right; rfl
  next => right; rfl

theorem drop_decreases (s : St) : measure (stepDrop s) < measure s ∨ stepDrop s = s := by
  unfold stepDrop
  split
  next hrx => left; simp [measure, hrx]; split <;> omega
  next => right; rfl

theorem step_decreases (s : St) (op : Op) : measure (step s op) < measure s ∨ step s op = s := by
  cases op
  · exact prod_decreases s
  · exact poll_decreases s
  · exact drop_decreases s

/-- No deadlock: as long as the pager is alive (or being built) and the stream has not ended, the
producer or the consumer can move. -/
theorem no_deadlock {pages : List Page} {s : St} (hc : CInv pages s)
    (hu : s.rx = .unbuilt → s.pc = .first ∨ s.ctorErr.isSome = true) (hrx : s.rx ≠ .dropped)
    (hend : s.ended = false) (hctor : s.ctorErr.isSome = false) :
    stepProd s ≠ s ∨ stepPoll s ≠ s := by
  cases hpc : s.pc with
  | first =>
    left; intro h
    have : (stepProd s).log.length = s.log.length := by rw [h]
    unfold stepProd at this
    simp only [hpc] at this
    split at this <;> simp at this
  | fetch st =>
    left; intro h
    have : (stepProd s).log.length = s.log.length := by rw [h]
    unfold stepProd at this
    simp only [hpc] at this
    split at this <;> simp at this
  | send it nx =>
    cases hch : s.chan with
    | none =>
      left; intro h
      have : (stepProd s).chan = s.chan := by rw [h]
      unfold stepProd at this
      cases hr : s.rx <;> simp_all
    | some it' =>
      right; intro h
      have hne : s.rx ≠ .unbuilt := by
        intro hu; have := (hc.unbuilt hu).1; simp [hpc] at this
      have halive : s.rx = .alive := by
        cases hr : s.rx <;> simp_all
      cases hcur : s.cur with
      | cons r rest =>
        have : (stepPoll s).cur = s.cur := by rw [h]
        unfold stepPoll at this
        simp [halive, hcur] at this
      | nil =>
        have : (stepPoll s).chan = s.chan := by rw [h]
        unfold stepPoll at this
        simp only [halive, hcur, hch] at this
        cases it' with
        | page rows => cases rows <;> simp at this
        | err e => simp at this
  | done =>
    right; intro h
    have halive : s.rx = .alive := by
      cases hr : s.rx with
      | alive => rfl
      | dropped => exact absurd hr hrx
      | unbuilt => have := hu hr; simp [hpc, hctor] at this
    have : (stepPoll s).ended = s.ended := by rw [h]
    unfold stepPoll at this
    simp only [halive, hpc] at this
    cases hcur : s.cur with
    | cons r rest =>
      have h2 : (stepPoll s).cur = s.cur := by rw [h]
      unfold stepPoll at h2
      simp [halive, hcur] at h2
    | nil =>
      cases hch : s.chan with
      | none => simp [hcur, hch, hend] at this
      | some it =>
        have h2 : (stepPoll s).chan = s.chan := by rw [h]
        unfold stepPoll at h2
        simp only [halive, hcur, hch] at h2
        cases it with
        | page rows => cases rows <;> simp at h2
        | err e => simp at h2

/-! ### the round-robin schedule reaches the end -/

theorem prod_rx (s : St) (h : s.rx ≠ .dropped) : (stepProd s).rx ≠ .dropped := by
  unfold stepProd
  repeat' split
  all_goals simp_all

theorem poll_rx (s : St) : (stepPoll s).rx = s.rx := by
  unfold stepPoll
  repeat' split
  all_goals rfl

structure UInv (s : St) : Prop where
  unbuilt : s.rx = .unbuilt → s.pc = .first ∨ s.ctorErr.isSome = true

theorem uinv_init (pages : List Page) (faults : List Attempt) : UInv (init pages faults) := ⟨by simp [init]⟩

theorem uinv_step {s : St} (h : UInv s) (op : Op) : UInv (step s op) := by
  obtain ⟨h⟩ := h
  cases op
  · simp only [step]
    unfold stepProd
    split
    · split <;> exact ⟨by simp_all⟩
    · have : s.pc ≠ .first := by simp_all
      split <;> exact ⟨by simp_all⟩
    · have : s.pc ≠ .first := by simp_all
      split
      · exact ⟨by simp_all⟩
      · split
        · exact ⟨h⟩
        · exact ⟨by simp_all⟩
    · exact ⟨h⟩
  · simp only [step]
    unfold stepPoll
    repeat' split
    all_goals exact ⟨by simp_all⟩
  · simp only [step]
    unfold stepDrop
    split
    · exact ⟨by simp_all⟩
    · exact ⟨h⟩

theorem uinv_run {s : St} (h : UInv s) (ops : List Op) : UInv (run s ops) := by
  induction ops generalizing s with
  | nil => exact h
  | cons op ops ih => exact ih (uinv_step h op)

theorem round_decreases {pages : List Page} {s : St} (hc : CInv pages s) (hu : UInv s) (hrx : s.rx ≠ .dropped)
    (hend : s.ended = false) (hctor : s.ctorErr.isSome = false) :
    measure (stepPoll (stepProd s)) < measure s := by
  rcases prod_decreases s with h1 | h1
  · rcases poll_decreases (stepProd s) with h2 | h2
    · omega
    · rw [h2]; exact h1
  · rw [h1]
    rcases poll_decreases s with h2 | h2
    · exact h2
    · rcases no_deadlock hc hu.unbuilt hrx hend hctor with h | h
      · exact absurd h1 h
      · exact absurd h2 h

theorem runEager_ends {pages : List Page} {faults0 : List Attempt} :
    ∀ (n : Nat) (s : St), Inv pages faults0 s → UInv s → s.rx ≠ .dropped → measure s ≤ n →
      (runEager n s).ended = true ∨ (runEager n s).ctorErr.isSome = true := by
  intro n
  induction n with
  | zero =>
    intro s _ _ _ hm
    simp only [runEager]
    cases he : s.ended with
    | true => simp
    | false => simp [measure, he] at hm
  | succ n ih =>
    intro s hi hu hrx hm
    simp only [runEager]
    cases he : s.ended with
    | true => simp [he]
    | false =>
      cases hc : s.ctorErr.isSome with
      | true => simp [hc]
      | false =>
        simp only [he, hc, Bool.or_self, Bool.false_eq_true, if_false]
        have hdec := round_decreases hi.c hu hrx he hc
        have hi' : Inv pages faults0 (stepPoll (stepProd s)) := inv_step (inv_step hi .prod) .poll
        have hu' : UInv (stepPoll (stepProd s)) := uinv_step (uinv_step hu .prod) .poll
        have hrx' : (stepPoll (stepProd s)).rx ≠ .dropped := by
          rw [poll_rx]; exact prod_rx s hrx
        exact ih _ hi' hu' hrx' (by omega)

theorem runEager_is_run : ∀ (n : Nat) (s : St), ∃ ops, runEager n s = run s ops ∧ Op.drop ∉ ops := by
  intro n
  induction n with
  | zero => intro s; exact ⟨[], rfl, by simp⟩
  | succ n ih =>
    intro s
    simp only [runEager]
    split
    · exact ⟨[], rfl, by simp⟩
    · obtain ⟨ops, h, hd⟩ := ih (stepPoll (stepProd s))
      exact ⟨.prod :: .poll :: ops, by simp [run, step, h], by simp [hd]⟩

/-! ### after the pager was dropped; after the end -/

def fetching : PC → Bool
  | .first => true
  | .fetch _ => true
  | _ => false

/-- What can still happen once the pager is dropped, relative to the state `s0` at the drop. -/
structure Dropped (s0 s : St) : Prop where
  rx : s.rx = .dropped
  not_first : s.pc ≠ .first
  chan : s.chan = none
  delivered : s.delivered = s0.delivered
  log : ∀ e ∈ s.log, e ∈ s0.log ∨ e.1 = s0.served
  served : (fetching s.pc = true ∧ fetching s0.pc = true ∧ s.served = s0.served) ∨
    (fetching s.pc = false ∧ s.served ≤ s0.served + (if fetching s0.pc then 1 else 0))

theorem dropped_step {s0 s : St} (h : Dropped s0 s) (op : Op) : Dropped s0 (step s op) := by
  obtain ⟨h1, h2, h3, h4, h5, h6⟩ := h
  cases op
  · simp only [step]
    unfold stepProd
    split
    next hpc => exact absurd hpc h2
    next st hpc =>
      have h6' : s.served = s0.served := by
        rcases h6 with h6 | h6
        · exact h6.2.2
        · simp [hpc, fetching] at h6
      have h6f : fetching s0.pc = true := by
        rcases h6 with h6 | h6
        · exact h6.2.1
        · simp [hpc, fetching] at h6
      have hlog : ∀ e ∈ s.log ++ [(s.served, st)], e ∈ s0.log ∨ e.1 = s0.served := by
        intro e he
        simp only [List.mem_append, List.mem_singleton] at he
        rcases he with he | he
        · exact h5 e he
        · right; rw [he]; exact h6'
      split
      · exact ⟨h1, h2, h3, h4, hlog, Or.inl ⟨by simp [hpc, fetching], h6f, h6'⟩⟩
      · exact ⟨h1, by simp, h3, h4, hlog, Or.inr ⟨by simp [fetching], by simp; omega⟩⟩
      · exact ⟨h1, by simp, h3, h4, hlog, Or.inr ⟨by simp [fetching], by simp; omega⟩⟩
      · exact ⟨h1, by simp, h3, h4, hlog, Or.inr ⟨by simp [fetching], by simp [h6f, h6']⟩⟩
    next it nx hpc =>
      have h6' : s.served ≤ s0.served + (if fetching s0.pc then 1 else 0) := by
        rcases h6 with h6 | h6
        · simp [hpc, fetching] at h6
        · exact h6.2
      split
      · exact ⟨h1, by simp, h3, h4, h5, Or.inr ⟨by simp [fetching], h6'⟩⟩
      next hnd => exact absurd h1 (by simpa using hnd)
    next => exact ⟨h1, h2, h3, h4, h5, h6⟩
  · simp only [step]
    have : stepPoll s = s := by unfold stepPoll; simp [h1]
    rw [this]; exact ⟨h1, h2, h3, h4, h5, h6⟩
  · simp only [step]
    have : stepDrop s = s := by unfold stepDrop; simp [h1]
    rw [this]; exact ⟨h1, h2, h3, h4, h5, h6⟩

theorem dropped_run {s0 s : St} (h : Dropped s0 s) (ops : List Op) : Dropped s0 (run s ops) := by
  induction ops generalizing s with
  | nil => exact h
  | cons op ops ih => exact ih (dropped_step h op)

theorem dropped_of_drop {pages : List Page} {s : St} (hc : CInv pages s) (h : s.rx = .alive) :
    Dropped s (stepDrop s) := by
  have hnf : s.pc ≠ .first := by
    intro hp; have := hc.first_unbuilt hp; simp [h] at this
  unfold stepDrop
  simp only [h]
  refine ⟨rfl, hnf, rfl, rfl, fun e he => Or.inl he, ?_⟩
  cases hf : fetching s.pc <;> simp [hf]

/-- Once the producer is done, the channel empty and the current page used up, nothing more is ever
yielded except `None`. -/
structure Quiet (s0 s : St) : Prop where
  pc : s.pc = .done
  chan : s.chan = none
  cur : s.cur = []
  delivered : s.delivered = s0.delivered
  errs : s.errs = s0.errs
  log : s.log = s0.log

theorem quiet_step {s0 s : St} (h : Quiet s0 s) (op : Op) : Quiet s0 (step s op) := by
  obtain ⟨h1, h2, h3, h4, h5, h6⟩ := h
  cases op
  · simp only [step]
    have : stepProd s = s := by unfold stepProd; simp [h1]
    rw [this]; exact ⟨h1, h2, h3, h4, h5, h6⟩
  · simp only [step]
    unfold stepPoll
    split
    · simp only [h3, h2, h1]
      exact ⟨rfl, rfl, rfl, h4, h5, h6⟩
    · exact ⟨h1, h2, h3, h4, h5, h6⟩
  · simp only [step]
    unfold stepDrop
    split
    · exact ⟨h1, rfl, rfl, h4, h5, h6⟩
    · exact ⟨h1, h2, h3, h4, h5, h6⟩

theorem quiet_run {s0 s : St} (h : Quiet s0 s) (ops : List Op) : Quiet s0 (run s ops) := by
  induction ops generalizing s with
  | nil => exact h
  | cons op ops ih => exact ih (quiet_step h op)

/-! ### drop-free schedules; the measure never grows -/

theorem run_no_drop_rx : ∀ (ops : List Op) (s : St), Op.drop ∉ ops → s.rx ≠ .dropped → (run s ops).rx ≠ .dropped := by
  intro ops
  induction ops with
  | nil => intro s _ h; exact h
  | cons op ops ih =>
    intro s hnd h
    simp only [List.mem_cons, not_or] at hnd
    refine ih (step s op) hnd.2 ?_
    cases op
    · exact prod_rx s h
    · simp only [step]; rw [poll_rx]; exact h
    · exact absurd rfl hnd.1

theorem measure_run_le (ops : List Op) (s : St) : measure (run s ops) ≤ measure s := by
  induction ops generalizing s with
  | nil => exact Nat.le_refl _
  | cons op ops ih =>
    have h1 : measure (run s (op :: ops)) ≤ measure (step s op) := ih (step s op)
    rcases step_decreases s op with h2 | h2
    · exact Nat.le_trans h1 (Nat.le_of_lt h2)
    · rw [h2] at h1; exact h1

theorem run_append (s : St) (a b : List Op) : run s (a ++ b) = run (run s a) b := by
  simp [run, List.foldl_append]

/-! ### the driver's schedules are runs of the step functions -/

theorem run_cons (s : St) (op : Op) (ops : List Op) : run s (op :: ops) = run (step s op) ops := rfl

theorem prodToQuiescence_is_run : ∀ (n : Nat) (s : St),
    ∃ ops, prodToQuiescence n s = run s ops ∧ ∀ op ∈ ops, op = Op.prod := by
  intro n
  induction n with
  | zero => intro s; exact ⟨[], rfl, by simp⟩
  | succ n ih =>
    intro s
    simp only [prodToQuiescence]
    split
    · exact ⟨[.prod], rfl, by simp⟩
    · obtain ⟨ops, h, hp⟩ := ih (stepProd s)
      exact ⟨.prod :: ops, by rw [run_cons]; exact h, by simpa using hp⟩

theorem runDrop_is_run (eagerProd : Bool) (k : Nat) : ∀ (n : Nat) (s : St),
    ∃ ops, runDrop eagerProd k n s = run s ops := by
  intro n
  induction n with
  | zero => intro s; exact ⟨[], rfl⟩
  | succ n ih =>
    intro s
    simp only [runDrop]
    split
    · exact ⟨[], rfl⟩
    · split
      · obtain ⟨ops, h⟩ := ih (stepPoll s)
        exact ⟨.poll :: ops, by rw [run_cons]; exact h⟩
      · split
        · obtain ⟨ops, h⟩ := ih (stepProd s)
          exact ⟨.prod :: ops, by rw [run_cons]; exact h⟩
        · -- the producer's head start (eager) or nothing (lazy)
          have h1 : ∃ o1, (if eagerProd = true then prodToQuiescence (measure s + 1) s else s) = run s o1 := by
            split
            · obtain ⟨o, h, _⟩ := prodToQuiescence_is_run (measure s + 1) s; exact ⟨o, h⟩
            · exact ⟨[], rfl⟩
          obtain ⟨o1, h1⟩ := h1
          rw [h1]
          split
          · obtain ⟨o2, h2, _⟩ := prodToQuiescence_is_run (measure (run s o1) + 1) (stepDrop (run s o1))
            exact ⟨o1 ++ .drop :: o2, by rw [run_append, run_cons]; exact h2⟩
          · split
            · obtain ⟨o3, h3⟩ := ih (stepProd (stepPoll (run s o1)))
              exact ⟨o1 ++ .poll :: .prod :: o3, by rw [run_append, run_cons, run_cons]; exact h3⟩
            · obtain ⟨o3, h3⟩ := ih (stepPoll (run s o1))
              exact ⟨o1 ++ .poll :: o3, by rw [run_append, run_cons]; exact h3⟩

/-! ### after a drop the producer finishes within `measure` of its own steps -/

theorem prod_keeps_dropped (s : St) (h : s.rx = .dropped) (hp : s.pc ≠ .first) :
    (stepProd s).rx = .dropped ∧ (stepProd s).pc ≠ .first := by
  unfold stepProd
  split
  next hpc => exact absurd hpc hp
  · split <;> simp_all
  · split
    · exact ⟨h, by simp⟩
    · simp_all
  · exact ⟨h, hp⟩

theorem dropped_prod_progress (s : St) (h : s.rx = .dropped) :
    s.pc = .done ∨ measure (stepProd s) < measure s := by
  rcases prod_decreases s with hd | hs
  · exact Or.inr hd
  · left
    cases hpc : s.pc with
    | done => rfl
    | first =>
      exfalso
      have : (stepProd s).log.length = s.log.length := by rw [hs]
      unfold stepProd at this
      simp only [hpc] at this
      split at this <;> simp at this
    | fetch st =>
      exfalso
      have : (stepProd s).log.length = s.log.length := by rw [hs]
      unfold stepProd at this
      simp only [hpc] at this
      split at this <;> simp at this
    | send it nx =>
      exfalso
      have : (stepProd s).pc = s.pc := by rw [hs]
      unfold stepProd at this
      simp [hpc, h] at this

theorem done_stays (s : St) (h : s.pc = .done) (n : Nat) : (run s (List.replicate n Op.prod)).pc = .done := by
  induction n generalizing s with
  | zero => exact h
  | succ n ih =>
    have : stepProd s = s := by unfold stepProd; simp [h]
    simp only [List.replicate_succ, run_cons, step, this]
    exact ih s h

theorem drop_prod_finishes : ∀ (n : Nat) (s : St), s.rx = .dropped → s.pc ≠ .first → measure s ≤ n →
    (run s (List.replicate n Op.prod)).pc = .done := by
  intro n
  induction n with
  | zero =>
    intro s _ hp hm
    have : pcRank s.pc = 0 := by unfold measure at hm; omega
    cases hpc : s.pc with
    | done => exact hpc
    | first => exact absurd hpc hp
    | fetch st => simp [hpc, pcRank] at this
    | send it nx => cases nx <;> simp [hpc, pcRank] at this
  | succ n ih =>
    intro s h hp hm
    rcases dropped_prod_progress s h with hd | hd
    · exact done_stays s hd (n + 1)
    · have hk := prod_keeps_dropped s h hp
      simp only [List.replicate_succ, run_cons, step]
      exact ih (stepProd s) hk.1 hk.2 (by omega)


/-! ### the i-th request is the i-th attempt -/

/-- Outcome of the `i`-th attempt of an iteration (an exhausted list means success). -/
def att (faults0 : List Attempt) (i : Nat) : Attempt := faults0.getD i .ok

/-- Number of successful attempts among the first `i`: the page the `i`-th attempt asks for. -/
def okBefore (faults0 : List Attempt) (i : Nat) : Nat :=
  ((List.range i).filter fun j => att faults0 j = .ok).length

theorem okBefore_zero (f : List Attempt) : okBefore f 0 = 0 := by simp [okBefore]

theorem okBefore_succ (f : List Attempt) (i : Nat) :
    okBefore f (i + 1) = okBefore f i + (if att f i = .ok then 1 else 0) := by
  simp only [okBefore, List.range_succ, List.filter_append, List.length_append]
  by_cases h : att f i = .ok <;> simp [h]

structure NInv (faults0 : List Attempt) (s : St) : Prop where
  faults_eq : s.faults = faults0.drop s.log.length
  idx : ∀ i (h : i < s.log.length), (s.log[i]).1 = okBefore faults0 i
  served_eq : s.served = okBefore faults0 s.log.length

theorem ninv_init (pages : List Page) (faults : List Attempt) : NInv faults (init pages faults) :=
  ⟨by simp [init], by simp [init], by simp [init, okBefore_zero]⟩

private theorem headD_drop' (f : List Attempt) (n : Nat) : (f.drop n).headD .ok = att f n := by
  simp [att, List.getD_eq_getElem?_getD, List.head?_drop]

private theorem log_idx_append {faults0 : List Attempt} {log : List (Nat × Option PState)} {k : Nat}
    {st : Option PState} (h : ∀ i (h : i < log.length), (log[i]).1 = okBefore faults0 i)
    (hk : k = okBefore faults0 log.length) :
    ∀ i (h : i < (log ++ [(k, st)]).length), ((log ++ [(k, st)])[i]).1 = okBefore faults0 i := by
  intro i hi
  simp only [List.length_append, List.length_singleton] at hi
  by_cases hlt : i < log.length
  · rw [List.getElem_append_left hlt]; exact h i hlt
  · have : i = log.length := by omega
    subst this
    simp [hk]

theorem ninv_prod {faults0 : List Attempt} {s : St} (h : NInv faults0 s) : NInv faults0 (stepProd s) := by
  obtain ⟨h1, h2, h3⟩ := h
  have hhead : s.faults.headD .ok = att faults0 s.log.length := by rw [h1, headD_drop']
  have htail : s.faults.tail = faults0.drop (s.log.length + 1) := by rw [h1]; simp
  have hsucc := okBefore_succ faults0 s.log.length
  have hidx : ∀ st : Option PState, ∀ i (h : i < (s.log ++ [(s.served, st)]).length),
      ((s.log ++ [(s.served, st)])[i]).1 = okBefore faults0 i := fun st => log_idx_append h2 h3
  unfold stepProd
  split
  · split
    next hh =>
      refine ⟨by simpa using htail, hidx _, ?_⟩
      rw [hhead] at hh; simp [hsucc, hh, h3]
    next e hh =>
      refine ⟨by simpa using htail, hidx _, ?_⟩
      rw [hhead] at hh; simp [hsucc, hh, h3]
    next hh =>
      refine ⟨by simpa using htail, hidx _, ?_⟩
      rw [hhead] at hh; simp [hsucc, hh, h3]
    next hh =>
      refine ⟨by simpa using htail, hidx _, ?_⟩
      rw [hhead] at hh; simp [hsucc, hh, h3]
  · split
    next hh =>
      refine ⟨by simpa using htail, hidx _, ?_⟩
      rw [hhead] at hh; simp [hsucc, hh, h3]
    next e hh =>
      refine ⟨by simpa using htail, hidx _, ?_⟩
      rw [hhead] at hh; simp [hsucc, hh, h3]
    next hh =>
      refine ⟨by simpa using htail, hidx _, ?_⟩
      rw [hhead] at hh; simp [hsucc, hh, h3]
    next hh =>
      refine ⟨by simpa using htail, hidx _, ?_⟩
      rw [hhead] at hh; simp [hsucc, hh, h3]
  · split
    · exact ⟨h1, h2, h3⟩
    · split
      · exact ⟨h1, h2, h3⟩
      · exact ⟨h1, h2, h3⟩
  · exact ⟨h1, h2, h3⟩

theorem ninv_poll {faults0 : List Attempt} {s : St} (h : NInv faults0 s) : NInv faults0 (stepPoll s) := by
  obtain ⟨h1, h2, h3⟩ := h
  unfold stepPoll
  repeat' split
  all_goals exact ⟨h1, h2, h3⟩

theorem ninv_drop {faults0 : List Attempt} {s : St} (h : NInv faults0 s) : NInv faults0 (stepDrop s) := by
  obtain ⟨h1, h2, h3⟩ := h
  unfold stepDrop
  split
  all_goals exact ⟨h1, h2, h3⟩

theorem ninv_run {faults0 : List Attempt} {s : St} (h : NInv faults0 s) (ops : List Op) : NInv faults0 (run s ops) := by
  induction ops generalizing s with
  | nil => exact h
  | cons op ops ih =>
    refine ih ?_
    cases op
    · exact ninv_prod h
    · exact ninv_poll h
    · exact ninv_drop h


/-- Within the scripted attempts (no default yet), `okBefore` counts the successes of the prefix. -/
theorem okBefore_eq_count (f : List Attempt) (i : Nat) (h : i ≤ f.length) :
    okBefore f i = (f.take i).count .ok := by
  induction i with
  | zero => simp [okBefore_zero]
  | succ i ih =>
    have hi : i < f.length := by omega
    rw [okBefore_succ, ih (by omega), List.take_add_one, List.count_append]
    have : att f i = f[i] := by simp [att, List.getD_eq_getElem?_getD, List.getElem?_eq_getElem hi]
    rw [this, List.getElem?_eq_getElem hi]
    by_cases hb : f[i] = Attempt.ok <;> simp [hb]

end ScyllaVerif.Pager

import ScyllaVerif.Model.CqlSpec
import ScyllaVerif.Proofs.CodecDec
/-!
C01: whatever the implementation model's specification-side encoder `Codec.encSpec` (and hence, by
`encImpl_eq_encSpec`, the back-patching serializer) produces is the CQL v4 encoding as written independently in
`Model/CqlSpec.lean` (arithmetic vint and zig-zag, per-type table, UDT fields in type order, own fixed-width table).
-/
namespace ScyllaVerif.Proofs.CodecSpec
open ScyllaVerif.Vint ScyllaVerif.Cql ScyllaVerif.Codec ScyllaVerif.CqlSpec
open ScyllaVerif.Proofs.Vint ScyllaVerif.Proofs.CodecEnc ScyllaVerif.Proofs.CodecDec

/-! ### vint and zig-zag against their arithmetic definitions -/

theorem uvintExtra_class (v e : Nat) (he1 : 1 ≤ e) (he7 : e ≤ 7) (hlo : 2 ^ (7 * e) ≤ v)
    (hhi : v < 2 ^ (7 * e + 7)) : uvintExtra v = e := by
  have : e = 1 ∨ e = 2 ∨ e = 3 ∨ e = 4 ∨ e = 5 ∨ e = 6 ∨ e = 7 := by omega
  unfold uvintExtra
  rcases this with rfl | rfl | rfl | rfl | rfl | rfl | rfl <;> simp at hlo hhi <;> (repeat' split) <;> omega

theorem uvintEnc_eq_spec (v : BitVec 64) : uvintEnc v = uvintSpec v.toNat := by
  rcases uvintEnc_cases v with ⟨h, hv⟩ | ⟨h, hv⟩ | ⟨e, he1, he7, hlo, hhi, hv⟩
  · rw [hv]
    have : uvintExtra v.toNat = 0 := by unfold uvintExtra; simp [h]
    simp [uvintSpec, this]
  · rw [hv]
    have : uvintExtra v.toNat = 8 := by
      unfold uvintExtra
      (repeat' split) <;> omega
    simp [uvintSpec, this]
  · rw [hv]
    have := uvintExtra_class v.toNat e he1 he7 hlo hhi
    have h0 : ¬ (e = 0) := by omega
    have h8 : ¬ (e = 8) := by omega
    simp [uvintSpec, this, h0, h8]

end ScyllaVerif.Proofs.CodecSpec

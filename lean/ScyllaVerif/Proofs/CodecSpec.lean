import ScyllaVerif.Model.CqlSpec
import ScyllaVerif.Proofs.CodecDec
/-!
C01: whatever the implementation model's specification-side encoder `Codec.encSpec` (and hence, by
`encImpl_eq_encSpec`, the back-patching serializer) produces is the CQL v4 encoding as written independently in
`Model/CqlSpec.lean` (arithmetic vint and zig-zag, per-type table, UDT fields in type order, own fixed-width table).
-/
namespace ScyllaVerif.Proofs.CodecSpec
open ScyllaVerif.Vint ScyllaVerif.Cql ScyllaVerif.Codec ScyllaVerif.CqlSpec
open ScyllaVerif.Proofs.Vint ScyllaVerif.Proofs.CodecEnc ScyllaVerif.Proofs.CodecDec

/-! ### vint and zig-zag against their arithmetic definitions -/

theorem uvintExtra_class (v e : Nat) (he1 : 1 ≤ e) (he7 : e ≤ 7) (hlo : 2 ^ (7 * e) ≤ v)
    (hhi : v < 2 ^ (7 * e + 7)) : uvintExtra v = e := by
  have : e = 1 ∨ e = 2 ∨ e = 3 ∨ e = 4 ∨ e = 5 ∨ e = 6 ∨ e = 7 := by omega
  unfold uvintExtra
  rcases this with rfl | rfl | rfl | rfl | rfl | rfl | rfl <;> simp at hlo hhi <;> (repeat' split) <;> omega

theorem uvintEnc_eq_spec (v : BitVec 64) : uvintEnc v = uvintSpec v.toNat := by
  rcases uvintEnc_cases v with ⟨h, hv⟩ | ⟨h, hv⟩ | ⟨e, he1, he7, hlo, hhi, hv⟩
  · rw [hv]
    have : uvintExtra v.toNat = 0 := by unfold uvintExtra; simp [h]
    simp [uvintSpec, this]
  · rw [hv]
    have : uvintExtra v.toNat = 8 := by
      unfold uvintExtra
      (repeat' split) <;> omega
    simp [uvintSpec, this]
  · rw [hv]
    have := uvintExtra_class v.toNat e he1 he7 hlo hhi
    have h0 : ¬ (e = 0) := by omega
    have h8 : ¬ (e = 8) := by omega
    simp [uvintSpec, this, h0, h8]
theorem zigzag_eq_spec (v : BitVec 64) : (zigzagEnc v).toNat = zigzagSpec v.toInt := by
  unfold zigzagEnc zigzagSpec
  rw [sshiftRight_63]
  have hlt := v.isLt
  cases hm : v.msb with
  | false =>
    have h63 : v.toNat < 2 ^ 63 := by
      have := BitVec.msb_eq_decide v
      rw [hm] at this
      simpa using this
    have hi : v.toInt = v.toNat := by
      rw [BitVec.toInt_eq_toNat_cond]; split <;> omega
    simp only [Bool.false_eq_true, if_false, BitVec.zero_xor, BitVec.toNat_shiftLeft]
    rw [hi]
    have : (0 : Int) ≤ v.toNat := by omega
    simp only [this, if_true]
    rw [Nat.shiftLeft_eq]
    omega
  | true =>
    have h63 : 2 ^ 63 ≤ v.toNat := by
      have := BitVec.msb_eq_decide v
      rw [hm] at this
      simpa using this
    have hi : v.toInt = v.toNat - 2 ^ 64 := by
      rw [BitVec.toInt_eq_toNat_cond]; split <;> omega
    simp only [if_true]
    rw [BitVec.allOnes_xor, BitVec.toNat_not, BitVec.toNat_shiftLeft, Nat.shiftLeft_eq, hi]
    have hneg : ¬ ((0 : Int) ≤ (v.toNat : Int) - 2 ^ 64) := by omega
    simp only [hneg, if_false]
    omega

theorem vintEnc_eq_spec (v : BitVec 64) : vintEnc v = svintSpec v := by
  unfold vintEnc svintSpec
  rw [uvintEnc_eq_spec, zigzag_eq_spec]

theorem vintEnc32_eq_spec (x : BitVec 32) : vintEnc (x.signExtend 64) = svintSpec x := by
  rw [vintEnc_eq_spec]
  unfold svintSpec
  rw [BitVec.toInt_signExtend_of_le (by omega)]

/-! ### tables -/

theorem fixedWidth_eq : ∀ t : CqlTy, fixedWidth t = t.sizeForVector
  | .native n => by cases n <;> rfl
  | .vector t dim => by
    simp only [fixedWidth, CqlTy.sizeForVector, fixedWidth_eq t]
    rfl
  | .list _ => rfl
  | .set _ => rfl
  | .map _ _ => rfl
  | .tuple _ => rfl
  | .udt _ _ _ => rfl

/-- The implementation model's scalar table against §6. -/
theorem scalar_spec (n : NativeTy) (v : CqlVal) (acc : List NativeTy) (body : Bytes) (viaB : Bool)
    (hv : viewOf v = .scalar acc body viaB) (hn : n ∈ acc) : specNative n v = some body := by
  cases v <;> simp [viewOf] at hv <;> obtain ⟨rfl, rfl, _⟩ := hv <;> simp at hn <;>
    first
    | (subst hn; simp [specNative]; rw [vintEnc32_eq_spec, vintEnc32_eq_spec, vintEnc_eq_spec]; done)
    | (subst hn; simp [specNative])
    | (rcases hn with rfl | rfl <;> simp [specNative])

theorem lookupLast_eq_filter (n : String) : ∀ m : List (String × CqlVal),
    lookupLast n m = ((m.filter (fun p => p.1 == n)).getLast?).map (·.2)
  | [] => rfl
  | (k, v) :: r => by
    simp only [lookupLast, lookupLast_eq_filter n r]
    by_cases hk : k = n
    · subst hk
      simp only [List.filter_cons, beq_self_eq_true, if_true]
      cases hf : List.filter (fun p => p.1 == k) r with
      | nil => simp
      | cons a l =>
        have : (a :: l).getLast? = some ((a :: l).getLast (by simp)) := List.getLast?_eq_some_getLast (by simp)
        simp [this]
    · have : ((k, v).1 == n) = false := by simp [hk]
      simp only [List.filter_cons, this, Bool.false_eq_true, if_false, hk]
      cases ((List.filter (fun p => p.1 == n) r).getLast?) <;> rfl

theorem fieldOf_eq (n : String) (m : List (String × CqlVal)) : fieldOf n m = lookupOrNull n m := by
  unfold fieldOf lookupOrNull
  rw [lookupLast_eq_filter]
  cases (List.filter (fun p => p.1 == n) m).getLast? <;> rfl

/-! ### unfolding `layoutBody` along the serializer's view of the value -/

theorem layoutBody_scalar (t : CqlTy) (v : CqlVal) (acc : List NativeTy) (b : Bytes) (viaB : Bool)
    (h : viewOf v = .scalar acc b viaB) : layoutBody t v = match t with | .native n => specNative n v | _ => none := by
  cases v <;> simp [viewOf] at h <;> cases t <;> simp [layoutBody, elemsOf, specNative]

theorem layoutBody_empty (t : CqlTy) : layoutBody t .empty = some [] := by simp [layoutBody]

theorem layoutBody_list (elt : CqlTy) (v : CqlVal) (vs : List CqlVal) (h : viewOf v = .seq vs) :
    layoutBody (.list elt) v = (catOpt (fun x => layoutCell elt x) vs).map (fun cells => beBytes 4 vs.length ++ cells) := by
  cases v <;> simp [viewOf] at h <;> subst h <;> simp [layoutBody, elemsOf]

theorem layoutBody_set (elt : CqlTy) (v : CqlVal) (vs : List CqlVal) (h : viewOf v = .seq vs) :
    layoutBody (.set elt) v = (catOpt (fun x => layoutCell elt x) vs).map (fun cells => beBytes 4 vs.length ++ cells) := by
  cases v <;> simp [viewOf] at h <;> subst h <;> simp [layoutBody, elemsOf]

theorem layoutBody_vector (elt : CqlTy) (dim : Nat) (v : CqlVal) (vs : List CqlVal) (h : viewOf v = .seq vs) :
    layoutBody (.vector elt dim) v =
      (if vs.length = dim then vectorBody (fun x => layoutBody elt x) (fixedWidth elt).isSome vs else none) := by
  cases v <;> simp [viewOf] at h <;> subst h <;> simp [layoutBody, elemsOf]

theorem layoutBody_map (kt vt : CqlTy) (v : CqlVal) (kvs : List (CqlVal × CqlVal)) (h : viewOf v = .map kvs) :
    layoutBody (.map kt vt) v =
      (catOpt (pairCell (fun k => layoutCell kt k) (fun x => layoutCell vt x)) kvs).map
        (fun cells => beBytes 4 kvs.length ++ cells) := by
  cases v <;> simp [viewOf] at h <;> subst h <;> simp [layoutBody]

theorem layoutBody_tuple (ts : List CqlTy) (v : CqlVal) (fs : List CqlVal) (h : viewOf v = .tuple fs) :
    layoutBody (.tuple ts) v = if fs.length ≤ ts.length then layoutTuple ts fs else none := by
  cases v <;> simp [viewOf] at h <;> subst h <;> simp [layoutBody]

theorem layoutBody_udt (ks name : String) (fields : List (String × CqlTy)) (v : CqlVal) (vks vname : String)
    (m : List (String × CqlVal)) (h : viewOf v = .udt vks vname m) :
    layoutBody (.udt ks name fields) v = layoutUdt fields m := by
  cases v <;> simp [viewOf] at h <;> obtain ⟨_, _, rfl⟩ := h <;> simp [layoutBody]

theorem layoutCell_nonnull (t : CqlTy) (v : CqlVal)
    (hn : ∀ w, viewOf v = w → (match w with | .null => False | .unset => False | _ => True)) :
    layoutCell t v = (layoutBody t v).map bytesOf := by
  have := hn _ rfl
  cases v <;> simp [viewOf] at this <;> simp [layoutCell]

/-- From the content statement at `t` to the `[bytes]` statement at `t`. -/
theorem cell_of_body (t : CqlTy)
    (hb : ∀ v body, encSpec t v false = .ok body → body.length < 2 ^ 64 → layoutBody t v = some body)
    (v : CqlVal) (cell : Bytes) (h : encSpec t v true = .ok cell) : layoutCell t v = some cell := by
  by_cases hnull : v = .null
  · subst hnull
    rw [encSpec] at h
    simp only [viewOf, if_true] at h
    cases h; simp [layoutCell, nullBytes]
  by_cases hunset : v = .unset
  · subst hunset
    rw [encSpec] at h
    simp only [viewOf, if_true] at h
    cases h; simp [layoutCell, unsetBytes]
  have hn : ∀ w, viewOf v = w → (match w with | .null => False | .unset => False | _ => True) := by
    intro w hw; subst hw
    cases v <;> simp [viewOf] at hnull hunset ⊢
  obtain ⟨body, hbody, hlen, rfl⟩ := encSpec_cell t v cell h hn
  have hl : body.length < 2 ^ 64 := by have := i32Max_lt; omega
  rw [layoutCell_nonnull t v hn, hb v body hbody hl]
  rfl

theorem concat_cat {α : Type} (g : α → Except SerErr Bytes) (f : α → Option Bytes) :
    ∀ (vs : List α) (cells : Bytes), (∀ x, x ∈ vs → ∀ c, g x = .ok c → f x = some c) →
      concatEnc g vs = .ok cells → catOpt f vs = some cells := by
  intro vs
  induction vs with
  | nil => intro cells _ h; simp [concatEnc] at h; subst h; rfl
  | cons v vs ih =>
    intro cells hall h
    obtain ⟨c, r, hc, hr, rfl⟩ := concatEnc_cons_ok g v vs cells h
    simp only [catOpt, hall v List.mem_cons_self c hc,
      ih r (fun x hx => hall x (List.mem_cons_of_mem _ hx)) hr]

theorem concat_cat_len {α : Type} (g : α → Except SerErr Bytes) (f : α → Option Bytes) (N : Nat) :
    ∀ (vs : List α) (cells : Bytes), (∀ x, x ∈ vs → ∀ c, g x = .ok c → c.length < N → f x = some c) →
      concatEnc g vs = .ok cells → cells.length < N → catOpt f vs = some cells := by
  intro vs
  induction vs with
  | nil => intro cells _ h _; simp [concatEnc] at h; subst h; rfl
  | cons v vs ih =>
    intro cells hall h hlt
    obtain ⟨c, r, hc, hr, rfl⟩ := concatEnc_cons_ok g v vs cells h
    have hl : c.length < N ∧ r.length < N := by simp only [List.length_append] at hlt; omega
    simp only [catOpt, hall v List.mem_cons_self c hc hl.1,
      ih r (fun x hx => hall x (List.mem_cons_of_mem _ hx)) hr hl.2]

/-- The content statement: what `encSpec` produces without a frame is the protocol's content. -/
def Sound (t : CqlTy) : Prop :=
  wfTy t = true → ∀ (v : CqlVal) (body : Bytes), encSpec t v false = .ok body → body.length < 2 ^ 64 →
    layoutBody t v = some body

def SoundTuple (ts : List CqlTy) : Prop :=
  wfTys ts = true → ∀ (fs : List CqlVal) (cells : Bytes), encTupleSpec ts fs = .ok cells →
    layoutTuple ts fs = some cells

def SoundUdt (fields : List (String × CqlTy)) : Prop :=
  wfFields fields = true → (fields.map (·.1)).Nodup →
    ∀ (m m' : List (String × CqlVal)) (cells : Bytes) (l : List (String × CqlVal)),
      (∀ f, f ∈ fields → lookupLast f.1 m' = lookupLast f.1 m) →
      encUdtSpec fields m' = .ok (cells, l) → layoutUdt fields m = some cells

theorem frame_false (b body : Bytes) (h : frame false b = .ok body) : body = b := by
  simp [frame] at h; exact h.symm

theorem varElem_cat (elt : CqlTy)
    (hb : ∀ v body, encSpec elt v false = .ok body → body.length < 2 ^ 64 → layoutBody elt v = some body)
    (x : CqlVal) (c : Bytes) (h : varElemSpec (fun v => encSpec elt v false) x = .ok c) (hl : c.length < 2 ^ 64) :
    (layoutBody elt x).map (fun b => uvintSpec b.length ++ b) = some c := by
  obtain ⟨eb, heb, rfl⟩ := varElemSpec_ok _ x c h
  have hle : eb.length < 2 ^ 64 := by simp only [List.length_append] at hl; omega
  rw [hb x eb heb hle]
  simp only [Option.map_some, uvintEnc_eq_spec, BitVec.toNat_ofNat, Nat.mod_eq_of_lt hle]

mutual
theorem sound : ∀ t : CqlTy, Sound t
  | .native n => by
    intro hty v body h hlt
    rw [encSpec] at h
    cases hv : viewOf v with
    | null => rw [hv] at h; simp at h
    | unset => rw [hv] at h; simp at h
    | empty =>
      have : v = .empty := by cases v <;> simp [viewOf] at hv; rfl
      subst this
      rw [hv] at h
      simp only [frameChecked] at h
      split at h
      · split at h
        · cases h
        · simp at h; subst h; exact layoutBody_empty _
      · cases h
    | scalar acc b viaB =>
      rw [hv] at h
      simp only [encScalarSpec] at h
      split at h
      · rename_i hn
        have hb := frame_false_ok b body viaB h
        subst hb
        rw [layoutBody_scalar _ v acc body viaB hv]
        exact scalar_spec n v acc body viaB hv (by simpa using hn)
      · cases h
    | seq vs => rw [hv] at h; cases h
    | map kvs => rw [hv] at h; cases h
    | tuple fs => rw [hv] at h; cases h
    | udt ks name m => rw [hv] at h; cases h
  | .list elt => by
    intro hty v body h hlt
    rw [encSpec] at h
    cases hv : viewOf v with
    | null => rw [hv] at h; simp at h
    | unset => rw [hv] at h; simp at h
    | empty =>
      have : v = .empty := by cases v <;> simp [viewOf] at hv; rfl
      subst this
      rw [hv] at h
      simp only [frameChecked] at h
      split at h
      · split at h
        · cases h
        · simp at h; subst h; exact layoutBody_empty _
      · cases h
    | scalar acc b viaB => rw [hv] at h; simp [encScalarSpec] at h
    | seq vs =>
      rw [hv] at h
      simp only at h
      split at h
      · cases h
      · cases hc : concatEnc (fun v => encSpec elt v true) vs with
        | error e => rw [hc] at h; cases h
        | ok cells =>
          rw [hc] at h
          have := frame_false _ _ h
          subst this
          rw [layoutBody_list elt v vs hv,
            concat_cat _ (fun x => layoutCell elt x) vs cells
              (fun x _ c hx => cell_of_body elt (sound elt (by simpa [wfTy] using hty)) x c hx) hc]
          rfl
    | map kvs => rw [hv] at h; cases h
    | tuple fs => rw [hv] at h; cases h
    | udt ks name m => rw [hv] at h; cases h
  | .set elt => by
    intro hty v body h hlt
    rw [encSpec] at h
    cases hv : viewOf v with
    | null => rw [hv] at h; simp at h
    | unset => rw [hv] at h; simp at h
    | empty =>
      have : v = .empty := by cases v <;> simp [viewOf] at hv; rfl
      subst this
      rw [hv] at h
      simp only [frameChecked] at h
      split at h
      · split at h
        · cases h
        · simp at h; subst h; exact layoutBody_empty _
      · cases h
    | scalar acc b viaB => rw [hv] at h; simp [encScalarSpec] at h
    | seq vs =>
      rw [hv] at h
      simp only at h
      split at h
      · cases h
      · cases hc : concatEnc (fun v => encSpec elt v true) vs with
        | error e => rw [hc] at h; cases h
        | ok cells =>
          rw [hc] at h
          have := frame_false _ _ h
          subst this
          rw [layoutBody_set elt v vs hv,
            concat_cat _ (fun x => layoutCell elt x) vs cells
              (fun x _ c hx => cell_of_body elt (sound elt (by simpa [wfTy] using hty)) x c hx) hc]
          rfl
    | map kvs => rw [hv] at h; cases h
    | tuple fs => rw [hv] at h; cases h
    | udt ks name m => rw [hv] at h; cases h
  | .map kt vt => by
    intro hty v body h hlt
    rw [encSpec] at h
    cases hv : viewOf v with
    | null => rw [hv] at h; simp at h
    | unset => rw [hv] at h; simp at h
    | empty =>
      have : v = .empty := by cases v <;> simp [viewOf] at hv; rfl
      subst this
      rw [hv] at h
      simp only [frameChecked] at h
      split at h
      · split at h
        · cases h
        · simp at h; subst h; exact layoutBody_empty _
      · cases h
    | scalar acc b viaB => rw [hv] at h; simp [encScalarSpec] at h
    | map kvs =>
      rw [hv] at h
      simp only at h
      simp only [wfTy, Bool.and_eq_true] at hty
      split at h
      · cases h
      · cases hc : concatEnc (pairSpec (fun k => encSpec kt k true) (fun v => encSpec vt v true)) kvs with
        | error e => rw [hc] at h; cases h
        | ok cells =>
          rw [hc] at h
          have := frame_false _ _ h
          subst this
          rw [layoutBody_map kt vt v kvs hv,
            concat_cat _ (pairCell (fun k => layoutCell kt k) (fun x => layoutCell vt x)) kvs cells
              (fun kv _ c hx => by
                obtain ⟨kc, vc, hk, hvv, rfl⟩ := pairSpec_ok _ _ kv c hx
                simp only [pairCell, cell_of_body kt (sound kt hty.1) kv.1 kc hk,
                  cell_of_body vt (sound vt hty.2) kv.2 vc hvv]) hc]
          rfl
    | seq vs => rw [hv] at h; cases h
    | tuple fs => rw [hv] at h; cases h
    | udt ks name m => rw [hv] at h; cases h
  | .vector elt dim => by
    intro hty v body h hlt
    rw [encSpec] at h
    cases hv : viewOf v with
    | null => rw [hv] at h; simp at h
    | unset => rw [hv] at h; simp at h
    | empty =>
      have : v = .empty := by cases v <;> simp [viewOf] at hv; rfl
      subst this
      rw [hv] at h
      simp only [frameChecked] at h
      split at h
      · split at h
        · cases h
        · simp at h; subst h; exact layoutBody_empty _
      · cases h
    | scalar acc b viaB => rw [hv] at h; simp [encScalarSpec] at h
    | seq vs =>
      rw [hv] at h
      simp only at h
      have hty' : wfTy elt = true := by simpa [wfTy] using hty
      split at h
      · cases h
      · rename_i hlen
        have hlen' : vs.length = dim := by simpa using hlen
        rw [layoutBody_vector elt dim v vs hv, if_pos hlen', fixedWidth_eq]
        cases hs : elt.sizeForVector with
        | some sz =>
          rw [hs] at h
          simp only at h
          cases hc : concatEnc (fun v => encSpec elt v false) vs with
          | error e => rw [hc] at h; cases h
          | ok cells =>
            rw [hc] at h
            have := frame_false _ _ h
            subst this
            simp only [vectorBody, Option.isSome_some, if_true]
            exact concat_cat_len _ (fun x => layoutBody elt x) (2 ^ 64) vs body
              (fun x _ c hx hl => sound elt hty' x c hx hl) hc hlt
        | none =>
          rw [hs] at h
          simp only at h
          cases hc : concatEnc (varElemSpec (fun v => encSpec elt v false)) vs with
          | error e => rw [hc] at h; cases h
          | ok cells =>
            rw [hc] at h
            have := frame_false _ _ h
            subst this
            simp only [vectorBody, Option.isSome_none, Bool.false_eq_true, if_false]
            exact concat_cat_len _ _ (2 ^ 64) vs body
              (fun x _ c hx hl => varElem_cat elt (sound elt hty') x c hx hl) hc hlt
    | map kvs => rw [hv] at h; cases h
    | tuple fs => rw [hv] at h; cases h
    | udt ks name m => rw [hv] at h; cases h
  | .tuple ts => by
    intro hty v body h hlt
    rw [encSpec] at h
    cases hv : viewOf v with
    | null => rw [hv] at h; simp at h
    | unset => rw [hv] at h; simp at h
    | empty =>
      have : v = .empty := by cases v <;> simp [viewOf] at hv; rfl
      subst this
      rw [hv] at h
      simp only [frameChecked] at h
      split at h
      · split at h
        · cases h
        · simp at h; subst h; exact layoutBody_empty _
      · cases h
    | scalar acc b viaB => rw [hv] at h; simp [encScalarSpec] at h
    | tuple fs =>
      rw [hv] at h
      simp only at h
      split at h
      · cases h
      · rename_i hlen
        cases hc : encTupleSpec ts fs with
        | error e => rw [hc] at h; cases h
        | ok cells =>
          rw [hc] at h
          have := frame_false _ _ h
          subst this
          rw [layoutBody_tuple ts v fs hv, if_pos (by omega)]
          exact soundTuple ts (by simpa [wfTy] using hty) fs body hc
    | seq vs => rw [hv] at h; cases h
    | map kvs => rw [hv] at h; cases h
    | udt ks name m => rw [hv] at h; cases h
  | .udt dks dname fields => by
    intro hty v body h hlt
    rw [encSpec] at h
    cases hv : viewOf v with
    | null => rw [hv] at h; simp at h
    | unset => rw [hv] at h; simp at h
    | empty =>
      have : v = .empty := by cases v <;> simp [viewOf] at hv; rfl
      subst this
      rw [hv] at h
      simp only [frameChecked] at h
      split at h
      · split at h
        · cases h
        · simp at h; subst h; exact layoutBody_empty _
      · cases h
    | scalar acc b viaB => rw [hv] at h; simp [encScalarSpec] at h
    | udt ks name m =>
      rw [hv] at h
      simp only at h
      simp only [wfTy, Bool.and_eq_true, decide_eq_true_eq] at hty
      split at h
      · cases h
      · cases hc : encUdtSpec fields m with
        | error e => rw [hc] at h; cases h
        | ok r =>
          obtain ⟨cells, l⟩ := r
          rw [hc] at h
          simp only at h
          split at h
          · cases h
          · have := frame_false _ _ h
            subst this
            rw [layoutBody_udt dks dname fields v ks name m hv]
            exact soundUdt fields hty.2 hty.1 m m body l (fun _ _ => rfl) hc
    | seq vs => rw [hv] at h; cases h
    | map kvs => rw [hv] at h; cases h
    | tuple fs => rw [hv] at h; cases h
theorem soundTuple : ∀ ts : List CqlTy, SoundTuple ts
  | [] => by intro _ fs cells h; cases fs <;> simp [encTupleSpec] at h <;> subst h <;> simp [layoutTuple]
  | t :: ts => by
    intro hty fs cells h
    simp only [wfTys, Bool.and_eq_true] at hty
    cases fs with
    | nil => simp [encTupleSpec] at h; subst h; simp [layoutTuple]
    | cons f fs =>
      rw [encTupleSpec] at h
      cases hc : encSpec t f true with
      | error e => rw [hc] at h; cases h
      | ok c =>
        rw [hc] at h
        simp only at h
        cases hr : encTupleSpec ts fs with
        | error e => rw [hr] at h; cases h
        | ok r =>
          rw [hr] at h
          cases h
          simp only [layoutTuple, cell_of_body t (sound t hty.1) f c hc, soundTuple ts hty.2 fs r hr]
theorem soundUdt : ∀ fields : List (String × CqlTy), SoundUdt fields
  | [] => by intro _ _ m m' cells l _ h; simp [encUdtSpec] at h; simp [layoutUdt, h.1]
  | (n, t) :: rest => by
    intro hty hnd m m' cells l hag h
    simp only [wfFields, Bool.and_eq_true] at hty
    simp only [List.map_cons, List.nodup_cons] at hnd
    have hn := hag (n, t) List.mem_cons_self
    simp only at hn
    rw [encUdtSpec, hn] at h
    have hagr : ∀ f, f ∈ rest → lookupLast f.1 m' = lookupLast f.1 m :=
      fun f hf => hag f (List.mem_cons_of_mem _ hf)
    cases hl : lookupLast n m with
    | none =>
      rw [hl] at h
      simp only at h
      cases hr : encUdtSpec rest m' with
      | error e => rw [hr] at h; cases h
      | ok rr =>
        obtain ⟨r, l'⟩ := rr
        rw [hr] at h
        cases h
        have hf : fieldOf n m = .null := by rw [fieldOf_eq]; simp [lookupOrNull, hl]
        simp only [layoutUdt, hf, soundUdt rest hty.2 hnd.2 m m' r _ hagr hr]
        simp [layoutCell, nullBytes]
    | some v =>
      rw [hl] at h
      simp only at h
      cases hc : encSpec t v true with
      | error e => rw [hc] at h; cases h
      | ok c =>
        rw [hc] at h
        simp only at h
        cases hr : encUdtSpec rest (removeName n m') with
        | error e => rw [hr] at h; cases h
        | ok rr =>
          obtain ⟨r, l'⟩ := rr
          rw [hr] at h
          cases h
          have hag' : ∀ f, f ∈ rest → lookupLast f.1 (removeName n m') = lookupLast f.1 m := by
            intro f hf
            have hne : f.1 ≠ n := by
              intro e
              apply hnd.1
              rw [← e]
              exact List.mem_map_of_mem hf
            rw [lookupLast_removeName n f.1 m' hne]
            exact hagr f hf
          have hf : fieldOf n m = v := by rw [fieldOf_eq]; simp [lookupOrNull, hl]
          simp only [layoutUdt, hf, cell_of_body t (sound t hty.1) v c hc,
            soundUdt rest hty.2 hnd.2 m (removeName n m') r _ hag' hr]
end

end ScyllaVerif.Proofs.CodecSpec

import ScyllaVerif.Model.FrameStream
/-! Helper lemmas for C10: the frame reader on encoded frame streams cut at any offset. -/
namespace ScyllaVerif.FrameStream

theorem u32_roundtrip (n : Nat) (h : n < 4294967296) :
    u32OfBytes (UInt8.ofNat (n / 16777216 % 256)) (UInt8.ofNat (n / 65536 % 256)) (UInt8.ofNat (n / 256 % 256))
      (UInt8.ofNat (n % 256)) = n := by
  unfold u32OfBytes
  simp only [UInt8.toNat_ofNat']
  omega

theorem i16_roundtrip (i : Int) (h1 : -32768 ≤ i) (h2 : i < 32768) :
    i16OfBytes (UInt8.ofNat ((if i < 0 then i + 65536 else i).toNat / 256 % 256))
      (UInt8.ofNat ((if i < 0 then i + 65536 else i).toNat % 256)) = i := by
  unfold i16OfBytes
  simp only [UInt8.toNat_ofNat']
  split <;> split <;> omega

theorem encode_length (f : Frame) : (encode f).length = 9 + f.body.length := by
  simp [encode, bytesOfI16, bytesOfU32]; omega

/-- Reading an encoded frame followed by anything gives that frame back and leaves the rest. -/
theorem readFrame_encode (f : Frame) (hw : f.wf) (rest : List UInt8) :
    readFrame (encode f ++ rest) = .frame f rest := by
  obtain ⟨hop, hs1, hs2, hlen⟩ := hw
  simp only [encode, bytesOfI16, bytesOfU32, List.cons_append, List.nil_append, readFrame]
  have v1 : ((0x84 : UInt8) &&& 0x80 != 0x80) = false := by decide
  have v2 : ((0x84 : UInt8) &&& 0x7f != 0x04) = false := by decide
  simp only [v1, v2, hop, Bool.false_eq_true, if_false, Bool.not_true]
  rw [u32_roundtrip _ hlen, i16_roundtrip _ hs1 hs2]
  have : ¬ (f.body ++ rest).length < f.body.length := by simp
  simp only [this, if_false, List.take_left', List.drop_left']

/-- Fewer than 9 bytes (but at least one): the header read is cut short. -/
theorem readFrame_short (l : List UInt8) (h0 : l ≠ []) (h9 : l.length < 9) :
    readFrame l = .cutInHeader l.length := by
  match l, h0, h9 with
  | [_], _, _ => rfl
  | [_, _], _, _ => rfl
  | [_, _, _], _, _ => rfl
  | [_, _, _, _], _, _ => rfl
  | [_, _, _, _, _], _, _ => rfl
  | [_, _, _, _, _, _], _, _ => rfl
  | [_, _, _, _, _, _, _], _, _ => rfl
  | [_, _, _, _, _, _, _, _], _, _ => rfl
  | _ :: _ :: _ :: _ :: _ :: _ :: _ :: _ :: _ :: _, _, h => simp only [List.length_cons] at h; omega

/-- A cut strictly inside an encoded frame: nothing is returned, and the tail says where the cut is. -/
theorem readFrame_cut (f : Frame) (hw : f.wf) (rest : List UInt8) (k : Nat) (hk : k < 9 + f.body.length) :
    readFrame ((encode f ++ rest).take k) =
      if k = 0 then .empty
      else if k < 9 then .cutInHeader k
      else .cutInBody (f.body.length - (k - 9)) f.body.length := by
  obtain ⟨hop, hs1, hs2, hlen⟩ := hw
  split
  · rename_i h; subst h; simp [readFrame]
  · rename_i h0
    have hl : ((encode f ++ rest).take k).length = k := by
      rw [List.length_take, List.length_append, encode_length]; omega
    split
    · rename_i h9
      rw [readFrame_short _ (by intro e; rw [e] at hl; simp at hl; omega) (by omega), hl]
    · rename_i h9
      obtain ⟨j, rfl⟩ : ∃ j, k = 9 + j := ⟨k - 9, by omega⟩
      simp only [encode, bytesOfI16, bytesOfU32, List.cons_append, List.nil_append]
      have v1 : ((0x84 : UInt8) &&& 0x80 != 0x80) = false := by decide
      have v2 : ((0x84 : UInt8) &&& 0x7f != 0x04) = false := by decide
      have e9 : 9 + j = j + 1 + 1 + 1 + 1 + 1 + 1 + 1 + 1 + 1 := by omega
      rw [e9]
      simp only [List.take_succ_cons, readFrame]
      simp only [v1, v2, hop, Bool.false_eq_true, if_false, Bool.not_true]
      rw [u32_roundtrip _ hlen]
      have hj : ((f.body ++ rest).take j).length = j := by
        rw [List.length_take, List.length_append]; omega
      have hjl : j < f.body.length := by omega
      simp only [hj, hjl, if_true]
      congr 1

/-! ### the reader loop -/

theorem readFrames_frame {bytes rest : List UInt8} {f : Frame} (h : readFrame bytes = .frame f rest) :
    readFrames bytes = (f :: (readFrames rest).1, (readFrames rest).2) := by
  rw [readFrames]
  split <;> simp_all

/-- How the stream ends when no whole frame can be read. -/
def tailOf : ReadRes → Tail
  | .frame _ _ => .boundary
  | .empty => .boundary
  | .cutInHeader n => .cutInHeader n
  | .cutInBody m l => .cutInBody m l
  | .bad w => .badHeader w

theorem readFrames_stop {bytes : List UInt8} (h : ∀ f rest, readFrame bytes ≠ .frame f rest) :
    readFrames bytes = ([], tailOf (readFrame bytes)) := by
  rw [readFrames]
  split <;> simp_all [tailOf]

theorem readFrames_nil : readFrames [] = ([], .boundary) := by
  rw [readFrames_stop (by intro f rest; simp [readFrame])]; rfl

/-- Bytes of a frame sequence as the server writes them. -/
def encodeAll (frames : List Frame) : List UInt8 := frames.flatMap encode

/-- `cut_never_partial`, the workhorse: reading the first `k` bytes of an encoded frame sequence yields the first
`n` frames (for some `n`), and the tail is `clean` exactly when the cut falls on the boundary after them;
otherwise it is a cut inside the header or the body — never a bad header, never a frame that was not sent. -/
theorem readFrames_take (frames : List Frame) (hwf : ∀ f ∈ frames, f.wf) (k : Nat) :
    ∃ n, n ≤ frames.length ∧ (readFrames ((encodeAll frames).take k)).1 = frames.take n ∧
      (encodeAll (frames.take n)).length ≤ k ∧
      ((readFrames ((encodeAll frames).take k)).2 = .boundary ↔
          (k = (encodeAll (frames.take n)).length ∨ (n = frames.length ∧ (encodeAll frames).length ≤ k))) ∧
      (∀ w, (readFrames ((encodeAll frames).take k)).2 ≠ .badHeader w) ∧
      (n = frames.length ∨ k < (encodeAll (frames.take (n + 1))).length) := by
  induction frames generalizing k with
  | nil =>
    refine ⟨0, Nat.le_refl _, ?_, ?_, ?_, ?_, Or.inl rfl⟩
    · simp [encodeAll, readFrames_nil]
    · simp [encodeAll]
    · simp [encodeAll, readFrames_nil]
    · simp [encodeAll, readFrames_nil]
  | cons f fs ih =>
    have hf : f.wf := hwf f (List.mem_cons_self)
    have hfs : ∀ g ∈ fs, g.wf := fun g hg => hwf g (List.mem_cons_of_mem _ hg)
    have hall : encodeAll (f :: fs) = encode f ++ encodeAll fs := by simp [encodeAll]
    by_cases hk : k < 9 + f.body.length
    · -- the cut is inside the first frame
      have hcut := readFrame_cut f hf (encodeAll fs) k hk
      rw [← hall] at hcut
      have hstop : ∀ g rest, readFrame ((encodeAll (f :: fs)).take k) ≠ .frame g rest := by
        intro g rest; rw [hcut]; split
        · simp
        · split <;> simp
      refine ⟨0, Nat.zero_le _, ?_, ?_, ?_, ?_, ?_⟩
      rotate_right
      · right
        simp only [List.take_succ_cons, List.take_zero]
        have : encodeAll [f] = encode f := by simp [encodeAll]
        rw [this, encode_length]; exact hk
      · rw [readFrames_stop hstop]; rfl
      · simp [encodeAll]
      · rw [readFrames_stop hstop, hcut]
        by_cases h0 : k = 0
        · subst h0; simp [encodeAll, tailOf]
        · by_cases h9 : k < 9
          · simp [h9, encodeAll, h0, tailOf]
          · simp [h9, encodeAll, h0, tailOf]
      · intro w
        rw [readFrames_stop hstop, hcut]
        by_cases h0 : k = 0
        · simp [h0, tailOf]
        · by_cases h9 : k < 9 <;> simp [h9, h0, tailOf]
    · -- the first frame is whole
      have hk' : 9 + f.body.length ≤ k := Nat.le_of_not_lt hk
      have htake : (encodeAll (f :: fs)).take k = encode f ++ (encodeAll fs).take (k - (9 + f.body.length)) := by
        rw [hall, List.take_append, encode_length]
        rw [List.take_of_length_le (by rw [encode_length]; exact hk')]
      rw [htake, readFrames_frame (readFrame_encode f hf _)]
      obtain ⟨n, hn, hpre, hle, hclean, hbad, hmax⟩ := ih hfs (k - (9 + f.body.length))
      refine ⟨n + 1, by simp only [List.length_cons]; omega, ?_, ?_, ?_, ?_, ?_⟩
      rotate_right
      · rcases hmax with e | hlt
        · left; simp only [List.length_cons, e]
        · right
          simp only [List.take_succ_cons]
          have : encodeAll (f :: fs.take (n + 1)) = encode f ++ encodeAll (fs.take (n + 1)) := by simp [encodeAll]
          rw [this, List.length_append, encode_length]; omega
      · simp only [List.take_succ_cons, hpre]
      · simp only [List.take_succ_cons]
        have : encodeAll (f :: fs.take n) = encode f ++ encodeAll (fs.take n) := by simp [encodeAll]
        rw [this, List.length_append, encode_length]; omega
      · simp only [List.take_succ_cons]
        have e1 : encodeAll (f :: fs.take n) = encode f ++ encodeAll (fs.take n) := by simp [encodeAll]
        rw [hclean, e1, hall, List.length_append, List.length_append, encode_length]
        simp only [List.length_cons]
        constructor
        · rintro (h | ⟨h1, h2⟩)
          · left; omega
          · right; exact ⟨by omega, by omega⟩
        · rintro (h | ⟨h1, h2⟩)
          · left; omega
          · right; exact ⟨by omega, by omega⟩
      · exact hbad

/-! ### arbitrary bytes -/

theorem version_exact (v : UInt8) (h1 : (v &&& 0x80 != 0x80) = false) (h2 : (v &&& 0x7f != 0x04) = false) : v = 0x84 := by
  have key : ∀ n, n < 256 → ((UInt8.ofNat n) &&& 0x80 != 0x80) = false → ((UInt8.ofNat n) &&& 0x7f != 0x04) = false →
      UInt8.ofNat n = 0x84 := by decide +kernel
  have := key v.toNat (UInt8.toNat_lt v)
  simp only [UInt8.ofNat_toNat] at this
  exact this h1 h2

theorem bytesOfI16_i16OfBytes (hi lo : UInt8) : bytesOfI16 (i16OfBytes hi lo) = [hi, lo] := by
  have h1 := UInt8.toNat_lt hi
  have h2 := UInt8.toNat_lt lo
  unfold bytesOfI16 i16OfBytes
  simp only
  have ehi : UInt8.ofNat hi.toNat = hi := UInt8.ofNat_toNat
  have elo : UInt8.ofNat lo.toNat = lo := UInt8.ofNat_toNat
  split
  · rename_i hge
    have : (if ((hi.toNat * 256 + lo.toNat : Nat) : Int) - 65536 < 0 then ((hi.toNat * 256 + lo.toNat : Nat) : Int) - 65536 + 65536 else ((hi.toNat * 256 + lo.toNat : Nat) : Int) - 65536).toNat = hi.toNat * 256 + lo.toNat := by
      split <;> omega
    rw [this]
    have a : (hi.toNat * 256 + lo.toNat) / 256 % 256 = hi.toNat := by omega
    have b : (hi.toNat * 256 + lo.toNat) % 256 = lo.toNat := by omega
    rw [a, b, ehi, elo]
  · rename_i hge
    have : (if ((hi.toNat * 256 + lo.toNat : Nat) : Int) < 0 then ((hi.toNat * 256 + lo.toNat : Nat) : Int) + 65536 else ((hi.toNat * 256 + lo.toNat : Nat) : Int)).toNat = hi.toNat * 256 + lo.toNat := by
      split <;> omega
    rw [this]
    have a : (hi.toNat * 256 + lo.toNat) / 256 % 256 = hi.toNat := by omega
    have b : (hi.toNat * 256 + lo.toNat) % 256 = lo.toNat := by omega
    rw [a, b, ehi, elo]

theorem bytesOfU32_u32OfBytes (a b c d : UInt8) : bytesOfU32 (u32OfBytes a b c d) = [a, b, c, d] := by
  have h1 := UInt8.toNat_lt a
  have h2 := UInt8.toNat_lt b
  have h3 := UInt8.toNat_lt c
  have h4 := UInt8.toNat_lt d
  unfold bytesOfU32 u32OfBytes
  have e1 : (((a.toNat * 256 + b.toNat) * 256 + c.toNat) * 256 + d.toNat) / 16777216 % 256 = a.toNat := by omega
  have e2 : (((a.toNat * 256 + b.toNat) * 256 + c.toNat) * 256 + d.toNat) / 65536 % 256 = b.toNat := by omega
  have e3 : (((a.toNat * 256 + b.toNat) * 256 + c.toNat) * 256 + d.toNat) / 256 % 256 = c.toNat := by omega
  have e4 : (((a.toNat * 256 + b.toNat) * 256 + c.toNat) * 256 + d.toNat) % 256 = d.toNat := by omega
  rw [e1, e2, e3, e4]
  simp only [UInt8.ofNat_toNat]

/-- Whatever bytes the peer sends: a frame the reader returns is exactly the bytes it consumed — the header it
validated and a body of exactly the announced length; no partial or padded frame is ever produced. -/
theorem readFrame_exact (bytes : List UInt8) (f : Frame) (rest : List UInt8)
    (h : readFrame bytes = .frame f rest) : bytes = encode f ++ rest ∧ f.wf := by
  unfold readFrame at h
  split at h
  · cases h
  · rename_i v fl s1 s0 op l3 l2 l1 l0 tl
    split at h
    · cases h
    · rename_i hv1
      split at h
      · cases h
      · rename_i hv2
        split at h
        · cases h
        · rename_i hop
          simp only at h
          split at h
          · cases h
          · rename_i hlen
            cases h
            have hv := version_exact v (by simpa using hv1) (by simpa using hv2)
            have hlen' : u32OfBytes l3 l2 l1 l0 ≤ tl.length := Nat.le_of_not_lt hlen
            have hbl : (tl.take (u32OfBytes l3 l2 l1 l0)).length = u32OfBytes l3 l2 l1 l0 := by
              rw [List.length_take]; omega
            refine ⟨?_, ?_⟩
            · simp only [encode, hbl, bytesOfI16_i16OfBytes, bytesOfU32_u32OfBytes, List.cons_append,
                List.nil_append, List.take_append_drop, hv]
            · refine ⟨by simpa using hop, ?_, ?_, ?_⟩
              · have := UInt8.toNat_lt s1; have := UInt8.toNat_lt s0
                simp only [i16OfBytes]; split <;> omega
              · have := UInt8.toNat_lt s1; have := UInt8.toNat_lt s0
                simp only [i16OfBytes]; split <;> omega
              · simp only [hbl]
                have := UInt8.toNat_lt l3; have := UInt8.toNat_lt l2
                have := UInt8.toNat_lt l1; have := UInt8.toNat_lt l0
                unfold u32OfBytes; omega
  · cases h

/-- Whatever bytes arrive: the whole frames the reader loop returns are, re-encoded and concatenated, exactly the
beginning of those bytes — every returned frame is a contiguous, exact slice of what the peer sent. -/
theorem readFrames_exact (bytes : List UInt8) :
    ∃ rest, bytes = encodeAll (readFrames bytes).1 ++ rest := by
  induction bytes using readFrames.induct with
  | case1 bytes f rest hf hlt fs t hfs ih =>
    obtain ⟨rest', hr⟩ := ih
    rw [readFrames_frame hf]
    refine ⟨rest', ?_⟩
    have := (readFrame_exact bytes f rest hf).1
    simp only [encodeAll, List.flatMap_cons, List.append_assoc]
    rw [this]
    congr 1
  | case2 bytes hf =>
    rw [readFrames_stop (by intro f rest; rw [hf]; simp)]; exact ⟨bytes, by simp [encodeAll]⟩
  | case3 bytes n hf =>
    rw [readFrames_stop (by intro f rest; rw [hf]; simp)]; exact ⟨bytes, by simp [encodeAll]⟩
  | case4 bytes m l hf =>
    rw [readFrames_stop (by intro f rest; rw [hf]; simp)]; exact ⟨bytes, by simp [encodeAll]⟩
  | case5 bytes w hf =>
    rw [readFrames_stop (by intro f rest; rw [hf]; simp)]; exact ⟨bytes, by simp [encodeAll]⟩

end ScyllaVerif.FrameStream

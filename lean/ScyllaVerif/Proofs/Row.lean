import ScyllaVerif.Model.Row
import ScyllaVerif.Proofs.Vint
/-
Helper lemmas for C17 about `Model/Row.lean`: parsing the cells of a buffer that a cell was appended to.
-/
namespace ScyllaVerif.Proofs.Row
open ScyllaVerif.Vint ScyllaVerif.Row ScyllaVerif.Proofs.Vint

def unsetCell : Bytes := [0xff, 0xff, 0xff, 0xfe]
def i32Max : Nat := 2147483647

/-- One `[value]`: what `read_value` accepts. -/
def IsCell (c : Bytes) : Prop :=
  c = nullCell ∨ c = unsetCell ∨ ∃ body, body.length ≤ i32Max ∧ c = beBytes 4 body.length ++ body

theorem resize_append (a s : Bytes) : resize (a ++ s) a.length = a := by
  simp [resize]

theorem beBytes4 (n : Nat) : beBytes 4 n =
    [UInt8.ofNat (n / 256 ^ 3 % 256), UInt8.ofNat (n / 256 ^ 2 % 256), UInt8.ofNat (n / 256 ^ 1 % 256),
     UInt8.ofNat (n / 256 ^ 0 % 256)] := by
  simp [beBytes]

/-- `read_value` on a buffer starting with a cell reads exactly that cell. -/
theorem readValue_cell (c t : Bytes) (hc : IsCell c) : ∃ x, readValue (c ++ t) = some (x, t) := by
  rcases hc with rfl | rfl | ⟨body, hle, rfl⟩
  · exact ⟨.null, by simp [readValue, nullCell, beNat]⟩
  · exact ⟨.unset, by simp [readValue, unsetCell, beNat]⟩
  · refine ⟨.value body, ?_⟩
    have hbe : beNat (beBytes 4 body.length) = body.length := by
      rw [beNat_beBytes]; unfold i32Max at hle; omega
    rw [beBytes4] at hbe ⊢
    unfold i32Max at hle
    simp only [readValue, List.cons_append, List.nil_append, hbe]
    have h1 : body.length ≠ 4294967295 := by omega
    have h2 : body.length ≠ 4294967294 := by omega
    have h3 : ¬ body.length ≥ 2147483648 := by omega
    simp only [h1, h2, h3, if_false]
    simp

/-- `read_value` does not look past the value it reads. -/
theorem readValue_append (bs t rest : Bytes) (x : RawCell) (h : readValue bs = some (x, rest)) :
    readValue (bs ++ t) = some (x, rest ++ t) := by
  match bs, h with
  | a :: b :: c :: d :: r, h =>
    simp only [readValue] at h ⊢
    simp only [List.cons_append]
    split at h
    · cases h; simp [*]
    · split at h
      · cases h; simp [*]
      · split at h
        · cases h
        · split at h
          · cases h
          · rename_i h1 h2 h3 h4
            cases h
            have hlen : beNat [a, b, c, d] ≤ r.length := by
              have := List.length_take (i := beNat [a, b, c, d]) (l := r)
              omega
            simp only [h1, h2, h3, if_false]
            rw [List.take_append_of_le_length hlen, List.drop_append_of_le_length hlen, if_neg h4]
  | [], h => simp [readValue] at h
  | [_], h => simp [readValue] at h
  | [_, _], h => simp [readValue] at h
  | [_, _, _], h => simp [readValue] at h

/-- `read_value` consumes at least the four length bytes. -/
theorem readValue_shorter (bs rest : Bytes) (x : RawCell) (h : readValue bs = some (x, rest)) :
    rest.length + 4 ≤ bs.length := by
  match bs, h with
  | a :: b :: c :: d :: r, h =>
    simp only [readValue] at h
    split at h
    · cases h; simp
    · split at h
      · cases h; simp
      · split at h
        · cases h
        · split at h
          · cases h
          · cases h; simp
  | [], h => simp [readValue] at h
  | [_], h => simp [readValue] at h
  | [_, _], h => simp [readValue] at h
  | [_, _, _], h => simp [readValue] at h

theorem parseFuel_mono (n : Nat) : ∀ (bs : Bytes) (cs : List RawCell),
    parseCellsFuel n bs = some cs → parseCellsFuel (n + 1) bs = some cs := by
  induction n with
  | zero => intro bs cs h; simp [parseCellsFuel] at h
  | succ n ih =>
    intro bs cs h
    rw [parseCellsFuel] at h ⊢
    split at h
    · rename_i he
      rw [if_pos he]; exact h
    · rename_i hne
      rw [if_neg hne]
      cases hr : readValue bs with
      | none => simp [hr] at h
      | some p =>
        obtain ⟨x, rest⟩ := p
        simp only [hr] at h ⊢
        cases hp : parseCellsFuel n rest with
        | none => simp [hp] at h
        | some cs' =>
          simp only [hp] at h
          simp only [ih rest cs' hp]
          exact h

theorem parseFuel_le (n m : Nat) (hle : n ≤ m) (bs : Bytes) (cs : List RawCell)
    (h : parseCellsFuel n bs = some cs) : parseCellsFuel m bs = some cs := by
  induction m with
  | zero =>
    have : n = 0 := by omega
    subst this; exact h
  | succ m ih =>
    by_cases hn : n = m + 1
    · subst hn; exact h
    · exact parseFuel_mono m bs cs (ih (by omega))

/-- Whatever fuel parsed the buffer, the canonical fuel of `parseCells` does too. -/
theorem parseFuel_canon (n : Nat) : ∀ (bs : Bytes) (cs : List RawCell),
    parseCellsFuel n bs = some cs → parseCells bs = some cs := by
  induction n with
  | zero => intro bs cs h; simp [parseCellsFuel] at h
  | succ n ih =>
    intro bs cs h
    unfold parseCells
    rw [parseCellsFuel] at h ⊢
    split at h
    · rename_i he
      rw [if_pos he]; exact h
    · rename_i hne
      rw [if_neg hne]
      cases hr : readValue bs with
      | none => simp [hr] at h
      | some p =>
        obtain ⟨x, rest⟩ := p
        simp only [hr] at h ⊢
        cases hp : parseCellsFuel n rest with
        | none => simp [hp] at h
        | some cs' =>
          simp only [hp] at h
          have hcan := ih rest cs' hp
          unfold parseCells at hcan
          have hsh := readValue_shorter bs rest x hr
          rw [parseFuel_le (rest.length + 1) bs.length (by omega) rest cs' hcan]
          exact h

/-- Appending one cell to a parsable buffer appends one raw value to its parse. -/
theorem parseFuel_snoc (c : Bytes) (hc : IsCell c) (n : Nat) : ∀ (bs : Bytes) (cs : List RawCell),
    parseCellsFuel n bs = some cs → ∃ x, parseCellsFuel (n + 1) (bs ++ c) = some (cs ++ [x]) := by
  have hcne : c ≠ [] := by
    rcases hc with rfl | rfl | ⟨body, _, rfl⟩
    · simp [nullCell]
    · simp [unsetCell]
    · rw [beBytes4]; simp
  induction n with
  | zero => intro bs cs h; simp [parseCellsFuel] at h
  | succ n ih =>
    intro bs cs h
    rw [parseCellsFuel] at h
    split at h
    · rename_i he
      have hbs : bs = [] := by simpa using he
      subst hbs
      cases h
      obtain ⟨x, hrv⟩ := readValue_cell c [] hc
      simp only [List.append_nil] at hrv
      refine ⟨x, ?_⟩
      rw [parseCellsFuel]
      have : ¬ (([] : Bytes) ++ c).isEmpty = true := by simpa using hcne
      rw [if_neg this]
      simp only [List.nil_append, hrv]
      rw [parseCellsFuel]
      simp
    · rename_i hne
      cases hr : readValue bs with
      | none => simp [hr] at h
      | some p =>
        obtain ⟨y, rest⟩ := p
        simp only [hr] at h
        cases hp : parseCellsFuel n rest with
        | none => simp [hp] at h
        | some cs' =>
          simp only [hp] at h
          cases h
          obtain ⟨x, hx⟩ := ih rest cs' hp
          refine ⟨x, ?_⟩
          rw [parseCellsFuel]
          have hne2 : ¬ (bs ++ c).isEmpty = true := by
            simp only [List.isEmpty_iff, List.append_eq_nil_iff, not_and]
            intro hb; simp [hb] at hne
          rw [if_neg hne2]
          simp only [readValue_append bs c rest y hr, hx]
          simp

/-- Parsing a concatenation of two parsable buffers. -/
theorem parseFuel_append (n : Nat) : ∀ (bs : Bytes) (cs : List RawCell), parseCellsFuel n bs = some cs →
    ∀ (m : Nat) (b2 : Bytes) (c2 : List RawCell), parseCellsFuel m b2 = some c2 →
    parseCellsFuel (n + m) (bs ++ b2) = some (cs ++ c2) := by
  induction n with
  | zero => intro bs cs h; simp [parseCellsFuel] at h
  | succ n ih =>
    intro bs cs h m b2 c2 h2
    rw [parseCellsFuel] at h
    split at h
    · rename_i he
      have hbs : bs = [] := by simpa using he
      subst hbs
      cases h
      simp only [List.nil_append]
      exact parseFuel_le m (n + 1 + m) (by omega) b2 c2 h2
    · rename_i hne
      cases hr : readValue bs with
      | none => simp [hr] at h
      | some p =>
        obtain ⟨y, rest⟩ := p
        simp only [hr] at h
        cases hp : parseCellsFuel n rest with
        | none => simp [hp] at h
        | some cs' =>
          simp only [hp] at h
          cases h
          have hfuel : n + 1 + m = (n + m) + 1 := by omega
          rw [hfuel, parseCellsFuel]
          have hne2 : ¬ (bs ++ b2).isEmpty = true := by
            simp only [List.isEmpty_iff, List.append_eq_nil_iff, not_and]
            intro hb; simp [hb] at hne
          rw [if_neg hne2]
          simp only [readValue_append bs b2 rest y hr, ih rest cs' hp m b2 c2 h2]
          simp

/-- What `read_value` consumed is one cell. -/
theorem readValue_split (bs rest : Bytes) (x : RawCell) (h : readValue bs = some (x, rest)) :
    ∃ c, IsCell c ∧ bs = c ++ rest := by
  match bs, h with
  | a :: b :: c :: d :: r, h =>
    have hbe : beBytes 4 (beNat [a, b, c, d]) = [a, b, c, d] := beBytes_beNat [a, b, c, d]
    simp only [readValue] at h
    split at h
    · rename_i hn
      cases h
      refine ⟨[a, b, c, d], .inl ?_, rfl⟩
      rw [← hbe, hn]; rfl
    · split at h
      · rename_i hn
        cases h
        refine ⟨[a, b, c, d], .inr (.inl ?_), rfl⟩
        rw [← hbe, hn]; rfl
      · split at h
        · cases h
        · split at h
          · cases h
          · rename_i h1 h2 h3 h4
            cases h
            have hlen : (List.take (beNat [a, b, c, d]) r).length = beNat [a, b, c, d] := by
              have := List.length_take (i := beNat [a, b, c, d]) (l := r)
              omega
            refine ⟨[a, b, c, d] ++ List.take (beNat [a, b, c, d]) r, .inr (.inr ⟨List.take (beNat [a, b, c, d]) r, ?_, ?_⟩), ?_⟩
            · rw [hlen]; unfold i32Max; omega
            · rw [hlen, hbe]
            · simp
  | [], h => simp [readValue] at h
  | [_], h => simp [readValue] at h
  | [_, _], h => simp [readValue] at h
  | [_, _, _], h => simp [readValue] at h

/-- Parsing a buffer that starts with a cell. -/
theorem parseFuel_cons (c : Bytes) (hc : IsCell c) (n : Nat) (bs : Bytes) (cs : List RawCell)
    (h : parseCellsFuel n bs = some cs) : ∃ x, parseCellsFuel (n + 1) (c ++ bs) = some (x :: cs) := by
  obtain ⟨x, hx⟩ := readValue_cell c bs hc
  refine ⟨x, ?_⟩
  have hcne : c ≠ [] := by
    rcases hc with rfl | rfl | ⟨body, _, rfl⟩
    · simp [nullCell]
    · simp [unsetCell]
    · rw [beBytes4]; simp
  rw [parseCellsFuel]
  have hne : ¬ (c ++ bs).isEmpty = true := by
    simp only [List.isEmpty_iff, List.append_eq_nil_iff, not_and]
    intro hcn; exact absurd hcn hcne
  rw [if_neg hne]
  simp only [hx, h]

end ScyllaVerif.Proofs.Row

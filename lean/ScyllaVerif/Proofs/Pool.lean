import ScyllaVerif.Model.Pool
/-! Invariant of the pool layer (C10). -/
namespace ScyllaVerif.Pool

structure PInv (p : Pool) : Prop where
  pub : p.shared = p.conns
  deadPending : ∀ id, id ∈ p.conns → id ∈ p.dead → id ∈ p.pending
  pendingConns : ∀ id, id ∈ p.pending → id ∈ p.conns ∧ id ∈ p.dead
  fresh : ∀ id, id ∈ p.conns ∨ id ∈ p.dead → id < p.nextId

theorem PInv.init : PInv Pool.init := by
  constructor <;> simp [Pool.init]

theorem PInv.step {p : Pool} (h : PInv p) (e : PEv) : PInv (step p e) := by
  cases e with
  | opened =>
    simp only [Pool.step]
    refine ⟨rfl, ?_, ?_, ?_⟩
    · intro id hc hd
      simp only [List.mem_append, List.mem_singleton] at hc
      rcases hc with hc | hc
      · exact h.deadPending id hc hd
      · subst hc
        have := h.fresh p.nextId (Or.inr hd); omega
    · intro id hp
      have := h.pendingConns id hp
      exact ⟨List.mem_append_left _ this.1, this.2⟩
    · intro id hid
      show id < p.nextId + 1
      rcases hid with hc | hd
      · simp only [List.mem_append, List.mem_singleton] at hc
        rcases hc with hc | hc
        · have := h.fresh id (Or.inl hc); omega
        · omega
      · have := h.fresh id (Or.inr hd); omega
  | openFailed => exact h
  | die id =>
    simp only [Pool.step]
    split
    · rename_i hc
      have hc : id ∈ p.conns ∧ id ∉ p.dead := by simpa using hc
      refine ⟨h.pub, ?_, ?_, ?_⟩
      · intro x hx hd
        simp only [List.mem_cons] at hd
        simp only [List.mem_append, List.mem_singleton]
        rcases hd with e | hd
        · exact Or.inr e
        · exact Or.inl (h.deadPending x hx hd)
      · intro x hx
        simp only [List.mem_append, List.mem_singleton] at hx
        rcases hx with hx | hx
        · have := h.pendingConns x hx
          exact ⟨this.1, List.mem_cons_of_mem _ this.2⟩
        · subst hx; exact ⟨hc.1, List.mem_cons_self⟩
      · intro x hx
        rcases hx with hx | hx
        · exact h.fresh x (Or.inl hx)
        · simp only [List.mem_cons] at hx
          rcases hx with e | hx
          · subst e; exact h.fresh x (Or.inl hc.1)
          · exact h.fresh x (Or.inr hx)
    · exact h
  | process id =>
    simp only [Pool.step]
    split
    · refine ⟨rfl, ?_, ?_, ?_⟩
      · intro x hx hd
        have hx' := List.mem_filter.mp hx
        exact List.mem_filter.mpr ⟨h.deadPending x hx'.1 hd, hx'.2⟩
      · intro x hx
        have hx' := List.mem_filter.mp hx
        have := h.pendingConns x hx'.1
        exact ⟨List.mem_filter.mpr ⟨this.1, hx'.2⟩, this.2⟩
      · intro x hx
        rcases hx with hx | hx
        · exact h.fresh x (Or.inl (List.mem_filter.mp hx).1)
        · exact h.fresh x (Or.inr hx)
    · exact h

theorem PInv.run {p : Pool} (h : PInv p) (evs : List PEv) : PInv (run p evs) := by
  unfold Pool.run
  induction evs generalizing p with
  | nil => exact h
  | cons e rest ih => exact ih (h.step e)

end ScyllaVerif.Pool

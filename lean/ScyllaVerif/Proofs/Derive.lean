/-
Helper lemmas for C16 (`Props/C16.lean`): the name `match` with visited flags (`lookupE`, `updE`, `markE`),
the counters, and the loops of the by-name interpreters in closed form.
-/
import ScyllaVerif.Model.Derive

namespace ScyllaVerif.Derive

/-! ### `lookupE` / `updE` -/

theorem lookupE_nil (n : String) : lookupE n [] = none := rfl

theorem lookupE_cons (n : String) (e : Entry) (es : List Entry) :
    lookupE n (e :: es) = if e.f.col == n then some e else lookupE n es := by
  unfold lookupE
  rw [List.find?_cons]
  split <;> simp_all

theorem lookupE_some {n : String} {es : List Entry} {e : Entry} (h : lookupE n es = some e) :
    e.f.col = n ∧ e ∈ es := by
  unfold lookupE at h
  have h1 := List.find?_some h
  have h2 := List.mem_of_find?_eq_some h
  exact ⟨by simpa using h1, h2⟩

theorem lookupE_none {n : String} {es : List Entry} (h : lookupE n es = none) :
    ∀ e ∈ es, e.f.col ≠ n := by
  unfold lookupE at h
  intro e he
  have := List.find?_eq_none.mp h e he
  simpa using this

theorem lookupE_isSome_iff (n : String) (es : List Entry) :
    (lookupE n es).isSome = true ↔ n ∈ es.map (fun e => e.f.col) := by
  induction es with
  | nil => simp [lookupE_nil]
  | cons e es ih =>
    rw [lookupE_cons]
    by_cases h : e.f.col = n
    · simp [h]
    · simp [h, ih]; intro h'; exact absurd h'.symm h

/-- under the macro's name-collision check a member is what the `match` finds -/
theorem lookupE_of_mem {es : List Entry} (hnd : (es.map (fun e => e.f.col)).Nodup) {e : Entry} (he : e ∈ es) :
    lookupE e.f.col es = some e := by
  induction es with
  | nil => cases he
  | cons a es ih =>
    rw [lookupE_cons]
    simp only [List.map_cons, List.nodup_cons] at hnd
    rcases List.mem_cons.mp he with rfl | h
    · simp
    · have hne : a.f.col ≠ e.f.col := by
        intro heq
        exact hnd.1 (heq ▸ List.mem_map_of_mem h)
      simp [hne, ih hnd.2 h]

theorem updE_cons (n : String) (g : Entry → Entry) (e : Entry) (es : List Entry) :
    updE n g (e :: es) = if e.f.col == n then g e :: es else e :: updE n g es := rfl

theorem updE_cols (n : String) (g : Entry → Entry) (hg : ∀ e, (g e).f = e.f) (es : List Entry) :
    (updE n g es).map (fun e => e.f) = es.map (fun e => e.f) := by
  induction es with
  | nil => rfl
  | cons e es ih =>
    unfold updE
    split
    · simp [hg]
    · simp [ih]

theorem lookupE_updE (n m : String) (g : Entry → Entry) (hg : ∀ e, (g e).f = e.f) (es : List Entry) :
    lookupE m (updE n g es) = if m = n then (lookupE m es).map g else lookupE m es := by
  induction es with
  | nil => simp [updE, lookupE_nil]
  | cons e es ih =>
    unfold updE
    by_cases h : e.f.col = n
    · simp only [h, beq_self_eq_true, if_true]
      rw [lookupE_cons, lookupE_cons, hg, h]
      by_cases hm : m = n
      · subst hm; simp
      · have : ¬ n = m := fun x => hm x.symm
        simp [hm, this]
    · have hb : (e.f.col == n) = false := by simpa using h
      simp only [hb, Bool.false_eq_true, if_false]
      rw [lookupE_cons, lookupE_cons, ih]
      by_cases hm : m = n
      · subst hm; simp [h]
      · simp [hm]

theorem updE_of_lookup_none {n : String} {g : Entry → Entry} {es : List Entry} (h : lookupE n es = none) :
    updE n g es = es := by
  induction es with
  | nil => rfl
  | cons e es ih =>
    rw [lookupE_cons] at h
    unfold updE
    split at h
    · cases h
    · rename_i hne
      simp only [hne]
      rw [ih h]
      rfl

/-- with distinct names, updating the first match is a `map` -/
theorem updE_eq_map (n : String) (g : Entry → Entry) (es : List Entry)
    (hnd : (es.map (fun e => e.f.col)).Nodup) :
    updE n g es = es.map (fun e => if e.f.col == n then g e else e) := by
  induction es with
  | nil => rfl
  | cons e es ih =>
    simp only [List.map_cons, List.nodup_cons] at hnd
    unfold updE
    by_cases h : e.f.col = n
    · simp only [h, beq_self_eq_true, if_true, List.map_cons]
      congr 1
      symm
      refine (List.map_congr_left ?_).trans (List.map_id _)
      intro a ha
      have : a.f.col ≠ n := by
        intro heq
        exact hnd.1 (by rw [h, ← heq]; exact List.mem_map_of_mem ha)
      simp [this]
    · have hb : (e.f.col == n) = false := by simpa using h
      simp only [hb, List.map_cons, Bool.false_eq_true, if_false]
      rw [ih hnd.2]

/-! ### the visited flags as a set of names -/

/-- the effect of marking every name of `ns` -/
def markAll (ns : List String) (es : List Entry) : List Entry := ns.foldl (fun acc n => markE n acc) es

def setVisited (ns : List String) (e : Entry) : Entry := { e with visited := e.visited || ns.contains e.f.col }

theorem markE_f (n : String) (es : List Entry) : (markE n es).map (fun e => e.f) = es.map (fun e => e.f) :=
  updE_cols n (fun e => { e with visited := true }) (fun _ => rfl) es

theorem markE_cols (n : String) (es : List Entry) :
    (markE n es).map (fun e => e.f.col) = es.map (fun e => e.f.col) := by
  have := congrArg (List.map Field.col) (markE_f n es)
  simpa [List.map_map, Function.comp_def] using this

theorem lookupE_markE (n m : String) (es : List Entry) :
    lookupE m (markE n es) = if m = n then (lookupE m es).map (fun e => { e with visited := true }) else lookupE m es :=
  lookupE_updE n m (fun e => { e with visited := true }) (fun _ => rfl) es

/-- marking does not change which field / value the `match` finds -/
theorem lookupE_markE_fv (n m : String) (es : List Entry) :
    (lookupE m (markE n es)).map (fun e => (e.f, e.v)) = (lookupE m es).map (fun e => (e.f, e.v)) := by
  rw [lookupE_markE]
  split
  · cases lookupE m es <;> rfl
  · rfl

theorem markAll_nil (es : List Entry) : markAll [] es = es := rfl
theorem markAll_cons (n : String) (ns : List String) (es : List Entry) :
    markAll (n :: ns) es = markAll ns (markE n es) := rfl

theorem markAll_eq_map (ns : List String) (es : List Entry) (hnd : (es.map (fun e => e.f.col)).Nodup) :
    markAll ns es = es.map (setVisited ns) := by
  induction ns generalizing es with
  | nil =>
    simp only [markAll_nil]
    symm
    refine (List.map_congr_left ?_).trans (List.map_id _)
    intro a _
    simp [setVisited]
  | cons n ns ih =>
    rw [markAll_cons, ih _ (by rw [markE_cols]; exact hnd)]
    unfold markE
    rw [updE_eq_map n _ es hnd, List.map_map]
    apply List.map_congr_left
    intro a _
    simp only [Function.comp, setVisited, List.contains_cons]
    by_cases h : a.f.col = n
    · simp [h]
    · have hb : (a.f.col == n) = false := by simpa using h
      simp [hb]

/-! ### counters -/

/-- number of entries whose flag is not set and that satisfy `p` -/
def unv (p : Field → Bool) (es : List Entry) : Nat := (es.filter (fun e => !e.visited && p e.f)).length

theorem unv_cons (p : Field → Bool) (e : Entry) (es : List Entry) :
    unv p (e :: es) = (if !e.visited && p e.f then 1 else 0) + unv p es := by
  unfold unv
  rw [List.filter_cons]
  split <;> simp [Nat.add_comm]

theorem unv_pos_of_lookup {p : Field → Bool} {n : String} {es : List Entry} {e : Entry}
    (h : lookupE n es = some e) (hv : e.visited = false) (hp : p e.f = true) : 0 < unv p es := by
  unfold unv
  apply List.length_pos_of_mem (a := e)
  exact List.mem_filter.mpr ⟨(lookupE_some h).2, by simp [hv, hp]⟩

theorem unv_markE (p : Field → Bool) (n : String) (es : List Entry) :
    unv p (markE n es) =
      match lookupE n es with
      | some e => if !e.visited && p e.f then unv p es - 1 else unv p es
      | none => unv p es := by
  induction es with
  | nil => rfl
  | cons a es ih =>
    rw [lookupE_cons]
    unfold markE updE
    by_cases h : a.f.col = n
    · simp only [h, beq_self_eq_true, if_true]
      rw [unv_cons, unv_cons]
      by_cases hc : (!a.visited && p a.f) = true
      · simp [hc]
      · simp only [Bool.not_eq_true] at hc
        simp [hc]
    · have hb : (a.f.col == n) = false := by simpa using h
      simp only [hb, Bool.false_eq_true, if_false]
      have ih' : unv p (updE n (fun e => { e with visited := true }) es) = _ := ih
      rw [unv_cons, unv_cons, ih']
      cases hl : lookupE n es with
      | none => simp
      | some e =>
        by_cases hc : (!e.visited && p e.f) = true
        · simp only [hc, if_true]
          have hpos : 0 < unv p es := by
            simp only [Bool.and_eq_true, Bool.not_eq_true'] at hc
            exact unv_pos_of_lookup hl hc.1 hc.2
          omega
        · simp only [Bool.not_eq_true] at hc
          simp [hc]

theorem unv_pos_iff (p : Field → Bool) (es : List Entry) :
    0 < unv p es ↔ es.any (fun e => !e.visited && p e.f) = true := by
  unfold unv
  rw [List.length_pos_iff_exists_mem]
  simp [List.mem_filter, List.any_eq_true]

/-! ### `#[derive(SerializeValue)]` by name: the loop in closed form -/

/-- what the generated `match` binds for a name: field and value (flags forgotten) -/
def fv (es : List Entry) (n : String) : Option (Field × Val) := (lookupE n es).map (fun e => (e.f, e.v))

theorem fv_markE (n : String) (es : List Entry) : fv (markE n es) = fv es :=
  funext (fun m => lookupE_markE_fv n m es)

theorem fv_markAll (ns : List String) (es : List Entry) : fv (markAll ns es) = fv es := by
  induction ns generalizing es with
  | nil => rfl
  | cons n ns ih => rw [markAll_cons, ih, fv_markE]

/-- the column is acceptable: a matched column's value serializes to the column's type, an unmatched one is
tolerated unless `forbid_excess_udt_fields` -/
def colOk (forbid : Bool) (look : String → Option (Field × Val)) (c : Col) : Bool :=
  match look c.name with
  | some (f, v) => (serVal f v c.ty).isSome
  | none => !forbid

/-- the cell that belongs at the position of column `c`: the like-named field's value, else null -/
def specCell (look : String → Option (Field × Val)) (c : Col) : Cell :=
  match look c.name with
  | some (f, v) => (serVal f v c.ty).getD none
  | none => none

/-- cells written for a column list with `pend` pending nulls: pending nulls are flushed by the next matched
column and dropped at the end -/
def emit (look : String → Option (Field × Val)) : List Col → Nat → List Cell
  | [], _ => []
  | c :: cs, pend =>
    if (look c.name).isSome then List.replicate pend none ++ specCell look c :: emit look cs 0
    else emit look cs (pend + 1)

/-- error of the first unacceptable column -/
def svFirstErr (forbid : Bool) (look : String → Option (Field × Val)) : List Col → Err
  | [] => .panic
  | c :: cs =>
    if colOk forbid look c then svFirstErr forbid look cs
    else if (look c.name).isSome then .svFieldSerFailed else .svNoSuchField

def allTrue : Field → Bool := fun _ => true

theorem svLoop_closed (forbid : Bool) (db : List Col) : ∀ (es : List Entry) (rem pend : Nat),
    rem = unv allTrue es →
    svLoop forbid db es rem pend =
      if db.all (colOk forbid (fv es)) then
        .ok (emit (fv es) db pend, markAll (db.map (·.name)) es, unv allTrue (markAll (db.map (·.name)) es))
      else .error (svFirstErr forbid (fv es) db) := by
  induction db with
  | nil => intro es rem pend h; simp [svLoop, emit, markAll_nil, h]
  | cons c cs ih =>
    intro es rem pend hrem
    unfold svLoop
    cases hl : lookupE c.name es with
    | none =>
      have hfv : fv es c.name = none := by simp [fv, hl]
      have hmark : markE c.name es = es := updE_of_lookup_none hl
      cases forbid with
      | true => simp [colOk, hfv, svFirstErr]
      | false =>
        simp only [Bool.false_eq_true, if_false]
        rw [ih es rem (pend + 1) hrem]
        simp [colOk, hfv, emit, svFirstErr, markAll_cons, hmark]
    | some e =>
      have hfv : fv es c.name = some (e.f, e.v) := by simp [fv, hl]
      simp only []
      cases hs : serVal e.f e.v c.ty with
      | none => simp [colOk, hfv, hs, svFirstErr]
      | some cell =>
        simp only []
        have hrem' : decr e.visited rem = unv allTrue (markE c.name es) := by
          rw [unv_markE, hl, hrem]
          simp only [decr, allTrue, Bool.and_true]
          cases e.visited <;> simp
        rw [ih (markE c.name es) (decr e.visited rem) 0 hrem', fv_markE]
        have hc : colOk forbid (fv es) c = true := by simp [colOk, hfv, hs]
        simp only [List.all_cons, hc, Bool.true_and, List.map_cons, markAll_cons]
        by_cases hall : cs.all (colOk forbid (fv es)) = true
        · simp [hall, emit, hfv, specCell, hs]
        · simp [hall, svFirstErr, hc]

theorem entries_unvisited (fvs : List (Field × Val)) : ∀ e ∈ entries fvs, e.visited = false := by
  intro e he
  unfold entries at he
  obtain ⟨p, _, rfl⟩ := List.mem_map.mp he
  rfl

theorem any_markAll (ns : List String) (es : List Entry) (hnd : (es.map (fun e => e.f.col)).Nodup)
    (hv : ∀ e ∈ es, e.visited = false) (q : Field → Bool) :
    (markAll ns es).any (fun e => !e.visited && q e.f) = es.any (fun e => !ns.contains e.f.col && q e.f) := by
  rw [markAll_eq_map ns es hnd, List.any_map]
  induction es with
  | nil => rfl
  | cons a es ih =>
    simp only [List.any_cons, Function.comp]
    rw [ih (by simp only [List.map_cons, List.nodup_cons] at hnd; exact hnd.2)
      (fun e he => hv e (List.mem_cons_of_mem _ he))]
    simp [setVisited, hv a (List.mem_cons_self ..)]

theorem serValueByName_closed (d : Desc) (fvs : List (Field × Val)) (db : List Col)
    (hnd : ((entries fvs).map (fun e => e.f.col)).Nodup) :
    serValueByName d fvs db =
      if db.all (colOk d.forbidExcess (fv (entries fvs))) then
        if (entries fvs).any (fun e => !(db.map (·.name)).contains e.f.col && !e.f.allowMissing) then
          .error .svValueMissing
        else .ok (emit (fv (entries fvs)) db 0)
      else .error (svFirstErr d.forbidExcess (fv (entries fvs)) db) := by
  unfold serValueByName
  simp only []
  have hlen : (entries fvs).length = unv allTrue (entries fvs) := by
    unfold unv
    rw [List.filter_eq_self.mpr]
    intro e he
    simp [entries_unvisited fvs e he, allTrue]
  rw [svLoop_closed d.forbidExcess db (entries fvs) _ 0 hlen]
  by_cases hall : db.all (colOk d.forbidExcess (fv (entries fvs))) = true
  · rw [if_pos hall, if_pos hall]
    have hm : svMissing (markAll (db.map (·.name)) (entries fvs)) (unv allTrue (markAll (db.map (·.name)) (entries fvs)))
        = (entries fvs).any (fun e => !(db.map (·.name)).contains e.f.col && !e.f.allowMissing) := by
      unfold svMissing
      rw [any_markAll _ _ hnd (entries_unvisited fvs) (fun f => !f.allowMissing)]
      cases hany : (entries fvs).any (fun e => !(db.map (·.name)).contains e.f.col && !e.f.allowMissing) with
      | false => simp
      | true =>
        simp only [Bool.and_true, decide_eq_true_eq]
        show 0 < _
        rw [unv_pos_iff, any_markAll _ _ hnd (entries_unvisited fvs) allTrue]
        rw [List.any_eq_true] at hany ⊢
        obtain ⟨e, he, hp⟩ := hany
        refine ⟨e, he, ?_⟩
        simp only [Bool.and_eq_true] at hp
        simpa [allTrue] using hp.1
    simp only [hm]
  · rw [if_neg hall, if_neg hall]

/-! ### positions in `emit` -/

theorem emit_get (look : String → Option (Field × Val)) (db : List Col) :
    ∀ (pend i : Nat) (c : Col), db[i]? = some c → (look c.name).isSome = true →
      (emit look db pend)[pend + i]? = some (specCell look c) := by
  induction db with
  | nil => intro pend i c h; simp at h
  | cons a cs ih =>
    intro pend i c h hm
    cases i with
    | zero =>
      simp only [List.getElem?_cons_zero, Option.some.injEq] at h
      subst h
      simp only [emit, hm, if_true, Nat.add_zero]
      rw [List.getElem?_append_right (by simp)]
      simp
    | succ i =>
      simp only [List.getElem?_cons_succ] at h
      unfold emit
      split
      · rw [List.getElem?_append_right (by simp)]
        have : pend + (i + 1) - (List.replicate pend (none : Cell)).length = i + 1 := by simp
        rw [this, List.getElem?_cons_succ]
        have := ih 0 i c h hm
        simpa using this
      · have : pend + (i + 1) = (pend + 1) + i := by omega
        rw [this]
        exact ih (pend + 1) i c h hm

/-- everything `emit` writes at a position that is not a matched column's is null -/
theorem emit_null (look : String → Option (Field × Val)) (db : List Col) :
    ∀ (pend j : Nat) (x : Cell), (emit look db pend)[j]? = some x →
      (j < pend ∨ ∃ i c, j = pend + i ∧ db[i]? = some c ∧ look c.name = none) → x = none := by
  induction db with
  | nil => intro pend j x h; simp [emit] at h
  | cons a cs ih =>
    intro pend j x h hj
    unfold emit at h
    split at h
    · rename_i hm
      by_cases hlt : j < pend
      · rw [List.getElem?_append_left (by simpa using hlt)] at h
        simp [List.getElem?_replicate, hlt] at h
        exact h.symm
      · rw [List.getElem?_append_right (by simp; omega)] at h
        simp only [List.length_replicate] at h
        rcases hj with hj | ⟨i, c, hji, hc, hl⟩
        · exact absurd hj hlt
        · cases i with
          | zero =>
            simp only [List.getElem?_cons_zero, Option.some.injEq] at hc
            subst hc
            simp [hl] at hm
          | succ i =>
            simp only [List.getElem?_cons_succ] at hc
            have : j - pend = i + 1 := by omega
            rw [this, List.getElem?_cons_succ] at h
            exact ih 0 i x h (Or.inr ⟨i, c, by omega, hc, hl⟩)
    · rcases hj with hj | ⟨i, c, hji, hc, hl⟩
      · exact ih (pend + 1) j x h (Or.inl (by omega))
      · cases i with
        | zero => exact ih (pend + 1) j x h (Or.inl (by omega))
        | succ i =>
          simp only [List.getElem?_cons_succ] at hc
          exact ih (pend + 1) j x h (Or.inr ⟨i, c, by omega, hc, hl⟩)

theorem emit_length (look : String → Option (Field × Val)) (db : List Col) :
    ∀ pend, (emit look db pend).length ≤ pend + db.length := by
  induction db with
  | nil => intro pend; simp [emit]
  | cons a cs ih =>
    intro pend
    unfold emit
    split
    · have := ih 0
      simp only [List.length_append, List.length_replicate, List.length_cons]
      omega
    · have := ih (pend + 1)
      simp only [List.length_cons]
      omega

/-! ### `#[derive(DeserializeValue)]` by name: `type_check` in closed form -/

/-- the column list passes the generated type check, `seen` = names whose flag is already set -/
def tcOkList (forbid : Bool) (look : String → Option (Field × Val)) : List String → List Col → Bool
  | _, [] => true
  | seen, c :: cs =>
    match look c.name with
    | some (f, _) => !seen.contains c.name && f.ty == c.ty && tcOkList forbid look (c.name :: seen) cs
    | none => !forbid && tcOkList forbid look seen cs

def okOpt {α : Type} : Except Err α → Option α
  | .ok a => some a
  | .error _ => none

theorem dvTcLoop_closed (forbid : Bool) (db : List Col) : ∀ (es : List Entry) (rem : Nat) (seen : List String),
    (∀ n e, lookupE n es = some e → e.visited = seen.contains n) →
    rem = unv Field.required es →
    okOpt (dvTcLoop forbid db es rem) =
      if tcOkList forbid (fv es) seen db then
        some (markAll (db.map (·.name)) es, unv Field.required (markAll (db.map (·.name)) es))
      else none := by
  induction db with
  | nil => intro es rem seen _ h; simp [dvTcLoop, tcOkList, okOpt, markAll_nil, h]
  | cons c cs ih =>
    intro es rem seen hinv hrem
    unfold dvTcLoop tcOkList
    cases hl : lookupE c.name es with
    | none =>
      have hfv : fv es c.name = none := by simp [fv, hl]
      have hmark : markE c.name es = es := updE_of_lookup_none hl
      simp only [hfv]
      cases forbid with
      | true => simp [okOpt]
      | false =>
        simp only [Bool.false_eq_true, if_false, Bool.not_false, Bool.true_and]
        rw [ih es rem seen hinv hrem]
        simp [markAll_cons, hmark]
    | some e =>
      have hfv : fv es c.name = some (e.f, e.v) := by simp [fv, hl]
      have hvis := hinv _ _ hl
      simp only [hfv]
      by_cases hseen : seen.contains c.name = true
      · rw [hseen] at hvis
        have hmem : c.name ∈ seen := by simpa using hseen
        simp [hvis, okOpt, hmem]
      · simp only [Bool.not_eq_true] at hseen
        rw [hseen] at hvis
        simp only [hvis, Bool.false_eq_true, if_false, hseen, Bool.not_false, Bool.true_and]
        by_cases hty : e.f.ty = c.ty
        · have hne : (e.f.ty != c.ty) = false := by simp [hty]
          simp only [hne, Bool.false_eq_true, if_false]
          have hrem' : (if e.f.required = true then rem - 1 else rem) = unv Field.required (markE c.name es) := by
            rw [unv_markE, hl, hrem]
            simp [hvis]
          have hinv' : ∀ n e', lookupE n (markE c.name es) = some e' → e'.visited = (c.name :: seen).contains n := by
            intro n e' hn
            rw [lookupE_markE] at hn
            by_cases hnc : n = c.name
            · subst hnc
              simp only [if_true] at hn
              cases hl' : lookupE c.name es with
              | none => rw [hl'] at hn; cases hn
              | some e0 => rw [hl'] at hn; cases hn; simp
            · simp only [hnc, if_false] at hn
              have := hinv n e' hn
              rw [this]
              simp only [List.contains_cons]
              have : (n == c.name) = false := by simpa using hnc
              simp [this]
          rw [ih (markE c.name es) _ (c.name :: seen) hinv' hrem', fv_markE]
          simp [hty, markAll_cons]
        · have hne : (e.f.ty != c.ty) = true := by simp [hty]
          simp [hne, okOpt, hty]

/-- names of the columns some field is bound to -/
def matchedNames (look : String → Option (Field × Val)) (db : List Col) : List String :=
  (db.filter (fun c => (look c.name).isSome)).map (·.name)

theorem tcOkList_iff (forbid : Bool) (look : String → Option (Field × Val)) (db : List Col) : ∀ seen,
    tcOkList forbid look seen db = true ↔
      (∀ c ∈ db, match look c.name with
        | some (f, _) => f.ty = c.ty ∧ c.name ∉ seen
        | none => forbid = false) ∧ (matchedNames look db).Nodup := by
  induction db with
  | nil => intro seen; simp [tcOkList, matchedNames]
  | cons c cs ih =>
    intro seen
    unfold tcOkList
    cases hl : look c.name with
    | none =>
      simp only [Bool.and_eq_true, Bool.not_eq_true', ih seen, List.forall_mem_cons, hl]
      have : matchedNames look (c :: cs) = matchedNames look cs := by
        simp [matchedNames, List.filter_cons, hl]
      rw [this]
      constructor
      · rintro ⟨h1, h2, h3⟩; exact ⟨⟨h1, h2⟩, h3⟩
      · rintro ⟨⟨h1, h2⟩, h3⟩; exact ⟨h1, h2, h3⟩
    | some p =>
      obtain ⟨f, v⟩ := p
      simp only [Bool.and_eq_true, Bool.not_eq_true', beq_iff_eq, ih (c.name :: seen), List.forall_mem_cons, hl]
      have hm : matchedNames look (c :: cs) = c.name :: matchedNames look cs := by
        simp [matchedNames, List.filter_cons, hl]
      rw [hm, List.nodup_cons]
      have hmem : c.name ∈ matchedNames look cs ↔ ∃ c' ∈ cs, (look c'.name).isSome = true ∧ c'.name = c.name := by
        simp [matchedNames, List.mem_map, List.mem_filter, and_assoc]
      constructor
      · rintro ⟨⟨hs, ht⟩, hall, hnd⟩
        refine ⟨⟨⟨ht, by simpa using hs⟩, ?_⟩, ?_, hnd⟩
        · intro c' hc'
          have := hall c' hc'
          cases h' : look c'.name with
          | none => rw [h'] at this; exact this
          | some q =>
            rw [h'] at this
            exact ⟨this.1, fun hmem' => this.2 (List.mem_cons_of_mem _ hmem')⟩
        · rw [hmem]
          rintro ⟨c', hc', hsome, hname⟩
          have := hall c' hc'
          cases h' : look c'.name with
          | none => simp [h'] at hsome
          | some q =>
            rw [h'] at this
            exact this.2 (by rw [hname]; exact List.mem_cons_self ..)
      · rintro ⟨⟨⟨ht, hs⟩, hall⟩, hnot, hnd⟩
        refine ⟨⟨by simpa using hs, ht⟩, ?_, hnd⟩
        intro c' hc'
        have := hall c' hc'
        cases h' : look c'.name with
        | none => rw [h'] at this; exact this
        | some q =>
          rw [h'] at this
          refine ⟨this.1, ?_⟩
          intro hmem'
          rcases List.mem_cons.mp hmem' with heq | hin
          · exact hnot (hmem.mpr ⟨c', hc', by simp [h'], heq⟩)
          · exact this.2 hin

/-! ### `#[derive(DeserializeValue)]` by name: the `deserialize` loop -/

def setV (v : Val) (e : Entry) : Entry := { e with v := v, visited := true }

theorem lookupE_setV (n m : String) (v : Val) (es : List Entry) :
    lookupE m (updE n (fun e => { e with v := v, visited := true }) es) =
      if m = n then (lookupE m es).map (setV v) else lookupE m es :=
  lookupE_updE n m (fun e => { e with v := v, visited := true }) (fun _ => rfl) es

/-- a successful loop never met a column whose slot was already filled -/
theorem dvDeLoop_unvisited (items : List (Col × Cell)) : ∀ es es', dvDeLoop items es = .ok es' →
    ∀ it ∈ items, ∀ e, lookupE it.1.name es = some e → e.visited = false := by
  induction items with
  | nil => intro es es' _ it hit; cases hit
  | cons a rest ih =>
    intro es es' h it hit e he
    obtain ⟨c, value⟩ := a
    unfold dvDeLoop at h
    cases hl : lookupE c.name es with
    | none =>
      rw [hl] at h
      rcases List.mem_cons.mp hit with rfl | hin
      · rw [hl] at he; cases he
      · exact ih es es' h it hin e he
    | some e0 =>
      rw [hl] at h
      simp only [] at h
      by_cases hv : e0.visited = true
      · simp [hv] at h
      · simp only [hv, Bool.false_eq_true, if_false] at h
        cases hd : deValD e0.f value with
        | none => rw [hd] at h; cases h
        | some v =>
          rw [hd] at h
          simp only [] at h
          rcases List.mem_cons.mp hit with rfl | hin
          · rw [hl] at he; cases he; simpa using hv
          · by_cases hn : it.1.name = c.name
            · -- the slot of `c.name` is filled now: a later column of that name would panic
              have := ih _ es' h it hin (setV v e0) (by rw [lookupE_setV, if_pos hn, hn, hl]; rfl)
              simp [setV] at this
            · exact ih _ es' h it hin e (by rw [lookupE_setV, if_neg hn]; exact he)

/-- what the `match` finds after a successful loop: the slot of a listed column holds the deserialized cell -/
theorem dvDeLoop_lookup (items : List (Col × Cell)) : ∀ es es', dvDeLoop items es = .ok es' →
    ∀ n, lookupE n es' =
      match items.find? (fun it => it.1.name == n) with
      | some it => (lookupE n es).bind (fun e => (deValD e.f it.2).map (fun v => setV v e))
      | none => lookupE n es := by
  induction items with
  | nil => intro es es' h n; simp [dvDeLoop] at h; subst h; rfl
  | cons a rest ih =>
    intro es es' h n
    obtain ⟨c, value⟩ := a
    have hunv := dvDeLoop_unvisited _ es es' h
    unfold dvDeLoop at h
    rw [List.find?_cons]
    cases hl : lookupE c.name es with
    | none =>
      rw [hl] at h
      simp only [] at h
      rw [ih es es' h n]
      by_cases hn : c.name = n
      · subst hn
        simp only [beq_self_eq_true, hl, Option.bind_none]
        cases rest.find? (fun it => it.1.name == c.name) <;> rfl
      · have : (c.name == n) = false := by simpa using hn
        simp only [this]
    | some e0 =>
      rw [hl] at h
      simp only [] at h
      have hv : e0.visited = false := hunv (c, value) (List.mem_cons_self ..) e0 hl
      simp only [hv, Bool.false_eq_true, if_false] at h
      cases hd : deValD e0.f value with
      | none => rw [hd] at h; cases h
      | some v =>
        rw [hd] at h
        simp only [] at h
        have ih' := ih _ es' h n
        have hunv' := dvDeLoop_unvisited _ _ es' h
        by_cases hn : c.name = n
        · subst hn
          simp only [beq_self_eq_true, hl, Option.bind_some, hd, Option.map_some]
          rw [ih', lookupE_setV, if_pos rfl, hl]
          cases hf : rest.find? (fun it => it.1.name == c.name) with
          | none => rfl
          | some it =>
            exfalso
            have hit := List.mem_of_find?_eq_some hf
            have hname : it.1.name = c.name := by simpa using List.find?_some hf
            have := hunv' it hit (setV v e0) (by rw [lookupE_setV, if_pos hname, hname, hl]; rfl)
            simp [setV] at this
        · have hb : (c.name == n) = false := by simpa using hn
          have hne : ¬ n = c.name := fun h => hn h.symm
          simp only [hb]
          rw [ih', lookupE_setV, if_neg hne]

/-- the loop succeeds when no listed column is bound twice and every bound cell deserializes -/
theorem dvDeLoop_ok (items : List (Col × Cell)) : ∀ es,
    ((items.filter (fun it => (lookupE it.1.name es).isSome)).map (fun it => it.1.name)).Nodup →
    (∀ it ∈ items, ∀ e, lookupE it.1.name es = some e → e.visited = false ∧ (deValD e.f it.2).isSome = true) →
    ∃ es', dvDeLoop items es = .ok es' := by
  induction items with
  | nil => intro es _ _; exact ⟨es, rfl⟩
  | cons a rest ih =>
    intro es hnd hall
    obtain ⟨c, value⟩ := a
    unfold dvDeLoop
    cases hl : lookupE c.name es with
    | none =>
      simp only []
      apply ih es
      · rw [List.filter_cons] at hnd; simpa [hl] using hnd
      · exact fun it hit => hall it (List.mem_cons_of_mem _ hit)
    | some e0 =>
      simp only []
      obtain ⟨hv, hd⟩ := hall (c, value) (List.mem_cons_self ..) e0 hl
      simp only [hv, Bool.false_eq_true, if_false]
      cases hd' : deValD e0.f value with
      | none => rw [hd'] at hd; cases hd
      | some v =>
        simp only []
        rw [List.filter_cons] at hnd
        simp only [hl, Option.isSome_some, if_true, List.map_cons, List.nodup_cons] at hnd
        have hstep : ∀ it ∈ rest, (lookupE it.1.name es).isSome = true → it.1.name ≠ c.name := by
          intro it hit hs heq
          apply hnd.1
          rw [← heq]
          exact List.mem_map.mpr ⟨it, List.mem_filter.mpr ⟨hit, hs⟩, rfl⟩
        apply ih
        · have : rest.filter (fun it => (lookupE it.1.name
              (updE c.name (fun e => { e with v := v, visited := true }) es)).isSome) =
              rest.filter (fun it => (lookupE it.1.name es).isSome) := by
            apply List.filter_congr
            intro it _
            rw [lookupE_setV]
            split
            · rename_i h; rw [h, hl]; rfl
            · rfl
          rw [this]
          exact hnd.2
        · intro it hit e he
          rw [lookupE_setV] at he
          by_cases hn : it.1.name = c.name
          · exfalso
            exact hstep it hit (by rw [hn, hl]; rfl) hn
          · rw [if_neg hn] at he
            exact hall it (List.mem_cons_of_mem _ hit) e he

/-! ### `#[derive(DeserializeRow)]` by name = the UDT code with every excess column forbidden -/

/-- row error names of the UDT error kinds -/
def rowErrOf : Err → Err
  | .dvDuplicatedField => .drDuplicatedColumn
  | .dvFieldTypeCheckFailed => .drColumnTypeCheckFailed
  | .dvExcessField => .drUnknownName
  | .dvValuesMissing => .drValuesMissing
  | .dvFieldDeserFailed => .drColumnDeserFailed
  | e => e

def mapErr {α : Type} (φ : Err → Err) : Except Err α → Except Err α
  | .ok a => .ok a
  | .error e => .error (φ e)

theorem mapErr_ok_iff {α : Type} (φ : Err → Err) (r : Except Err α) (a : α) :
    mapErr φ r = .ok a ↔ r = .ok a := by
  cases r <;> simp [mapErr]

theorem mem_markE_f {n : String} {es : List Entry} {e : Entry} (h : e ∈ markE n es) :
    ∃ e0 ∈ es, e.f = e0.f := by
  have : e.f ∈ (markE n es).map (fun e => e.f) := List.mem_map_of_mem h
  rw [markE_f] at this
  obtain ⟨e0, h0, h1⟩ := List.mem_map.mp this
  exact ⟨e0, h0, h1.symm⟩

theorem drTcLoop_eq (db : List Col) : ∀ (es : List Entry) (rem : Nat),
    (∀ e ∈ es, e.f.required = true) →
    drTcLoop db es rem = mapErr rowErrOf (dvTcLoop true db es rem) := by
  induction db with
  | nil => intro es rem _; rfl
  | cons c cs ih =>
    intro es rem hreq
    unfold drTcLoop dvTcLoop
    cases hl : lookupE c.name es with
    | none => rfl
    | some e =>
      simp only []
      by_cases hv : e.visited = true
      · simp [hv, mapErr, rowErrOf]
      · simp only [hv, Bool.false_eq_true, if_false]
        by_cases ht : (e.f.ty != c.ty) = true
        · simp [ht, mapErr, rowErrOf]
        · simp only [ht, Bool.false_eq_true, if_false, hreq e (lookupE_some hl).2, if_true]
          apply ih
          intro e' he'
          obtain ⟨e0, h0, h1⟩ := mem_markE_f he'
          rw [h1]; exact hreq e0 h0

theorem drDeLoop_eq (items : List (Col × Cell)) : ∀ (es : List Entry),
    (∀ it ∈ items, (lookupE it.1.name es).isSome = true) →
    drDeLoop (items.map (fun it => (it.1, some it.2))) es = mapErr rowErrOf (dvDeLoop items es) := by
  induction items with
  | nil => intro es _; rfl
  | cons a rest ih =>
    intro es hall
    obtain ⟨c, value⟩ := a
    simp only [List.map_cons]
    unfold drDeLoop dvDeLoop
    cases hl : lookupE c.name es with
    | none =>
      have := hall (c, value) (List.mem_cons_self ..)
      simp [hl] at this
    | some e =>
      simp only []
      by_cases hv : e.visited = true
      · simp [hv, mapErr, rowErrOf]
      · simp only [hv, Bool.false_eq_true, if_false]
        cases hd : deValD e.f value with
        | none => simp [mapErr, rowErrOf]
        | some v =>
          simp only []
          apply ih
          intro it hit
          rw [lookupE_setV]
          split
          · rename_i h; rw [h, hl]; rfl
          · exact hall it (List.mem_cons_of_mem _ hit)

theorem drFinalize_eq (es : List Entry) (fields : List Field) (h : ∀ f ∈ fields, f.allowMissing = false) :
    drFinalize es fields = dvFinalize es fields := by
  induction fields with
  | nil => rfl
  | cons f fs ih =>
    unfold drFinalize dvFinalize
    rw [ih (fun g hg => h g (List.mem_cons_of_mem _ hg))]
    have ha := h f (List.mem_cons_self ..)
    simp [ha]

theorem rowItems_eq (db : List Col) : ∀ (cells : List Cell), db.length ≤ cells.length →
    rowItems db cells = (udtItems db cells).map (fun it => (it.1, some it.2)) := by
  induction db with
  | nil => intro cells _; rfl
  | cons c cs ih =>
    intro cells h
    cases cells with
    | nil => simp at h
    | cons x xs =>
      simp only [rowItems, udtItems, List.map_cons]
      rw [ih xs (by simpa using h)]

/-- `dvFinalize` succeeds only if every non-skipped field has an entry -/
theorem dvFinalize_ok_lookup (es : List Entry) (fields : List Field) (vs : List Val)
    (h : dvFinalize es fields = .ok vs) : ∀ f ∈ fields, f.skip = false → (lookupE f.col es).isSome = true := by
  induction fields generalizing vs with
  | nil => intro f hf; cases hf
  | cons g gs ih =>
    intro f hf hs
    unfold dvFinalize at h
    simp only [] at h
    split at h
    · cases h
    · rename_i v hhead
      split at h
      · cases h
      · rename_i vs' hr
        rcases List.mem_cons.mp hf with rfl | hin
        · simp only [hs, Bool.false_eq_true, if_false] at hhead
          cases hl : lookupE f.col es with
          | some e => rfl
          | none => simp [hl] at hhead
        · exact ih vs' hr f hin hs

/-! ### exact length of `emit`: nulls in the middle, nothing after the last bound column -/

theorem specCell_unbound {look : String → Option (Field × Val)} {c : Col} (h : (look c.name).isSome = false) :
    specCell look c = none := by
  unfold specCell
  cases hl : look c.name with
  | none => rfl
  | some p => simp [hl] at h

theorem emit_exact (look : String → Option (Field × Val)) (db : List Col) : ∀ (pend : Nat),
    ∃ k, k ≤ db.length ∧
      emit look db pend = (if k = 0 then [] else List.replicate pend none ++ (db.take k).map (specCell look)) ∧
      (∀ (i : Nat) (c : Col), k ≤ i → db[i]? = some c → (look c.name).isSome = false) ∧
      (k = 0 ∨ ∃ c, db[k - 1]? = some c ∧ (look c.name).isSome = true) := by
  induction db with
  | nil => intro pend; exact ⟨0, Nat.le_refl _, by simp [emit], by intro i c _ h; simp at h, Or.inl rfl⟩
  | cons a cs ih =>
    intro pend
    unfold emit
    by_cases hm : (look a.name).isSome = true
    · obtain ⟨k, hk, he, htail, hlast⟩ := ih 0
      refine ⟨k + 1, by simp; omega, ?_, ?_, ?_⟩
      · simp only [hm, if_true, he, Nat.add_eq_zero_iff, Nat.succ_ne_zero, and_false, if_false, List.take_succ_cons,
          List.map_cons]
        by_cases hk0 : k = 0 <;> simp [hk0]
      · intro i c hi hc
        cases i with
        | zero => omega
        | succ i => exact htail i c (by omega) (by simpa using hc)
      · right
        rcases hlast with h0 | ⟨c, hc, hs⟩
        · subst h0; exact ⟨a, by simp, hm⟩
        · refine ⟨c, ?_, hs⟩
          have : k + 1 - 1 = (k - 1) + 1 := by
            cases k with
            | zero => have := htail 0 c (Nat.le_refl _) hc; rw [hs] at this; cases this
            | succ k => simp
          rw [this, List.getElem?_cons_succ]; exact hc
    · simp only [Bool.not_eq_true] at hm
      obtain ⟨k, hk, he, htail, hlast⟩ := ih (pend + 1)
      by_cases hk0 : k = 0
      · subst hk0
        refine ⟨0, Nat.zero_le _, by simp [hm, he], ?_, Or.inl rfl⟩
        intro i c _ hc
        cases i with
        | zero => simp at hc; subst hc; exact hm
        | succ i => exact htail i c (Nat.zero_le _) (by simpa using hc)
      · refine ⟨k + 1, by simp; omega, ?_, ?_, ?_⟩
        · simp only [hm, Bool.false_eq_true, if_false, he, hk0, Nat.add_eq_zero_iff, Nat.succ_ne_zero, and_false,
            List.take_succ_cons, List.map_cons, specCell_unbound hm]
          rw [List.replicate_succ', List.append_assoc]
          rfl
        · intro i c hi hc
          cases i with
          | zero => omega
          | succ i => exact htail i c (by omega) (by simpa using hc)
        · right
          rcases hlast with h0 | ⟨c, hc, hs⟩
          · exact absurd h0 hk0
          · refine ⟨c, ?_, hs⟩
            have : k + 1 - 1 = (k - 1) + 1 := by omega
            rw [this, List.getElem?_cons_succ]; exact hc

/-! ### the by-name deserializers never reach a generated panic after the type check -/

theorem dvTcLoop_err (forbid : Bool) (db : List Col) : ∀ (es : List Entry) (rem : Nat) (x : Err),
    dvTcLoop forbid db es rem = .error x → x ≠ .panic := by
  induction db with
  | nil => intro es rem x h; cases h
  | cons c cs ih =>
    intro es rem x h
    unfold dvTcLoop at h
    split at h
    · split at h
      · cases h; simp
      · split at h
        · cases h; simp
        · exact ih _ _ x h
    · split at h
      · cases h; simp
      · exact ih _ _ x h

theorem dvDeLoop_cols (items : List (Col × Cell)) : ∀ es es', dvDeLoop items es = .ok es' →
    es'.map (fun e => e.f) = es.map (fun e => e.f) := by
  induction items with
  | nil => intro es es' h; simp [dvDeLoop] at h; rw [h]
  | cons a rest ih =>
    intro es es' h
    obtain ⟨c, value⟩ := a
    unfold dvDeLoop at h
    split at h
    · split at h
      · cases h
      · split at h
        · cases h
        · rw [ih _ es' h]; exact updE_cols c.name _ (by intro e; rfl) es
    · exact ih es es' h

/-- with no bound column listed twice and all bound slots empty, the loop can only fail on a cell -/
theorem dvDeLoop_err (items : List (Col × Cell)) : ∀ es x,
    ((items.filter (fun it => (lookupE it.1.name es).isSome)).map (fun it => it.1.name)).Nodup →
    (∀ it ∈ items, ∀ e, lookupE it.1.name es = some e → e.visited = false) →
    dvDeLoop items es = .error x → x = .dvFieldDeserFailed := by
  induction items with
  | nil => intro es x _ _ h; cases h
  | cons a rest ih =>
    intro es x hnd hall h
    obtain ⟨c, value⟩ := a
    unfold dvDeLoop at h
    cases hl : lookupE c.name es with
    | none =>
      rw [hl] at h
      simp only [] at h
      apply ih es x _ (fun it hit => hall it (List.mem_cons_of_mem _ hit)) h
      rw [List.filter_cons] at hnd; simpa [hl] using hnd
    | some e0 =>
      rw [hl] at h
      simp only [] at h
      have hv := hall (c, value) (List.mem_cons_self ..) e0 hl
      simp only [hv, Bool.false_eq_true, if_false] at h
      cases hd : deValD e0.f value with
      | none => rw [hd] at h; cases h; rfl
      | some v =>
        rw [hd] at h
        simp only [] at h
        rw [List.filter_cons] at hnd
        simp only [hl, Option.isSome_some, if_true, List.map_cons, List.nodup_cons] at hnd
        have hstep : ∀ it ∈ rest, (lookupE it.1.name es).isSome = true → it.1.name ≠ c.name := by
          intro it hit hs heq
          apply hnd.1
          rw [← heq]
          exact List.mem_map.mpr ⟨it, List.mem_filter.mpr ⟨hit, hs⟩, rfl⟩
        apply ih _ x _ _ h
        · have : rest.filter (fun it => (lookupE it.1.name
              (updE c.name (fun e => { e with v := v, visited := true }) es)).isSome) =
              rest.filter (fun it => (lookupE it.1.name es).isSome) := by
            apply List.filter_congr
            intro it _
            rw [lookupE_setV]
            split
            · rename_i h'; rw [h', hl]; rfl
            · rfl
          rw [this]
          exact hnd.2
        · intro it hit e he
          rw [lookupE_setV] at he
          by_cases hn : it.1.name = c.name
          · exfalso
            exact hstep it hit (by rw [hn, hl]; rfl) hn
          · rw [if_neg hn] at he
            exact hall it (List.mem_cons_of_mem _ hit) e he

/-- the row loop: all columns bound, none twice, all slots empty ⇒ never `unreachable!` / `assert!` -/
theorem drDeLoop_err (items : List (Col × Option Cell)) : ∀ es x,
    (items.map (fun it => it.1.name)).Nodup →
    (∀ it ∈ items, ∃ e, lookupE it.1.name es = some e ∧ e.visited = false) →
    drDeLoop items es = .error x → x ≠ .panic := by
  induction items with
  | nil => intro es x _ _ h; cases h
  | cons a rest ih =>
    intro es x hnd hall h
    obtain ⟨c, value⟩ := a
    obtain ⟨e0, hl, hv⟩ := hall (c, value) (List.mem_cons_self ..)
    cases value with
    | none => unfold drDeLoop at h; cases h; simp
    | some value =>
      unfold drDeLoop at h
      rw [hl] at h
      simp only [hv, Bool.false_eq_true, if_false] at h
      cases hd : deValD e0.f value with
      | none => rw [hd] at h; cases h; simp
      | some v =>
        rw [hd] at h
        simp only [] at h
        simp only [List.map_cons, List.nodup_cons] at hnd
        apply ih _ x hnd.2 _ h
        intro it hit
        obtain ⟨e, he, hve⟩ := hall it (List.mem_cons_of_mem _ hit)
        have hn : it.1.name ≠ c.name := by
          intro heq
          exact hnd.1 (heq ▸ List.mem_map_of_mem (f := fun it => it.1.name) hit)
        exact ⟨e, by rw [lookupE_setV, if_neg hn]; exact he, hve⟩

end ScyllaVerif.Derive

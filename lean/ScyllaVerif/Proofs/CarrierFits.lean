import ScyllaVerif.Model.Carrier
/-
Helper lemmas for C17: the buffer-threading serializer `ser` succeeds only if the buffer-free, value-directed
condition `fits` holds, and when `fits` holds the only errors it can raise are size errors.
-/
namespace ScyllaVerif.Proofs.CarrierFits
open ScyllaVerif.Vint ScyllaVerif.Cql ScyllaVerif.Carrier

/-- `r` is the outcome of a serializer whose type / shape condition is `p`. -/
def Rel (r : Res) (p : Bool) : Prop :=
  (r.2 = none → p = true) ∧ (p = true → ∀ e, r.2 = some e → e.kind.isSize = true)

theorem rel_leaf_false (buf : Bytes) (k : SerKind) : Rel (serLeaf buf k) false :=
  ⟨by simp [serLeaf], by simp⟩

theorem rel_leaf_size (buf : Bytes) (k : SerKind) (hk : k.isSize = true) (p : Bool) (hp : p = true) :
    Rel (serLeaf buf k) p :=
  ⟨fun _ => hp, fun _ e he => by simp [serLeaf] at he; subst he; exact hk⟩

theorem rel_ok (b : Bytes) : Rel (b, none) true := ⟨fun _ => rfl, fun _ e he => by simp at he⟩

theorem rel_setValue (ws : Bool) (c buf : Bytes) : Rel (setValue ws c buf) true := by
  unfold setValue
  split
  · exact rel_leaf_size _ _ rfl _ rfl
  · split <;> exact rel_ok _

theorem rel_wrap (st : Step) (r : Res) (p : Bool) (h : Rel r p) : Rel (wrap st r) p := by
  obtain ⟨b, e⟩ := r
  cases e with
  | none => exact h
  | some e =>
    refine ⟨by simp [wrap], fun hp e' he' => ?_⟩
    simp only [wrap, Option.some.injEq] at he'
    subst he'
    exact h.2 hp e rfl

theorem rel_foldSer {α : Type} (f : α → Bytes → Res) (p : α → Bool) (vs : List α)
    (h : ∀ v, v ∈ vs → ∀ b, Rel (f v b) (p v)) : ∀ b, Rel (foldSer f vs b) (allB p vs) := by
  induction vs with
  | nil => intro b; exact rel_ok b
  | cons v vs ih =>
    intro b
    have hv := h v (by simp) b
    unfold foldSer allB
    generalize f v b = r at hv
    obtain ⟨b1, e⟩ := r
    cases e with
    | some e =>
      refine ⟨by simp, fun hp e' he' => ?_⟩
      simp only [Option.some.injEq] at he'
      subst he'
      exact hv.2 (by simp_all) e rfl
    | none =>
      have hpv : p v = true := hv.1 rfl
      simp only [hpv, Bool.true_and]
      exact ih (fun w hw => h w (by simp [hw])) b1

theorem rel_framed (ws : Bool) (buf : Bytes) (inner : Bytes → Res) (p : Bool)
    (h : ∀ b, Rel (inner b) p) : Rel (framed ws buf inner) p := by
  unfold framed
  have hi := h (builderNew ws buf)
  generalize inner (builderNew ws buf) = r at hi
  obtain ⟨b, e⟩ := r
  cases e with
  | some e => exact hi
  | none =>
    have hp : p = true := hi.1 rfl
    subst hp
    unfold builderFinish
    cases ws with
    | false => exact rel_ok _
    | true =>
      simp only [if_true]
      split
      · exact rel_leaf_size _ _ rfl _ rfl
      · exact rel_ok _

theorem rel_seqBody (n : Nat) (loop : Bytes → Res) (p : Bool) (h : ∀ b, Rel (loop b) p) (b0 : Bytes) :
    Rel (seqBody n loop b0) p := by
  unfold seqBody
  split
  · refine ⟨by simp [serLeaf], fun _ e he => ?_⟩
    simp [serLeaf] at he; subst he; rfl
  · exact h _

theorem rel_varElem (f : RVal → Bytes → Res) (v : RVal) (b : Bytes) (p : Bool) (h : Rel (f v []) p) :
    Rel (varElem f v b) p := by
  unfold varElem
  generalize f v [] = r at h
  obtain ⟨eb, e⟩ := r
  cases e with
  | none => exact ⟨fun _ => h.1 rfl, fun _ e he => by simp at he⟩
  | some e =>
    refine ⟨by simp, fun hp e' he' => ?_⟩
    simp only [Option.some.injEq] at he'
    subst he'
    exact h.2 hp e rfl

theorem rel_pairSer (fk fv : RVal → Bytes → Res) (kv : RVal × RVal) (pk pv : Bool)
    (hk : ∀ b, Rel (fk kv.1 b) pk) (hv : ∀ b, Rel (fv kv.2 b) pv) (b : Bytes) :
    Rel (pairSer fk fv kv b) (pk && pv) := by
  unfold pairSer
  have h1 := rel_wrap .key _ _ (hk b)
  generalize wrap Step.key (fk kv.1 b) = r at h1
  obtain ⟨b1, e⟩ := r
  cases e with
  | some e =>
    refine ⟨by simp, fun hp e' he' => ?_⟩
    simp only [Option.some.injEq] at he'
    subst he'
    exact h1.2 (by simp_all) e rfl
  | none =>
    have : pk = true := h1.1 rfl
    subst this
    simpa using rel_wrap .val _ _ (hv b1)

theorem rel_serScalar (s : Scalar) (body : Bytes) (t : CqlTy) (ws : Bool) (buf : Bytes) :
    Rel (serScalar s body t ws buf) (match t with
      | .native n => s.serNatives.contains n
      | _ => false) := by
  cases t with
  | native n =>
    simp only [serScalar]
    by_cases hc : s.serNatives.contains n = true
    · rw [if_pos hc, hc]
      split
      · exact rel_framed ws buf _ true (fun b => rel_ok _)
      · exact rel_setValue ws body buf
    · rw [if_neg hc]
      have : s.serNatives.contains n = false := by simpa using hc
      rw [this]
      exact rel_leaf_false _ _
  | _ => exact rel_leaf_false _ _

/-- `if c then leaf else r` against `!c && p`. -/
theorem rel_guard (c : Prop) [Decidable c] (buf : Bytes) (k : SerKind) (r : Res) (p : Bool) (h : ¬ c → Rel r p) :
    Rel (if c then serLeaf buf k else r) (decide (¬ c) && p) := by
  by_cases hc : c
  · simp only [hc, if_true, not_true_eq_false, decide_false, Bool.false_and]
    exact rel_leaf_false _ _
  · simp only [hc, if_false, not_false_eq_true, decide_true, Bool.true_and]
    exact h hc

theorem rel_empty_guard (chk se : Bool) (buf : Bytes) (r : Res) (p : Bool) (h : Rel r p) :
    Rel (if (chk && !se) = true then serLeaf buf .notEmptyable else r) ((!chk || se) && p) := by
  cases chk <;> cases se <;> simp <;> first | exact h | exact rel_leaf_false _ _

-- Opens `ser t x ws buf` / `fits t x` at a concrete type constructor and closes the views that do not recurse.
set_option hygiene false in
macro "open_rel" : tactic => `(tactic| (
  intro x ws buf
  rw [ser, fits]
  generalize strip x = sc
  obtain ⟨chk, core⟩ := sc
  simp only []
  apply rel_empty_guard
  cases core <;> simp only [] <;>
    first
    | exact rel_ok _
    | exact rel_setValue ws [] buf
    | exact rel_serScalar _ _ _ ws buf
    | exact rel_leaf_false _ _
    | skip))

mutual
theorem ser_rel : ∀ (t : CqlTy) (x : RVal) (ws : Bool) (buf : Bytes), Rel (ser t x ws buf) (fits t x)
  | .native n => by
    open_rel
  | .list elt => by
    open_rel
    all_goals
      exact rel_framed _ _ _ _ (fun b => rel_seqBody _ _ _
        (rel_foldSer _ _ _ (fun v _ b => rel_wrap _ _ _ (ser_rel elt v true b))) b)
  | .set elt => by
    open_rel
    all_goals
      exact rel_framed _ _ _ _ (fun b => rel_seqBody _ _ _
        (rel_foldSer _ _ _ (fun v _ b => rel_wrap _ _ _ (ser_rel elt v true b))) b)
  | .vector elt dim => by
    open_rel
    rename_i vs
    by_cases hd : vs.length = dim
    · simp only [hd, ne_eq, not_true_eq_false, if_false, decide_true, Bool.true_and]
      split
      · exact rel_framed _ _ _ _ (rel_foldSer _ _ _ (fun v _ b => rel_wrap _ _ _ (ser_rel elt v false b)))
      · exact rel_framed _ _ _ _ (rel_foldSer _ _ _ (fun v _ b => rel_varElem _ v b _ (ser_rel elt v false [])))
    · simp only [hd, ne_eq, not_false_eq_true, if_true, decide_false, Bool.false_and]
      exact rel_leaf_false _ _
  | .map kt vt => by
    open_rel
    exact rel_framed _ _ _ _ (fun b => rel_seqBody _ _ _
      (rel_foldSer _ (fun kv => fits kt kv.1 && fits vt kv.2) _ (fun kv _ b =>
        rel_pairSer _ _ kv _ _ (fun b => ser_rel kt kv.1 true b) (fun b => ser_rel vt kv.2 true b) b)) b)
  | .tuple ts => by
    open_rel
    rename_i fs
    by_cases hl : ts.length < fs.length
    · have : ¬ fs.length ≤ ts.length := by omega
      simp only [hl, if_true, this, decide_false, Bool.false_and]
      exact rel_leaf_false _ _
    · have : fs.length ≤ ts.length := by omega
      simp only [hl, if_false, this, decide_true, Bool.true_and]
      exact rel_framed _ _ _ _ (fun b => serTuple_rel ts fs 0 b)
  | .udt ks name fields => by
    open_rel
    rename_i vks vname fs
    by_cases hn : vks = ks ∧ vname = name
    · obtain ⟨h1, h2⟩ := hn
      subst h1 h2
      simp only [ne_eq, not_true_eq_false, Bool.or_self, decide_false, Bool.false_eq_true, if_false,
        decide_true, Bool.true_and]
      exact rel_framed _ _ _ _ (fun b => serUdt_rel fields fs b)
    · have h1 : (decide (vks ≠ ks) || decide (vname ≠ name)) = true := by
        simp only [ne_eq, Bool.or_eq_true, decide_eq_true_eq]
        by_cases h : vks = ks
        · right; intro h2; exact hn ⟨h, h2⟩
        · left; exact h
      have h2 : (decide (vks = ks) && decide (vname = name)) = false := by
        simp only [Bool.and_eq_false_iff, decide_eq_false_iff_not]
        by_cases h : vks = ks
        · right; intro h2; exact hn ⟨h, h2⟩
        · left; exact h
      simp only [h1, if_true, h2, Bool.false_and]
      exact rel_leaf_false _ _
theorem serTuple_rel : ∀ (ts : List CqlTy) (fs : List RVal) (i : Nat) (buf : Bytes),
    Rel (serTuple ts fs i buf) (fitsTuple ts fs)
  | [], fs, i, buf => by simp only [serTuple, fitsTuple]; exact rel_ok _
  | t :: ts, [], i, buf => by simp only [serTuple, fitsTuple]; exact rel_ok _
  | t :: ts, f :: fs, i, buf => by
    rw [serTuple, fitsTuple]
    have h1 := rel_wrap (.field i) _ _ (ser_rel t f true buf)
    generalize wrap (Step.field i) (ser t f true buf) = r at h1
    obtain ⟨b1, e⟩ := r
    cases e with
    | some e =>
      refine ⟨by simp, fun hp e' he' => ?_⟩
      simp only [Option.some.injEq] at he'
      subst he'
      exact h1.2 (by simp_all) e rfl
    | none =>
      have : fits t f = true := h1.1 rfl
      simp only [this, Bool.true_and]
      exact serTuple_rel ts fs (i + 1) b1
theorem serUdt_rel : ∀ (fields : List (String × CqlTy)) (m : List (String × RVal)) (buf : Bytes),
    Rel (serUdt fields m buf) (fitsUdt fields m)
  | [], m, buf => by
    rw [serUdt, fitsUdt]
    split
    · rename_i h; rw [h]; exact rel_ok _
    · rename_i h
      have : m.isEmpty = false := by simpa using h
      rw [this]; exact rel_leaf_false _ _
  | (n, t) :: rest, m, buf => by
    rw [serUdt, fitsUdt]
    split
    · exact serUdt_rel rest m _
    · rename_i v _
      have h1 := rel_wrap (.udtField n) _ _ (ser_rel t v true buf)
      generalize wrap (Step.udtField n) (ser t v true buf) = r at h1
      obtain ⟨b1, e⟩ := r
      cases e with
      | some e =>
        refine ⟨by simp, fun hp e' he' => ?_⟩
        simp only [Option.some.injEq] at he'
        subst he'
        exact h1.2 (by simp_all) e rfl
      | none =>
        have : fits t v = true := h1.1 rfl
        simp only [this, Bool.true_and]
        exact serUdt_rel rest (removeName n m) b1
end

end ScyllaVerif.Proofs.CarrierFits
